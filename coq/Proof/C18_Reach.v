(* C18 — which node keys a tier tree refers to (tkeys), and how one batch update changes that set:
   every node of the new tree other than its root is either logged as new (put_node, new version)
   or is a node of the old tree that the update did not report stale; every stale node is a node of
   the old tree; the old root is always stale. *)
From Coq Require Import List NArith Bool Lia Arith.
Import ListNotations.
Require Import RV.Model.C17_Jmt RV.Model.C18_Store RV.Proof.C17_Base RV.Proof.C17_Lists
               RV.Proof.C17_Update RV.Proof.C17_Tier RV.Proof.C17_Root RV.Proof.C18_Store.
Open Scope N_scope.

Lemma app_cons_inj : forall (p : list N) n r m r', p ++ n :: r = p ++ m :: r' -> n = m.
Proof. intros p n r m r' E. apply app_inv_head in E. congruence. Qed.
Lemma app_not_self : forall (p : list N) n r, p ++ n :: r <> p.
Proof. intros p n r E. apply (f_equal (@length N)) in E. rewrite app_length in E. cbn in E. lia. Qed.

Section REACH.
  Variable H : list N -> list N.
  Variable A : Type.
  Notation nodeA := (node A).
  Notation child := (child_of (node A)).
  Notation lhT := (list N -> list N -> list N).
  Notation kv := (kv A).

  (* keys of the nodes of the tree whose root is stored under (ver, path) *)
  Fixpoint tkeys (fuel : nat) (path : list N) (ver : N) (t : nodeA) : list skey :=
    (ver, path) ::
    match t with
    | Internal cs =>
      match fuel with
      | O => []
      | S f => flat_map (fun c => tkeys f (path ++ [c_nib c]) (c_ver c) (c_sub c)) cs
      end
    | _ => []
    end.

  Definition below (path : list N) (k : skey) : Prop := exists n r, snd k = path ++ n :: r.
  Definition new_keys (ver : N) (lg : log A) : list skey := map (fun pn => (ver, fst pn)) (l_new lg).

  Lemma tkeys_cons : forall fuel path ver t, exists r, tkeys fuel path ver t = (ver, path) :: r.
  Proof. intros. destruct fuel; destruct t; cbn; eauto. Qed.
  Lemma tkeys_root_in : forall fuel path ver t, In (ver, path) (tkeys fuel path ver t).
  Proof. intros. destruct (tkeys_cons fuel path ver t) as [r E]. rewrite E. left. reflexivity. Qed.

  Lemma tkeys_tl_below : forall fuel path ver t k, In k (tl (tkeys fuel path ver t)) -> below path k.
  Proof.
    induction fuel as [|f IH]; intros path ver t k Hin; destruct t as [|s vh p a|cs]; cbn in Hin; try contradiction.
    apply in_flat_map in Hin. destruct Hin as (c & Hc & Hin).
    destruct (tkeys_cons f (path ++ [c_nib c]) (c_ver c) (c_sub c)) as [r E]. rewrite E in Hin. destruct Hin as [Ek|Hin].
    - subst k. exists (c_nib c), []. reflexivity.
    - assert (Hin' : In k (tl (tkeys f (path ++ [c_nib c]) (c_ver c) (c_sub c)))) by (rewrite E; exact Hin).
      destruct (IH _ _ _ _ Hin') as (n & r' & Er). exists (c_nib c), (n :: r'). rewrite Er, <- app_assoc. reflexivity.
  Qed.
  Lemma tkeys_at_or_below : forall fuel path ver t k, In k (tkeys fuel path ver t) -> snd k = path \/ below path k.
  Proof.
    intros fuel path ver t k Hin. destruct (tkeys_cons fuel path ver t) as [r E]. rewrite E in Hin.
    destruct Hin as [Ek|Hin]; [subst; left; reflexivity|right].
    apply (tkeys_tl_below fuel path ver t). rewrite E. exact Hin.
  Qed.
  Lemma tkeys_child_in : forall f path ver cs c k, In c cs ->
    In k (tkeys f (path ++ [c_nib c]) (c_ver c) (c_sub c)) -> In k (tl (tkeys (S f) path ver (Internal cs))).
  Proof. intros. cbn. apply in_flat_map. exists c. split; assumption. Qed.
  Lemma tkeys_leaf_tl : forall fuel path ver t, is_leaf A t = true -> tl (tkeys fuel path ver t) = [].
  Proof. intros fuel path ver t L. destruct t; try discriminate. destruct fuel; reflexivity. Qed.
  Lemma lift_is_leaf : forall n t, is_leaf A t = true -> is_leaf A (lift A n t) = true.
  Proof. intros n t L. destruct t; try discriminate. reflexivity. Qed.

  Lemma l_new_lapp : forall a b : log A, l_new (lapp A a b) = l_new a ++ l_new b.
  Proof. reflexivity. Qed.
  Lemma l_stale_lapp : forall a b : log A, l_stale (lapp A a b) = l_stale a ++ l_stale b.
  Proof. reflexivity. Qed.

  (* ---------- logs of run_groups ---------- *)
  Lemma run_groups_fst : forall fn gs rs lg, run_groups A fn gs = Ok (rs, lg) -> map fst rs = map fst gs.
  Proof.
    intros fn gs. induction gs as [|[n g] gs IH]; intros rs lg E; cbn [run_groups] in E.
    - inversion E. reflexivity.
    - destruct (fn n g) as [[r lgn]| |]; try discriminate.
      destruct (run_groups A fn gs) as [[rs' lg']| |] eqn:Er; try discriminate. inversion E; subst. cbn. f_equal. apply (IH _ _ eq_refl).
  Qed.

  Lemma run_groups_logs : forall fn gs rs lg, run_groups A fn gs = Ok (rs, lg) ->
    (forall x, In x (l_stale lg) -> exists n g r lgn, In (n, g) gs /\ fn n g = Ok (r, lgn) /\ In x (l_stale lgn)) /\
    (forall x, In x (l_new lg) -> exists n g r lgn, In (n, g) gs /\ fn n g = Ok (r, lgn) /\ In x (l_new lgn)) /\
    (forall n r, In (n, r) rs -> exists g lgn, In (n, g) gs /\ fn n g = Ok (r, lgn) /\
        (forall x, In x (l_new lgn) -> In x (l_new lg)) /\ (forall x, In x (l_stale lgn) -> In x (l_stale lg))).
  Proof.
    intros fn gs. induction gs as [|[n g] gs IH]; intros rs lg E; cbn [run_groups] in E.
    - inversion E; subst. cbn. repeat split; intros; contradiction.
    - destruct (fn n g) as [[r lgn]| |] eqn:En; try discriminate.
      destruct (run_groups A fn gs) as [[rs' lg']| |] eqn:Er; try discriminate. inversion E; subst. clear E.
      destruct (IH rs' lg' eq_refl) as (I1 & I2 & I3). cbn [lapp l_new l_stale]. split; [|split].
      + intros x Hx. apply in_app_or in Hx. destruct Hx as [Hx|Hx].
        * exists n, g, r, lgn. split; [left; reflexivity|]. split; assumption.
        * destruct (I1 x Hx) as (n' & g' & r' & l' & Hg & Ef & Hl). exists n', g', r', l'. split; [right; exact Hg|]. split; assumption.
      + intros x Hx. apply in_app_or in Hx. destruct Hx as [Hx|Hx].
        * exists n, g, r, lgn. split; [left; reflexivity|]. split; assumption.
        * destruct (I2 x Hx) as (n' & g' & r' & l' & Hg & Ef & Hl). exists n', g', r', l'. split; [right; exact Hg|]. split; assumption.
      + intros n0 r0 [E0|Hin].
        * inversion E0; subst. exists g, lgn. split; [left; reflexivity|]. split; [exact En|].
          split; intros x Hx; apply in_or_app; left; exact Hx.
        * destruct (I3 n0 r0 Hin) as (g' & l' & Hg & Ef & N1 & N2). exists g', l'. split; [right; exact Hg|]. split; [exact Ef|].
          split; intros x Hx; apply in_or_app; right; [apply N1|apply N2]; exact Hx.
  Qed.

  (* ---------- finish_children ---------- *)
  Lemma fold_insert_in : forall lh ver (children : list (N * nodeA)) c,
    In c (fold_right (fun nt acc => cs_insert A (mk_child H A lh ver nt) acc) [] children) ->
    exists n t, In (n, t) children /\ c = mk_child H A lh ver (n, t).
  Proof.
    intros lh ver children. induction children as [|[n t] r IH]; intros c Hin; cbn [fold_right] in Hin; [contradiction|].
    apply cs_insert_in in Hin. destruct Hin as [E|Hin].
    - exists n, t. split; [left; reflexivity|exact E].
    - destruct (IH c Hin) as (n' & t' & H1 & H2). exists n', t'. split; [right; exact H1|exact H2].
  Qed.

  Lemma fold_log_new : forall (path : list N) (l : list (N * nodeA)),
    l_new (fold_right (fun nt acc => lapp A (log_new A (path ++ [fst nt]) (snd nt)) acc) nolog l) =
      map (fun nt => (path ++ [fst nt], snd nt)) l /\
    l_stale (fold_right (fun nt acc => lapp A (log_new A (path ++ [fst nt]) (snd nt)) acc) nolog l) = [].
  Proof.
    intros path l. induction l as [|x l [I1 I2]]; [split; reflexivity|].
    cbn [fold_right lapp l_new l_stale map log_new app]. rewrite I1, I2. split; reflexivity.
  Qed.

  Lemma finish_keys : forall f lh path ver children r lg,
    finish_children H A lh path ver children = (r, lg) ->
    l_stale lg = [] /\
    (forall x, In x (l_new lg) -> exists n t, In (n, t) children /\ x = (path ++ [n], t)) /\
    (forall t, r = Some t -> forall k, In k (tl (tkeys (S f) path ver t)) ->
       exists n t', In (n, t') children /\ In (path ++ [n], t') (l_new lg) /\ In k (tkeys f (path ++ [n]) ver t')).
  Proof.
    intros f lh path ver children r lg E.
    assert (Gen : forall cs', cs' = fold_right (fun nt acc => cs_insert A (mk_child H A lh ver nt) acc) [] children ->
              forall lg', l_new lg' = map (fun nt => (path ++ [fst nt], snd nt)) children -> l_stale lg' = [] ->
              l_stale lg' = [] /\
              (forall x, In x (l_new lg') -> exists n t, In (n, t) children /\ x = (path ++ [n], t)) /\
              (forall t, Some (Internal cs') = Some t -> forall k, In k (tl (tkeys (S f) path ver t)) ->
                 exists n t', In (n, t') children /\ In (path ++ [n], t') (l_new lg') /\ In k (tkeys f (path ++ [n]) ver t'))).
    { intros cs' Ecs lg' En Es. split; [exact Es|]. split.
      - intros x Hx. rewrite En in Hx. apply in_map_iff in Hx. destruct Hx as ([n t] & Ex & Hx). exists n, t. split; [exact Hx|symmetry; exact Ex].
      - intros t Et k Hk. inversion Et; subst t. cbn in Hk. apply in_flat_map in Hk. destruct Hk as (c & Hc & Hk).
        rewrite Ecs in Hc. destruct (fold_insert_in lh ver children c Hc) as (n & t' & Hnt & Ec). subst c. cbn in Hk.
        exists n, t'. split; [exact Hnt|]. split; [|exact Hk]. rewrite En. apply in_map_iff. exists (n, t'). split; [reflexivity|exact Hnt]. }
    destruct children as [|[n t] [|[n2 t2] rest]]; cbn [finish_children] in E.
    - inversion E; subst. cbn. repeat split; try (intros; contradiction). intros t Et. discriminate.
    - destruct (is_leaf A t) eqn:L.
      + inversion E; subst. cbn [nolog l_new l_stale]. repeat split; try (intros; contradiction).
        intros t0 Et k Hk. inversion Et; subst t0. rewrite tkeys_leaf_tl in Hk by (apply lift_is_leaf; exact L). contradiction.
      + inversion E; subst. apply Gen; reflexivity.
    - inversion E; subst. apply Gen; [reflexivity| |].
      + apply (proj1 (fold_log_new path ((n, t) :: (n2, t2) :: rest))).
      + apply (proj2 (fold_log_new path ((n, t) :: (n2, t2) :: rest))).
  Qed.

  Definition keys_post_fresh (fuel : nat) (path : list N) (ver : N) (r : option nodeA) (lg : log A) : Prop :=
    l_stale lg = [] /\
    (forall k, In k (new_keys ver lg) -> below path k) /\
    (forall t, r = Some t -> forall k, In k (tl (tkeys fuel path ver t)) -> In k (new_keys ver lg)).

  Lemma below_down : forall path n k, below (path ++ [n]) k -> below path k.
  Proof. intros path n k (m & r & E). exists n, (m :: r). rewrite E, <- app_assoc. reflexivity. Qed.
  Lemma at_or_below_down : forall path n k, snd k = path ++ [n] \/ below (path ++ [n]) k -> below path k.
  Proof. intros path n k [E|B]; [exists n, []; exact E|apply (below_down path n); exact B]. Qed.

  (* a subtree built by batch_update_subtree: every node but its root is logged as new *)
  Lemma fresh_combine : forall f lh path ver gs rs lg1 fn,
    run_groups A fn gs = Ok (rs, lg1) ->
    (forall n g r lgn, In (n, g) gs -> fn n g = Ok (r, lgn) -> keys_post_fresh f (path ++ [n]) ver r lgn) ->
    forall extra r lg2,
    (forall n t, In (n, t) extra -> is_leaf A t = true) ->
    finish_children H A lh path ver (somes A rs ++ extra) = (r, lg2) ->
    keys_post_fresh (S f) path ver r (lapp A lg1 lg2).
  Proof.
    intros f lh path ver gs rs lg1 fn E Hg extra r lg2 Hex EF.
    destruct (run_groups_logs fn gs rs lg1 E) as (L1 & L2 & L3).
    destruct (finish_keys f lh path ver _ r lg2 EF) as (F1 & F2 & F3).
    split; [|split].
    - rewrite l_stale_lapp, F1, app_nil_r.
      assert (Hno : forall x, ~ In x (l_stale lg1)).
      { intros x Hx0. destruct (L1 x Hx0) as (n & g & r0 & lgn & Hin & Ef & Hx).
        destruct (Hg n g r0 lgn Hin Ef) as (S0 & _). rewrite S0 in Hx. contradiction. }
      destruct (l_stale lg1) as [|x l]; [reflexivity|]. exfalso. apply (Hno x). left. reflexivity.
    - intros k Hk. unfold new_keys in Hk. rewrite l_new_lapp, map_app in Hk. apply in_app_or in Hk. destruct Hk as [Hk|Hk].
      + apply in_map_iff in Hk. destruct Hk as (x & Ek & Hx). destruct (L2 x Hx) as (n & g & r0 & lgn & Hin & Ef & Hx').
        destruct (Hg n g r0 lgn Hin Ef) as (_ & B & _). apply (below_down path n). apply B. unfold new_keys. apply in_map_iff. exists x. split; assumption.
      + apply in_map_iff in Hk. destruct Hk as (x & Ek & Hx). destruct (F2 x Hx) as (n & t & _ & Ex). subst x k. exists n, []. reflexivity.
    - intros t Et k Hk. destruct (F3 t Et k Hk) as (n & t' & Hnt & Hlog & Hk').
      unfold new_keys. rewrite l_new_lapp, map_app. apply in_or_app.
      destruct (tkeys_cons f (path ++ [n]) ver t') as [rr Err]. rewrite Err in Hk'. destruct Hk' as [Ek|Hk'].
      + right. apply in_map_iff. exists (path ++ [n], t'). split; [exact Ek|exact Hlog].
      + apply in_app_or in Hnt. destruct Hnt as [Hnt|Hnt].
        * left. apply somes_in in Hnt. destruct (L3 n (Some t') Hnt) as (g & lgn & Hin & Ef & N1 & _).
          destruct (Hg n g (Some t') lgn Hin Ef) as (_ & _ & P). specialize (P t' eq_refl k).
          rewrite Err in P. specialize (P Hk'). unfold new_keys in P. apply in_map_iff in P. destruct P as (x & Ex & Hx).
          apply in_map_iff. exists x. split; [exact Ex|apply N1; exact Hx].
        * exfalso. specialize (Hex n t' Hnt). pose proof (tkeys_leaf_tl f (path ++ [n]) ver t' Hex) as TL. rewrite Err in TL. cbn in TL. subst rr. contradiction.
  Qed.

  Lemma keys_post_fresh_leafish : forall fuel path ver (r : option nodeA),
    (forall t, r = Some t -> is_leaf A t = true) -> keys_post_fresh fuel path ver r nolog.
  Proof.
    intros fuel path ver r Hl. split; [reflexivity|]. split; [intros k []|].
    intros t Et k Hk. rewrite tkeys_leaf_tl in Hk by (apply Hl; exact Et). contradiction.
  Qed.

  Lemma bus_keys : forall fuel lh path ver kvs r lg,
    bus H A fuel lh path ver kvs = Ok (r, lg) -> keys_post_fresh fuel path ver r lg.
  Proof.
    induction fuel as [|f IH]; intros lh path ver kvs r lg E.
    - destruct kvs as [|[k u] [|y rest]]; cbn [bus] in E; try discriminate.
      destruct u as [[[vh p] a]|]; inversion E; subst; apply keys_post_fresh_leafish; intros t Et; inversion Et; reflexivity.
    - assert (General : bus_body H A f lh path ver kvs = Ok (r, lg) -> keys_post_fresh (S f) path ver r lg).
      { unfold bus_body. intro EB. destruct (groups A kvs) as [gs|]; [|discriminate].
        destruct (run_groups A (fun n g => bus H A f (lh_down lh n) (path ++ [n]) ver g) gs) as [[rs lg1]| |] eqn:Er; try discriminate.
        destruct (finish_children H A lh path ver (somes A rs)) as [r' lg2] eqn:EF. inversion EB; subst.
        apply (fresh_combine f lh path ver gs rs lg1 _ Er) with (extra := []).
        - intros n g r0 lgn _ Ef. apply (IH _ _ _ _ _ _ Ef).
        - intros n t [].
        - rewrite app_nil_r. exact EF. }
      destruct kvs as [|[k u] [|y rest]].
      + apply General. exact E.
      + cbn [bus] in E. destruct u as [[[vh p] a]|]; inversion E; subst; apply keys_post_fresh_leafish; intros t Et; inversion Et; reflexivity.
      + apply General. exact E.
  Qed.

  Lemma buswel_keys : forall fuel lh path ver s vh p a kvs r lg,
    buswel H A fuel lh path ver s vh p a kvs = Ok (r, lg) -> keys_post_fresh fuel path ver r lg.
  Proof.
    induction fuel as [|f IH]; intros lh path ver s vh p a kvs r lg E.
    - destruct kvs as [|[k u] [|y rest]]; cbn [buswel] in E; try discriminate.
      destruct (leqb k s); [|discriminate].
      destruct u as [[[vh' p'] a']|]; inversion E; subst; apply keys_post_fresh_leafish; intros t Et; inversion Et; reflexivity.
    - rewrite buswel_unfold in E.
      assert (General : buswel_general H A f lh path ver s vh p a kvs = Ok (r, lg) -> keys_post_fresh (S f) path ver r lg).
      { unfold buswel_general. intro EB. destruct s as [|bucket s']; [discriminate|]. destruct (groups A kvs) as [gs|]; [|discriminate].
        destruct (run_groups A (fun n g => if n =? bucket then buswel H A f (lh_down lh n) (path ++ [n]) ver s' vh p a g
                                           else bus H A f (lh_down lh n) (path ++ [n]) ver g) gs) as [[rs lg1]| |] eqn:Er; try discriminate.
        cbv zeta in EB.
        destruct (finish_children H A lh path ver
                    (somes A rs ++ (if negb (existsb (fun ng => fst ng =? bucket) gs) then [(bucket, Leaf s' vh p a)] else []))) as [r' lg2] eqn:EF.
        inversion EB; subst.
        apply (fresh_combine f lh path ver gs rs lg1 _ Er) with (extra := if negb (existsb (fun ng => fst ng =? bucket) gs) then [(bucket, Leaf s' vh p a)] else []).
        - intros n g r0 lgn _ Ef. destruct (n =? bucket); [apply (IH _ _ _ _ _ _ _ _ _ _ Ef)|apply (bus_keys _ _ _ _ _ _ _ Ef)].
        - intros n t Hin. destruct (negb _); [|destruct Hin]. destruct Hin as [Ei|[]]. inversion Ei. reflexivity.
        - exact EF. }
      destruct kvs as [|[k u] [|y rest]].
      + apply General. exact E.
      + destruct (leqb k s); [|apply General; exact E].
        destruct u as [[[vh' p'] a']|]; inversion E; subst; apply keys_post_fresh_leafish; intros t Et; inversion Et; reflexivity.
      + apply General. exact E.
  Qed.

  (* ---------- batch_insert_at ---------- *)
  Definition keys_post (fuel : nat) (path : list N) (ver nver : N) (t : nodeA) (r : option nodeA) (lg : log A) : Prop :=
    (forall k, In k (l_stale lg) -> In k (tkeys fuel path nver t)) /\
    In (nver, path) (l_stale lg) /\
    (forall k, In k (new_keys ver lg) -> below path k) /\
    (forall t', r = Some t' -> forall k, In k (tl (tkeys fuel path ver t')) ->
       In k (new_keys ver lg) \/ (In k (tl (tkeys fuel path nver t)) /\ ~ In k (l_stale lg))).

  Lemma tl_incl : forall {X} (l : list X) x, In x (tl l) -> In x l.
  Proof. intros X [|y l] x Hx; [exact Hx|right; exact Hx]. Qed.

  Lemma final_in : forall lh ver (new : list (N * nodeA)) old c,
    In c (fold_left (fun acc nt => cs_insert A (mk_child H A lh ver nt) acc) new old) ->
    (exists n t, In (n, t) new /\ c = mk_child H A lh ver (n, t)) \/ In c old.
  Proof.
    intros lh ver new. induction new as [|[n t] r IH]; intros old c Hin; cbn [fold_left] in Hin; [right; exact Hin|].
    destruct (IH _ _ Hin) as [(n' & t' & H1 & H2)|Hc].
    - left. exists n', t'. split; [right; exact H1|exact H2].
    - apply cs_insert_in in Hc. destruct Hc as [E|Hc]; [left; exists n, t; split; [left; reflexivity|exact E]|right; exact Hc].
  Qed.
  Lemma old_in : forall (rs : list (N * option nodeA)) cs c, In c (fold_left (old_step A) rs cs) -> In c cs.
  Proof.
    induction rs as [|[a r] rs IH]; intros cs c Hin; cbn [fold_left] in Hin; [exact Hin|].
    apply IH in Hin. unfold old_step in Hin. cbn [snd fst] in Hin. destruct r; [exact Hin|]. apply filter_In in Hin. tauto.
  Qed.

  Lemma bia_keys : forall fuel lh path ver nver t kvs U r lg,
    good H A fuel lh t -> ksorted A kvs -> pfree U -> kvs_ok A U fuel kvs -> tree_ok A U fuel t ->
    (kvs = [] -> ~ U []) ->
    bia H A fuel lh path ver nver t kvs = Ok (r, lg) -> keys_post fuel path ver nver t r lg.
  Proof.
    induction fuel as [|f IH]; intros lh path ver nver t kvs U r lg G KS PF OK TO Hnil E.
    { destruct t as [|s vh p a|cs]; cbn [good] in G; try contradiction.
      destruct (TO s (vh, p, a)) as (_ & _ & L); [cbn; rewrite leqb_refl; reflexivity|lia]. }
    destruct t as [|s vh p a|cs]; [cbn [good] in G; contradiction| |].
    - (* existing leaf *)
      cbn [bia] in E. destruct (buswel H A (S f) lh path ver s vh p a kvs) as [[r0 lg0]| |] eqn:EB; try discriminate.
      inversion E; subst. destruct (buswel_keys _ _ _ _ _ _ _ _ _ _ _ EB) as (B1 & B2 & B3).
      split; [|split; [|split]].
      + intros k Hk. rewrite l_stale_lapp, B1, app_nil_r in Hk. destruct Hk as [Ek|[]]. subst k. left. reflexivity.
      + rewrite l_stale_lapp. left. reflexivity.
      + intros k Hk. unfold new_keys in Hk. rewrite l_new_lapp in Hk. cbn [log_stale l_new app] in Hk. apply B2. exact Hk.
      + intros t' Et k Hk. left. unfold new_keys. rewrite l_new_lapp. cbn [log_stale l_new app]. apply (B3 t' Et k Hk).
    - (* internal node *)
      pose proof G as G0. apply good_internal in G. destruct G as (G1 & G2 & G3).
      assert (NE : forall x, In x kvs -> fst x <> []).
      { intros x Hx E0. assert (U0 : U []) by (rewrite <- E0; apply OK; exact Hx).
        destruct (good_has_leaf H A (S f) lh (Internal cs) G0) as (k0 & d0 & E1).
        destruct (TO k0 d0 E1) as (Uk & _). assert (k0 = []) by (eapply pfree_nil; eassumption). subst k0.
        rewrite lookup_internal_nil in E1. discriminate. }
      destruct (groups_spec A kvs KS NE) as (gs & G0' & Gs1 & Gs2 & Gs3 & _).
      cbn [bia] in E. rewrite G0' in E.
      set (fn := fun n g => match cs_find A n cs with
                            | Some c => bia H A f (lh_down lh n) (path ++ [n]) ver (c_ver c) (c_sub c) g
                            | None => bus H A f (lh_down lh n) (path ++ [n]) ver g end) in E.
      destruct (run_groups A fn gs) as [[rs lg1]| |] eqn:Er; try discriminate.
      pose proof (run_groups_fst fn gs rs lg1 Er) as M.
      destruct (run_groups_logs fn gs rs lg1 Er) as (L1 & L2 & L3).
      assert (NDg : NoDup (map fst gs)) by (apply gsorted_nodup; exact Gs1).
      assert (NDr : NoDup (map fst rs)) by (rewrite M; exact NDg).
      (* per group *)
      assert (PG : forall n g r0 lgn, In (n, g) gs -> fn n g = Ok (r0, lgn) ->
                match cs_find A n cs with
                | Some c => keys_post f (path ++ [n]) ver (c_ver c) (c_sub c) r0 lgn
                | None => keys_post_fresh f (path ++ [n]) ver r0 lgn
                end).
      { intros n g r0 lgn Hin Ef. destruct (Gs2 n g Hin) as (Gn1 & Gn2 & Gn3).
        assert (OKg : kvs_ok A (fun k => U (n :: k)) f g).
        { intros y Hy. destruct (OK _ (Gn3 y Hy)) as (O1 & O2 & O3). cbn [fst] in *.
          split; [exact O1|]. split; [apply (kvalid_head n); exact O2|cbn in O3; lia]. }
        unfold fn in Ef. destruct (cs_find A n cs) as [c|] eqn:Ec.
        - destruct (cs_find_some A n cs c Ec) as [Hc Enib]. rewrite Forall_forall in G2.
          destruct (G2 c Hc) as (_ & C2 & _). rewrite Enib in C2.
          apply (IH (lh_down lh n) (path ++ [n]) ver (c_ver c) (c_sub c) g (fun k => U (n :: k)) r0 lgn C2 Gn2 (pfree_down U n PF) OKg); [| |exact Ef].
          + intros k d Ek. destruct (TO (n :: k) d) as (T1 & T2 & T3); [rewrite lookup_internal, Ec; exact Ek|].
            split; [exact T1|]. split; [apply (kvalid_head n); exact T2|cbn in T3; lia].
          + intro E0. subst g. contradiction.
        - apply (bus_keys _ _ _ _ _ _ _ Ef). }
      fold (old_step A) in E.
      destruct (old_spec H A f lh rs cs NDr G1 G2) as (O1 & O2 & O3).
      set (old := fold_left (old_step A) rs cs) in *.
      assert (Hch : forall n t, In (n, t) (somes A rs) -> n < 16 /\ good H A f (lh_down lh n) t).
      { intros n t Hin. apply somes_in in Hin. destruct (L3 n (Some t) Hin) as (g & lgn & Hg & Ef & _).
        destruct (Gs2 n g Hg) as (Gn1 & Gn2 & Gn3).
        assert (OKg : kvs_ok A (fun k => U (n :: k)) f g).
        { intros y Hy. destruct (OK _ (Gn3 y Hy)) as (Q1 & Q2 & Q3). cbn [fst] in *.
          split; [exact Q1|]. split; [apply (kvalid_head n); exact Q2|cbn in Q3; lia]. }
        assert (Hf' : (0 < f)%nat).
        { destruct g as [|y g']; [contradiction|]. destruct (OKg y (or_introl eq_refl)) as (_ & _ & L). lia. }
        split.
        - destruct g as [|y g']; [contradiction|]. destruct (OK _ (Gn3 y (or_introl eq_refl))) as (_ & V & _). apply kvalid_head in V. tauto.
        - unfold fn in Ef. destruct (cs_find A n cs) as [c|] eqn:Ec.
          + destruct (cs_find_some A n cs c Ec) as [Hc Enib]. rewrite Forall_forall in G2.
            destruct (G2 c Hc) as (_ & C2 & _). rewrite Enib in C2.
            destruct (bia_ok H A f (lh_down lh n) (path ++ [n]) ver (c_ver c) (c_sub c) g (fun k => U (n :: k)) C2 Gn2 (pfree_down U n PF) OKg)
              as (r1 & lg1' & E1 & R1 & _).
            * intros k d Ek. destruct (TO (n :: k) d) as (T1 & T2 & T3); [rewrite lookup_internal, Ec; exact Ek|].
              split; [exact T1|]. split; [apply (kvalid_head n); exact T2|cbn in T3; lia].
            * intro E0. subst g. contradiction.
            * rewrite E1 in Ef. inversion Ef; subst. exact R1.
          + destruct (bus_ok H A f (lh_down lh n) (path ++ [n]) ver g (fun k => U (n :: k)) Hf' Gn2 (pfree_down U n PF) OKg)
              as (r1 & lg1' & E1 & R1 & _). rewrite E1 in Ef. inversion Ef; subst. exact R1. }
      destruct (final_spec H A f lh ver (somes A rs) old (somes_nodup A rs NDr) Hch O1 O2) as (F1 & F2 & F3 & F4).
      set (new := somes A rs) in *.
      set (final := fold_left (fun acc nt => cs_insert A (mk_child H A lh ver nt) acc) new old) in *.
      set (buildlog := fold_right (fun nt acc => lapp A (log_new A (path ++ [fst nt]) (snd nt)) acc) nolog new) in *.
      match type of E with context [let '(a, b) := ?m in _] => destruct m as [r' lg'] eqn:EM end.
      inversion E; subst r lg. clear E.
      (* the possible shapes of the result of this node *)
      assert (Shape : (r' = None /\ lg' = nolog) \/
                      (exists nn t0, is_leaf A t0 = true /\ r' = Some (lift A nn t0) /\
                                     (lg' = nolog \/ exists oc, In oc cs /\ lg' = log_stale A (c_ver oc) (path ++ [c_nib oc]))) \/
                      (r' = Some (Internal final) /\ lg' = buildlog)).
      { assert (OldIn : forall oc, In oc old -> In oc cs) by (intros oc Hoc; apply (old_in rs cs oc Hoc)).
        clearbody final buildlog.
        destruct old as [|oc [|oc2 old']] eqn:Eold; destruct new as [|[nn nc] [|[n2 t2] new']] eqn:Enew;
          try (inversion EM; subst; right; right; split; reflexivity).
        - inversion EM. left. split; reflexivity.
        - destruct (is_leaf A nc) eqn:L; inversion EM; subst.
          + right. left. exists nn, nc. split; [exact L|]. split; [reflexivity|left; reflexivity].
          + right. right. split; reflexivity.
        - destruct (c_leaf oc) eqn:L; inversion EM; subst.
          + right. left. exists (c_nib oc), (c_sub oc). split.
            * inversion O2 as [|? ? C _]; subst. destruct C as (_ & _ & _ & C4). rewrite <- C4. exact L.
            * split; [reflexivity|right]. exists oc. split; [apply OldIn; left; reflexivity|reflexivity].
          + right. right. split; reflexivity.
        - destruct ((c_nib oc =? nn) && is_leaf A nc) eqn:Cond; inversion EM; subst.
          + apply andb_true_iff in Cond. destruct Cond as [_ L].
            right. left. exists nn, nc. split; [exact L|]. split; [reflexivity|left; reflexivity].
          + right. right. split; reflexivity. }
      destruct (fold_log_new path new) as [BL1 BL2]. fold buildlog in BL1, BL2.
      assert (LgNew : forall x, In x (l_new lg') -> exists n t0, In (n, t0) new /\ x = (path ++ [n], t0)).
      { intros x Hx. destruct Shape as [[_ El]|[(nn & t0 & _ & _ & [El|(oc & _ & El)])|[_ El]]]; subst lg'; try contradiction.
        rewrite BL1 in Hx. apply in_map_iff in Hx. destruct Hx as ([n t0] & Ex & Hx). exists n, t0. split; [exact Hx|symmetry; exact Ex]. }
      assert (LgStale : forall x, In x (l_stale lg') -> exists oc, In oc cs /\ x = (c_ver oc, path ++ [c_nib oc])).
      { intros x Hx. destruct Shape as [[_ El]|[(nn & t0 & _ & _ & [El|(oc & Hoc & El)])|[_ El]]]; subst lg'; try contradiction.
        - destruct Hx as [Ex|[]]. exists oc. split; [exact Hoc|symmetry; exact Ex].
        - rewrite BL2 in Hx. contradiction. }
      (* stale keys of the groups lie in the subtree of an existing child with that nibble *)
      assert (GS : forall k, In k (l_stale lg1) -> exists n c, In n (map fst gs) /\ cs_find A n cs = Some c /\
                                                              In k (tkeys f (path ++ [n]) (c_ver c) (c_sub c))).
      { intros k Hk. destruct (L1 k Hk) as (n & g & r0 & lgn & Hin & Ef & Hx). pose proof (PG n g r0 lgn Hin Ef) as P.
        destruct (cs_find A n cs) as [c|] eqn:Ec.
        - exists n, c. split; [apply in_map_iff; exists (n, g); split; [reflexivity|exact Hin]|]. split; [exact Ec|]. apply P. exact Hx.
        - destruct P as (P0 & _). rewrite P0 in Hx. contradiction. }
      split; [|split; [|split]].
      + (* stale nodes are old nodes *)
        intros k Hk. rewrite !l_stale_lapp in Hk. cbn [log_stale l_stale app] in Hk. destruct Hk as [Ek|Hk]; [subst k; left; reflexivity|].
        apply tl_incl. apply in_app_or in Hk. destruct Hk as [Hk|Hk].
        * destruct (GS k Hk) as (n & c & _ & Ec & Hin). destruct (cs_find_some A n cs c Ec) as [Hc Enib]. subst n.
          apply (tkeys_child_in f path nver cs c k Hc Hin).
        * destruct (LgStale k Hk) as (oc & Hoc & Ek). subst k. apply (tkeys_child_in f path nver cs oc _ Hoc). apply tkeys_root_in.
      + rewrite l_stale_lapp. left. reflexivity.
      + intros k Hk. unfold new_keys in Hk. rewrite !l_new_lapp in Hk. cbn [log_stale l_new app] in Hk. rewrite map_app in Hk.
        apply in_app_or in Hk. destruct Hk as [Hk|Hk]; apply in_map_iff in Hk; destruct Hk as (x & Ek & Hx).
        * destruct (L2 x Hx) as (n & g & r0 & lgn & Hin & Ef & Hx'). pose proof (PG n g r0 lgn Hin Ef) as P.
          apply (below_down path n). assert (Hk' : In k (new_keys ver lgn)) by (apply in_map_iff; exists x; split; assumption).
          destruct (cs_find A n cs); [apply P|apply P]; exact Hk'.
        * destruct (LgNew x Hx) as (n & t0 & _ & Ex). subst x k. exists n, []. reflexivity.
      + (* nodes of the new tree *)
        intros t' Et k Hk.
        destruct Shape as [[Er' _]|[(nn & t0 & L & Er' & _)|[Er' El]]]; subst r'; [discriminate| |].
        { inversion Et; subst t'. rewrite tkeys_leaf_tl in Hk by (apply lift_is_leaf; exact L). contradiction. }
        inversion Et; subst t' lg'. cbn in Hk. apply in_flat_map in Hk. destruct Hk as (c & Hc & Hk).
        pose proof (cs_find_in_sorted A final c F1 Hc) as Fc. rewrite F4 in Fc.
        assert (NotRoot : forall m cc, In k (tkeys f (path ++ [m]) (c_ver cc) (c_sub cc)) -> k <> (nver, path)).
        { intros m cc Hin Ek. subst k. destruct (tkeys_at_or_below _ _ _ _ _ Hin) as [E0|(a & b & E0)]; cbn [snd] in E0.
          - apply (app_not_self path m []). symmetry. exact E0.
          - apply (app_not_self path m (a :: b)). rewrite <- app_assoc in E0. symmetry. exact E0. }
        assert (PathNib : forall m cc, In k (tkeys f (path ++ [m]) (c_ver cc) (c_sub cc)) -> exists rr, snd k = path ++ m :: rr).
        { intros m cc Hin. destruct (tkeys_at_or_below _ _ _ _ _ Hin) as [E0|(a & b & E0)].
          - exists []. exact E0.
          - exists (a :: b). rewrite E0, <- app_assoc. reflexivity. }
        destruct (nassoc (c_nib c) new) as [t''|] eqn:En.
        * (* a child created by this update *)
          inversion Fc as [Ec]. rewrite <- Ec in Hk. cbn [c_ver c_sub c_nib mk_child] in Hk.
          set (n := c_nib c) in *.
          apply nassoc_in in En. pose proof En as EnS. apply somes_in in EnS. destruct (L3 n (Some t'') EnS) as (g & lgn & Hg & Ef & N1 & N2).
          destruct (tkeys_cons f (path ++ [n]) ver t'') as [rr Err]. rewrite Err in Hk. destruct Hk as [Ek|Hk].
          { left. unfold new_keys. rewrite !l_new_lapp. cbn [log_stale l_new app]. rewrite map_app. apply in_or_app. right.
            rewrite BL1. apply in_map_iff. exists (path ++ [n], t''). split; [exact Ek|]. apply in_map_iff. exists (n, t''). split; [reflexivity|exact En]. }
          assert (Hk' : In k (tl (tkeys f (path ++ [n]) ver t''))) by (rewrite Err; exact Hk).
          pose proof (PG n g (Some t'') lgn Hg Ef) as P.
          assert (ToNew : In k (new_keys ver lgn) -> In k (new_keys ver (lapp A (log_stale A nver path) (lapp A lg1 buildlog)))).
          { intro Hn. unfold new_keys in *. rewrite !l_new_lapp. cbn [log_stale l_new app]. rewrite map_app. apply in_or_app. left.
            apply in_map_iff in Hn. destruct Hn as (x & Ex & Hx). apply in_map_iff. exists x. split; [exact Ex|apply N1; exact Hx]. }
          destruct (cs_find A n cs) as [c0|] eqn:Ec0.
          -- destruct P as (P1 & _ & _ & P4). destruct (P4 t'' eq_refl k Hk') as [Hn|[Hold Hns]]; [left; apply ToNew; exact Hn|].
             right. destruct (cs_find_some A n cs c0 Ec0) as [Hc0 Enib0]. split.
             ++ rewrite <- Enib0 in Hold. apply (tkeys_child_in f path nver cs c0 k Hc0). apply tl_incl. exact Hold.
             ++ intro Hst. rewrite !l_stale_lapp in Hst. cbn [log_stale l_stale app] in Hst. rewrite BL2, app_nil_r in Hst.
                destruct Hst as [Ek|Hst].
                ** rewrite <- Enib0 in Hold. apply (NotRoot (c_nib c0) c0 (tl_incl _ _ Hold)). symmetry. exact Ek.
                ** destruct (L1 k Hst) as (m & gm & rm & lgm & Hgm & Efm & Hxm).
                   assert (m = n).
                   { pose proof (PG m gm rm lgm Hgm Efm) as Pm. destruct (cs_find A m cs) as [cm|] eqn:Ecm.
                     - destruct Pm as (Pm1 & _). specialize (Pm1 k Hxm). destruct (PathNib m cm Pm1) as [r1 E1].
                       rewrite <- Enib0 in Hold. destruct (PathNib (c_nib c0) c0 (tl_incl _ _ Hold)) as [r2 E2].
                       rewrite E1 in E2. apply app_cons_inj in E2. congruence.
                     - destruct Pm as (Pm0 & _). rewrite Pm0 in Hxm. contradiction. }
                   rewrite H0 in *. clear H0. assert (gm = g).
                   { pose proof (nassoc_nodup n gs g NDg Hg) as E1. pose proof (nassoc_nodup n gs gm NDg Hgm) as E2. congruence. }
                   subst gm. rewrite Ef in Efm. assert (Elg : lgm = lgn) by congruence. rewrite Elg in Hxm. apply Hns. exact Hxm.
          -- left. apply ToNew. destruct P as (_ & _ & P3). apply (P3 t'' eq_refl k Hk').
        * (* an old child kept as it is *)
          rewrite O3 in Fc. set (n := c_nib c) in *.
          assert (Enr : nassoc n rs = None).
          { unfold new in En. rewrite nassoc_somes in En by exact NDr. destruct (nassoc n rs) as [[tt|]|]; [discriminate|discriminate|reflexivity]. }
          rewrite Enr in Fc. destruct (cs_find_some A n cs c Fc) as [Hcc _].
          right. split; [apply (tkeys_child_in f path nver cs c k Hcc Hk)|].
          intro Hst. rewrite !l_stale_lapp in Hst. cbn [log_stale l_stale app] in Hst. rewrite BL2, app_nil_r in Hst.
          destruct Hst as [Ek|Hst]; [apply (NotRoot n c Hk); symmetry; exact Ek|].
          destruct (GS k Hst) as (m & cm & Hm & Ecm & Hin). destruct (PathNib m cm Hin) as [r1 E1]. destruct (PathNib n c Hk) as [r2 E2].
          rewrite E1 in E2. apply app_cons_inj in E2. subst m.
          rewrite <- M in Hm. apply (nassoc_some_in n rs Hm). exact Enr.
  Qed.

  (* ---------- one commit on a tier ---------- *)
  Definition reach (fuel : nat) (root : option (N * nodeA)) : list skey :=
    match root with Some (v, t) => tkeys fuel [] v t | None => [] end.

  (* C18_reach_step for a tier: every node the new root refers to was written by this commit
     (new version) or is a node of the old tree that this commit did not report stale; every node
     reported stale is a node of the old tree, and the old root is reported stale *)
  Theorem tier_reach_step : forall fuel root ver ups U h t lg,
    (0 < fuel)%nat -> pfree U -> ~ U [] -> ups_ok A U fuel ups -> state_ok H A U fuel root ->
    tier_put H A fuel root ver ups = Ok (h, t, lg) ->
    (forall k, In k (reach fuel (Some (ver, t))) ->
       In k (new_keys ver lg) \/ (In k (reach fuel root) /\ ~ In k (l_stale lg))) /\
    (forall k, In k (l_stale lg) -> In k (reach fuel root)) /\
    (forall v0 t0, root = Some (v0, t0) -> In (v0, []) (l_stale lg)) /\
    (forall k, In k (new_keys ver lg) -> fst k = ver).
  Proof.
    intros fuel root ver ups U h t lg Hf PF U0 OK SO E.
    destruct (value_set_spec A ups) as (V1 & V2 & V3).
    assert (OKk : kvs_ok A U fuel (value_set A ups)) by (intros x Hx; apply OK; apply V3; exact Hx).
    assert (Fresh : forall k, In k (new_keys ver lg) -> fst k = ver).
    { intros k Hk. unfold new_keys in Hk. apply in_map_iff in Hk. destruct Hk as (x & Ex & _). subst k. reflexivity. }
    unfold tier_put in E.
    set (core := match root with
                 | Some (v0, t0) => bia H A fuel (lh_root H) [] ver v0 t0 (value_set A ups)
                 | None => bus H A fuel (lh_root H) [] ver (value_set A ups) end) in E.
    destruct core as [[r lg0]| |] eqn:EC; try discriminate.
    (* facts about the core update, uniformly *)
    assert (Core : (forall k, In k (l_stale lg0) -> In k (reach fuel root)) /\
                   (forall v0 t0, root = Some (v0, t0) -> In (v0, []) (l_stale lg0)) /\
                   (forall t', r = Some t' -> forall k, In k (tl (tkeys fuel [] ver t')) ->
                      In k (new_keys ver lg0) \/ (In k (reach fuel root) /\ ~ In k (l_stale lg0)))).
    { unfold core in EC. destruct root as [[v0 t0]|].
      - destruct (SO v0 t0 eq_refl) as [[En|G] TO].
        + subst t0. destruct fuel as [|f]; [lia|]. cbn [bia] in EC.
          destruct (bus H A (S f) (lh_root H) [] ver (value_set A ups)) as [[r1 lg1]| |] eqn:EB; try discriminate.
          inversion EC; subst. destruct (bus_keys _ _ _ _ _ _ _ EB) as (B1 & B2 & B3).
          split; [|split].
          * intros k Hk. rewrite l_stale_lapp, B1, app_nil_r in Hk. destruct Hk as [Ek|[]]. subst k. left. reflexivity.
          * intros v1 t1 E1. inversion E1; subst. rewrite l_stale_lapp. left. reflexivity.
          * intros t' Et k Hk. left. unfold new_keys. rewrite l_new_lapp. cbn [log_stale l_new app]. apply (B3 t' Et k Hk).
        + destruct (bia_keys fuel (lh_root H) [] ver v0 t0 (value_set A ups) U r lg0 G V1 PF OKk TO (fun _ => U0) EC) as (K1 & K2 & K3 & K4).
          split; [exact K1|]. split.
          * intros v1 t1 E1. inversion E1; subst. exact K2.
          * intros t' Et k Hk. destruct (K4 t' Et k Hk) as [Hn|[Ho Hs]]; [left; exact Hn|right]. split; [apply tl_incl; exact Ho|exact Hs].
      - destruct (bus_keys _ _ _ _ _ _ _ EC) as (B1 & B2 & B3). split; [|split].
        + intros k Hk. rewrite B1 in Hk. contradiction.
        + intros v0 t0 E0. discriminate.
        + intros t' Et k Hk. left. apply (B3 t' Et k Hk). }
    destruct Core as (C1 & C2 & C3).
    assert (Fin : forall r', t = r' -> lg = lapp A lg0 (log_new A [] r') -> (r = Some r' \/ (r = None /\ r' = Null)) ->
              (forall k, In k (reach fuel (Some (ver, t))) ->
                 In k (new_keys ver lg) \/ (In k (reach fuel root) /\ ~ In k (l_stale lg))) /\
              (forall k, In k (l_stale lg) -> In k (reach fuel root)) /\
              (forall v0 t0, root = Some (v0, t0) -> In (v0, []) (l_stale lg)) /\
              (forall k, In k (new_keys ver lg) -> fst k = ver)).
    { intros r' Et El Hr. subst t lg.
      assert (ES : l_stale (lapp A lg0 (log_new A [] r')) = l_stale lg0) by (rewrite l_stale_lapp; cbn [log_new l_stale]; apply app_nil_r).
      split; [|split; [|split]].
      - intros k Hk. cbn [reach] in Hk. destruct (tkeys_cons fuel [] ver r') as [rr Err]. rewrite Err in Hk. rewrite ES.
        destruct Hk as [Ek|Hk].
        + left. unfold new_keys. rewrite l_new_lapp, map_app. apply in_or_app. right. cbn. left. exact Ek.
        + destruct Hr as [Er|[Er En]].
          * assert (Hk' : In k (tl (tkeys fuel [] ver r'))) by (rewrite Err; exact Hk).
            destruct (C3 r' Er k Hk') as [Hn|Ho]; [left|right; exact Ho].
            unfold new_keys in *. rewrite l_new_lapp, map_app. apply in_or_app. left. exact Hn.
          * subst r'. destruct fuel; cbn in Err; inversion Err; subst rr; contradiction.
      - intros k Hk. rewrite ES in Hk. apply C1. exact Hk.
      - intros v0 t0 E0. rewrite ES. apply (C2 v0 t0 E0).
      - exact Fresh. }
    destruct r as [r'|].
    - injection E as Eh Et El. apply (Fin r'); [symmetry; exact Et|symmetry; exact El|left; reflexivity].
    - injection E as Eh Et El. apply (Fin Null); [symmetry; exact Et|symmetry; exact El|right; split; reflexivity].
  Qed.

  (* ---------- versions: keys are never reused ---------- *)
  Definition vers_le (v : N) (ks : list skey) : Prop := forall k, In k ks -> fst k <= v.

  (* one commit: parts reported stale, and everything that was already dead, is unreachable from
     the new root; all keys the new root refers to have version <= the new version *)
  Theorem tier_dead_step : forall fuel root ver ups U h t lg (D : list skey) v0,
    (0 < fuel)%nat -> pfree U -> ~ U [] -> ups_ok A U fuel ups -> state_ok H A U fuel root ->
    tier_put H A fuel root ver ups = Ok (h, t, lg) ->
    vers_le v0 (reach fuel root) -> vers_le v0 D -> v0 < ver ->
    (forall k, In k D -> ~ In k (reach fuel root)) ->
    vers_le ver (reach fuel (Some (ver, t))) /\
    vers_le v0 (l_stale lg) /\
    forall k, In k D \/ In k (l_stale lg) -> ~ In k (reach fuel (Some (ver, t))).
  Proof.
    intros fuel root ver ups U h t lg D v0 Hf PF U0 OK SO E VR VD Lt Dead.
    destruct (tier_reach_step fuel root ver ups U h t lg Hf PF U0 OK SO E) as (T1 & T2 & T3 & T4).
    assert (VS : vers_le v0 (l_stale lg)) by (intros k Hk; apply VR; apply T2; exact Hk).
    split; [|split; [exact VS|]].
    - intros k Hk. destruct (T1 k Hk) as [Hn|[Ho _]]; [rewrite (T4 k Hn); lia|specialize (VR k Ho); lia].
    - intros k Hd Hr. destruct (T1 k Hr) as [Hn|[Ho Hs]].
      + pose proof (T4 k Hn) as Ev. assert (fst k <= v0) by (destruct Hd as [Hd|Hd]; [apply VD|apply VS]; exact Hd). lia.
      + destruct Hd as [Hd|Hd]; [apply (Dead k Hd Ho)|apply (Hs Hd)].
  Qed.

  (* ---------- the store under immediate pruning ---------- *)
  Lemma apply_ops_app : forall o1 o2 ts, apply_ops ts (o1 ++ o2) =
    match apply_ops ts o1 with Ok ts1 => apply_ops ts1 o2 | Panic => Panic | OutOfFuel => OutOfFuel end.
  Proof.
    induction o1 as [|op o1 IH]; intros o2 ts; [reflexivity|]. cbn [app apply_ops].
    destruct (apply_op ts op); [apply IH|reflexivity|reflexivity].
  Qed.

  Lemma apply_inserts : forall ver (l : list (list N * nodeA)) ts,
    exists ts1, apply_ops ts (map (fun pn => OpInsert ver ([] ++ fst pn) (stored (snd pn))) l) = Ok ts1 /\
      ts_pruning ts1 = ts_pruning ts /\
      forall k, (st_get k (ts_nodes ts) <> None \/ In k (map (fun pn => (ver, fst pn)) l)) -> st_get k (ts_nodes ts1) <> None.
  Proof.
    intros ver l. induction l as [|[p n] l IH]; intro ts.
    - exists ts. split; [reflexivity|]. split; [reflexivity|]. intros k [Hk|[]]. exact Hk.
    - cbn [map apply_ops apply_op fst snd app].
      destruct (IH (mkTStore (st_insert (ver, p) (stored n) (ts_nodes ts)) (ts_stale ts) (ts_pruning ts))) as (ts1 & E1 & P1 & G1).
      exists ts1. split; [exact E1|]. split; [exact P1|]. intros k Hk. apply G1. cbn [ts_nodes].
      destruct Hk as [Hk|[Ek|Hk]].
      + left. rewrite st_get_insert. destruct (skey_eqb k (ver, p)); [discriminate|exact Hk].
      + left. subst k. rewrite st_get_insert, skey_eqb_refl. discriminate.
      + right. exact Hk.
  Qed.

  Lemma apply_stales : forall (l : list (N * list N)) ts, ts_pruning ts = true ->
    exists ts2, apply_ops ts (map (fun vp => OpStale (StaleNode (fst vp) ([] ++ snd vp))) l) = Ok ts2 /\
      ts_pruning ts2 = true /\
      forall k, ~ In k l -> st_get k (ts_nodes ts2) = st_get k (ts_nodes ts).
  Proof.
    induction l as [|[v p] l IH]; intros ts P.
    - exists ts. split; [reflexivity|]. split; [exact P|]. reflexivity.
    - cbn [map apply_ops apply_op fst snd app]. rewrite P.
      destruct (IH (mkTStore (st_remove (v, p) (ts_nodes ts)) (ts_stale ts) true) eq_refl) as (ts2 & E2 & P2 & G2).
      exists ts2. split; [exact E2|]. split; [exact P2|]. intros k Hk. rewrite G2 by (intro Hin; apply Hk; right; exact Hin).
      cbn [ts_nodes]. rewrite st_get_remove. destruct (skey_eqb (v, p) k) eqn:E0; [|reflexivity].
      apply skey_eqb_eq in E0. exfalso. apply Hk. left. exact E0.
  Qed.

  (* C18_current_tree_intact for one commit of a tier: if every node the old root refers to is stored,
     then after inserting the new nodes and pruning the stale ones every node the new root refers
     to is stored *)
  Theorem tier_intact_step : forall fuel root ver ups U h t lg ts v0,
    (0 < fuel)%nat -> pfree U -> ~ U [] -> ups_ok A U fuel ups -> state_ok H A U fuel root ->
    tier_put H A fuel root ver ups = Ok (h, t, lg) ->
    vers_le v0 (reach fuel root) -> v0 < ver -> ts_pruning ts = true ->
    (forall k, In k (reach fuel root) -> st_get k (ts_nodes ts) <> None) ->
    exists ts', apply_ops ts (ops_of_log [] ver lg) = Ok ts' /\ ts_pruning ts' = true /\
      forall k, In k (reach fuel (Some (ver, t))) -> st_get k (ts_nodes ts') <> None.
  Proof.
    intros fuel root ver ups U h t lg ts v0 Hf PF U0 OK SO E VR Lt P Stored.
    destruct (tier_reach_step fuel root ver ups U h t lg Hf PF U0 OK SO E) as (T1 & T2 & T3 & T4).
    unfold ops_of_log. rewrite apply_ops_app.
    destruct (apply_inserts ver (l_new lg) ts) as (ts1 & E1 & P1 & G1). rewrite E1.
    destruct (apply_stales (l_stale lg) ts1 (eq_trans P1 P)) as (ts2 & E2 & P2 & G2). rewrite E2.
    exists ts2. split; [reflexivity|]. split; [exact P2|].
    intros k Hk. destruct (T1 k Hk) as [Hn|[Ho Hs]].
    - rewrite G2.
      + apply G1. right. exact Hn.
      + intro Hst. pose proof (T4 k Hn). pose proof (VR k (T2 k Hst)). lia.
    - rewrite G2 by exact Hs. apply G1. left. apply Stored. exact Ho.
  Qed.

  (* ---------- every history of commits on a tier, store with immediate pruning ---------- *)
  Fixpoint run_tier_store (fuel : nat) (root : option (N * nodeA)) (v : N) (ts : tstore) (h : list (list kv))
    : res (option (N * nodeA) * N * tstore * list skey) :=
    match h with
    | [] => Ok (root, v, ts, [])
    | u :: r =>
      match tier_put H A fuel root (v + 1) u with
      | Ok (_, t, lg) =>
        match apply_ops ts (ops_of_log [] (v + 1) lg) with
        | Ok ts' =>
          match run_tier_store fuel (Some (v + 1, t)) (v + 1) ts' r with
          | Ok (rf, vf, tsf, st) => Ok (rf, vf, tsf, l_stale lg ++ st)
          | Panic => Panic | OutOfFuel => OutOfFuel
          end
        | Panic => Panic | OutOfFuel => OutOfFuel
        end
      | Panic => Panic | OutOfFuel => OutOfFuel
      end
    end.

  (* C18_current_tree_intact and C18_stale_dead_forever for a tier: after EVERY history every node the
     current root refers to is stored, and every part reported stale during the history (and every
     key D that was already dead before it) is unreachable from the current root *)
  Theorem tier_history_pruned : forall fuel U h root v ts D,
    (0 < fuel)%nat -> pfree U -> ~ U [] -> Forall (ups_ok A U fuel) h -> state_ok H A U fuel root ->
    vers_le v (reach fuel root) -> vers_le v D -> ts_pruning ts = true ->
    (forall k, In k (reach fuel root) -> st_get k (ts_nodes ts) <> None) ->
    (forall k, In k D -> ~ In k (reach fuel root)) ->
    exists rf vf tsf st, run_tier_store fuel root v ts h = Ok (rf, vf, tsf, st) /\
      (forall k, In k (reach fuel rf) -> st_get k (ts_nodes tsf) <> None) /\
      (forall k, In k D \/ In k st -> ~ In k (reach fuel rf)) /\
      vers_le vf (reach fuel rf) /\ vers_le vf st.
  Proof.
    intros fuel U h. induction h as [|u r IH]; intros root v ts D Hf PF U0 OK SO VR VD P Stored Dead.
    - exists root, v, ts, []. split; [reflexivity|]. split; [exact Stored|]. split; [|split; [exact VR|intros k []]].
      intros k [Hk|[]]. apply Dead. exact Hk.
    - inversion OK as [|? ? OKu OKr]; subst.
      destruct (tier_step H A fuel root (v + 1) u U Hf PF U0 OKu SO) as (hh & t & lg & E & S1 & _).
      assert (Lt : v < v + 1) by lia.
      destruct (tier_dead_step fuel root (v + 1) u U hh t lg D v Hf PF U0 OKu SO E VR VD Lt Dead) as (V1 & V2 & D1).
      destruct (tier_intact_step fuel root (v + 1) u U hh t lg ts v Hf PF U0 OKu SO E VR Lt P Stored) as (ts' & Ea & P' & Stored').
      assert (VD' : vers_le (v + 1) (D ++ l_stale lg)).
      { intros k Hk. apply in_app_or in Hk. destruct Hk as [Hk|Hk]; [specialize (VD k Hk)|specialize (V2 k Hk)]; lia. }
      destruct (IH (Some (v + 1, t)) (v + 1) ts' (D ++ l_stale lg) Hf PF U0 OKr S1 V1 VD' P' Stored')
        as (rf & vf & tsf & st & Er & R1 & R2 & R3 & R4).
      { intros k Hk. apply D1. apply in_app_or in Hk. exact Hk. }
      exists rf, vf, tsf, (l_stale lg ++ st). cbn [run_tier_store]. rewrite E, Ea, Er. split; [reflexivity|]. split; [exact R1|].
      split; [|split; [exact R3|]].
      + intros k Hk. apply R2. destruct Hk as [Hk|Hk]; [left; apply in_or_app; left; exact Hk|].
        apply in_app_or in Hk. destruct Hk as [Hk|Hk]; [left; apply in_or_app; right; exact Hk|right; exact Hk].
      + intros k Hk. apply in_app_or in Hk. destruct Hk as [Hk|Hk]; [|apply R4; exact Hk].
        (* versions only grow along the run *)
        assert (Mono : forall h' root' v' ts0 rf' vf' tsf' st', run_tier_store fuel root' v' ts0 h' = Ok (rf', vf', tsf', st') -> v' <= vf').
        { induction h' as [|u' r' IHh]; intros root' v' ts0 rf' vf' tsf' st' Erun; cbn [run_tier_store] in Erun.
          - inversion Erun; subst. lia.
          - destruct (tier_put H A fuel root' (v' + 1) u') as [[[? t1] lg1]| |]; try discriminate.
            destruct (apply_ops ts0 (ops_of_log [] (v' + 1) lg1)) as [ts1| |]; try discriminate.
            destruct (run_tier_store fuel (Some (v' + 1, t1)) (v' + 1) ts1 r') as [[[[rf1 vf1] tsf1] st1]| |] eqn:E1; try discriminate.
            inversion Erun; subst. specialize (IHh _ _ _ _ _ _ _ E1). lia. }
        specialize (Mono _ _ _ _ _ _ _ _ Er). specialize (V2 k Hk). lia.
  Qed.
End REACH.
