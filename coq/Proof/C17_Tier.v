(* C17 — one tier: value_set (BTreeMap collection of the updates), batch_put_value_set /
   generate_tier_update_batch (`tier_put`) refine the key-wise override, and the root hash is the
   sparse-Merkle commitment of the resulting map (Theorem A + Theorem B + permutation invariance). *)
From Coq Require Import List NArith Bool Lia Arith Permutation.
Import ListNotations.
Require Import RV.Model.C17_Jmt RV.Model.C17_Smt RV.Proof.C17_Base RV.Proof.C17_Lists
               RV.Proof.C17_Merkle RV.Proof.C17_Update.
Open Scope N_scope.

(* ---------- the order of keys ---------- *)
Lemma lltb_cons_iff : forall n a m b, lltb (n :: a) (m :: b) = true <-> n < m \/ (n = m /\ lltb a b = true).
Proof.
  intros n a m b. cbn. destruct (n <? m) eqn:E1.
  - apply N.ltb_lt in E1. split; [left; exact E1|reflexivity].
  - apply N.ltb_ge in E1. destruct (m <? n) eqn:E2.
    + apply N.ltb_lt in E2. split; [discriminate|]. intros [L|[L _]]; lia.
    + apply N.ltb_ge in E2. split; [intro L; right; split; [lia|exact L]|]. intros [L|[_ L]]; [lia|exact L].
Qed.
Lemma lltb_trans : forall a b c, lltb a b = true -> lltb b c = true -> lltb a c = true.
Proof.
  induction a as [|x a IH]; intros b c L1 L2.
  - destruct b; [discriminate|]. destruct c; [discriminate|reflexivity].
  - destruct b as [|y b]; [discriminate|]. destruct c as [|z c]; [discriminate|].
    apply lltb_cons_iff in L1. apply lltb_cons_iff in L2. apply lltb_cons_iff.
    destruct L1 as [L1|[E1 L1]]; destruct L2 as [L2|[E2 L2]]; try (left; lia).
    right. split; [lia|]. eapply IH; eassumption.
Qed.
Lemma lltb_total : forall a b, lltb a b = false -> leqb a b = false -> lltb b a = true.
Proof.
  induction a as [|x a IH]; intros b L E.
  - destruct b; discriminate.
  - destruct b as [|y b]; [reflexivity|]. apply lltb_cons_iff.
    cbn in L, E. destruct (x <? y) eqn:E1; [discriminate|]. apply N.ltb_ge in E1.
    destruct (y <? x) eqn:E2; [apply N.ltb_lt in E2; left; exact E2|]. apply N.ltb_ge in E2.
    right. split; [lia|]. apply IH; [exact L|]. assert (x = y) by lia. subst. rewrite N.eqb_refl in E. exact E.
Qed.
Lemma lltb_neq : forall a b, lltb a b = true -> leqb a b = false.
Proof.
  intros a b L. apply leqb_false. intro E. subst.
  assert (Irr : forall c, lltb c c = false) by (induction c as [|x c IHc]; [reflexivity|cbn; rewrite N.ltb_irrefl; exact IHc]).
  rewrite Irr in L. discriminate.
Qed.

Lemma NoDup_app_intro : forall {X} (l1 l2 : list X), NoDup l1 -> NoDup l2 ->
  (forall x, In x l1 -> In x l2 -> False) -> NoDup (l1 ++ l2).
Proof.
  induction l1 as [|x l1 IH]; intros l2 N1 N2 D; [exact N2|]. inversion N1; subst. cbn. constructor.
  - intro Hin. apply in_app_or in Hin. destruct Hin as [Hin|Hin]; [contradiction|]. apply (D x); [left; reflexivity|exact Hin].
  - apply IH; try assumption. intros y Hy1 Hy2. apply (D y); [right; exact Hy1|exact Hy2].
Qed.
Lemma NoDup_map_inj : forall {X Y} (g : X -> Y) l, (forall x y, g x = g y -> x = y) -> NoDup l -> NoDup (map g l).
Proof.
  intros X Y g l Inj ND. induction ND as [|x l Hn ND IH]; cbn; constructor; [|exact IH].
  intro Hin. apply in_map_iff in Hin. destruct Hin as (y & E & Hy). apply Inj in E. subst. contradiction.
Qed.

Section TIER.
  Variable H : list N -> list N.
  Variable A : Type.
  Notation nodeA := (node A).
  Notation kv := (kv A).
  Notation ldata := (ldata A).

  (* ---------- value_set ---------- *)
  Lemma kv_insert_in : forall (x : kv) l z, In z (kv_insert A x l) -> z = x \/ In z l.
  Proof.
    intros x l. induction l as [|y r IH]; intros z Hz; cbn [kv_insert] in Hz.
    - destruct Hz as [E|[]]. left. congruence.
    - destruct (lltb (fst x) (fst y)); [destruct Hz as [E|Hz]; [left; congruence|right; exact Hz]|].
      destruct (leqb (fst x) (fst y)).
      + destruct Hz as [E|Hz]; [left; congruence|right; right; exact Hz].
      + destruct Hz as [E|Hz]; [right; left; exact E|]. destruct (IH z Hz); [left; assumption|right; right; assumption].
  Qed.

  Lemma kv_insert_spec : forall (x : kv) l, ksorted A l ->
    ksorted A (kv_insert A x l) /\
    forall k, kv_get A k (kv_insert A x l) = if leqb k (fst x) then Some (snd x) else kv_get A k l.
  Proof.
    intros [kx ux] l. induction l as [|[ky uy] r IH]; intro KS; cbn [kv_insert fst snd].
    - split; [cbn; auto|]. intro k. reflexivity.
    - destruct KS as [KS1 KS2]. cbn [fst] in KS1. destruct (lltb kx ky) eqn:L1.
      + split.
        * cbn [ksorted fst]. repeat split; try assumption. constructor; [exact L1|].
          eapply Forall_impl; [|exact KS1]. cbn. intros z Lz. eapply lltb_trans; eassumption.
        * intro k. reflexivity.
      + destruct (leqb kx ky) eqn:L2.
        * apply leqb_eq in L2. subst ky. split; [cbn [ksorted fst]; split; assumption|].
          intro k. cbn [kv_get]. destruct (leqb k kx); reflexivity.
        * destruct (IH KS2) as [I1 I2]. pose proof (lltb_total kx ky L1 L2) as L3. split.
          -- cbn [ksorted fst]. split; [|exact I1]. rewrite Forall_forall in *. intros z Hz.
             apply kv_insert_in in Hz. destruct Hz as [E|Hz]; [subst z; exact L3|apply KS1; exact Hz].
          -- intro k. cbn [kv_get]. rewrite I2. cbn [fst snd]. destruct (leqb k ky) eqn:E1; [|reflexivity].
             apply leqb_eq in E1. subst k. rewrite (lltb_neq ky kx L3). reflexivity.
  Qed.

  (* the binding a list of updates gives to a key: the last one wins *)
  Fixpoint ups_last (k : list N) (ups : list kv) : option (option ldata) :=
    match ups with
    | [] => None
    | (k', u) :: r => match ups_last k r with
                      | Some x => Some x
                      | None => if leqb k k' then Some u else None
                      end
    end.

  Lemma value_set_spec : forall ups : list kv,
    ksorted A (value_set A ups) /\
    (forall k, kv_get A k (value_set A ups) = ups_last k ups) /\
    (forall z, In z (value_set A ups) -> In z ups).
  Proof.
    intro ups. unfold value_set.
    assert (Gen : forall acc, ksorted A acc ->
              ksorted A (fold_left (fun acc x => kv_insert A x acc) ups acc) /\
              (forall k, kv_get A k (fold_left (fun acc x => kv_insert A x acc) ups acc) =
                         match ups_last k ups with Some x => Some x | None => kv_get A k acc end) /\
              (forall z, In z (fold_left (fun acc x => kv_insert A x acc) ups acc) -> In z ups \/ In z acc)).
    { induction ups as [|[k' u] r IH]; intros acc KS; cbn [fold_left].
      - repeat split; [exact KS|]. intros z Hz. right. exact Hz.
      - destruct (kv_insert_spec (k', u) acc KS) as [I1 I2]. destruct (IH _ I1) as (J1 & J2 & J3).
        split; [exact J1|]. split.
        + intro k. rewrite J2. cbn [ups_last]. destruct (ups_last k r); [reflexivity|]. rewrite I2. cbn [fst snd]. destruct (leqb k k'); reflexivity.
        + intros z Hz. destruct (J3 z Hz) as [Hz'|Hz']; [left; right; exact Hz'|].
          apply kv_insert_in in Hz'. destruct Hz' as [E|Hz']; [left; left; congruence|right; exact Hz']. }
    destruct (Gen [] I) as (G1 & G2 & G3). split; [exact G1|]. split.
    - intro k. rewrite G2. destruct (ups_last k ups); reflexivity.
    - intros z Hz. destruct (G3 z Hz) as [Hz'|[]]. exact Hz'.
  Qed.

  (* ---------- tier_put ---------- *)
  Definition root_ok (fuel : nat) (t : nodeA) : Prop := t = Null \/ good H A fuel (lh_root H) t.

  Definition ups_ok (U : list N -> Prop) (fuel : nat) (ups : list kv) : Prop :=
    forall x, In x ups -> U (fst x) /\ kvalid (fst x) /\ (length (fst x) < fuel)%nat.

  Definition root_sem (fuel : nat) (root : option (N * nodeA)) : list N -> option ldata :=
    match root with Some (_, t) => lookup A fuel t | None => fun _ => None end.

  Lemma lookup_null : forall fuel k, lookup A fuel (@Null A) k = None.
  Proof. intros. destruct fuel; reflexivity. Qed.

  Theorem tier_put_ok : forall fuel (root : option (N * nodeA)) ver ups U,
    (0 < fuel)%nat -> pfree U -> ~ U [] -> ups_ok U fuel ups ->
    (forall v t, root = Some (v, t) -> root_ok fuel t /\ tree_ok A U fuel t) ->
    exists h r lg, tier_put H A fuel root ver ups = Ok (h, r, lg) /\ root_ok fuel r /\
      (forall k, lookup A fuel r k = upd_spec A (root_sem fuel root) (value_set A ups) k) /\
      h = (if leqb (node_hash H A (lh_root H) r) ZERO_HASH then None else Some (node_hash H A (lh_root H) r)).
  Proof.
    intros fuel root ver ups U Hf PF U0 OK Hroot.
    destruct (value_set_spec ups) as (V1 & V2 & V3).
    assert (OKk : kvs_ok A U fuel (value_set A ups)) by (intros x Hx; apply OK; apply V3; exact Hx).
    assert (Core : exists r lg,
              (match root with
               | Some (v0, t) => bia H A fuel (lh_root H) [] ver v0 t (value_set A ups)
               | None => bus H A fuel (lh_root H) [] ver (value_set A ups)
               end) = Ok (r, lg) /\ res_good H A fuel (lh_root H) r /\
              forall k, rget A fuel r k = upd_spec A (root_sem fuel root) (value_set A ups) k).
    { destruct root as [[v0 t]|].
      - destruct (Hroot v0 t eq_refl) as [[En|G] TO].
        + subst t. destruct fuel as [|f]; [lia|]. cbn [bia].
          destruct (bus_ok H A (S f) (lh_root H) [] ver (value_set A ups) U Hf V1 PF OKk) as (r & lg & E & R1 & R2).
          rewrite E. eexists _, _. split; [reflexivity|]. split; [exact R1|].
          intro k. rewrite R2. unfold upd_spec, root_sem. rewrite lookup_null. reflexivity.
        + apply (bia_ok H A fuel (lh_root H) [] ver v0 t (value_set A ups) U G V1 PF OKk TO). intros _. exact U0.
      - apply (bus_ok H A fuel (lh_root H) [] ver (value_set A ups) U Hf V1 PF OKk). }
    destruct Core as (r & lg & E & R1 & R2). unfold tier_put. rewrite E.
    destruct r as [t|].
    - eexists _, _, _. split; [reflexivity|]. split; [right; exact R1|]. split; [exact R2|reflexivity].
    - eexists _, _, _. split; [reflexivity|]. split; [left; reflexivity|]. split.
      + intro k. rewrite lookup_null. apply R2.
      + reflexivity.
  Qed.

  (* ---------- leaves and lookup of a canonical tree ---------- *)
  Lemma leaves_lookup : forall n lh t, good H A n lh t ->
    forall k d, In (k, d) (leaves A n t) <-> lookup A n t k = Some d.
  Proof.
    induction n as [|n IH]; intros lh t G k d; destruct t as [|s vh p a|cs]; cbn [good] in G; try contradiction.
    - cbn. split.
      + intros [E|[]]. inversion E; subst. rewrite leqb_refl. reflexivity.
      + destruct (leqb s k) eqn:E; [|discriminate]. apply leqb_eq in E. intro E2. inversion E2; subst. left. reflexivity.
    - cbn. split.
      + intros [E|[]]. inversion E; subst. rewrite leqb_refl. reflexivity.
      + destruct (leqb s k) eqn:E; [|discriminate]. apply leqb_eq in E. intro E2. inversion E2; subst. left. reflexivity.
    - destruct G as (G1 & G2 & G3). cbn [leaves]. rewrite in_flat_map. split.
      + intros (c & Hc & Hin). apply in_map_iff in Hin. destruct Hin as ([k' d'] & E & Hin). cbn [fst snd] in E.
        inversion E; subst. rewrite lookup_internal, (cs_find_in_sorted A cs c G1 Hc).
        rewrite Forall_forall in G2. destruct (G2 c Hc) as (_ & C2 & _). apply (IH _ _ C2). exact Hin.
      + destruct k as [|m k']; [rewrite lookup_internal_nil; discriminate|]. rewrite lookup_internal.
        destruct (cs_find A m cs) as [c|] eqn:Ec; [|discriminate]. intro E.
        destruct (cs_find_some A m cs c Ec) as [Hc Enib]. exists c. split; [exact Hc|].
        apply in_map_iff. exists (k', d). cbn [fst snd]. split; [congruence|].
        rewrite Forall_forall in G2. destruct (G2 c Hc) as (_ & C2 & _). apply (IH _ _ C2). exact E.
  Qed.

  Lemma leaves_nodup : forall n lh t, good H A n lh t -> NoDup (map fst (leaves A n t)).
  Proof.
    induction n as [|n IH]; intros lh t G; destruct t as [|s vh p a|cs]; cbn [good] in G; try contradiction.
    - cbn. constructor; [intros []|constructor].
    - cbn. constructor; [intros []|constructor].
    - destruct G as (G1 & G2 & _). cbn [leaves]. clear - IH G1 G2.
      induction cs as [|c r IHr]; [constructor|]. destruct G1 as [S1 S2]. inversion G2 as [|? ? C Fr]; subst.
      cbn [flat_map]. rewrite map_app. apply NoDup_app_intro.
      + rewrite map_map. cbn [fst]. destruct C as (_ & C2 & _).
        rewrite <- (map_map fst (fun k => c_nib c :: k)).
        apply NoDup_map_inj; [intros x y E; inversion E; reflexivity|apply (IH _ _ C2)].
      + apply IHr; assumption.
      + intros k H1 H2. apply in_map_iff in H1. destruct H1 as ([k1 d1] & E1 & H1). apply in_map_iff in H1.
        destruct H1 as ([k0 d0] & E0 & _). cbn [fst snd] in *. inversion E0; subst. clear E0.
        apply in_map_iff in H2. destruct H2 as ([k2 d2] & E2 & H2). cbn [fst] in E2. subst k2.
        apply in_flat_map in H2. destruct H2 as (c' & Hc' & H2). apply in_map_iff in H2.
        destruct H2 as ([k3 d3] & E3 & _). cbn [fst snd] in E3. inversion E3; subst.
        rewrite Forall_forall in S1. specialize (S1 c' Hc'). lia.
  Qed.
End TIER.
