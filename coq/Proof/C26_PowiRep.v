(* checked_powi returns the exact power whenever it is representable (positive exponents) *)
From Coq Require Import ZArith Znumtheory List Bool Lia.
Import ListNotations.
Require Import RV.Lib.DecCore RV.Lib.DecCoreFacts RV.Model.C25_Round RV.Model.C24_Dec RV.Model.C26_RootPow
  RV.Proof.C25_Round RV.Proof.C24_Dec RV.Proof.C26_Powi RV.Proof.C26_PowiMag RV.Proof.C26_Valuation.
Open Scope Z_scope.

(* ---- algebra ---- *)
Lemma cancel_pow o x y n : 0 < o -> 0 <= n -> x * o ^ n = y * o ^ n -> x = y.
Proof. intros Ho Hn H. apply (Z.mul_reg_r _ _ (o ^ n)); [|exact H]. pose proof (Z.pow_pos_nonneg o n Ho Hn). lia. Qed.

(* q o^(2j-1) = a^(2j) and d o = a a  ->  q o^(j-1) = d^j *)
Lemma half_even a d q o j : 0 < o -> 1 <= j -> d * o = a * a -> q * o ^ (2 * j - 1) = a ^ (2 * j) ->
  q * o ^ (j - 1) = d ^ j.
Proof.
  intros Ho Hj Hd Hq. apply (cancel_pow o _ _ j Ho ltac:(lia)).
  rewrite <- Z.mul_assoc, <- pow_split, Hq, pow_sq, <- Hd, Z.pow_mul_l by lia. reflexivity.
Qed.

Lemma L1 A d o : 0 < o -> 0 <= A -> A <= o -> d * o = A * A -> d <= A.
Proof. intros. nia. Qed.
Lemma L2 A d o : 0 < o -> o < A -> d * o = A * A -> o < d.
Proof. intros. nia. Qed.
Lemma L3 d b o j : 0 < o -> o <= d -> 1 <= j -> d ^ j = b * o ^ (j - 1) -> d <= b.
Proof.
  intros Ho Hd Hj H. assert (Hp : 0 < o ^ (j - 1)) by (apply Z.pow_pos_nonneg; lia).
  assert (E : d ^ j = d * d ^ (j - 1)).
  { replace j with (Z.succ (j - 1)) at 1 by lia. apply Z.pow_succ_r. lia. }
  assert (Hm : o ^ (j - 1) <= d ^ (j - 1)) by (apply Z.pow_le_mono_l; lia).
  rewrite E in H. apply (Z.mul_le_mono_pos_r _ _ (o ^ (j - 1)) Hp). rewrite <- H.
  apply Z.mul_le_mono_nonneg_l; lia.
Qed.
Lemma L4 A b o m : 0 < o -> 0 <= A -> A <= o -> 1 <= m -> b * o ^ (m - 1) = A ^ m -> b <= A.
Proof.
  intros Ho HA HAo Hm H. assert (Hp : 0 < o ^ (m - 1)) by (apply Z.pow_pos_nonneg; lia).
  assert (E : A ^ m = A * A ^ (m - 1)).
  { replace m with (Z.succ (m - 1)) at 1 by lia. apply Z.pow_succ_r. lia. }
  assert (Hle : A ^ (m - 1) <= o ^ (m - 1)) by (apply Z.pow_le_mono_l; lia).
  apply (Z.mul_le_mono_pos_r _ _ (o ^ (m - 1)) Hp). rewrite H, E. apply Z.mul_le_mono_nonneg_l; lia.
Qed.

Lemma nonneg_from_prod q P R : 0 < P -> 0 <= R -> q * P = R -> 0 <= q.
Proof.
  intros HP HR H. destruct (Z_lt_le_dec q 0) as [Hn|]; [exfalso|assumption].
  assert (q * P < 0) by (apply Z.mul_neg_pos; lia). lia.
Qed.
Lemma L5 A b Q o Kk : 0 < Kk -> 0 < o -> o < A -> 0 <= b -> 0 <= Q -> Q <= Kk -> Q * o = A * b -> b < Kk.
Proof.
  intros HK0 Ho HA Hb HQ HK H. destruct (Z_lt_le_dec b Kk) as [|Hge]; [assumption|exfalso].
  assert (A * Kk <= A * b) by (apply Z.mul_le_mono_nonneg_l; lia).
  assert (Q * o <= Kk * o) by (apply Z.mul_le_mono_nonneg_r; lia).
  assert (Kk * o < A * Kk).
  { rewrite (Z.mul_comm A Kk). apply Z.mul_lt_mono_pos_l; lia. }
  lia.
Qed.

Section Rep.
  Variable f : fmt.
  Hypothesis Hok : fmt_ok f.
  Local Notation ONE := (one f).
  Local Notation K := (2 ^ (fbits f - 1)).

  Lemma scale_pos : 0 < scale f. Proof. destruct Hok as (H & _). exact H. Qed.

  Lemma InF_nonneg x : 0 <= x -> x < K -> InF f x.
  Proof. intros. apply <- (InF_iff f). pose proof (K_pos f Hok). lia. Qed.

  Lemma exact_ok x : InF f x -> exact_or_none f x = Ok x.
  Proof. intros H. unfold exact_or_none, in_f. rewrite (proj2 (in_ity_iff _ _) H). reflexivity. Qed.

  Theorem ppow_rep : forall k' a e q, InF f a -> 1 <= e < 2 ^ Z.of_nat k' ->
    q * ONE ^ (e - 1) = a ^ e -> InF f q -> ppow_go f (S k') a e = Ok q.
  Proof.
    pose proof (one_pos f Hok) as H1. pose proof (one_lt_K f Hok) as H3. pose proof (K_pos f Hok) as H4.
    pose proof scale_pos as Hsc.
    induction k' as [|k IH]; intros a e q Ha He Hq Hqin.
    { change (2 ^ Z.of_nat 0) with 1 in He. lia. }
    rewrite ppow_go_S. destruct (Z.eqb_spec e 0); [lia|].
    destruct (Z.eqb_spec e 1) as [->|Hne1].
    { f_equal. change (1 - 1) with 0 in Hq. rewrite Z.pow_0_r, Z.pow_1_r in Hq. lia. }
    rewrite Nat2Z.inj_succ, Z.pow_succ_r in He by lia.
    assert (Hdiv : (ONE ^ (e - 1) | a ^ e)) by (exists q; lia).
    destruct (claimA (scale f) Hsc a e ltac:(lia) Hdiv) as [d Hd]. fold ONE in Hd.
    assert (Hquot : Z.quot (a * a) ONE = d) by (rewrite Hd; apply Z.quot_mul; lia).
    rewrite Hquot.
    assert (Hsq : 0 <= a * a) by apply Z.square_nonneg.
    assert (Hd0 : 0 <= d) by (apply (nonneg_from_prod d ONE (a * a)); lia).
    assert (HdA : d * ONE = Z.abs a * Z.abs a) by (rewrite <- Z.abs_mul, Z.abs_eq by exact Hsq; lia).
    assert (HA0 : 0 <= Z.abs a) by apply Z.abs_nonneg.
    pose proof Ha as Ha'. apply -> (InF_iff f) in Ha'. pose proof Hqin as Hq'. apply -> (InF_iff f) in Hq'.
    destruct (even_odd_split e ltac:(lia)) as [Hev Hod].
    destruct (Z.eqb_spec (Z.rem e 2) 0) as [E|E].
    - (* even exponent *)
      destruct (Hev E) as [Ee Hj]. set (j := Z.quot e 2) in *.
      assert (Hqj : q * ONE ^ (j - 1) = d ^ j).
      { apply (half_even a d q ONE j); try lia. rewrite <- Ee. replace (2 * j - 1) with (e - 1) by lia. exact Hq. }
      assert (Hq0 : 0 <= q).
      { apply (nonneg_from_prod q (ONE ^ (j - 1)) (d ^ j)); [apply Z.pow_pos_nonneg; lia|apply Z.pow_nonneg; lia|exact Hqj]. }
      assert (Hdin : InF f d).
      { apply InF_nonneg; [exact Hd0|].
        destruct (Z_le_gt_dec (Z.abs a) ONE) as [Hs|Hb].
        - pose proof (L1 (Z.abs a) d ONE H1 HA0 Hs HdA) as X1. clear - X1 Hs H3. lia.
        - assert (Hb' : ONE < Z.abs a) by (clear - Hb; lia).
          pose proof (L2 (Z.abs a) d ONE H1 Hb' HdA) as X2.
          assert (X2' : ONE <= d) by (clear - X2; lia).
          pose proof (L3 d q ONE j H1 X2' Hj (eq_sym Hqj)) as X3. clear - X3 Hq'. lia. }
      assert (Hjb : 1 <= j < 2 ^ Z.of_nat k) by (clear - Hj He Ee; lia).
      rewrite (exact_ok d Hdin). cbn [bind]. apply IH; assumption.
    - (* odd exponent *)
      destruct (Hod E) as [Ee Hj]. set (j := Z.quot (e - 1) 2) in *.
      assert (Hj1 : 1 <= j).
      { destruct Hj as [E3|]; [|assumption]. unfold j. rewrite E3. reflexivity. }
      destruct (claimB (scale f) Hsc a e ltac:(lia) Hdiv) as [b Hb]. fold ONE in Hb.
      replace (e - 1) with (2 * j) in Hb by (clear - Ee; lia). replace (e - 2) with (2 * j - 1) in Hb by (clear - Ee; lia).
      assert (Hbj : b * ONE ^ (j - 1) = d ^ j) by (apply (half_even a d b ONE j H1 Hj1 (eq_sym Hd)); rewrite Hb; reflexivity).
      assert (Hb0 : 0 <= b).
      { apply (nonneg_from_prod b (ONE ^ (j - 1)) (d ^ j)); [apply Z.pow_pos_nonneg; lia|apply Z.pow_nonneg; lia|exact Hbj]. }
      assert (Hqab : q * ONE = a * b).
      { assert (H2j1 : 0 <= 2 * j - 1) by (clear - Hj1; lia).
        apply (cancel_pow ONE _ _ (2 * j - 1) H1 H2j1).
        replace (q * ONE * ONE ^ (2 * j - 1)) with (q * ONE ^ (e - 1)).
        2:{ replace (e - 1) with (Z.succ (2 * j - 1)) by (clear - Ee; lia). rewrite Z.pow_succ_r by exact H2j1. ring. }
        rewrite Hq. replace (a * b * ONE ^ (2 * j - 1)) with (a * (b * ONE ^ (2 * j - 1))) by ring.
        rewrite <- Hb. replace e with (Z.succ (2 * j)) at 1 by (clear - Ee; lia). rewrite Z.pow_succ_r by (clear - Hj1; lia). reflexivity. }
      assert (HbA : b * ONE ^ (2 * j - 1) = Z.abs a ^ (2 * j)).
      { rewrite <- Hb. rewrite !pow_sq by lia. rewrite <- Z.abs_mul. f_equal. rewrite Z.abs_eq; [reflexivity|exact Hsq]. }
      assert (Hbin : b < K).
      { destruct (Z_le_gt_dec (Z.abs a) ONE) as [Hs|Hbig].
        - assert (H2j : 1 <= 2 * j) by (clear - Hj1; lia).
          pose proof (L4 (Z.abs a) b ONE (2 * j) H1 HA0 Hs H2j HbA) as X4. clear - X4 Hs H3. lia.
        - assert (Hab : Z.abs q * ONE = Z.abs a * b).
          { rewrite <- (Z.abs_eq ONE) at 1 by lia. rewrite <- Z.abs_mul, Hqab, Z.abs_mul, (Z.abs_eq b) by lia. reflexivity. }
          assert (Hbig' : ONE < Z.abs a) by (clear - Hbig; lia).
          assert (HQ0 : 0 <= Z.abs q) by apply Z.abs_nonneg.
          assert (HQK : Z.abs q <= K) by (clear - Hq'; lia).
          exact (L5 (Z.abs a) b (Z.abs q) ONE K H4 H1 Hbig' Hb0 HQ0 HQK Hab). }
      assert (Hdin : InF f d).
      { apply InF_nonneg; [exact Hd0|].
        destruct (Z_le_gt_dec (Z.abs a) ONE) as [Hs|Hbig].
        - pose proof (L1 (Z.abs a) d ONE H1 HA0 Hs HdA) as X1. clear - X1 Hs H3. lia.
        - assert (Hbig' : ONE < Z.abs a) by (clear - Hbig; lia).
          pose proof (L2 (Z.abs a) d ONE H1 Hbig' HdA) as X2.
          assert (X2' : ONE <= d) by (clear - X2; lia).
          pose proof (L3 d b ONE j H1 X2' Hj1 (eq_sym Hbj)) as X3. clear - X3 Hbin. lia. }
      rewrite (exact_ok d Hdin). cbn [bind].
      assert (Hjb : 1 <= j < 2 ^ Z.of_nat k) by (clear - Hj1 He Ee; lia).
      rewrite (IH d j b Hdin Hjb Hbj (InF_nonneg b Hb0 Hbin)). cbn [bind].
      assert (Hquot2 : Z.quot (a * b) ONE = q) by (rewrite <- Hqab; apply Z.quot_mul; lia).
      rewrite Hquot2. apply exact_ok. exact Hqin.
  Qed.
End Rep.
