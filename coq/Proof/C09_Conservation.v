(* C09 — conservation of fungible resources by every instruction of Model/C09_Worktop.v:
   for each resource, (account vault + all bucket nodes + burned tally) is invariant. *)
From Coq Require Import List ZArith NArith Bool Lia.
Import ListNotations.
Require Import RV.Model.C10_ProofLock RV.Model.C09_Worktop RV.Proof.C10_ProofLock.
Open Scope Z_scope.

(* amount held by a container, liquid + locked (non-fungible containers count 0 here) *)
Definition camt (v : cont) : Z := match v with CF c => fliq c + fmax (flocked c) | CN _ => 0 end.
Definition sel (r r' : N) (x : Z) : Z := if (r' =? r)%N then x else 0.
Fixpoint bsum (r : N) (l : list (N * (N * cont))) : Z :=
  match l with [] => 0 | (_, (r', v)) :: t => sel r r' (camt v) + bsum r t end.
Fixpoint vsum (r : N) (l : list (N * cont)) : Z :=
  match l with [] => 0 | (k, v) :: t => sel r k (camt v) + vsum r t end.
Fixpoint fsum (r : N) (l : list (N * Z)) : Z :=
  match l with [] => 0 | (k, x) :: t => sel r k x + fsum r t end.
(* everything of resource r that exists in the transaction *)
Definition hold (s : st) (r : N) : Z := vsum r (vaults s) + bsum r (buckets s) + fsum r (burnedf s).

(* ---- list lemmas ---- *)
Lemma bsum_app : forall r a b, bsum r (a ++ b) = bsum r a + bsum r b.
Proof. induction a as [|[n [r' v]] t IH]; intros b; cbn [app bsum]; [lia|]. rewrite IH. lia. Qed.
Lemma bsum_aset : forall r l n r0 v v', afind n l = Some (r0, v) ->
  bsum r (aset n (r0, v') l) = bsum r l + sel r r0 (camt v' - camt v).
Proof.
  induction l as [|[k [rk vk]] t IH]; intros n r0 v v' H; cbn [afind aset bsum] in *; [discriminate|].
  destruct (N.eqb_spec k n).
  - injection H as -> ->. cbn [bsum]. unfold sel. destruct (r0 =? r)%N; lia.
  - cbn [bsum]. rewrite (IH _ _ _ _ H). lia.
Qed.
Lemma bsum_aremove : forall r l n r0 v, afind n l = Some (r0, v) ->
  bsum r (aremove n l) = bsum r l - sel r r0 (camt v).
Proof.
  induction l as [|[k [rk vk]] t IH]; intros n r0 v H; cbn [afind aremove bsum] in *; [discriminate|].
  destruct (N.eqb_spec k n).
  - injection H as -> ->. lia.
  - cbn [bsum]. rewrite (IH _ _ _ H). lia.
Qed.
Lemma vsum_aset : forall r l k v v', afind k l = Some v ->
  vsum r (aset k v' l) = vsum r l + sel r k (camt v' - camt v).
Proof.
  induction l as [|[k0 v0] t IH]; intros k v v' H; cbn [afind aset vsum] in *; [discriminate|].
  destruct (N.eqb_spec k0 k).
  - injection H as ->. subst. cbn [vsum]. unfold sel. destruct (k =? r)%N; lia.
  - cbn [vsum]. rewrite (IH _ _ _ H). lia.
Qed.
Lemma fsum_addf : forall r l k a, fsum r (addf k a l) = fsum r l + sel r k a.
Proof.
  induction l as [|[k0 x] t IH]; intros k a; cbn [addf fsum]; [lia|].
  destruct (N.eqb_spec k0 k).
  - subst. cbn [fsum]. unfold sel. destruct (k =? r)%N; lia.
  - cbn [fsum]. rewrite IH. lia.
Qed.

(* ---- container lemmas (no invariant needed) ---- *)
Lemma fmax_incr : forall a l, fmax (cnt_incr a l) = Z.max a (fmax l).
Proof.
  intros a l. rewrite !fmax_lmax. change (Z.max a (lmax (keys l))) with (lmax (a :: keys l)).
  apply lmax_ext. intros b. rewrite keys_incr_in. cbn [In]. intuition.
Qed.
Lemma lock_camt : forall a c c', f_lock a c = Ok c' -> camt (CF c') = camt (CF c).
Proof.
  intros a c c' H. unfold f_lock in H. cbn [camt].
  destruct (Z.gtb_spec a (fmax (flocked c))) as [Hgt|Hle].
  - unfold dsub in H. destruct (dec_ok (a - fmax (flocked c))); [|discriminate].
    unfold liq_take in H. destruct (fliq c <? a - fmax (flocked c)); [discriminate|].
    unfold dsub in H. destruct (dec_ok (fliq c - (a - fmax (flocked c)))); [|discriminate].
    cbn [bind] in H. injection H as <-. cbn [fliq flocked]. rewrite fmax_incr. lia.
  - cbn [bind] in H. injection H as <-. cbn [fliq flocked]. rewrite fmax_incr. lia.
Qed.
Lemma unlock_camt : forall a c c', f_unlock a c = Ok c' -> camt (CF c') = camt (CF c).
Proof.
  intros a c c' H. unfold f_unlock in H. cbn [camt].
  destruct (cnt_find a (flocked c)) as [cnt|]; [|discriminate].
  set (l2 := if (1 <? cnt)%N then cnt_remove a (flocked c) ++ [(a, (cnt - 1)%N)] else cnt_remove a (flocked c)) in *.
  unfold dsub in H. destruct (dec_ok (fmax (flocked c) - fmax l2)); [|discriminate].
  unfold f_internal_put in H. cbn [fliq flocked] in H.
  destruct (Z.eqb_spec (fmax (flocked c) - fmax l2) 0) as [Hz|Hnz].
  - injection H as <-. cbn [fliq flocked]. lia.
  - unfold liq_put, dadd in H. destruct (dec_ok (fliq c + (fmax (flocked c) - fmax l2))); [|discriminate].
    cbn [bind] in H. injection H as <-. cbn [fliq flocked]. lia.
Qed.
Lemma take_camt : forall div a c c' amt, f_take div a c = Ok (c', amt) -> amt = a /\ camt (CF c') = camt (CF c) - a.
Proof.
  intros div a c c' amt H. unfold f_take in H. destruct (negb (check_fungible_amount div a)); [discriminate|].
  unfold liq_take in H. destruct (fliq c <? a); [discriminate|]. unfold dsub in H.
  destruct (dec_ok (fliq c - a)); [|discriminate]. cbn [bind] in H. injection H as <- <-. cbn [camt fliq flocked]. lia.
Qed.
Lemma put_camt : forall x c c', f_put x c = Ok c' -> camt (CF c') = camt (CF c) + x.
Proof.
  intros x c c' H. unfold f_put, f_internal_put in H. destruct (Z.eqb_spec x 0) as [->|Hnz].
  - injection H as <-. lia.
  - unfold liq_put, dadd in H. destruct (dec_ok (fliq c + x)); [|discriminate]. cbn [bind] in H. injection H as <-.
    cbn [camt fliq flocked]. lia.
Qed.
Lemma create_proof_camt : forall div a c c', f_create_proof div a c = Ok c' -> camt (CF c') = camt (CF c).
Proof.
  intros div a c c' H. unfold f_create_proof in H. destruct (negb (check_fungible_amount div a)); [discriminate|].
  destruct (f_lock a c) as [c1| |] eqn:E; try discriminate. cbn [bind] in H. destruct (a =? 0); [discriminate|].
  injection H as <-. eapply lock_camt, E.
Qed.
Lemma unlocked_camt : forall v, cont_is_locked v = false -> camt v = match v with CF c => fliq c | CN _ => 0 end.
Proof. intros [c|c] H; cbn in *; [|reflexivity]. unfold f_is_locked in H. destruct (flocked c); [cbn; lia|discriminate]. Qed.

(* ---- state helpers ---- *)
Lemma hold_same : forall s s' r, vaults s' = vaults s -> buckets s' = buckets s -> burnedf s' = burnedf s -> hold s' r = hold s r.
Proof. intros s s' r H1 H2 H3. unfold hold. rewrite H1, H2, H3. reflexivity. Qed.

Lemma put_cont_hold : forall s c r0 v v' r, get_cont s c = Some (r0, v) -> camt v' = camt v ->
  hold (put_cont s c v') r = hold s r.
Proof.
  intros s [k|n] r0 v v' r H E; unfold get_cont, put_cont in *.
  - destruct (afind k (vaults s)) as [v0|] eqn:Ef; [|discriminate]. injection H as <- <-.
    unfold hold. cbn. rewrite (vsum_aset _ _ _ _ _ Ef), E. unfold sel. destruct (k =? r)%N; lia.
  - rewrite H. unfold hold. cbn. rewrite (bsum_aset _ _ _ _ _ _ H), E. unfold sel. destruct (r0 =? r)%N; lia.
Qed.

Lemma new_bucket_hold : forall s r0 v s' n r, new_bucket s r0 v = (s', n) -> hold s' r = hold s r + sel r r0 (camt v).
Proof.
  intros s r0 v s' n r H. unfold new_bucket in H. injection H as <- _. unfold hold. cbn.
  rewrite bsum_app. cbn [bsum]. lia.
Qed.

Lemma drop_bucket_hold : forall s n s' r0 v r, drop_bucket s n = Ok (s', (r0, v)) ->
  hold s' r = hold s r - sel r r0 (camt v) /\ cont_is_locked v = false.
Proof.
  intros s n s' r0 v r H. unfold drop_bucket in H. destruct (afind n (buckets s)) as [[r1 v1]|] eqn:E; [|discriminate].
  destruct (cont_is_locked v1) eqn:El; [discriminate|]. injection H as <- <- <-. split; [|exact El].
  unfold hold. cbn. rewrite (bsum_aremove _ _ _ _ _ E). lia.
Qed.

Lemma drop_empty_hold : forall s n s' r, drop_empty s n = Ok s' -> hold s' r = hold s r.
Proof.
  intros s n s' r H. unfold drop_empty in H. destruct (drop_bucket s n) as [[s1 [r0 v]]| |] eqn:E; try discriminate.
  cbn [bind] in H. destruct (cont_liquid_zero v) eqn:Ez; [|discriminate]. injection H as <-.
  destruct (drop_bucket_hold _ _ _ _ _ r E) as [Hh Hl]. rewrite Hh, (unlocked_camt _ Hl).
  destruct v as [c|c]; cbn in Ez; [apply Z.eqb_eq in Ez; rewrite Ez|]; unfold sel; destruct (r0 =? r)%N; lia.
Qed.

Ltac fin := unfold sel in *; repeat match goal with H : context [N.eqb _ _] |- _ => revert H end;
  repeat match goal with |- context [(?a =? ?b)%N] => destruct (a =? b)%N end; intros; lia.

Lemma bucket_put_hold : forall s own other s' r, bucket_put s own other = Ok s' -> hold s' r = hold s r.
Proof.
  intros s own other s' r H. unfold bucket_put in H.
  destruct (drop_bucket s other) as [[s1 [ro vo]]| |] eqn:E; try discriminate. cbn [bind] in H.
  destruct (drop_bucket_hold _ _ _ _ _ r E) as [Hh Hl]. pose proof (unlocked_camt _ Hl) as Hu.
  destruct (afind own (buckets s1)) as [[r1 [c|c]]|] eqn:Eo; try discriminate; destruct vo as [co|co]; try discriminate;
    destruct (N.eqb_spec ro r1) as [->|]; cbn [negb] in H; try discriminate.
  - unfold liq_put, dadd in H. destruct (dec_ok (fliq c + fliq co)); [|discriminate]. cbn [bind] in H. injection H as <-.
    unfold hold in *. cbn [vaults buckets burnedf set_buckets] in *. rewrite (bsum_aset _ _ _ _ _ _ Eo).
    cbn [camt fliq flocked] in *. fin.
  - injection H as <-. unfold hold in *. cbn [vaults buckets burnedf set_buckets] in *. rewrite (bsum_aset _ _ _ _ _ _ Eo).
    cbn [camt] in *. fin.
Qed.

Lemma ok_inj : forall (A : Type) (x y : A), @Ok A x = Ok y -> x = y.
Proof. intros A x y H. injection H. auto. Qed.

Lemma cont_amount_camt : forall v a, cont_amount v = Ok a -> forall c, v = CF c -> a = camt v.
Proof.
  intros v a H c ->. cbn in *. unfold f_amount, dadd in H. destruct (dec_ok (fliq c + fmax (flocked c))); [|discriminate].
  injection H as <-. reflexivity.
Qed.

Lemma worktop_put_hold : forall s n s' r, worktop_put s n = Ok s' -> hold s' r = hold s r.
Proof.
  intros s n s' r H. unfold worktop_put in H. destruct (afind n (buckets s)) as [[r0 v]|]; [|discriminate].
  destruct (cont_amount v) as [amt| |]; try discriminate. cbn [bind] in H.
  destruct (amt =? 0); [eapply drop_empty_hold, H|].
  destruct (afind r0 (worktop s)) as [own|]; [eapply bucket_put_hold, H|].
  injection H as <-. apply hold_same; reflexivity.
Qed.

Lemma new_empty_bucket_hold : forall s r0 s' n r, new_empty_bucket s r0 = Ok (s', n) -> hold s' r = hold s r.
Proof.
  intros s r0 s' n r H. unfold new_empty_bucket in H. destruct (kind_of s r0) as [k|]; [|discriminate].
  apply ok_inj in H. rewrite (new_bucket_hold _ _ _ _ _ r H). destruct k; cbn; fin.
Qed.

Lemma bucket_take_hold : forall s n a s' m r, bucket_take s n a = Ok (s', m) -> hold s' r = hold s r.
Proof.
  intros s n a s' m r H. unfold bucket_take in H. destruct (afind n (buckets s)) as [[r0 [c|c]]|] eqn:E; try discriminate.
  - destruct (f_take (div_of s r0) a c) as [[c' amt]| |] eqn:Et; try discriminate. cbn [bind] in H. apply ok_inj in H.
    rewrite (new_bucket_hold _ _ _ _ _ r H). destruct (take_camt _ _ _ _ _ Et) as [-> Hc].
    unfold hold. cbn [vaults buckets burnedf set_buckets]. rewrite (bsum_aset _ _ _ _ _ _ E). rewrite Hc.
    cbn [camt f_new fliq flocked]. change (fmax []) with 0. fin.
  - destruct (n_take_amount a c) as [[c' ids]| |]; try discriminate. cbn [bind] in H. apply ok_inj in H.
    rewrite (new_bucket_hold _ _ _ _ _ r H). unfold hold. cbn [vaults buckets burnedf set_buckets].
    rewrite (bsum_aset _ _ _ _ _ _ E). cbn [camt]. fin.
Qed.
Lemma bucket_take_ids_hold : forall s n ids s' m r, bucket_take_ids s n ids = Ok (s', m) -> hold s' r = hold s r.
Proof.
  intros s n ids s' m r H. unfold bucket_take_ids in H. destruct (afind n (buckets s)) as [[r0 [c|c]]|] eqn:E; try discriminate.
  destruct (n_take_ids ids c) as [[c' ids']| |]; try discriminate. cbn [bind] in H. apply ok_inj in H.
  rewrite (new_bucket_hold _ _ _ _ _ r H). unfold hold. cbn [vaults buckets burnedf set_buckets].
  rewrite (bsum_aset _ _ _ _ _ _ E). cbn [camt]. fin.
Qed.

Lemma worktop_take_hold : forall s r0 a s' n r, worktop_take s r0 a = Ok (s', n) -> hold s' r = hold s r.
Proof.
  intros s r0 a s' n r H. unfold worktop_take in H. destruct (a =? 0); [eapply new_empty_bucket_hold, H|].
  destruct (afind r0 (worktop s)) as [w|]; [|discriminate].
  destruct (afind w (buckets s)) as [[rv v]|]; [|discriminate].
  destruct (cont_amount v) as [ex| |]; try discriminate. cbn [bind] in H.
  destruct (ex <? a); [discriminate|]. destruct (ex =? a); [|eapply bucket_take_hold, H].
  injection H as <- _. apply hold_same; reflexivity.
Qed.
Lemma worktop_take_ids_hold : forall s r0 ids s' n r, worktop_take_ids s r0 ids = Ok (s', n) -> hold s' r = hold s r.
Proof.
  intros s r0 ids s' n r H. unfold worktop_take_ids in H. destruct ids as [|i t]; [eapply new_empty_bucket_hold, H|].
  destruct (afind r0 (worktop s)) as [w|]; [|discriminate].
  destruct (afind w (buckets s)) as [[rv [c|c]]|]; try discriminate.
  destruct (negb (subset (i :: t) (n_ids c))); [discriminate|].
  destruct (len (n_ids c) =? len (i :: t))%N; [|eapply bucket_take_ids_hold, H].
  injection H as <- _. apply hold_same; reflexivity.
Qed.
Lemma worktop_take_all_hold : forall s r0 s' n r, worktop_take_all s r0 = Ok (s', n) -> hold s' r = hold s r.
Proof.
  intros s r0 s' n r H. unfold worktop_take_all in H. destruct (afind r0 (worktop s)); [|eapply new_empty_bucket_hold, H].
  injection H as <- _. apply hold_same; reflexivity.
Qed.

Lemma lock_proof_hold : forall s p s' r, lock_proof s p = Ok s' -> hold s' r = hold s r.
Proof.
  intros s [c a|c ids] s' r H; unfold lock_proof in H; destruct (get_cont s c) as [[r0 [fc|nc]]|] eqn:E; try discriminate.
  - destruct (f_lock a fc) as [fc'| |] eqn:El; try discriminate. cbn [bind] in H. injection H as <-.
    eapply put_cont_hold; [exact E|eapply lock_camt, El].
  - destruct (n_lock ids nc) as [nc'| |]; try discriminate. cbn [bind] in H. injection H as <-.
    eapply put_cont_hold; [exact E|reflexivity].
Qed.
Lemma drop_proof_hold : forall s p s' r, drop_proof s p = Ok s' -> hold s' r = hold s r.
Proof.
  intros s [c a|c ids] s' r H; unfold drop_proof in H; destruct (get_cont s c) as [[r0 [fc|nc]]|] eqn:E; try discriminate.
  - destruct (f_unlock a fc) as [fc'| |] eqn:El; try discriminate. cbn [bind] in H. injection H as <-.
    eapply put_cont_hold; [exact E|eapply unlock_camt, El].
  - destruct (n_unlock ids nc) as [nc'| |]; try discriminate. cbn [bind] in H. injection H as <-.
    eapply put_cont_hold; [exact E|reflexivity].
Qed.
Lemma drop_proofs_hold : forall ps s s' r, drop_proofs s ps = Ok s' -> hold s' r = hold s r.
Proof.
  induction ps as [|p t IH]; intros s s' r H; cbn [drop_proofs] in H; [injection H as <-; reflexivity|].
  destruct (drop_proof s p) as [s1| |] eqn:E; try discriminate. cbn [bind] in H.
  rewrite (IH _ _ _ H). eapply drop_proof_hold, E.
Qed.
Lemma create_proof_amount_hold : forall s c a s' p r, create_proof_amount s c a = Ok (s', p) -> hold s' r = hold s r.
Proof.
  intros s c a s' p r H. unfold create_proof_amount in H. destruct (get_cont s c) as [[r0 [fc|nc]]|] eqn:E; try discriminate.
  destruct (f_create_proof (div_of s r0) a fc) as [fc'| |] eqn:El; try discriminate. cbn [bind] in H. injection H as <- _.
  eapply put_cont_hold; [exact E|eapply create_proof_camt, El].
Qed.
Lemma create_proof_ids_hold : forall s c ids s' p r, create_proof_ids s c ids = Ok (s', p) -> hold s' r = hold s r.
Proof.
  intros s c ids s' p r H. unfold create_proof_ids in H. destruct (get_cont s c) as [[r0 [fc|nc]]|] eqn:E; try discriminate.
  destruct (n_create_proof ids nc) as [nc'| |]; try discriminate. cbn [bind] in H. injection H as <- _.
  eapply put_cont_hold; [exact E|reflexivity].
Qed.
Lemma create_proof_all_hold : forall s c s' p r, create_proof_all s c = Ok (s', p) -> hold s' r = hold s r.
Proof.
  intros s c s' p r H. unfold create_proof_all in H. destruct (get_cont s c) as [[r0 [fc|nc]]|]; try discriminate.
  - destruct (f_amount fc); try discriminate. cbn [bind] in H. eapply create_proof_amount_hold, H.
  - eapply create_proof_ids_hold, H.
Qed.

Lemma burn_bucket_hold : forall s n s' r, burn_bucket s n = Ok s' -> hold s' r = hold s r.
Proof.
  intros s n s' r H. unfold burn_bucket in H. destruct (drop_bucket s n) as [[s1 [r0 v]]| |] eqn:E; try discriminate.
  cbn [bind] in H. destruct (drop_bucket_hold _ _ _ _ _ r E) as [Hh Hl]. pose proof (unlocked_camt _ Hl) as Hu.
  destruct v as [c|c]; injection H as <-; unfold hold in *; cbn [vaults buckets burnedf set_burnedf set_burnedn] in *.
  - rewrite fsum_addf. fin.
  - cbn [camt] in *. fin.
Qed.
Lemma vault_put_hold : forall s n s' r, vault_put s n = Ok s' -> hold s' r = hold s r.
Proof.
  intros s n s' r H. unfold vault_put in H. destruct (drop_bucket s n) as [[s1 [r0 vo]]| |] eqn:E; try discriminate.
  cbn [bind] in H. destruct (drop_bucket_hold _ _ _ _ _ r E) as [Hh Hl]. pose proof (unlocked_camt _ Hl) as Hu.
  destruct (afind r0 (vaults s1)) as [[c|c]|] eqn:Ev; try discriminate; destruct vo as [co|co]; try discriminate.
  - destruct (f_put (fliq co) c) as [c'| |] eqn:Ep; try discriminate. cbn [bind] in H. injection H as <-.
    unfold hold in *. cbn [vaults buckets burnedf set_vaults] in *. rewrite (vsum_aset _ _ _ _ _ Ev), (put_camt _ _ _ Ep). fin.
  - injection H as <-. unfold hold in *. cbn [vaults buckets burnedf set_vaults] in *. rewrite (vsum_aset _ _ _ _ _ Ev). cbn [camt] in *. fin.
Qed.
Lemma vault_put_all_hold : forall ns s s' r, vault_put_all s ns = Ok s' -> hold s' r = hold s r.
Proof.
  induction ns as [|n t IH]; intros s s' r H; cbn [vault_put_all] in H; [injection H as <-; reflexivity|].
  destruct (vault_put s n) as [s1| |] eqn:E; try discriminate. cbn [bind] in H.
  rewrite (IH _ _ _ H). eapply vault_put_hold, E.
Qed.
Lemma vault_take_hold : forall s r0 a s' n r, vault_take s r0 a = Ok (s', n) -> hold s' r = hold s r.
Proof.
  intros s r0 a s' n r H. unfold vault_take in H. destruct (afind r0 (vaults s)) as [[c|c]|] eqn:E; try discriminate.
  destruct (f_take (div_of s r0) a c) as [[c' amt]| |] eqn:Et; try discriminate. cbn [bind] in H. apply ok_inj in H.
  rewrite (new_bucket_hold _ _ _ _ _ r H). destruct (take_camt _ _ _ _ _ Et) as [-> Hc].
  unfold hold. cbn [vaults buckets burnedf set_vaults]. rewrite (vsum_aset _ _ _ _ _ E), Hc.
  cbn [camt f_new fliq flocked]. change (fmax []) with 0. fin.
Qed.
Lemma vault_take_ids_hold : forall s r0 ids s' n r, vault_take_ids s r0 ids = Ok (s', n) -> hold s' r = hold s r.
Proof.
  intros s r0 ids s' n r H. unfold vault_take_ids in H. destruct (afind r0 (vaults s)) as [[c|c]|] eqn:E; try discriminate.
  destruct (n_take_ids ids c) as [[c' ids']| |]; try discriminate. cbn [bind] in H. apply ok_inj in H.
  rewrite (new_bucket_hold _ _ _ _ _ r H). unfold hold. cbn [vaults buckets burnedf set_vaults].
  rewrite (vsum_aset _ _ _ _ _ E). cbn [camt]. fin.
Qed.
Lemma take_named_hold : forall s b s' n r, take_named s b = Ok (s', n) -> hold s' r = hold s r.
Proof. intros s b s' n r H. unfold take_named in H. destruct (afind b (named s)); [|discriminate]. injection H as <- _. reflexivity. Qed.

(* ---- every instruction conserves every resource ---- *)
Ltac bindstep H E := match type of H with
  | bind ?x _ = Ok _ => destruct x as [?|?|] eqn:E; try discriminate; cbn [bind] in H end.

Theorem step_conserves : forall s o s' r, step s o = Ok s' -> hold s' r = hold s r.
Proof.
  intros s o s' r H. destruct o; cbn [step] in H.
  all: try (unfold need_owner in H; destruct (signed s); cbn [bind] in H; [|discriminate]).
  - bindstep H E. destruct a0 as [s1 n]. rewrite (worktop_put_hold _ _ _ r H). eapply vault_take_hold, E.
  - bindstep H E. destruct a as [s1 n]. rewrite (worktop_put_hold _ _ _ r H). eapply vault_take_ids_hold, E.
  - bindstep H E. destruct a0 as [s1 n]. rewrite (burn_bucket_hold _ _ _ r H). eapply vault_take_hold, E.
  - bindstep H E. destruct a as [s1 n]. rewrite (burn_bucket_hold _ _ _ r H). eapply vault_take_ids_hold, E.
  - bindstep H E. destruct a0 as [s1 p]. injection H as <-. rewrite <- (create_proof_amount_hold _ _ _ _ _ r E). apply hold_same; reflexivity.
  - bindstep H E. destruct a as [s1 p]. injection H as <-. rewrite <- (create_proof_ids_hold _ _ _ _ _ r E). apply hold_same; reflexivity.
  - bindstep H E. destruct a0 as [s1 n]. rewrite (worktop_put_hold _ _ _ r H). eapply vault_take_hold, E.
  - bindstep H E. destruct a as [s1 n]. rewrite (worktop_put_hold _ _ _ r H). eapply vault_take_ids_hold, E.
  - destruct (rev (azone s)); [discriminate|]. injection H as <-. apply hold_same; reflexivity.
  - destruct (afind p (pnamed s)); [|discriminate]. injection H as <-. apply hold_same; reflexivity.
  - destruct (afind p (pnamed s)) as [pr|]; [|discriminate]. bindstep H E. injection H as <-.
    rewrite <- (lock_proof_hold _ _ _ r E). apply hold_same; reflexivity.
  - destruct (afind p (pnamed s)) as [pr|]; [|discriminate]. rewrite (drop_proof_hold _ _ _ r H). apply hold_same; reflexivity.
  - bindstep H E. rewrite (drop_proofs_hold _ _ _ r H).
    transitivity (hold a r); [apply hold_same; reflexivity|]. rewrite (drop_proofs_hold _ _ _ r E). apply hold_same; reflexivity.
  - rewrite (drop_proofs_hold _ _ _ r H). apply hold_same; reflexivity.
  - rewrite (drop_proofs_hold _ _ _ r H). apply hold_same; reflexivity.
  - bindstep H E. destruct a0 as [s1 n]. injection H as <-. rewrite <- (worktop_take_hold _ _ _ _ _ r E). apply hold_same; reflexivity.
  - bindstep H E. destruct a as [s1 n]. injection H as <-. rewrite <- (worktop_take_ids_hold _ _ _ _ _ r E). apply hold_same; reflexivity.
  - bindstep H E. destruct a as [s1 n]. injection H as <-. rewrite <- (worktop_take_all_hold _ _ _ _ r E). apply hold_same; reflexivity.
  - bindstep H E. destruct a as [s1 n]. rewrite (worktop_put_hold _ _ _ r H). eapply take_named_hold, E.
  - unfold get_named in H. destruct (afind b (named s)) as [n|]; [|discriminate]. cbn [bind] in H.
    bindstep H E. destruct a0 as [s1 p]. injection H as <-. rewrite <- (create_proof_amount_hold _ _ _ _ _ r E). apply hold_same; reflexivity.
  - unfold get_named in H. destruct (afind b (named s)) as [n|]; [|discriminate]. cbn [bind] in H.
    bindstep H E. destruct a as [s1 p]. injection H as <-. rewrite <- (create_proof_ids_hold _ _ _ _ _ r E). apply hold_same; reflexivity.
  - unfold get_named in H. destruct (afind b (named s)) as [n|]; [|discriminate]. cbn [bind] in H.
    bindstep H E. destruct a as [s1 p]. injection H as <-. rewrite <- (create_proof_all_hold _ _ _ _ r E). apply hold_same; reflexivity.
  - bindstep H E. destruct a as [s1 n]. rewrite (burn_bucket_hold _ _ _ r H). eapply take_named_hold, E.
  - bindstep H E. destruct a as [s1 n]. unfold need_owner in H. destruct (signed s1); cbn [bind] in H; [|discriminate].
    rewrite (vault_put_hold _ _ _ r H). eapply take_named_hold, E.
  - cbv zeta in H. unfold need_owner in H. cbn [signed set_worktop] in H. destruct (signed s); cbn [bind] in H; [|discriminate].
    rewrite (vault_put_all_hold _ _ _ r H). apply hold_same; reflexivity.
  - bindstep H E. destruct (a0 <? a); [discriminate|]. injection H as <-. reflexivity.
  - bindstep H E. destruct (a =? 0); [discriminate|]. injection H as <-. reflexivity.
  - match type of H with (match ?d with _ => _ end) = _ => destruct d end; [|discriminate]. injection H as <-. reflexivity.
Qed.

Lemma drop_empty_all_hold : forall ns s s' r, drop_empty_all s ns = Ok s' -> hold s' r = hold s r.
Proof.
  induction ns as [|n t IH]; intros s s' r H; cbn [drop_empty_all] in H; [injection H as <-; reflexivity|].
  destruct (drop_empty s n) as [s1| |] eqn:E; try discriminate. cbn [bind] in H.
  rewrite (IH _ _ _ H). eapply drop_empty_hold, E.
Qed.
Theorem finish_conserves : forall s s' r, finish s = Ok s' -> hold s' r = hold s r.
Proof.
  intros s s' r H. unfold finish in H.
  bindstep H E1. bindstep H E2. bindstep H E3. destruct (buckets a1); [|discriminate]. injection H as <-.
  rewrite (drop_proofs_hold _ _ _ r E3). transitivity (hold a0 r); [apply hold_same; reflexivity|].
  rewrite (drop_proofs_hold _ _ _ r E2). transitivity (hold a r); [apply hold_same; reflexivity|].
  rewrite (drop_empty_all_hold _ _ _ r E1). apply hold_same; reflexivity.
Qed.
Theorem run_conserves : forall ops i s s' r, run_from i s ops = Done s' -> hold s' r = hold s r.
Proof.
  induction ops as [|o t IH]; intros i s s' r H; cbn [run_from] in H.
  - destruct (finish s) as [s1| |] eqn:E; try discriminate. injection H as <-. eapply finish_conserves, E.
  - destruct (step s o) as [s1| |] eqn:E; try discriminate. rewrite (IH _ _ _ r H). eapply step_conserves, E.
Qed.
