(* Proof/C26_RootPow.v — roots of the model are the exact roots truncated toward zero and fail only for
   even roots of negative values / degree zero; facts about checked_powi. *)
From Coq Require Import ZArith List Bool Lia.
Import ListNotations.
Require Import RV.Lib.DecCore RV.Lib.DecCoreFacts RV.Model.C25_Round RV.Model.C24_Dec RV.Model.C26_RootPow
  RV.Proof.C25_Round RV.Proof.C24_Dec.
Open Scope Z_scope.

Lemma pow_lt_base a b n : 1 <= n -> 0 <= a -> 0 <= b -> a ^ n < b ^ n -> a < b.
Proof.
  intros Hn Ha Hb H. destruct (Z_lt_le_dec a b) as [|Hge]; [assumption|].
  assert (b ^ n <= a ^ n) by (apply Z.pow_le_mono_l; lia). lia.
Qed.

Section Roots.
  Variable f : fmt.
  Hypothesis Hok : fmt_ok f.
  Let K := 2 ^ (fbits f - 1).

  Lemma K_pos' : 0 < K. Proof. apply (K_pos f Hok). Qed.
  Lemma one_lt_K' : 2 * one f < K. Proof. apply (one_lt_K f Hok). Qed.
  Lemma one_pos' : 0 < one f. Proof. apply (one_pos f Hok). Qed.
  Lemma InF_K z : InF f z <-> - K <= z <= K - 1. Proof. apply (InF_iff f). Qed.

  (* the n-th root of x*ONE^(n-1) always fits the format *)
  Lemma root_in_range x n : InF f x -> 2 <= n -> InF f (troot n (x * one f ^ (n - 1))).
  Proof.
    intros Hx Hn. pose proof K_pos'. pose proof one_lt_K'. pose proof one_pos'.
    apply -> InF_K in Hx.
    set (y := x * one f ^ (n - 1)).
    destruct (troot_spec n y ltac:(lia)) as ((Hlo & _) & _ & _).
    set (r := troot n y) in *.
    assert (Ho : 0 < one f ^ (n - 1)) by (apply Z.pow_pos_nonneg; lia).
    assert (HoK : one f ^ (n - 1) < K ^ (n - 1)) by (apply Z.pow_lt_mono_l; lia).
    assert (HK : K ^ n = K * K ^ (n - 1)).
    { replace n with (Z.succ (n - 1)) at 1 by lia. apply Z.pow_succ_r. lia. }
    assert (Hy : Z.abs y < K ^ n).
    { unfold y. rewrite Z.abs_mul, (Z.abs_eq (one f ^ (n - 1))) by lia. rewrite HK. nia. }
    assert (Hr : Z.abs r < K) by (apply (pow_lt_base _ _ n); lia).
    apply <- InF_K. lia.
  Qed.

  Theorem sqrt_thm x : InF f x ->
    dec_sqrt f x = if x <? 0 then Err ENone else Ok (Z.sqrt (x * one f)).
  Proof.
    intros Hx. unfold dec_sqrt. destruct (Z.ltb_spec x 0) as [Hneg|Hpos]; [reflexivity|].
    destruct (Z.eqb_spec x 0) as [->|Hnz]; [reflexivity|].
    rewrite (widen f Hok x Hx), (widen f Hok _ (one_InF f Hok)). cbn [bind].
    pose proof K_pos'. pose proof one_lt_K'. pose proof one_pos'. pose proof (one_lt_M f Hok) as HM.
    pose proof (KM f Hok) as HKM. fold K in HKM.
    pose proof Hx as Hx'. apply -> InF_K in Hx'.
    set (M := 2 ^ (wbits f - fbits f)) in *.
    assert (Hn : 0 <= x * one f < K * M).
    { assert (x * one f <= (K - 1) * one f) by (apply Z.mul_le_mono_nonneg_r; lia).
      assert (K * one f <= K * M) by (apply Z.mul_le_mono_nonneg_l; lia).
      assert (0 <= x * one f) by (apply Z.mul_nonneg_nonneg; lia).
      replace ((K - 1) * one f) with (K * one f - one f) in * by ring. lia. }
    unfold pmul. rewrite pan_in by (apply <- (InW_iff f Hok); fold K M; lia). cbn [bind].
    pose proof (Z.sqrt_spec (x * one f) ltac:(lia)) as Hs.
    set (r := Z.sqrt (x * one f)) in *.
    assert (Hr0 : 0 <= r) by (apply Z.sqrt_nonneg).
    cbv zeta in Hs.
    assert (HxK : x * one f < K * K).
    { assert (x * one f <= (K - 1) * one f) by (apply Z.mul_le_mono_nonneg_r; lia).
      assert (K * one f <= K * K) by (apply Z.mul_le_mono_nonneg_l; lia).
      replace ((K - 1) * one f) with (K * one f - one f) in * by ring. lia. }
    assert (HrK : r < K).
    { destruct (Z_lt_le_dec r K) as [|Hge]; [assumption|].
      assert (K * K <= r * r) by (apply Z.mul_le_mono_nonneg; lia). lia. }
    assert (HrW : InTy (wty f) r).
    { apply <- (InW_iff f Hok); fold K M.
      assert (K * 1 <= K * M) by (apply Z.mul_le_mono_nonneg_l; lia). lia. }
    rewrite (narrow f Hok r HrW). unfold exact_or_none, in_f.
    rewrite (proj2 (in_ity_iff _ _)); [reflexivity|]. apply <- InF_K. lia.
  Qed.

  Theorem nth_root_thm x n : InF f x -> 0 <= n ->
    dec_nth_root f x n =
      if ((x <? 0) && Z.even n) || (n =? 0) then Err ENone
      else Ok (troot n (x * one f ^ (n - 1))).
  Proof.
    intros Hx Hn. unfold dec_nth_root, dec_nth_root_with.
    destruct (((x <? 0) && Z.even n) || (n =? 0)) eqn:Hbad; [reflexivity|].
    apply orb_false_iff in Hbad. destruct Hbad as [_ Hn0]. apply Z.eqb_neq in Hn0.
    destruct (Z.eqb_spec n 1) as [->|Hn1].
    - f_equal. change (1 - 1) with 0. rewrite Z.pow_0_r, Z.mul_1_r.
      unfold troot. destruct (Z.ltb_spec x 0).
      + destruct (iroot_spec 1 (- x) ltac:(lia) ltac:(lia)) as (? & ? & ?). rewrite !Z.pow_1_r in *. lia.
      + destruct (iroot_spec 1 x ltac:(lia) ltac:(lia)) as (? & ? & ?). rewrite !Z.pow_1_r in *. lia.
    - destruct (Z.eqb_spec x 0) as [->|Hx0].
      + reflexivity.
      + unfold try_from_bigint. pose proof (root_in_range x n Hx ltac:(lia)) as Hr.
        unfold InF in Hr. apply in_ity_iff in Hr. rewrite Hr. reflexivity.
  Qed.
End Roots.

(* cube roots: Decimal through I320, PreciseDecimal through BigInt *)
Theorem cbrt_thm f x : f = DEC \/ f = PDEC -> InF f x ->
  dec_cbrt f x = Ok (troot 3 (x * one f ^ 2)).
Proof.
  intros Hf Hx. unfold dec_cbrt, dec_cbrt_with.
  assert (Hokf : fmt_ok f) by (destruct Hf as [->| ->]; [apply fmt_ok_DEC|apply fmt_ok_PDEC]).
  pose proof (root_in_range f Hokf x 3 Hx ltac:(lia)) as Hr. change (3 - 1) with 2 in Hr.
  destruct (Z.eqb_spec x 0) as [->|Hx0].
  { rewrite Z.mul_0_l. reflexivity. }
  destruct Hf as [->| ->]; cbn [cbrt_bits DEC PDEC].
  - rewrite (from_bnum_widen (fty DEC) 320 x) by (cbn [ibits fty SI fbits DEC]; try lia; exact Hx).
    rewrite (from_bnum_widen (fty DEC) 320 (one DEC)) by (cbn [ibits fty SI fbits DEC]; try lia; apply (one_InF DEC fmt_ok_DEC)).
    cbn [bind]. change (ppow (SI 320) (one DEC) 2) with (Ok (one DEC ^ 2) : res Z). cbn [bind].
    assert (Hn : InTy (SI 320) (x * one DEC ^ 2)).
    { unfold InF, fty in Hx. cbn [fbits DEC] in Hx. apply -> InTy_SI in Hx. apply <- InTy_SI.
      change (2 ^ (192 - 1)) with 3138550867693340381917894711603833208051177722232017256448 in Hx.
      change (one DEC ^ 2) with 1000000000000000000000000000000000000.
      change (2 ^ (320 - 1)) with 1067993517960455041197510853084776057301352261178326384973520803911109862890320275011481043468288.
      lia. }
    unfold pmul. rewrite pan_in by exact Hn. cbn [bind].
    assert (Hr320 : InTy (SI 320) (troot 3 (x * one DEC ^ 2))).
    { unfold InF, fty in Hr. cbn [fbits DEC] in Hr. apply -> InTy_SI in Hr. apply <- InTy_SI.
      change (2 ^ (192 - 1)) with 3138550867693340381917894711603833208051177722232017256448 in Hr.
      change (2 ^ (320 - 1)) with 1067993517960455041197510853084776057301352261178326384973520803911109862890320275011481043468288.
      lia. }
    unfold fty. cbn [fbits DEC].
    rewrite (try_from_bnum_narrow (SI 320) 192) by (cbn [ibits isigned SI]; try lia; exact Hr320).
    unfold InF, fty in Hr. cbn [fbits DEC] in Hr. apply in_ity_iff in Hr. rewrite Hr. reflexivity.
  - unfold try_from_bigint. unfold InF in Hr. apply in_ity_iff in Hr. rewrite Hr. reflexivity.
Qed.

(* ---------------------------------------------------------------------------------------------- *)
(* powers *)

(* the known finding: the exponent i64::MIN cannot be negated, so 1^MIN and (-1)^MIN fail although the
   exact result 1 is representable; for every other exponent they succeed *)
Lemma powi_refuted :
  dec_powi DEC (one DEC) I64_MIN = Err ENone /\ dec_powi DEC (- one DEC) I64_MIN = Err ENone /\
  dec_powi PDEC (one PDEC) I64_MIN = Err ENone /\ dec_powi PDEC (- one PDEC) I64_MIN = Err ENone /\
  dec_powi DEC (one DEC) (I64_MIN + 1) = Ok (one DEC) /\
  dec_powi DEC (- one DEC) I64_MAX = Ok (- one DEC).
Proof. repeat split; vm_compute; reflexivity. Qed.

