(* C21 — depth consistency of encoder and decoder, node bound of decoded values. *)
From Coq Require Import List NArith ZArith Bool Lia.
Import ListNotations.
Require Import RV.Lib.Utf8 RV.Model.C20_Sbor RV.Model.C21_Traverser RV.Proof.C20_Base RV.Proof.C20_Codec RV.Proof.C20_Sbor RV.Proof.C20_Top.
Open Scope N_scope.

Arguments N.add : simpl never. Arguments N.sub : simpl never. Arguments N.mul : simpl never.
Arguments N.eqb : simpl never. Arguments N.ltb : simpl never. Arguments N.leb : simpl never.
Arguments N.max : simpl never.

Definition ldepth (fs : list value) : N := fold_right (fun x m => N.max (vdepth x) m) 0 fs.
Definition edepth := fix go (es : list (value * value)) : N :=
  match es with [] => 0 | (k, x) :: t => N.max (N.max (vdepth k) (vdepth x)) (go t) end.
Lemma vdepth_pos : forall v, 1 <= vdepth v.
Proof. destruct v; cbn [vdepth]; lia. Qed.

(* ------------------------------------------------------------------------------------------ *)
(* encoder: the bytes do not depend on the limit; failure for depth is exactly MaxDepthExceeded *)
Definition ED (v : value) : Prop := forall md0 d0 bs, enc_body md0 d0 v = Ok bs ->
  forall md d, d <= md -> (d + vdepth v <= md + 1 -> enc_body md d v = Ok bs) /\
               (md + 1 < d + vdepth v -> enc_body md d v = Err (EMaxDepthExceeded md)).

Lemma ED_deeper : forall v, ED v -> forall md0 d0 bs, enc_deeper md0 d0 v = Ok bs ->
  forall md d, (d + vdepth v <= md -> enc_deeper md d v = Ok bs) /\
               (md < d + vdepth v -> enc_deeper md d v = Err (EMaxDepthExceeded md)).
Proof.
  intros v H md0 d0 bs E md d. unfold enc_deeper in *. destruct (md0 <? d0 + 1); [discriminate|].
  assert (P := vdepth_pos v).
  destruct (md <? d + 1) eqn:C.
  - apply N.ltb_lt in C. split; [intro; lia|reflexivity].
  - apply N.ltb_ge in C. destruct (H md0 (d0 + 1) bs E md (d + 1) C) as [H1 H2]. split; intro; [apply H1|apply H2]; lia.
Qed.

Lemma ED_fields : forall fs, Forall ED fs -> forall md0 d0 bs, enc_fields md0 d0 fs = Ok bs ->
  forall md d, d <= md -> (d + ldepth fs <= md -> enc_fields md d fs = Ok bs) /\
               (md < d + ldepth fs -> enc_fields md d fs = Err (EMaxDepthExceeded md)).
Proof.
  induction 1 as [|x t Hx Ht IH]; intros md0 d0 bs E md d Hd.
  - cbn in *. split; [intro; exact E|intro; lia].
  - cbn [enc_fields] in *. fold (enc_fields md0 d0) in E. fold (enc_fields md d). unfold enc_value in *.
    destruct (enc_deeper md0 d0 x) as [b| | |] eqn:Ex; cbn [bind] in E; try discriminate.
    destruct (enc_fields md0 d0 t) as [r| | |] eqn:Et; cbn [bind] in E; try discriminate.
    destruct (ED_deeper x Hx md0 d0 b Ex md d) as [X1 X2]. destruct (IH md0 d0 r Et md d Hd) as [T1 T2].
    cbn [ldepth fold_right]. fold (ldepth t).
    split; intro L.
    + rewrite X1 by lia. cbn [bind]. rewrite T1 by lia. exact E.
    + destruct (N.le_gt_cases (d + vdepth x) md) as [Fx|Fx].
      * rewrite X1 by exact Fx. cbn [bind]. rewrite T2 by lia. reflexivity.
      * rewrite X2 by exact Fx. reflexivity.
Qed.

Lemma ED_elems : forall es, Forall ED es -> forall md0 d0 ek bs, enc_elems md0 d0 ek es = Ok bs ->
  forall md d, d <= md -> (d + ldepth es <= md -> enc_elems md d ek es = Ok bs) /\
               (md < d + ldepth es -> enc_elems md d ek es = Err (EMaxDepthExceeded md)).
Proof.
  induction 1 as [|x t Hx Ht IH]; intros md0 d0 ek bs E md d Hd.
  - cbn in *. split; [intro; exact E|intro; lia].
  - cbn [enc_elems] in *. fold (enc_elems md0 d0 ek) in E. fold (enc_elems md d ek).
    destruct (negb (kind_eqb (value_kind x) ek)); [discriminate|].
    destruct (enc_deeper md0 d0 x) as [b| | |] eqn:Ex; cbn [bind] in E; try discriminate.
    destruct (enc_elems md0 d0 ek t) as [r| | |] eqn:Et; cbn [bind] in E; try discriminate.
    destruct (ED_deeper x Hx md0 d0 b Ex md d) as [X1 X2]. destruct (IH md0 d0 ek r Et md d Hd) as [T1 T2].
    cbn [ldepth fold_right]. fold (ldepth t).
    split; intro L.
    + rewrite X1 by lia. cbn [bind]. rewrite T1 by lia. exact E.
    + destruct (N.le_gt_cases (d + vdepth x) md) as [Fx|Fx].
      * rewrite X1 by exact Fx. cbn [bind]. rewrite T2 by lia. reflexivity.
      * rewrite X2 by exact Fx. reflexivity.
Qed.

Lemma ED_entries : forall es, Forall (fun p => ED (fst p) /\ ED (snd p)) es ->
  forall md0 d0 kk vk bs, enc_entries md0 d0 kk vk es = Ok bs ->
  forall md d, d <= md -> (d + edepth es <= md -> enc_entries md d kk vk es = Ok bs) /\
               (md < d + edepth es -> enc_entries md d kk vk es = Err (EMaxDepthExceeded md)).
Proof.
  induction 1 as [|[k x] t [Hk Hx] Ht IH]; intros md0 d0 kk vk bs E md d Hd.
  - cbn in *. split; [intro; exact E|intro; lia].
  - cbn [fst snd] in Hk, Hx.
    cbn [enc_entries] in *. fold (enc_entries md0 d0 kk vk) in E. fold (enc_entries md d kk vk).
    destruct (negb (kind_eqb (value_kind k) kk)); [discriminate|].
    destruct (enc_deeper md0 d0 k) as [a| | |] eqn:Ek; cbn [bind] in E; try discriminate.
    destruct (negb (kind_eqb (value_kind x) vk)); [discriminate|].
    destruct (enc_deeper md0 d0 x) as [b| | |] eqn:Ex; cbn [bind] in E; try discriminate.
    destruct (enc_entries md0 d0 kk vk t) as [r| | |] eqn:Et; cbn [bind] in E; try discriminate.
    destruct (ED_deeper k Hk md0 d0 a Ek md d) as [K1 K2].
    destruct (ED_deeper x Hx md0 d0 b Ex md d) as [X1 X2]. destruct (IH md0 d0 kk vk r Et md d Hd) as [T1 T2].
    cbn [edepth]. fold edepth.
    split; intro L.
    + rewrite K1 by lia. cbn [bind]. rewrite X1 by lia. cbn [bind]. rewrite T1 by lia. exact E.
    + destruct (N.le_gt_cases (d + vdepth k) md) as [Fk|Fk]; [|rewrite K2 by exact Fk; reflexivity].
      rewrite K1 by exact Fk. cbn [bind].
      destruct (N.le_gt_cases (d + vdepth x) md) as [Fx|Fx]; [|rewrite X2 by exact Fx; reflexivity].
      rewrite X1 by exact Fx. cbn [bind]. rewrite T2 by lia. reflexivity.
Qed.

Lemma vdepth_map : forall kk vk es, vdepth (VMap kk vk es) = 1 + edepth es.
Proof. reflexivity. Qed.

Lemma ED_all : forall v, ED v.
Proof.
  induction v using value_ind'; intros md0 d0 bs E md dd Hd;
    try (split; [intros _; exact E|cbn [vdepth]; intro; lia]).
  - rewrite enc_body_enum in *. destruct (write_size (nlen fs)) as [sz| | |]; cbn [bind] in *; try discriminate.
    destruct (enc_fields md0 d0 fs) as [r| | |] eqn:R; cbn [bind] in E; try discriminate.
    destruct (ED_fields fs H md0 d0 r R md dd Hd) as [T1 T2]. cbn [vdepth]. fold (ldepth fs).
    split; intro L; [rewrite T1 by lia; exact E|rewrite T2 by lia; reflexivity].
  - rewrite enc_body_array in *. destruct (write_size (nlen es)) as [sz| | |]; cbn [bind] in *; try discriminate.
    destruct (enc_elems md0 d0 ek es) as [r| | |] eqn:R; cbn [bind] in E; try discriminate.
    destruct (ED_elems es H md0 d0 ek r R md dd Hd) as [T1 T2]. cbn [vdepth]. fold (ldepth es).
    split; intro L; [rewrite T1 by lia; exact E|rewrite T2 by lia; reflexivity].
  - rewrite enc_body_tuple in *. destruct (write_size (nlen fs)) as [sz| | |]; cbn [bind] in *; try discriminate.
    destruct (enc_fields md0 d0 fs) as [r| | |] eqn:R; cbn [bind] in E; try discriminate.
    destruct (ED_fields fs H md0 d0 r R md dd Hd) as [T1 T2]. cbn [vdepth]. fold (ldepth fs).
    split; intro L; [rewrite T1 by lia; exact E|rewrite T2 by lia; reflexivity].
  - rewrite enc_body_map in *. destruct (write_size (nlen es)) as [sz| | |]; cbn [bind] in *; try discriminate.
    destruct (enc_entries md0 d0 kk vk es) as [r| | |] eqn:R; cbn [bind] in E; try discriminate.
    destruct (ED_entries es H md0 d0 kk vk r R md dd Hd) as [T1 T2]. rewrite vdepth_map.
    split; intro L; [rewrite T1 by lia; exact E|rewrite T2 by lia; reflexivity].
Qed.

(* ------------------------------------------------------------------------------------------ *)
(* decoder: on the encoding of a too-deep value it fails with MaxDepthExceeded                 *)
Section Dec.
Variable fl : flavour.

Definition DE (v : value) : Prop := forall md0 d0 bs,
  wf_value fl v = true -> valid_value v = true -> enc_body md0 d0 v = Ok bs ->
  forall md d f rest, (2 * length (bs ++ rest) + 1 <= f)%nat -> d <= md -> md + 1 < d + vdepth v ->
  dec_body fl f md d (value_kind v) (bs ++ rest) = Err (MaxDepthExceeded md).

Lemma DE_deeper : forall v, DE v -> forall md0 d0 bs,
  wf_value fl v = true -> valid_value v = true -> enc_deeper md0 d0 v = Ok bs ->
  forall md d f rest, (2 * length (bs ++ rest) + 1 <= f)%nat -> md < d + vdepth v ->
  dec_deeper fl f md d (value_kind v) (bs ++ rest) = Err (MaxDepthExceeded md).
Proof.
  intros v H md0 d0 bs W V E md d f rest Hf L. unfold enc_deeper in E. destruct (md0 <? d0 + 1); [discriminate|].
  unfold dec_deeper. destruct (md <? d + 1) eqn:C; [reflexivity|]. apply N.ltb_ge in C.
  eapply H; try eassumption. lia.
Qed.

(* a fitting child decodes (D1 + the encoder's independence of the limit) *)
Lemma fit_deeper : forall v md0 d0 bs,
  wf_value fl v = true -> valid_value v = true -> enc_deeper md0 d0 v = Ok bs ->
  forall md d f rest, (2 * length (bs ++ rest) + 1 <= f)%nat -> d + vdepth v <= md ->
  dec_deeper fl f md d (value_kind v) (bs ++ rest) = Ok (v, rest).
Proof.
  intros v md0 d0 bs W V E md d f rest Hf L.
  destruct (ED_deeper v (ED_all v) md0 d0 bs E md d) as [X1 _].
  apply (D1_deeper fl v (D1_all fl v) md d bs W V (X1 L)). exact Hf.
Qed.

Lemma DE_fields : forall fs, Forall DE fs -> forall md0 d0 bs,
  forallb (wf_value fl) fs = true -> forallb valid_value fs = true -> enc_fields md0 d0 fs = Ok bs ->
  forall md d f rest, (2 * length (bs ++ rest) + 2 <= f)%nat -> d <= md -> md < d + ldepth fs ->
  dec_elems fl f md d None (nlen fs) (bs ++ rest) = Err (MaxDepthExceeded md).
Proof.
  induction 1 as [|x t Hx Ht IH]; intros md0 d0 bs W V E md d f rest Hf Hd L.
  - cbn in L. lia.
  - cbn [forallb] in W, V. apply andb_true_iff in W. destruct W as [Wx Wt].
    apply andb_true_iff in V. destruct V as [Vx Vt].
    cbn [enc_fields] in E. fold (enc_fields md0 d0) in E. unfold enc_value in E at 1.
    destruct (enc_deeper md0 d0 x) as [b| | |] eqn:Ex; cbn [bind] in E; try discriminate.
    destruct (enc_fields md0 d0 t) as [r| | |] eqn:Et; cbn [bind] in E; try discriminate.
    inversion E; subst bs. clear E.
    destruct f as [|f]; [lia|]. rewrite dec_elems_S.
    rewrite nlen_cons. replace (nlen t + 1 =? 0) with false by (symmetry; apply N.eqb_neq; lia).
    replace (nlen t + 1 - 1) with (nlen t) by lia.
    cbn [app]. rewrite <- app_assoc.
    rewrite read_value_kind_as by (apply kind_ok_value_kind; exact Wx). cbn [bind].
    cbn [app length] in Hf. rewrite !app_length in Hf.
    cbn [ldepth fold_right] in L. fold (ldepth t) in L.
    destruct (N.le_gt_cases (d + vdepth x) md) as [Fx|Fx].
    + rewrite (fit_deeper x md0 d0 b Wx Vx Ex) by (try rewrite !app_length; lia). cbn [bind].
      rewrite (IH md0 d0 r Wt Vt Et) by (try rewrite app_length; lia). reflexivity.
    + rewrite (DE_deeper x Hx md0 d0 b Wx Vx Ex) by (try rewrite !app_length; lia). reflexivity.
Qed.

Lemma enc_deeper_nonempty : forall md d v b, wf_value fl v = true -> enc_deeper md d v = Ok b -> (1 <= length b)%nat.
Proof.
  intros md d v b W E. unfold enc_deeper in E. destruct (md <? d + 1); [discriminate|].
  eapply enc_body_nonempty; eassumption.
Qed.

Lemma DE_elems : forall es, Forall DE es -> forall md0 d0 ek bs,
  forallb (wf_value fl) es = true -> forallb valid_value es = true -> enc_elems md0 d0 ek es = Ok bs ->
  forall md d f rest, (2 * length (bs ++ rest) + 2 <= f)%nat -> d <= md -> md < d + ldepth es ->
  dec_elems fl f md d (Some ek) (nlen es) (bs ++ rest) = Err (MaxDepthExceeded md).
Proof.
  induction 1 as [|x t Hx Ht IH]; intros md0 d0 ek bs W V E md d f rest Hf Hd L.
  - cbn in L. lia.
  - cbn [forallb] in W, V. apply andb_true_iff in W. destruct W as [Wx Wt].
    apply andb_true_iff in V. destruct V as [Vx Vt].
    cbn [enc_elems] in E. fold (enc_elems md0 d0 ek) in E.
    destruct (kind_eqb (value_kind x) ek) eqn:K; cbn [negb] in E; [|discriminate]. apply kind_eqb_eq in K.
    destruct (enc_deeper md0 d0 x) as [b| | |] eqn:Ex; cbn [bind] in E; try discriminate.
    destruct (enc_elems md0 d0 ek t) as [r| | |] eqn:Et; cbn [bind] in E; try discriminate.
    inversion E; subst bs. clear E.
    assert (Lb := enc_deeper_nonempty _ _ _ _ Wx Ex).
    destruct f as [|f]; [lia|]. rewrite dec_elems_S.
    rewrite nlen_cons. replace (nlen t + 1 =? 0) with false by (symmetry; apply N.eqb_neq; lia).
    replace (nlen t + 1 - 1) with (nlen t) by lia.
    rewrite <- app_assoc. rewrite !app_length in Hf.
    cbn [ldepth fold_right] in L. fold (ldepth t) in L. rewrite <- K.
    destruct (N.le_gt_cases (d + vdepth x) md) as [Fx|Fx].
    + rewrite (fit_deeper x md0 d0 b Wx Vx Ex) by (try rewrite !app_length; lia). cbn [bind].
      rewrite K. rewrite (IH md0 d0 ek r Wt Vt Et) by (try rewrite app_length; lia). reflexivity.
    + rewrite (DE_deeper x Hx md0 d0 b Wx Vx Ex) by (try rewrite !app_length; lia). reflexivity.
Qed.

Lemma DE_entries : forall es, Forall (fun p => DE (fst p) /\ DE (snd p)) es -> forall md0 d0 kk vk bs,
  wf_entries fl es = true -> valid_entries es = true -> enc_entries md0 d0 kk vk es = Ok bs ->
  forall md d f rest, (2 * length (bs ++ rest) + 2 <= f)%nat -> d <= md -> md < d + edepth es ->
  dec_entries fl f md d kk vk (nlen es) (bs ++ rest) = Err (MaxDepthExceeded md).
Proof.
  induction 1 as [|[k x] t [Hk Hx] Ht IH]; intros md0 d0 kk vk bs W V E md d f rest Hf Hd L.
  - cbn in L. lia.
  - cbn [fst snd] in Hk, Hx.
    cbn [wf_entries] in W. fold (wf_entries fl) in W. apply andb_true_iff in W. destruct W as [W Wt].
    apply andb_true_iff in W. destruct W as [Wk Wx].
    cbn [valid_entries] in V. fold valid_entries in V. apply andb_true_iff in V. destruct V as [V Vt].
    apply andb_true_iff in V. destruct V as [Vk Vx].
    cbn [enc_entries] in E. fold (enc_entries md0 d0 kk vk) in E.
    destruct (kind_eqb (value_kind k) kk) eqn:K1; cbn [negb] in E; [|discriminate]. apply kind_eqb_eq in K1.
    destruct (enc_deeper md0 d0 k) as [a| | |] eqn:Ek; cbn [bind] in E; try discriminate.
    destruct (kind_eqb (value_kind x) vk) eqn:K2; cbn [negb] in E; [|discriminate]. apply kind_eqb_eq in K2.
    destruct (enc_deeper md0 d0 x) as [b| | |] eqn:Ex; cbn [bind] in E; try discriminate.
    destruct (enc_entries md0 d0 kk vk t) as [r| | |] eqn:Et; cbn [bind] in E; try discriminate.
    inversion E; subst bs. clear E.
    assert (La := enc_deeper_nonempty _ _ _ _ Wk Ek).
    destruct f as [|f]; [lia|]. rewrite dec_entries_S.
    rewrite nlen_cons. replace (nlen t + 1 =? 0) with false by (symmetry; apply N.eqb_neq; lia).
    replace (nlen t + 1 - 1) with (nlen t) by lia.
    rewrite <- !app_assoc. rewrite !app_length in Hf.
    cbn [edepth] in L. fold edepth in L. rewrite <- K1.
    destruct (N.le_gt_cases (d + vdepth k) md) as [Fk|Fk];
      [|rewrite (DE_deeper k Hk md0 d0 a Wk Vk Ek) by (try rewrite !app_length; lia); reflexivity].
    rewrite (fit_deeper k md0 d0 a Wk Vk Ek) by (try rewrite !app_length; lia). cbn [bind]. rewrite <- K2.
    destruct (N.le_gt_cases (d + vdepth x) md) as [Fx|Fx];
      [|rewrite (DE_deeper x Hx md0 d0 b Wx Vx Ex) by (try rewrite !app_length; lia); reflexivity].
    rewrite (fit_deeper x md0 d0 b Wx Vx Ex) by (try rewrite !app_length; lia). cbn [bind].
    rewrite K1, K2. rewrite (IH md0 d0 kk vk r Wt Vt Et) by (try rewrite app_length; lia). reflexivity.
Qed.

Lemma DE_all : forall v, DE v.
Proof.
  induction v using value_ind'; intros md0 d0 bs W V E md dp f rest Hf Hd L;
    try (cbn [vdepth] in L; lia);
    (destruct f as [|f]; [lia|]); rewrite dec_body_S; cbn [value_kind].
  - (* Enum *) rewrite enc_body_enum in E.
    destruct (write_size (nlen fs)) as [sz| | |] eqn:S; cbn [bind] in E; try discriminate.
    destruct (enc_fields md0 d0 fs) as [r| | |] eqn:R; cbn [bind] in E; try discriminate.
    inversion E; subst bs. cbn [app read_byte bind]. rewrite <- app_assoc. rewrite (write_size_read _ _ _ S). cbn [bind].
    cbn [wf_value] in W. apply andb_true_iff in W. destruct W as [_ W]. cbn [valid_value] in V.
    cbn [app length] in Hf. rewrite !app_length in Hf. cbn [vdepth] in L. fold (ldepth fs) in L.
    rewrite (DE_fields fs H md0 d0 r W V R) by (try rewrite app_length; lia). reflexivity.
  - (* Array *) rewrite enc_body_array in E.
    destruct (write_size (nlen es)) as [sz| | |] eqn:S; cbn [bind] in E; try discriminate.
    destruct (enc_elems md0 d0 ek es) as [r| | |] eqn:R; cbn [bind] in E; try discriminate.
    inversion E; subst bs. cbn [wf_value] in W. apply andb_true_iff in W. destruct W as [Wk W]. cbn [valid_value] in V.
    cbn [app]. rewrite read_value_kind_as by exact Wk. cbn [bind].
    rewrite <- app_assoc. rewrite (write_size_read _ _ _ S). cbn [bind].
    cbn [app length] in Hf. rewrite !app_length in Hf. cbn [vdepth] in L. fold (ldepth es) in L.
    rewrite (DE_elems es H md0 d0 ek r W V R) by (try rewrite app_length; lia). reflexivity.
  - (* Tuple *) rewrite enc_body_tuple in E.
    destruct (write_size (nlen fs)) as [sz| | |] eqn:S; cbn [bind] in E; try discriminate.
    destruct (enc_fields md0 d0 fs) as [r| | |] eqn:R; cbn [bind] in E; try discriminate.
    inversion E; subst bs. rewrite <- app_assoc. rewrite (write_size_read _ _ _ S). cbn [bind].
    cbn [wf_value] in W. cbn [valid_value] in V.
    assert (Ls := write_size_nonempty _ _ S). rewrite !app_length in Hf. cbn [vdepth] in L. fold (ldepth fs) in L.
    rewrite (DE_fields fs H md0 d0 r W V R) by (try rewrite app_length; lia). reflexivity.
  - (* Map *) rewrite enc_body_map in E.
    destruct (write_size (nlen es)) as [sz| | |] eqn:S; cbn [bind] in E; try discriminate.
    destruct (enc_entries md0 d0 kk vk es) as [r| | |] eqn:R; cbn [bind] in E; try discriminate.
    inversion E; subst bs. rewrite wf_value_map in W. apply andb_true_iff in W. destruct W as [W We].
    apply andb_true_iff in W. destruct W as [Wk Wv]. rewrite valid_value_map in V.
    cbn [app]. rewrite read_value_kind_as by exact Wk. cbn [bind].
    rewrite read_value_kind_as by exact Wv. cbn [bind].
    rewrite <- app_assoc. rewrite (write_size_read _ _ _ S). cbn [bind].
    cbn [app length] in Hf. rewrite !app_length in Hf. rewrite vdepth_map in L.
    rewrite (DE_entries es H md0 d0 kk vk r We V R) by (try rewrite app_length; lia). reflexivity.
Qed.

(* payload level *)
Theorem depth_consistent : forall md0 md v bs,
  wf_value fl v = true -> valid_value v = true -> encode_payload fl md0 v = Ok bs ->
  (vdepth v <= md -> encode_payload fl md v = Ok bs /\ decode_payload fl md bs = Ok v) /\
  (md < vdepth v -> encode_payload fl md v = Err (EMaxDepthExceeded md) /\
                    decode_payload fl md bs = Err (MaxDepthExceeded md)).
Proof.
  intros md0 md v bs W V E. apply encode_payload_inv in E. destruct E as [b [E1 E2]]. subst bs.
  destruct (ED_deeper v (ED_all v) md0 0 b E2 md 0) as [X1 X2].
  split; intro L.
  - assert (E : encode_payload fl md v = Ok (payload_prefix fl :: kind_u8 (value_kind v) :: b)).
    { unfold encode_payload, enc_value. rewrite X1 by lia. reflexivity. }
    split; [exact E|]. apply decode_encode; assumption.
  - split.
    + unfold encode_payload, enc_value. rewrite X2 by lia. reflexivity.
    + unfold decode_payload, decode_payload_fuel, fuel_for. cbn [read_byte bind]. rewrite N.eqb_refl. cbn [negb].
      unfold dec_value. rewrite read_value_kind_as by (apply kind_ok_value_kind; exact W). cbn [bind].
      rewrite <- (app_nil_r b) at 2.
      rewrite (DE_deeper v (DE_all v) md0 0 b W V E2); [reflexivity| |lia].
      rewrite app_nil_r. cbn [length]. lia.
Qed.
End Dec.

(* ------------------------------------------------------------------------------------------ *)
(* node bound: a decoded tree has at most as many nodes as bytes were consumed                 *)
Section Nodes.
Variable fl : flavour.
Definition lnodes (fs : list value) : nat := fold_right (fun x m => vnodes x + m)%nat O fs.
Definition enodes := fix go (es : list (value * value)) : nat :=
  match es with [] => O | (k, x) :: t => (vnodes k + vnodes x + go t)%nat end.

Definition NB (f : nat) : Prop := forall md d k st v rest, kind_ok fl k = true ->
  dec_body fl f md d k st = Ok (v, rest) -> (vnodes v + length rest <= length st)%nat.
Definition NE (f : nat) : Prop := forall md d ek n st vs rest,
  (forall k, ek = Some k -> kind_ok fl k = true) ->
  dec_elems fl f md d ek n st = Ok (vs, rest) -> (lnodes vs + length rest <= length st)%nat.
Definition NM (f : nat) : Prop := forall md d kk vk n st es rest,
  kind_ok fl kk = true -> kind_ok fl vk = true ->
  dec_entries fl f md d kk vk n st = Ok (es, rest) -> (enodes es + length rest <= length st)%nat.

Lemma NB_deeper : forall f, NB f -> forall md d k st v rest, kind_ok fl k = true ->
  dec_deeper fl f md d k st = Ok (v, rest) -> (vnodes v + length rest <= length st)%nat.
Proof. intros f H md d k st v rest Hk D. unfold dec_deeper in D. destruct (md <? d + 1); [discriminate|]. eapply H; eassumption. Qed.

Lemma leaf_nodes : forall f md d k st v rest, kind_ok fl k = true -> is_container k = false ->
  dec_body fl f md d k st = Ok (v, rest) -> (vnodes v + length rest <= length st)%nat.
Proof.
  intros f md d k st v rest Hk C D.
  assert (T := proj1 (T_all fl f) md d k st Hk). rewrite D in T. cbn [Tres] in T.
  assert (vnodes v = 1%nat).
  { destruct f as [|f]; [discriminate|]. rewrite dec_body_S in D.
    destruct k; try discriminate C.
    - destruct (read_byte st) as [[b s]| | |]; cbn [bind] in D; try discriminate.
      destruct (b =? 0); [inversion D; reflexivity|]. destruct (b =? 1); [inversion D; reflexivity|discriminate].
    - destruct (read_slice _ st) as [[b s]| | |]; cbn [bind] in D; try discriminate. inversion D; reflexivity.
    - destruct (read_size st) as [[b s]| | |]; cbn [bind] in D; try discriminate.
      destruct (read_slice _ s) as [[b' s']| | |]; cbn [bind] in D; try discriminate.
      destruct (utf8_valid b'); [inversion D; reflexivity|discriminate].
    - destruct (flavour_eqb _ _); [|discriminate].
      destruct (dec_custom c st) as [[b s]| | |]; cbn [bind] in D; try discriminate. inversion D; reflexivity. }
  lia.
Qed.

Lemma N_all : forall f, NB f /\ NE f /\ NM f.
Proof.
  induction f as [|f [IB [IE IM]]]; [repeat split; repeat intro; discriminate|].
  split; [|split].
  - intros md d k st v rest Hk D. destruct (is_container k) eqn:C; [|eapply leaf_nodes; eassumption].
    rewrite dec_body_S in D. destruct k; try discriminate C.
    + destruct st as [|disc st']; cbn [read_byte bind] in D; [discriminate|].
      destruct (read_size st') as [[n st1]| | |] eqn:R; cbn [bind] in D; try discriminate.
      destruct (dec_elems fl f md d None n st1) as [[fs st2]| | |] eqn:DE; cbn [bind] in D; try discriminate.
      inversion D; subst. apply read_size_consumes in R. apply IE in DE; [|discriminate].
      cbn [vnodes length]. fold (lnodes fs). lia.
    + destruct (read_value_kind fl st) as [[ek st0]| | |] eqn:RK; cbn [bind] in D; try discriminate.
      apply read_value_kind_len in RK. destruct RK as [L Hek].
      destruct (read_size st0) as [[n st1]| | |] eqn:R; cbn [bind] in D; try discriminate.
      destruct (dec_elems fl f md d (Some ek) n st1) as [[fs st2]| | |] eqn:DE; cbn [bind] in D; try discriminate.
      inversion D; subst. apply read_size_consumes in R.
      apply IE in DE; [|intros k0 E0; inversion E0; subst; exact Hek].
      cbn [vnodes]. fold (lnodes fs). lia.
    + destruct (read_size st) as [[n st1]| | |] eqn:R; cbn [bind] in D; try discriminate.
      destruct (dec_elems fl f md d None n st1) as [[fs st2]| | |] eqn:DE; cbn [bind] in D; try discriminate.
      inversion D; subst. apply read_size_consumes in R. apply IE in DE; [|discriminate].
      cbn [vnodes]. fold (lnodes fs). lia.
    + destruct (read_value_kind fl st) as [[kk st0]| | |] eqn:RK; cbn [bind] in D; try discriminate.
      apply read_value_kind_len in RK. destruct RK as [L Hkk].
      destruct (read_value_kind fl st0) as [[vk st0']| | |] eqn:RV; cbn [bind] in D; try discriminate.
      apply read_value_kind_len in RV. destruct RV as [L' Hvk].
      destruct (read_size st0') as [[n st1]| | |] eqn:R; cbn [bind] in D; try discriminate.
      destruct (dec_entries fl f md d kk vk n st1) as [[es st2]| | |] eqn:DE; cbn [bind] in D; try discriminate.
      inversion D; subst. apply read_size_consumes in R. apply IM in DE; try assumption.
      cbn [vnodes]. fold (enodes es). lia.
  - intros md d ek n st vs rest Hek D. rewrite dec_elems_S in D.
    destruct (n =? 0); [inversion D; subst; cbn; lia|].
    destruct ek as [k|].
    + destruct (dec_deeper fl f md d k st) as [[v st1]| | |] eqn:D1; cbn [bind] in D; try discriminate.
      destruct (dec_elems fl f md d (Some k) (n - 1) st1) as [[vs' st2]| | |] eqn:D2; cbn [bind] in D; try discriminate.
      inversion D; subst. apply (NB_deeper f IB) in D1; [|apply Hek; reflexivity]. apply IE in D2; [|exact Hek].
      cbn [lnodes fold_right]. fold (lnodes vs'). lia.
    + destruct (read_value_kind fl st) as [[k st0]| | |] eqn:RK; cbn [bind] in D; try discriminate.
      apply read_value_kind_len in RK. destruct RK as [L Hk].
      destruct (dec_deeper fl f md d k st0) as [[v st1]| | |] eqn:D1; cbn [bind] in D; try discriminate.
      destruct (dec_elems fl f md d None (n - 1) st1) as [[vs' st2]| | |] eqn:D2; cbn [bind] in D; try discriminate.
      inversion D; subst. apply (NB_deeper f IB) in D1; [|exact Hk]. apply IE in D2; [|exact Hek].
      cbn [lnodes fold_right]. fold (lnodes vs'). lia.
  - intros md d kk vk n st es rest Hkk Hvk D. rewrite dec_entries_S in D.
    destruct (n =? 0); [inversion D; subst; cbn; lia|].
    destruct (dec_deeper fl f md d kk st) as [[k st1]| | |] eqn:D1; cbn [bind] in D; try discriminate.
    destruct (dec_deeper fl f md d vk st1) as [[x st2]| | |] eqn:D2; cbn [bind] in D; try discriminate.
    destruct (dec_entries fl f md d kk vk (n - 1) st2) as [[es' st3]| | |] eqn:D3; cbn [bind] in D; try discriminate.
    inversion D; subst. apply (NB_deeper f IB) in D1; [|exact Hkk]. apply (NB_deeper f IB) in D2; [|exact Hvk].
    apply IM in D3; try assumption. cbn [enodes]. fold enodes. lia.
Qed.

Theorem decode_nodes_bounded : forall md input v,
  decode_payload fl md input = Ok v -> (vnodes v <= length input)%nat.
Proof.
  intros md input v D. unfold decode_payload, decode_payload_fuel in D.
  destruct input as [|p st]; cbn [read_byte bind] in D; [discriminate|].
  destruct (negb (p =? payload_prefix fl)); [discriminate|]. unfold dec_value in D.
  destruct (read_value_kind fl st) as [[k st0]| | |] eqn:RK; cbn [bind] in D; try discriminate.
  apply read_value_kind_len in RK. destruct RK as [L Hk].
  destruct (dec_deeper fl _ md 0 k st0) as [[v' rest]| | |] eqn:DD; cbn [bind] in D; try discriminate.
  destruct rest; [|discriminate]. inversion D; subst v'.
  apply (NB_deeper _ (proj1 (N_all _))) in DD; [|exact Hk]. cbn [length] in *. lia.
Qed.
End Nodes.
