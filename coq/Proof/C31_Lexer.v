(* C31 — the whole lexer is total: no panic state, fuel never exhausted, on every input. *)
From Coq Require Import List Arith NArith ZArith Bool Lia.
Import ListNotations.
Require Import RV.Model.C30_Text RV.Proof.C30_Text RV.Model.C31_Lexer.
Open Scope N_scope.

(* ---- string lexer: no panic on any input ------------------------------------------------------------ *)
Lemma hex_err_short : forall u pos, (length u < 4)%nat -> hex_err 4 u pos <> SPanic.
Proof.
  intros u pos H. destruct u as [|a [|b [|c [|d r]]]]; cbn [length] in H; try lia; cbn [hex_err];
    repeat (match goal with |- context [hexval ?x] => destruct (hexval x) end; try discriminate); discriminate.
Qed.
Lemma hex_err_none : forall a b c d r pos, hex4val a b c d = None -> hex_err 4 (a :: b :: c :: d :: r) pos <> SPanic.
Proof.
  intros a b c d r pos H. unfold hex4val in H. cbn [hex_err].
  destruct (hexval a); [|discriminate]. destruct (hexval b); [|discriminate].
  destruct (hexval c); [|discriminate]. destruct (hexval d); [discriminate H | discriminate].
Qed.

(* an unknown escape character *)
Lemma lex_bad_escape : forall c r pos start acc,
  c <> 34 -> c <> 92 -> c <> 47 -> c <> 98 -> c <> 102 -> c <> 110 -> c <> 114 -> c <> 116 -> c <> 117 ->
  lex_string (92 :: c :: r) pos start acc = SErr (LUnexpectedChar c XOneOf) (pos + 1) (pos + 1 + 1).
Proof.
  intros c r pos start acc H1 H2 H3 H4 H5 H6 H7 H8 H9.
  destruct c as [|p]; [reflexivity|].
  do 7 (try (destruct p as [p|p|]; try reflexivity)); exfalso;
    first [apply H1; reflexivity | apply H2; reflexivity | apply H3; reflexivity | apply H4; reflexivity
          | apply H5; reflexivity | apply H6; reflexivity | apply H7; reflexivity | apply H8; reflexivity | apply H9; reflexivity].
Qed.

(* the part after a surrogate first unit: next two chars must be backslash, u *)
Definition after_hi (unit1 : N) (r : list N) (pos start : N) (acc : list N) : sres :=
  let ts := pos + 1 in let position := pos + 6 in
  match r with
  | [] => SErr LUnexpectedEof position position
  | 92 :: r1 =>
      match r1 with
      | [] => SErr LUnexpectedEof (position + 1) (position + 1)
      | 117 :: u2 =>
          match u2 with
          | a2 :: b2 :: c2 :: d2 :: r2 =>
              match hex4val a2 b2 c2 d2 with
              | None => hex_err 4 u2 (position + 2)
              | Some unit2 =>
                  let sum := 65536 + (unit1 - 55296) * 1024 + unit2 in
                  if sum <? 56320 then SPanic
                  else let unicode := sum - 56320 in
                       if is_scalar unicode then lex_string r2 (position + 6) start (unicode :: acc)
                       else SErr (LInvalidUnicode unicode) ts (position + 6)
              end
          | _ => hex_err 4 u2 (position + 2)
          end
      | _ :: _ => SErr (LMissingSurrogate unit1) ts position
      end
  | _ :: _ => SErr (LMissingSurrogate unit1) ts position
  end.
Lemma lex_u_eq : forall a b c d r pos start acc unit1, hex4val a b c d = Some unit1 ->
  lex_string (92 :: 117 :: a :: b :: c :: d :: r) pos start acc =
  if (55296 <=? unit1) && (unit1 <=? 57343) then after_hi unit1 r pos start acc
  else if is_scalar unit1 then lex_string r (pos + 6) start (unit1 :: acc)
  else SErr (LInvalidUnicode unit1) (pos + 1) (pos + 6).
Proof. intros. cbn [lex_string]. rewrite H. reflexivity. Qed.

Lemma not92_default : forall A (x : N) (a b : A), x <> 92 ->
  match x with 92 => a | _ => b end = b.
Proof.
  intros A x a b H. destruct x as [|p]; [reflexivity|].
  do 7 (try (destruct p as [p|p|]; try reflexivity)); exfalso; apply H; reflexivity.
Qed.
Lemma not117_default : forall A (x : N) (a b : A), x <> 117 ->
  match x with 117 => a | _ => b end = b.
Proof.
  intros A x a b H. destruct x as [|p]; [reflexivity|].
  do 7 (try (destruct p as [p|p|]; try reflexivity)); exfalso; apply H; reflexivity.
Qed.

Lemma after_hi_np : forall unit1 r pos start acc, 55296 <= unit1 ->
  (forall r2 pos' acc', (length r2 <= length r)%nat -> lex_string r2 pos' start acc' <> SPanic) ->
  after_hi unit1 r pos start acc <> SPanic.
Proof.
  intros unit1 r pos start acc Hu IH. unfold after_hi.
  destruct r as [|x r1]; [discriminate|].
  destruct (N.eq_dec x 92) as [->|Hx]; [|rewrite not92_default by exact Hx; discriminate].
  destruct r1 as [|y u2]; [discriminate|].
  destruct (N.eq_dec y 117) as [->|Hy]; [|rewrite not117_default by exact Hy; discriminate].
  destruct u2 as [|a2 [|b2 [|c2 [|d2 r2]]]]; try (apply hex_err_short; cbn; lia).
  destruct (hex4val a2 b2 c2 d2) as [unit2|] eqn:E; [|apply hex_err_none; exact E].
  cbv zeta. destruct (65536 + (unit1 - 55296) * 1024 + unit2 <? 56320) eqn:El; [apply N.ltb_lt in El; lia|].
  destruct (is_scalar _); [|discriminate]. apply IH. cbn; lia.
Qed.

Lemma lex_string_np_n : forall n l, (length l <= n)%nat -> forall pos start acc, lex_string l pos start acc <> SPanic.
Proof.
  induction n as [|n IH]; intros l Hl pos start acc.
  - destruct l; [cbn; discriminate | cbn in Hl; lia].
  - destruct l as [|c t]; [cbn; discriminate|]. cbn [length] in Hl.
    destruct (N.eq_dec c 34) as [->|H34]; [cbn; discriminate|].
    destruct (N.eq_dec c 92) as [->|H92]; [|rewrite lex_plain by assumption; apply IH; lia].
    destruct t as [|c2 r]; [cbn; discriminate|]. cbn [length] in Hl.
    destruct (N.eq_dec c2 34) as [->|E1]; [cbn [lex_string]; apply IH; lia|].
    destruct (N.eq_dec c2 92) as [->|E2]; [cbn [lex_string]; apply IH; lia|].
    destruct (N.eq_dec c2 47) as [->|E3]; [cbn [lex_string]; apply IH; lia|].
    destruct (N.eq_dec c2 98) as [->|E4]; [cbn [lex_string]; apply IH; lia|].
    destruct (N.eq_dec c2 102) as [->|E5]; [cbn [lex_string]; apply IH; lia|].
    destruct (N.eq_dec c2 110) as [->|E6]; [cbn [lex_string]; apply IH; lia|].
    destruct (N.eq_dec c2 114) as [->|E7]; [cbn [lex_string]; apply IH; lia|].
    destruct (N.eq_dec c2 116) as [->|E8]; [cbn [lex_string]; apply IH; lia|].
    destruct (N.eq_dec c2 117) as [->|E9]; [|rewrite lex_bad_escape by assumption; discriminate].
    destruct r as [|a [|b [|c3 [|d r2]]]]; try (cbn [lex_string]; apply hex_err_short; cbn; lia).
    cbn [length] in Hl.
    destruct (hex4val a b c3 d) as [unit1|] eqn:Eh.
    + rewrite (lex_u_eq _ _ _ _ _ _ _ _ _ Eh).
      destruct ((55296 <=? unit1) && (unit1 <=? 57343)) eqn:Es.
      * apply andb_true_iff in Es. destruct Es as [Es _]. apply N.leb_le in Es.
        apply after_hi_np; [exact Es|]. intros r3 pos' acc' Hr. apply IH. lia.
      * destruct (is_scalar unit1); [apply IH; lia | discriminate].
    + cbn [lex_string]. rewrite Eh. apply hex_err_none; exact Eh.
Qed.
Theorem lex_string_no_panic : forall l pos start acc, lex_string l pos start acc <> SPanic.
Proof. intros l pos start acc. apply (lex_string_np_n (length l) l (le_n _)). Qed.

(* ---- progress: what is left after a token is not longer than the text after its first char ---------- *)
Lemma skip_len : forall l pos ic l1 p1, skip l pos ic = (l1, p1) -> (length l1 <= length l)%nat.
Proof.
  induction l as [|c t IH]; intros pos ic l1 p1 H; cbn [skip] in H.
  - inversion H; subst; cbn; lia.
  - destruct ic; [apply IH in H; cbn; lia|].
    destruct (c =? 35); [apply IH in H; cbn; lia|].
    destruct (is_ws c); [apply IH in H; cbn; lia|]. inversion H; subst; lia.
Qed.
Lemma take_digits_len : forall l pos acc m l2 p2, take_digits l pos acc = Some (m, l2, p2) -> (length l2 <= length l)%nat.
Proof.
  induction l as [|c t IH]; intros pos acc m l2 p2 H; cbn [take_digits] in H; [discriminate|].
  destruct (is_digit c); [apply IH in H; cbn; lia | inversion H; subst; lia].
Qed.
Lemma take_ident_len : forall l pos acc id rest p, take_ident l pos acc = (id, rest, p) -> (length rest <= length l)%nat.
Proof.
  induction l as [|c t IH]; intros pos acc id rest p H; cbn [take_ident] in H.
  - inversion H; subst; cbn; lia.
  - destruct (is_ident_char c); [apply IH in H; cbn; lia | inversion H; subst; lia].
Qed.
Lemma lex_int_type_len : forall l pos sg bits rest p, lex_int_type l pos = TyOk sg bits rest p -> (length rest <= length l)%nat.
Proof.
  intros l pos sg bits rest p H. unfold lex_int_type in H.
  destruct l as [|c t]; [discriminate|]. destruct ((c =? 105) || (c =? 117)); [|discriminate].
  destruct t as [|c1 t1]; [discriminate|].
  destruct (c1 =? 49).
  { destruct t1 as [|c2 t2]; [discriminate|]. destruct (c2 =? 50).
    - destruct t2 as [|c3 t3]; [discriminate|]. destruct (c3 =? 56); inversion H; subst; cbn; lia.
    - destruct (c2 =? 54); inversion H; subst; cbn; lia. }
  destruct (c1 =? 51).
  { destruct t1 as [|c2 t2]; [discriminate|]. destruct (c2 =? 50); inversion H; subst; cbn; lia. }
  destruct (c1 =? 54).
  { destruct t1 as [|c2 t2]; [discriminate|]. destruct (c2 =? 52); inversion H; subst; cbn; lia. }
  destruct (c1 =? 56); inversion H; subst; cbn; lia.
Qed.
Lemma lex_number_ok : forall c t pos tk rest e, lex_number (c :: t) pos = NTOk tk rest e -> (length rest <= length t)%nat.
Proof.
  intros c t pos tk rest e H. unfold lex_number in H.
  assert (G : forall l1 p1 neg, (1 <= length l1)%nat ->
            (match l1 with
             | [] => NTErr LUnexpectedEof p1 p1
             | c0 :: t0 =>
                 match (if c0 =? 48 then Some (Some (0%Z, t0, p1 + 1))
                        else if is_digit c0 then Some (take_digits t0 (p1 + 1) (Z.of_N (c0 - 48))) else None) with
                 | None => NTErr LInvalidIntegerLiteral pos (p1 + 1)
                 | Some None => NTErr LUnexpectedEof (p1 + 1 + N.of_nat (length t0)) (p1 + 1 + N.of_nat (length t0))
                 | Some (Some (mag, l2, p2)) =>
                     match lex_int_type l2 p2 with
                     | TyEof p => NTErr LUnexpectedEof p p
                     | TyBad p => NTErr LInvalidIntegerType p2 p
                     | TyOk sg bits rest0 p3 =>
                         match parse_int neg mag sg bits with
                         | Some v => NTOk (TInt sg bits v) rest0 p3
                         | None => NTErr LInvalidInteger pos p3
                         end
                     end
                 end
             end) = NTOk tk rest e -> (length rest < length l1)%nat).
  { intros l1 p1 neg Hl G. destruct l1 as [|c0 t0]; [discriminate|]. cbn [length].
    destruct (c0 =? 48).
    - destruct (lex_int_type t0 (p1 + 1)) as [sg bits rest0 p3| |] eqn:ET; try discriminate.
      destruct (parse_int neg 0 sg bits); [|discriminate]. inversion G; subst.
      apply lex_int_type_len in ET. lia.
    - destruct (is_digit c0); [|discriminate].
      destruct (take_digits t0 (p1 + 1) (Z.of_N (c0 - 48))) as [[[mag l2] p2]|] eqn:ED; [|discriminate].
      destruct (lex_int_type l2 p2) as [sg bits rest0 p3| |] eqn:ET; try discriminate.
      destruct (parse_int neg mag sg bits); [|discriminate]. inversion G; subst.
      apply lex_int_type_len in ET. apply take_digits_len in ED. lia. }
  destruct (N.eq_dec c 45) as [->|Hc].
  - destruct t as [|c0 t0]; [discriminate H|]. specialize (G (c0 :: t0) (pos + 1) true ltac:(cbn; lia) H). lia.
  - assert (E : (match c :: t with 45 :: t' => (true, t', pos + 1) | _ => (false, c :: t, pos) end) = (false, c :: t, pos)).
    { destruct c as [|p]; [reflexivity|]. do 6 (try (destruct p as [p|p|]; try reflexivity)). exfalso; apply Hc; reflexivity. }
    rewrite E in H. specialize (G (c :: t) pos false ltac:(cbn; lia) H). cbn [length] in G. lia.
Qed.

Lemma next_token_len : forall c t pos tk rest e, next_token c t pos = NTOk tk rest e -> (length rest <= length t)%nat.
Proof.
  intros c t pos tk rest e H. unfold next_token in H.
  destruct ((c =? 45) || is_digit c); [apply (lex_number_ok _ _ _ _ _ _ H)|].
  destruct (c =? 34).
  { destruct (lex_string t (pos + 1) pos []) as [s e0|k a b|]; try discriminate. inversion H; subst.
    rewrite skipn_length. lia. }
  destruct (is_alpha c).
  { destruct (take_ident t (pos + 1) [c]) as [[id rest0] p] eqn:E. inversion H; subst. apply (take_ident_len _ _ _ _ _ _ E). }
  repeat (match type of H with (if ?b then _ else _) = _ => destruct b end; [inversion H; subst; lia|]).
  destruct (c =? 61).
  { destruct t as [|c1 t1]; [discriminate|]. destruct (c1 =? 62); [inversion H; subst; cbn; lia | discriminate]. }
  destruct ((c =? 123) || (c =? 125) || (c =? 38)); discriminate.
Qed.
Lemma next_token_no_panic : forall c t pos, next_token c t pos <> NTPanic.
Proof.
  intros c t pos. unfold next_token.
  destruct ((c =? 45) || is_digit c).
  { unfold lex_number. destruct (match c :: t with 45 :: t' => (true, t', pos + 1) | _ => (false, c :: t, pos) end) as [[neg l1] p1].
    destruct l1 as [|c0 t0]; [discriminate|].
    destruct (if c0 =? 48 then _ else _) as [[[[mag l2] p2]|]|]; try discriminate.
    destruct (lex_int_type l2 p2); try discriminate. destruct (parse_int neg mag signed bits); discriminate. }
  destruct (c =? 34).
  { pose proof (lex_string_no_panic t (pos + 1) pos []) as Hn.
    destruct (lex_string t (pos + 1) pos []); try discriminate. contradiction. }
  destruct (is_alpha c). { destruct (take_ident t (pos + 1) [c]) as [[id rest0] p]. discriminate. }
  repeat (match goal with |- (if ?b then _ else _) <> _ => destruct b end; [discriminate|]).
  destruct (c =? 61). { destruct t as [|c1 t1]; [discriminate|]. destruct (c1 =? 62); discriminate. }
  destruct ((c =? 123) || (c =? 125) || (c =? 38)); discriminate.
Qed.

Lemma tokenize_fuel_total : forall fuel l pos acc, (length l < fuel)%nat ->
  tokenize_fuel fuel l pos acc <> LPanic /\ tokenize_fuel fuel l pos acc <> LOutOfFuel.
Proof.
  induction fuel as [|f IH]; intros l pos acc Hl; [lia|]. cbn [tokenize_fuel].
  destruct (skip l pos false) as [l1 p1] eqn:ES. apply skip_len in ES.
  destruct l1 as [|c t]; [split; discriminate|]. cbn [length] in ES.
  pose proof (next_token_no_panic c t p1) as Hnp.
  destruct (next_token c t p1) as [tk rest p2|k a b|] eqn:EN; [|split; discriminate|contradiction].
  apply next_token_len in EN. apply IH. lia.
Qed.

(* C31_lex_total *)
Theorem lex_total : forall l, tokenize l <> LPanic /\ tokenize l <> LOutOfFuel.
Proof. intro l. unfold tokenize. apply tokenize_fuel_total. lia. Qed.
