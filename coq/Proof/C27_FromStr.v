(* part 3: FromStr = the grammar with exact value and range test *)
From Coq Require Import ZArith NArith List Bool Lia.
Import ListNotations.
Require Import RV.Lib.DecCore RV.Lib.DecCoreFacts RV.Proof.C24_Dec RV.Model.C27_DecText RV.Proof.C27_Uint RV.Proof.C27_SInt.
Open Scope Z_scope.

Lemma map_int_err_err x e : exists e', map_int_err x (Err e) = Err e'.
Proof. destruct e; cbn; eauto. Qed.

Lemma strip_sign_minus ip neg ib : strip_sign ip = (neg, ib) -> starts_with ch_minus ip = neg.
Proof.
  destruct ip as [|c r]; cbn; [intros H; inversion H; reflexivity|].
  destruct (c =? ch_minus)%N; [intros H; inversion H; reflexivity|].
  destruct (c =? ch_plus)%N; intros H; inversion H; reflexivity.
Qed.
Lemma strip_sign_nosign fp : starts_with ch_plus fp || starts_with ch_minus fp = false ->
  strip_sign fp = (false, fp).
Proof.
  destruct fp as [|c r]; cbn; [reflexivity|]. intros H. apply orb_false_iff in H. destruct H as [Hp Hm].
  rewrite Hm, Hp. reflexivity.
Qed.
Lemma sign_not_digits fp : starts_with ch_plus fp || starts_with ch_minus fp = true -> all_digits fp = false.
Proof.
  destruct fp as [|c r]; cbn; [discriminate|]. intros H. apply orb_true_iff in H.
  destruct H as [H|H]; apply N.eqb_eq in H; subst c; reflexivity.
Qed.

Lemma spec_transfer (S : option Z) (c c' : res Z) : c = c' ->
  match S with Some d => c' = Ok d | None => exists e, c' = Err e end ->
  match S with Some d => c = Ok d | None => exists e, c = Err e end.
Proof. intros ->. auto. Qed.

Section FromStr.
  Variable f : fmt.
  Hypothesis Hok : fmt_ok f.
  Hypothesis H19 : 10 ^ 19 <= 2 ^ fbits f.
  Local Notation K := (2 ^ (fbits f - 1)).

  Lemma fb1 : 1 <= fbits f. Proof. destruct Hok as (_ & H & _). lia. Qed.
  Lemma in_f_iff z : in_f f z = true <-> - K <= z <= K - 1.
  Proof. unfold in_f. rewrite in_ity_iff. apply (InF_iff f). Qed.
  Lemma in_f_SI z : in_ity (SI (fbits f)) z = in_f f z. Proof. reflexivity. Qed.

  Lemma mul_one_in z : in_f f (z * one f) = true -> in_f f z = true.
  Proof.
    rewrite !in_f_iff. pose proof (one_pos f Hok). pose proof (K_pos f Hok). intros. nia.
  Qed.

  (* the integral part: either it is a signed digit run whose value times ONE fits, and the code
     continues with it, or the code stops with an error *)
  Lemma int_prefix ip (Kont : Z -> Z -> res Z) neg ib : strip_sign ip = (neg, ib) ->
    let iv := sval neg (dval ib) in
    let code := (let* a := map_int_err EEmptyInt (int_from_str (fbits f) ip) in
                 let* b := or_err EOverflow (cmul (fty f) a (one f)) in Kont a b) in
    (nonempty ib && all_digits ib = true /\ in_f f (iv * one f) = true /\ code = Kont iv (iv * one f))
    \/ ((nonempty ib && all_digits ib = false \/ in_f f (iv * one f) = false) /\ exists e, code = Err e).
  Proof.
    intros Es iv code. unfold code.
    destruct (nonempty ib && all_digits ib) eqn:G.
    - apply andb_true_iff in G. destruct G as [Gn Ga].
      pose proof (int_from_str_ok (fbits f) fb1 H19 ip) as Hi. rewrite Es in Hi.
      rewrite (Hi Gn Ga), in_f_SI. fold iv.
      destruct (in_f f (iv * one f)) eqn:Hm.
      + left. split; [reflexivity|]. split; [reflexivity|].
        rewrite (mul_one_in _ Hm). cbn [map_int_err bind].
        unfold cmul, chk. change (in_ity (fty f)) with (in_f f). rewrite Hm. reflexivity.
      + right. split; [right; reflexivity|].
        destruct (in_f f iv) eqn:Hv; cbn [map_int_err bind]; [|eauto].
        unfold cmul, chk. change (in_ity (fty f)) with (in_f f). rewrite Hm. cbn. eauto.
    - right. split; [left; reflexivity|].
      pose proof (int_from_str_bad (fbits f) ip) as Hi. rewrite Es in Hi. destruct (Hi G) as [e He].
      rewrite He. destruct (map_int_err_err EEmptyInt e) as [e' He']. rewrite He'. cbn. eauto.
  Qed.

  Theorem from_str_spec s :
    match parse_spec f s with
    | Some d => dec_from_str f s = Ok d
    | None => exists e, dec_from_str f s = Err e
    end.
  Proof.
    pose proof (one_pos f Hok) as H1. pose proof (K_pos f Hok) as HK. pose proof (one_lt_K f Hok) as H1K.
    destruct Hok as (Hsc & _).
    unfold parse_spec, grammar_value, dec_from_str. cbv zeta.
    destruct (split_dot s []) as [|ip [|fp [|x xs]]].
    - (* impossible, but harmless *) cbn. eauto.
    - (* no decimal point *)
      cbn [length nth]. change (2 <? Z.of_nat 1) with false. change (Z.of_nat 1 =? 2) with false. cbv iota.
      destruct (strip_sign ip) as [neg ib] eqn:Es.
      destruct (int_prefix ip (fun _ b => Ok b) neg ib Es) as [(G & Hm & Hc)|([G|G] & e & Hc)];
        cbv zeta in Hc; rewrite Hc.
      + rewrite G. assert (E : (if neg then -1 else 1) * (dval ib * one f) = sval neg (dval ib) * one f)
          by (unfold sval; destruct neg; ring).
        rewrite E, Hm. reflexivity.
      + rewrite G. eauto.
      + destruct (nonempty ib && all_digits ib); [|eauto].
        assert (E : (if neg then -1 else 1) * (dval ib * one f) = sval neg (dval ib) * one f)
          by (unfold sval; destruct neg; ring).
        rewrite E, G. eauto.
    - (* integral and fractional part *)
      cbn [length nth]. change (2 <? Z.of_nat 2) with false. change (Z.of_nat 2 =? 2) with true. cbv iota.
      destruct (strip_sign ip) as [neg ib] eqn:Es.
      set (Kont := fun integer_part subunits : Z =>
        if scale f - Z.of_nat (length fp) <? 0 then Err ETooManyPlaces else
        if starts_with ch_plus fp || starts_with ch_minus fp then Err EInvalidDigit else
        let* fractional_part := map_int_err EEmptyFrac (int_from_str (fbits f) fp) in
        let* p := ppow (fty f) 10 (scale f - Z.of_nat (length fp)) in
        let* fractional_subunits := unwrap (cmul (fty f) fractional_part p) in
        if (integer_part <? 0) || starts_with ch_minus ip
        then or_err EOverflow (csub (fty f) subunits fractional_subunits)
        else or_err EOverflow (cadd (fty f) subunits fractional_subunits)).
      set (sc := scale f - Z.of_nat (length fp)) in *.
      set (F := dval fp * 10 ^ sc).
      set (iv := sval neg (dval ib)).
      assert (Etot : (if neg then -1 else 1) * (dval ib * one f + F) = if neg then iv * one f - F else iv * one f + F)
        by (unfold iv, sval; destruct neg; ring).
      (* facts about a well-formed fraction *)
      assert (HF : nonempty fp = true -> all_digits fp = true -> 0 <= sc ->
                   0 <= dval fp < 10 ^ Z.of_nat (length fp) /\ 0 <= F < one f /\ 0 < 10 ^ sc <= one f).
      { intros _ Ha Hs. destruct (horner_digits fp 0 Ha) as [_ Hd].
        assert (Hp : 0 < 10 ^ sc) by (apply Z.pow_pos_nonneg; lia).
        assert (Hone : one f = 10 ^ Z.of_nat (length fp) * 10 ^ sc).
        { unfold one. rewrite <- Z.pow_add_r by lia. f_equal. unfold sc. lia. }
        pose proof (pow10_pos' (length fp)) as Hq.
        split; [exact Hd|]. unfold F. split; [rewrite Hone; nia|]. split; [lia|]. rewrite Hone. nia. }
      destruct (int_prefix ip Kont neg ib Es) as [(G & Hm & Hc)|([G|G] & e & Hc)]; cbv zeta in Hc;
        repeat match goal with H : context[sval neg (dval ib)] |- _ => progress fold iv in H end.
      + (* integral part fine: look at the fraction *)
        change (dec_from_str f s) with (dec_from_str f s).
        match goal with |- match ?X with _ => _ end => set (SPEC := X) end.
        assert (Hgoal : match SPEC with Some d => Kont iv (iv * one f) = Ok d | None => exists e, Kont iv (iv * one f) = Err e end).
        { unfold SPEC, Kont. rewrite G. cbn [andb]. fold sc.
          destruct (Z.ltb_spec sc 0) as [Hs|Hs].
          { replace (Z.of_nat (length fp) <=? scale f) with false by (symmetry; apply Z.leb_gt; unfold sc in Hs; lia).
            rewrite andb_false_r. eauto. }
          replace (Z.of_nat (length fp) <=? scale f) with true by (symmetry; apply Z.leb_le; unfold sc in Hs; lia).
          rewrite andb_true_r.
          destruct (starts_with ch_plus fp || starts_with ch_minus fp) eqn:Hsg.
          { rewrite (sign_not_digits fp Hsg), andb_false_r. eauto. }
          pose proof (strip_sign_nosign fp Hsg) as Esf.
          destruct (nonempty fp && all_digits fp) eqn:Gf.
          - apply andb_true_iff in Gf. destruct Gf as [Gn Ga].
            destruct (HF Gn Ga Hs) as (Hd & HFr & Hp).
            pose proof (int_from_str_ok (fbits f) fb1 H19 fp) as Hi. rewrite Esf in Hi.
            rewrite (Hi Gn Ga). unfold sval. rewrite in_f_SI.
            assert (Hdk : dval fp < one f).
            { assert (10 ^ Z.of_nat (length fp) <= one f) by (unfold one; apply Z.pow_le_mono_r; unfold sc in Hs; lia). lia. }
            rewrite (proj2 (in_f_iff (dval fp))) by lia. cbn [map_int_err bind].
            unfold ppow. rewrite pan_in by (apply <- (InF_iff f); lia). cbn [bind].
            unfold cmul. rewrite chk_in by (apply <- (InF_iff f); fold F; lia). cbn [unwrap bind]. fold F.
            rewrite (strip_sign_minus ip neg ib Es).
            assert (Hcond : (iv <? 0) || neg = neg).
            { destruct neg; [apply orb_true_r|]. rewrite orb_false_r. apply Z.ltb_ge.
              unfold iv, sval. destruct (proj1 (andb_true_iff _ _) G) as [_ Gi].
              destruct (horner_digits ib 0 Gi) as [_ ?]. lia. }
            rewrite Hcond, Etot.
            destruct neg; unfold csub, cadd, chk; change (in_ity (fty f)) with (in_f f);
              match goal with |- context[in_f f ?z] => destruct (in_f f z) end; cbn; eauto.
          - pose proof (int_from_str_bad (fbits f) fp) as Hi. rewrite Esf in Hi. destruct (Hi Gf) as [e He].
            rewrite He. destruct (map_int_err_err EEmptyFrac e) as [e' He']. rewrite He'. cbn. eauto. }
        exact (spec_transfer _ _ _ Hc Hgoal).
      + apply (spec_transfer _ _ _ Hc). rewrite G. cbn [andb]. eauto.
      + apply (spec_transfer _ _ _ Hc).
        destruct (nonempty ib && all_digits ib && nonempty fp && all_digits fp && (Z.of_nat (length fp) <=? scale f)) eqn:Gall; [|eauto].
        apply andb_true_iff in Gall. destruct Gall as [Gall Gl]. apply andb_true_iff in Gall. destruct Gall as [Gall Gfa].
        apply andb_true_iff in Gall. destruct Gall as [Gi Gfn]. apply Z.leb_le in Gl.
        destruct (HF Gfn Gfa ltac:(unfold sc; lia)) as (_ & HFr & _).
        rewrite Etot.
        assert (Hout : in_f f (if neg then iv * one f - F else iv * one f + F) = false).
        { apply in_ity_false. intros Hc'. apply -> (InF_iff f) in Hc'.
          apply in_ity_false in G. apply G. apply <- (InF_iff f).
          destruct (proj1 (andb_true_iff _ _) Gi) as [_ Gia]. destruct (horner_digits ib 0 Gia) as [_ Hdi].
          unfold iv, sval in *. destruct neg; nia. }
        rewrite Hout. eauto.
    - (* more than one decimal point *)
      cbn [length]. replace (2 <? Z.of_nat (S (S (S (length xs))))) with true by (symmetry; apply Z.ltb_lt; lia).
      eauto.
  Qed.
End FromStr.
