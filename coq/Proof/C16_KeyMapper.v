(* C16 — proofs about the key mapper model. *)
From Coq Require Import List Arith NArith Bool Lia.
Import ListNotations.
Require Import RV.Lib.Bytes RV.Model.C16_KeyMapper.
Open Scope N_scope.

Section Proofs.
  Variable H : bytes -> bytes.
  Hypothesis H_len : forall x, length (H x) = HASH_LENGTH.

  Definition hp (x : bytes) : bytes := firstn HASHED_PREFIX_LENGTH (H x).
  Lemma hp_length : forall x, length (hp x) = HASHED_PREFIX_LENGTH.
  Proof. intro x. unfold hp. rewrite firstn_length, H_len. reflexivity. Qed.

  Lemma to_hash_prefixed_eq : forall x, to_hash_prefixed H x = Some (hp x ++ x).
  Proof.
    intro x. unfold to_hash_prefixed, slice_to. rewrite H_len. reflexivity.
  Qed.
  Lemma from_hash_prefixed_app : forall x r, from_hash_prefixed (hp x ++ r) = Some r.
  Proof. intros x r. unfold from_hash_prefixed. rewrite <- (hp_length x). apply slice_from_app. Qed.

  (* ---- round trips ---- *)
  Lemma roundtrip_hash_prefixed : forall x,
    exists db, to_hash_prefixed H x = Some db /\ from_hash_prefixed db = Some x.
  Proof. intro x. eexists. split; [apply to_hash_prefixed_eq|apply from_hash_prefixed_app]. Qed.

  Lemma roundtrip_node : forall n, length n = NODE_ID_LENGTH ->
    exists db, to_db_node_key H n = Some db /\ from_db_node_key db = Some n.
  Proof.
    intros n L. exists (hp n ++ n). split; [apply to_hash_prefixed_eq|].
    unfold from_db_node_key. rewrite from_hash_prefixed_app. unfold copy_u8_array. rewrite L. reflexivity.
  Qed.
  Lemma roundtrip_partition_num : forall p, from_db_partition_num (to_db_partition_num p) = p.
  Proof. reflexivity. Qed.
  Lemma roundtrip_partition : forall n p, length n = NODE_ID_LENGTH ->
    exists pk, to_db_partition_key H n p = Some pk /\ from_db_partition_key pk = Some (n, p).
  Proof.
    intros n p L. destruct (roundtrip_node n L) as [db [E1 E2]]. exists (db, p). split.
    - unfold to_db_partition_key. rewrite E1. reflexivity.
    - unfold from_db_partition_key. cbn [fst snd]. rewrite E2. reflexivity.
  Qed.
  Lemma roundtrip_field : forall f,
    exists db, field_to_db_sort_key f = Some db /\ field_from_db_sort_key db = Some f.
  Proof. intro f. exists [f]. split; reflexivity. Qed.
  Lemma roundtrip_map : forall k,
    exists db, map_to_db_sort_key H k = Some db /\ map_from_db_sort_key db = Some k.
  Proof. exact roundtrip_hash_prefixed. Qed.
  Lemma sorted_to_eq : forall p k, sorted_to_db_sort_key H p k = Some (p ++ hp k ++ k).
  Proof. intros. unfold sorted_to_db_sort_key. rewrite to_hash_prefixed_eq. reflexivity. Qed.
  Lemma roundtrip_sorted : forall p k, length p = 2%nat ->
    exists db, sorted_to_db_sort_key H p k = Some db /\ sorted_from_db_sort_key db = Some (p, k).
  Proof.
    intros p k L. exists (p ++ hp k ++ k). split; [apply sorted_to_eq|].
    unfold sorted_from_db_sort_key. rewrite <- L. rewrite slice_to_app, slice_from_app.
    unfold copy_u8_array. rewrite Nat.eqb_refl. rewrite from_hash_prefixed_app. reflexivity.
  Qed.
  Lemma roundtrip_sort_key : forall key, key_wf key ->
    exists db, to_db_sort_key H key = Some db /\ from_db_sort_key (kind_of key) db = Some key.
  Proof.
    intros [f|k|p k] W; cbn [to_db_sort_key from_db_sort_key kind_of].
    - destruct (roundtrip_field f) as [db [E1 E2]]. exists db. rewrite E1, E2. split; reflexivity.
    - destruct (roundtrip_map k) as [db [E1 E2]]. exists db. rewrite E1, E2. split; reflexivity.
    - destruct (roundtrip_sorted p k W) as [db [E1 E2]]. exists db. rewrite E1, E2. split; reflexivity.
  Qed.

  (* ---- the to_ functions never panic; the from_ functions do not panic on the image ---- *)
  Lemma to_db_sort_key_no_panic : forall key, to_db_sort_key H key <> None.
  Proof.
    intros [f|k|p k]; cbn [to_db_sort_key]; unfold field_to_db_sort_key, map_to_db_sort_key;
      rewrite ?sorted_to_eq, ?to_hash_prefixed_eq; discriminate.
  Qed.

  (* ---- injectivity (no assumption on the hash beyond its fixed length) ---- *)
  Lemma hash_prefixed_inj : forall x y db, to_hash_prefixed H x = Some db -> to_hash_prefixed H y = Some db -> x = y.
  Proof.
    intros x y db Ex Ey. rewrite to_hash_prefixed_eq in Ex, Ey.
    assert (hp x ++ x = hp y ++ y) as E by congruence.
    apply app_inj_eq_len in E; [tauto|]. rewrite !hp_length. reflexivity.
  Qed.
  Lemma node_key_inj : forall n1 n2 db, to_db_node_key H n1 = Some db -> to_db_node_key H n2 = Some db -> n1 = n2.
  Proof. exact hash_prefixed_inj. Qed.
  Lemma sort_key_inj_same_kind : forall k1 k2 db, key_wf k1 -> key_wf k2 -> kind_of k1 = kind_of k2 ->
    to_db_sort_key H k1 = Some db -> to_db_sort_key H k2 = Some db -> k1 = k2.
  Proof.
    intros k1 k2 db W1 W2 KE E1 E2.
    destruct (roundtrip_sort_key k1 W1) as [d1 [A1 B1]]. destruct (roundtrip_sort_key k2 W2) as [d2 [A2 B2]].
    rewrite E1 in A1. rewrite E2 in A2. inversion A1; inversion A2; subst. rewrite KE in B1. congruence.
  Qed.
  (* a field key never collides with a map or sorted key (lengths 1 vs >= 20) *)
  Lemma field_vs_other : forall f k2 db, to_db_sort_key H (KField f) = Some db -> to_db_sort_key H k2 = Some db ->
    k2 = KField f.
  Proof.
    intros f [f2|k|p k] db E1 E2; cbn [to_db_sort_key] in *.
    - unfold field_to_db_sort_key in *. congruence.
    - exfalso. unfold field_to_db_sort_key, map_to_db_sort_key in *. rewrite to_hash_prefixed_eq in E2.
      assert ([f] = hp k ++ k) as E by congruence.
      apply (f_equal (@length _)) in E. rewrite app_length, hp_length in E. cbn in E. lia.
    - exfalso. unfold field_to_db_sort_key in *. rewrite sorted_to_eq in E2.
      assert ([f] = p ++ hp k ++ k) as E by congruence.
      apply (f_equal (@length _)) in E. rewrite !app_length, hp_length in E. cbn in E. lia.
  Qed.
  Lemma full_key_inj : forall n1 p1 k1 n2 p2 k2 pk db,
    key_wf k1 -> key_wf k2 -> kind_of k1 = kind_of k2 ->
    to_db_partition_key H n1 p1 = Some pk -> to_db_partition_key H n2 p2 = Some pk ->
    to_db_sort_key H k1 = Some db -> to_db_sort_key H k2 = Some db ->
    n1 = n2 /\ p1 = p2 /\ k1 = k2.
  Proof.
    intros n1 p1 k1 n2 p2 k2 pk db W1 W2 KE P1 P2 S1 S2.
    unfold to_db_partition_key, to_db_node_key in P1, P2. rewrite to_hash_prefixed_eq in P1, P2.
    unfold to_db_partition_num in *.
    assert ((hp n1 ++ n1, p1) = (hp n2 ++ n2, p2)) as E by congruence. injection E as E1 E2.
    apply app_inj_eq_len in E1; [|rewrite !hp_length; reflexivity]. destruct E1 as [_ E1].
    split; [exact E1|]. split; [exact E2|]. eapply sort_key_inj_same_kind; eassumption.
  Qed.

  (* ---- order of sorted keys: the 2-byte prefix decides first ---- *)
  Lemma sorted_cmp : forall p1 k1 p2 k2 d1 d2, length p1 = 2%nat -> length p2 = 2%nat ->
    sorted_to_db_sort_key H p1 k1 = Some d1 -> sorted_to_db_sort_key H p2 k2 = Some d2 ->
    bcmp d1 d2 = match bcmp p1 p2 with Eq => bcmp (hp k1 ++ k1) (hp k2 ++ k2) | c => c end.
  Proof.
    intros p1 k1 p2 k2 d1 d2 L1 L2 E1 E2. rewrite sorted_to_eq in E1, E2.
    injection E1 as <-. injection E2 as <-. apply bcmp_app_eq_len. congruence.
  Qed.
  Lemma sorted_prefix_order : forall p1 k1 p2 k2 d1 d2, length p1 = 2%nat -> length p2 = 2%nat ->
    sorted_to_db_sort_key H p1 k1 = Some d1 -> sorted_to_db_sort_key H p2 k2 = Some d2 ->
    blt p1 p2 = true -> blt d1 d2 = true.
  Proof.
    intros p1 k1 p2 k2 d1 d2 L1 L2 E1 E2 B. unfold blt in *. rewrite (sorted_cmp _ _ _ _ _ _ L1 L2 E1 E2).
    destruct (bcmp p1 p2); try discriminate. reflexivity.
  Qed.
  Lemma sorted_order_reflects : forall p1 k1 p2 k2 d1 d2, length p1 = 2%nat -> length p2 = 2%nat ->
    sorted_to_db_sort_key H p1 k1 = Some d1 -> sorted_to_db_sort_key H p2 k2 = Some d2 ->
    ble d1 d2 = true -> ble p1 p2 = true.
  Proof.
    intros p1 k1 p2 k2 d1 d2 L1 L2 E1 E2 B. unfold ble in *. rewrite (sorted_cmp _ _ _ _ _ _ L1 L2 E1 E2) in B.
    destruct (bcmp p1 p2); try discriminate; reflexivity.
  Qed.
  (* with the prefix read as a big-endian u16 (how the engine's sorted indexes build it) *)
  Lemma sorted_u16_order : forall v w k1 k2 d1 d2, v < w -> w < 65536 ->
    sorted_to_db_sort_key H (be_encode 2 v) k1 = Some d1 -> sorted_to_db_sort_key H (be_encode 2 w) k2 = Some d2 ->
    blt d1 d2 = true.
  Proof.
    intros v w k1 k2 d1 d2 Lt Bw E1 E2.
    eapply sorted_prefix_order; try eassumption; try apply be_encode_length.
    unfold blt. rewrite be_encode_cmp by (change (256 ^ N.of_nat 2) with 65536; lia).
    apply N.compare_lt_iff in Lt. rewrite Lt. reflexivity.
  Qed.
End Proofs.

(* ---- the from_ functions panic on keys that are too short (callers pass stored keys only) ---- *)
Lemma from_node_key_wrong_length : forall db, length db <> (HASHED_PREFIX_LENGTH + NODE_ID_LENGTH)%nat ->
  from_db_node_key db = None.
Proof.
  intros db L. unfold from_db_node_key, from_hash_prefixed, slice_from.
  destruct (HASHED_PREFIX_LENGTH <=? length db)%nat eqn:E; [|reflexivity].
  unfold copy_u8_array. rewrite skipn_length. apply Nat.leb_le in E.
  replace (length db - HASHED_PREFIX_LENGTH =? NODE_ID_LENGTH)%nat with false; [reflexivity|].
  symmetry. apply Nat.eqb_neq. lia.
Qed.
Lemma from_map_key_short : forall db, (length db < HASHED_PREFIX_LENGTH)%nat -> map_from_db_sort_key db = None.
Proof. intros db L. apply slice_from_short. exact L. Qed.
Lemma from_field_key_empty : field_from_db_sort_key [] = None.
Proof. reflexivity. Qed.
Lemma from_sorted_key_short : forall db, (length db < 2 + HASHED_PREFIX_LENGTH)%nat -> sorted_from_db_sort_key db = None.
Proof.
  intros db L. unfold sorted_from_db_sort_key, slice_to, slice_from.
  destruct (2 <=? length db)%nat eqn:E; [|reflexivity].
  unfold copy_u8_array. destruct (length (firstn 2 db) =? 2)%nat; [|reflexivity].
  unfold from_hash_prefixed, slice_from. rewrite skipn_length.
  replace (HASHED_PREFIX_LENGTH <=? length db - 2)%nat with false; [reflexivity|].
  symmetry. apply Nat.leb_gt. apply Nat.leb_le in E. lia.
Qed.
(* field_from is not injective off the image: it ignores trailing bytes *)
Lemma field_from_ignores_tail : forall f r, field_from_db_sort_key (f :: r) = Some f.
Proof. reflexivity. Qed.

(* ---- Map key vs Sorted key: a collision forces an 18-byte overlap of two hash prefixes ---- *)
Section CrossKind.
  Variable H : bytes -> bytes.
  Hypothesis H_len : forall x, length (H x) = HASH_LENGTH.

  Lemma split_at : forall (n : nat) (l : bytes), l = firstn n l ++ skipn n l.
  Proof. intros. symmetry. apply firstn_skipn. Qed.

  Lemma map_vs_sorted_collision : forall k p k' db, length p = 2%nat ->
    to_db_sort_key H (KMap k) = Some db -> to_db_sort_key H (KSorted p k') = Some db ->
    k = skipn 18 (hp H k') ++ k' /\ p = firstn 2 (hp H k) /\ skipn 2 (hp H k) = firstn 18 (hp H k').
  Proof.
    intros k p k' db Lp E1 E2. cbn [to_db_sort_key] in E1, E2. unfold map_to_db_sort_key in E1.
    rewrite (to_hash_prefixed_eq H H_len) in E1. rewrite (sorted_to_eq H H_len) in E2.
    assert (hp H k ++ k = p ++ hp H k' ++ k') as E by congruence. clear E1 E2.
    pose proof (hp_length H H_len k) as L1. pose proof (hp_length H H_len k') as L2. unfold HASHED_PREFIX_LENGTH in *.
    rewrite (split_at 2 (hp H k)) in E at 1. rewrite (split_at 18 (hp H k')) in E at 1. rewrite <- !app_assoc in E.
    apply app_inj_eq_len in E; [|rewrite firstn_length, L1, Lp; reflexivity]. destruct E as [Ep E].
    apply app_inj_eq_len in E; [|rewrite skipn_length, firstn_length, L1, L2; reflexivity]. destruct E as [Es Ek].
    split; [exact Ek|]. split; [symmetry; exact Ep|exact Es].
  Qed.

  (* the hypothesis under which Map and Sorted keys never collide: for no k' do bytes 2..20 of the hash
     prefix of (last two prefix bytes of k' ++ k') equal bytes 0..18 of the hash prefix of k' *)
  Definition NoShiftedOverlap : Prop :=
    forall k', skipn 2 (hp H (skipn 18 (hp H k') ++ k')) <> firstn 18 (hp H k').

  Lemma map_vs_sorted_distinct : NoShiftedOverlap -> forall k p k' db, length p = 2%nat ->
    to_db_sort_key H (KMap k) = Some db -> to_db_sort_key H (KSorted p k') = Some db -> False.
  Proof.
    intros NS k p k' db Lp E1 E2. destruct (map_vs_sorted_collision k p k' db Lp E1 E2) as [Ek [_ Es]].
    subst k. exact (NS k' Es).
  Qed.

  Lemma sort_key_inj_all_kinds : NoShiftedOverlap -> forall k1 k2 db, key_wf k1 -> key_wf k2 ->
    to_db_sort_key H k1 = Some db -> to_db_sort_key H k2 = Some db -> k1 = k2.
  Proof.
    intros NS k1 k2 db W1 W2 E1 E2.
    destruct k1 as [f1|m1|p1 s1], k2 as [f2|m2|p2 s2];
      try (apply (sort_key_inj_same_kind H H_len _ _ db W1 W2 eq_refl E1 E2)).
    - symmetry. apply (field_vs_other H H_len f1 _ db E1 E2).
    - symmetry. apply (field_vs_other H H_len f1 _ db E1 E2).
    - apply (field_vs_other H H_len f2 _ db E2 E1).
    - exfalso. exact (map_vs_sorted_distinct NS m1 p2 s2 db W2 E1 E2).
    - apply (field_vs_other H H_len f2 _ db E2 E1).
    - exfalso. exact (map_vs_sorted_distinct NS m2 p1 s1 db W1 E2 E1).
  Qed.
End CrossKind.
