(* C03 / C04 — proofs about the ledger model (Model/C03_Ledger.v). *)
From Coq Require Import List ZArith NArith Bool Lia Permutation.
Import ListNotations.
Require Import RV.Model.C03_Ledger.
Open Scope Z_scope.

Arguments Z.add : simpl never.
Arguments Z.sub : simpl never.
Arguments Z.mul : simpl never.
Arguments Z.opp : simpl never.
Arguments Z.pow : simpl never.
Arguments Z.min : simpl never.
Arguments ONE : simpl never.
Arguments DEC_MAX : simpl never.
Arguments DEC_MIN : simpl never.
Arguments MAX_MINT : simpl never.
Opaque ONE DEC_MAX DEC_MIN MAX_MINT.

(* ------------------------------------------------------------------------------------------ *)
(* small facts                                                                                 *)
(* ------------------------------------------------------------------------------------------ *)
Lemma ONE_pos : 0 < ONE.
Proof. Transparent ONE. unfold ONE. reflexivity. Qed.

Lemma cnt_app : forall a b, cnt (a ++ b) = cnt a + cnt b.
Proof. intros. unfold cnt. rewrite app_length, Nat2Z.inj_add. lia. Qed.
Lemma cnt_nil : cnt [] = 0.
Proof. reflexivity. Qed.
Lemma cnt_nonneg : forall a, 0 <= cnt a.
Proof. intros. unfold cnt. pose proof ONE_pos. nia. Qed.

Lemma cadd_some : forall a b c, cadd a b = Some c -> c = a + b.
Proof. unfold cadd. intros a b c. destruct (in_dec (a + b)); congruence. Qed.
Lemma csub_some : forall a b c, csub a b = Some c -> c = a - b.
Proof. unfold csub. intros a b c. destruct (in_dec (a - b)); congruence. Qed.

Lemma neqb_refl : forall r, N.eqb r r = true.
Proof. apply N.eqb_refl. Qed.

(* ------------------------------------------------------------------------------------------ *)
(* association lists and sums                                                                  *)
(* ------------------------------------------------------------------------------------------ *)
Definition ind (r r' : N) (x : Z) : Z := if N.eqb r r' then x else 0.

Lemma fsum_aset : forall l k r0 x y r,
  aget k l = Some (r0, x) -> fsum r (aset k (r0, y) l) = fsum r l + ind r r0 (y - x).
Proof.
  induction l as [| [k' [r' x']] t IH]; intros k r0 x y r H; cbn in *; [discriminate|].
  destruct (N.eqb k k') eqn:E.
  - inversion H; subst. cbn. unfold ind. destruct (N.eqb r r0); lia.
  - cbn. rewrite (IH _ _ _ y r H). lia.
Qed.
Lemma fsum_adel : forall l k r0 x r,
  aget k l = Some (r0, x) -> fsum r (adel k l) = fsum r l - ind r r0 x.
Proof.
  induction l as [| [k' [r' x']] t IH]; intros k r0 x r H; cbn in *; [discriminate|].
  destruct (N.eqb k k') eqn:E.
  - inversion H; subst. unfold ind. destruct (N.eqb r r0); lia.
  - cbn. rewrite (IH _ _ _ r H). lia.
Qed.
Lemma fsum_cons : forall l k r0 x r, fsum r ((k, (r0, x)) :: l) = ind r r0 x + fsum r l.
Proof. reflexivity. Qed.

Lemma nsum_aset : forall l k r0 a ids a' ids' r,
  aget k l = Some (r0, (a, ids)) -> nsum r (aset k (r0, (a', ids')) l) = nsum r l + ind r r0 (a' - a).
Proof.
  induction l as [| [k' [r' [x' i']]] t IH]; intros k r0 a ids a' ids' r H; cbn in *; [discriminate|].
  destruct (N.eqb k k') eqn:E.
  - inversion H; subst. cbn. unfold ind. destruct (N.eqb r r0); lia.
  - cbn. rewrite (IH _ _ _ _ a' ids' r H). lia.
Qed.
Lemma nsum_cons : forall l k r0 a ids r, nsum r ((k, (r0, (a, ids))) :: l) = ind r r0 a + nsum r l.
Proof. reflexivity. Qed.

Definition bsum (r : N) (l : list (N * (N * list N))) : Z := cnt (bids r l).
Lemma bsum_cons : forall l k r0 ids r, bsum r ((k, (r0, ids)) :: l) = ind r r0 (cnt ids) + bsum r l.
Proof. intros. unfold bsum, ind. cbn. rewrite cnt_app. destruct (N.eqb r r0); reflexivity. Qed.
Lemma bsum_nil : forall r, bsum r [] = 0.
Proof. reflexivity. Qed.
Lemma bsum_aset : forall l k r0 ids ids' r,
  aget k l = Some (r0, ids) -> bsum r (aset k (r0, ids') l) = bsum r l + ind r r0 (cnt ids' - cnt ids).
Proof.
  induction l as [| [k' [r' i']] t IH]; intros k r0 ids ids' r H; cbn in *; [discriminate|].
  destruct (N.eqb k k') eqn:E.
  - inversion H; subst. rewrite !bsum_cons. unfold ind. destruct (N.eqb r r0); lia.
  - rewrite !bsum_cons. rewrite (IH _ _ _ ids' r H). lia.
Qed.
Lemma bsum_adel : forall l k r0 ids r,
  aget k l = Some (r0, ids) -> bsum r (adel k l) = bsum r l - ind r r0 (cnt ids).
Proof.
  induction l as [| [k' [r' i']] t IH]; intros k r0 ids r H; cbn in *; [discriminate|].
  destruct (N.eqb k k') eqn:E.
  - inversion H; subst. rewrite bsum_cons. lia.
  - rewrite !bsum_cons. rewrite (IH _ _ _ r H). lia.
Qed.

Lemma aget_adel_other : forall {V} (l : list (N * V)) k k', N.eqb k k' = false -> aget k (adel k' l) = aget k l.
Proof.
  induction l as [| [k0 v0] t IH]; intros k k' H; cbn; [reflexivity|].
  destruct (N.eqb k' k0) eqn:E1.
  - apply N.eqb_eq in E1; subst. rewrite H. reflexivity.
  - cbn. destruct (N.eqb k k0); [reflexivity|]. apply IH; assumption.
Qed.

Lemma fees_sum_app : forall a b, fees_sum (a ++ b) = fees_sum a + fees_sum b.
Proof. induction a as [| [[v x] c] t IH]; intros; cbn; [lia|]. rewrite IH. lia. Qed.
Lemma fees_sum_rev : forall a, fees_sum (rev a) = fees_sum a.
Proof. induction a as [| [[v x] c] t IH]; cbn; [reflexivity|]. rewrite fees_sum_app, IH. cbn. lia. Qed.

(* the fungible part of [total]: vaults + buckets in flight + (XRD) locked fees *)
Definition total_f (r : N) (s : state) : Z :=
  fsum r (s_fv s) + fsum r (s_fb s) + (if N.eqb r XRD then fees_sum (s_fees s) else 0).
Definition total_n (r : N) (s : state) : Z := nsum r (s_nv s) + bsum r (s_nb s).
Lemma total_split : forall r s, total r s = total_f r s + total_n r s.
Proof. intros. unfold total, total_f, total_n, bsum. lia. Qed.
Lemma total_eq : forall r s,
  total_f r s = fsum r (s_fv s) + fsum r (s_fb s) + (if N.eqb r XRD then fees_sum (s_fees s) else 0).
Proof. reflexivity. Qed.
(* fungible mint / burn events *)
Fixpoint mintedF (r : N) (evs : list event) : Z :=
  match evs with
  | [] => 0
  | EvMintF r' a :: t => (if N.eqb r r' then a else 0) + mintedF r t
  | _ :: t => mintedF r t
  end.
Fixpoint burnedF (r : N) (evs : list event) : Z :=
  match evs with
  | [] => 0
  | EvBurnF r' a :: t => (if N.eqb r r' then a else 0) + burnedF r t
  | _ :: t => burnedF r t
  end.

(* ------------------------------------------------------------------------------------------ *)
(* LiquidFungibleResource                                                                      *)
(* ------------------------------------------------------------------------------------------ *)
Lemma f_take_ok : forall l k a l' r0,
  f_take l k a = Ok (l', r0) ->
  exists bal, aget k l = Some (r0, bal) /\ a <= bal /\ l' = aset k (r0, bal - a) l.
Proof.
  unfold f_take. intros l k a l' r0 H.
  destruct (aget k l) as [[r bal]|] eqn:G; [|discriminate].
  destruct (bal <? a) eqn:L; [discriminate|].
  destruct (csub bal a) eqn:C; [|discriminate].
  apply csub_some in C. inversion H; subst. exists bal. apply Z.ltb_ge in L. auto.
Qed.
Lemma f_take_sum : forall l k a l' r0 r,
  f_take l k a = Ok (l', r0) -> fsum r l' = fsum r l - ind r r0 a.
Proof.
  intros l k a l' r0 r H. apply f_take_ok in H. destruct H as [bal [G [L E]]]. subst.
  rewrite (fsum_aset _ _ _ _ _ r G). unfold ind. destruct (N.eqb r r0); lia.
Qed.
Lemma f_put_ok : forall l k r a l',
  f_put l k r a = Ok l' -> exists bal, aget k l = Some (r, bal) /\ l' = aset k (r, bal + a) l.
Proof.
  unfold f_put. intros l k r a l' H.
  destruct (aget k l) as [[r' bal]|] eqn:G; [|discriminate].
  destruct (N.eqb r r') eqn:E; cbn in H; [|discriminate].
  apply N.eqb_eq in E; subst.
  destruct (cadd bal a) eqn:C; [|discriminate]. apply cadd_some in C. inversion H; subst. eauto.
Qed.
Lemma f_put_sum : forall l k r0 a l' r,
  f_put l k r0 a = Ok l' -> fsum r l' = fsum r l + ind r r0 a.
Proof.
  intros l k r0 a l' r H. apply f_put_ok in H. destruct H as [bal [G E]]. subst.
  rewrite (fsum_aset _ _ _ _ _ r G). unfold ind. destruct (N.eqb r r0); lia.
Qed.

(* ------------------------------------------------------------------------------------------ *)
(* supply_add                                                                                  *)
(* ------------------------------------------------------------------------------------------ *)
Definition supply_z (r : N) (s : state) : Z := match supply_of r s with Some t => t | None => 0 end.

Lemma aget_aset_same : forall {V} (l : list (N * V)) k v, aget k (aset k v l) = Some v.
Proof.
  induction l as [| [k0 v0] t IH]; intros; cbn.
  - rewrite N.eqb_refl. reflexivity.
  - destruct (N.eqb k k0) eqn:E; cbn; rewrite ?N.eqb_refl, ?E; auto.
Qed.
Lemma aget_aset_other : forall {V} (l : list (N * V)) k k' v, N.eqb k k' = false -> aget k (aset k' v l) = aget k l.
Proof.
  induction l as [| [k0 v0] t IH]; intros k k' v H; cbn.
  - rewrite H. reflexivity.
  - destruct (N.eqb k' k0) eqn:E; cbn.
    + apply N.eqb_eq in E; subst. rewrite H. reflexivity.
    + destruct (N.eqb k k0); auto.
Qed.

Lemma supply_add_spec : forall s r d s',
  supply_add s r d = Ok s' ->
  s_fv s' = s_fv s /\ s_nv s' = s_nv s /\ s_fb s' = s_fb s /\ s_nb s' = s_nb s /\ s_data s' = s_data s
  /\ s_fees s' = s_fees s
  /\ (exists ri, aget r (s_res s) = Some ri)
  /\ (forall r', supply_of r' s' = match supply_of r' s with
                                   | Some t => Some (t + ind r' r d)
                                   | None => None end)
  /\ (forall r', (aget r' (s_res s') = None <-> aget r' (s_res s) = None)).
Proof.
  unfold supply_add. intros s r d s' H.
  destruct (aget r (s_res s)) as [ri|] eqn:G; [|discriminate].
  destruct (r_supply ri) as [t|] eqn:S.
  - destruct (cadd t d) eqn:C; [|discriminate]. apply cadd_some in C. inversion H; subst; clear H. cbn.
    repeat split; eauto.
    + intros r'. unfold supply_of. cbn. destruct (N.eqb r' r) eqn:E.
      * apply N.eqb_eq in E; subst. rewrite aget_aset_same, G. cbn. rewrite S. unfold ind. rewrite N.eqb_refl. reflexivity.
      * rewrite aget_aset_other by assumption. destruct (aget r' (s_res s)) as [ri'|]; [|reflexivity].
        destruct (r_supply ri'); [|reflexivity]. unfold ind. rewrite E. f_equal. lia.
    + destruct (N.eqb r' r) eqn:E.
      * apply N.eqb_eq in E; subst. rewrite aget_aset_same. discriminate.
      * rewrite aget_aset_other by assumption. auto.
    + destruct (N.eqb r' r) eqn:E.
      * apply N.eqb_eq in E; subst. rewrite G. discriminate.
      * rewrite aget_aset_other by assumption. auto.
  - inversion H; subst. repeat split; eauto.
    intros r'. destruct (supply_of r' s') eqn:Q; [|reflexivity]. unfold ind.
    destruct (N.eqb r' r) eqn:E; [|f_equal; lia].
    apply N.eqb_eq in E; subst. unfold supply_of in Q. rewrite G, S in Q. discriminate.
Qed.

Lemma supply_add_total : forall s r d s' r', supply_add s r d = Ok s' -> total_f r' s' = total_f r' s.
Proof.
  intros s r d s' r' H. apply supply_add_spec in H.
  destruct H as (A & B & C & D & _ & F & _). unfold total_f. rewrite A, C, F. reflexivity.
Qed.

(* ------------------------------------------------------------------------------------------ *)
(* which operations the theorems are about                                                     *)
(* ------------------------------------------------------------------------------------------ *)
(* The property is stated for transactions without free fee credit; the remaining conditions say
   that the fee reserve hands non-negative shares to the finalisation (C06's subject). *)
Definition fee_ok (p : fee_params) : Prop :=
  fp_free_credit p = 0 /\ 0 <= fp_to_burn p /\ 0 <= fp_to_rewards p
  /\ fp_total_royalty p = fold_right (fun x acc => snd x + acc) 0 (fp_royalties p)
  /\ Forall (fun x => 0 <= snd x) (fp_royalties p).
Definition op_ok (o : op) : Prop :=
  match o with
  | OPayFee p => fee_ok p
  | _ => True
  end.

Definition xrd_ok (s : state) : Prop := exists ri, aget XRD (s_res s) = Some ri /\ r_supply ri = None.

(* ------------------------------------------------------------------------------------------ *)
(* fee finalisation                                                                            *)
(* ------------------------------------------------------------------------------------------ *)
Lemma pay_royalties_sum : forall rs fv fv' evs r,
  pay_royalties rs fv = Ok (fv', evs) ->
  fsum r fv' = fsum r fv + ind r XRD (fold_right (fun x acc => snd x + acc) 0 rs)
  /\ mintedF r evs = 0 /\ burnedF r evs = 0.
Proof.
  induction rs as [| [v a] t IH]; intros fv fv' evs r H; cbn in H.
  - inversion H; subst. cbn. unfold ind. destruct (N.eqb r XRD); split; try lia; auto.
  - unfold bind in H. destruct (f_put fv v XRD a) as [fv1| |] eqn:P; try discriminate.
    destruct (pay_royalties t fv1) as [[fv2 ev2]| |] eqn:R; try discriminate.
    inversion H; subst; clear H. destruct (IH _ _ _ r R) as [A [B C]].
    rewrite A, (f_put_sum _ _ _ _ _ r P). cbn. unfold ind. destruct (N.eqb r XRD); repeat split; try lia; auto.
Qed.

Lemma pay_fees_sum : forall success fees fv required collected fv' evs rq col r,
  pay_fees success fees fv required collected = Ok (fv', evs, rq, col) ->
  fsum r fv' + ind r XRD col = fsum r fv + ind r XRD (collected + fees_sum fees)
  /\ mintedF r evs = 0 /\ burnedF r evs = 0.
Proof.
  induction fees as [| [[v locked] cont] t IH]; intros fv required collected fv' evs rq col r H; cbn in H.
  - inversion H; subst. cbn. unfold ind. destruct (N.eqb r XRD); repeat split; try lia; auto.
  - set (amount := if cont then if success then Z.min locked required else 0 else Z.min locked required) in *.
    destruct (locked <? amount); [discriminate|].
    destruct (csub locked amount) as [rest|] eqn:C1; [|discriminate].
    destruct (cadd collected amount) as [c'|] eqn:C2; [|discriminate].
    destruct (csub required amount) as [r'|] eqn:C3; [|discriminate].
    unfold bind in H. destruct (f_put fv v XRD rest) as [fv1| |] eqn:P; try discriminate.
    destruct (pay_fees success t fv1 r' c') as [[[[fv2 ev2] rq2] col2]| |] eqn:R; try discriminate.
    inversion H; subst; clear H.
    apply csub_some in C1. apply cadd_some in C2. subst.
    destruct (IH _ _ _ _ _ _ _ r R) as [A [B C]].
    pose proof (f_put_sum _ _ _ _ _ r P) as Q. cbn.
    unfold ind in *. destruct (N.eqb r XRD); repeat split; try lia; auto.
Qed.

Lemma finalize_total : forall p s s' evs r,
  finalize_fees p s = Ok (s', evs) -> fee_ok p ->
  total_f r s' = total_f r s + mintedF r evs - burnedF r evs.
Proof.
  unfold finalize_fees, bind. intros p s s' evs r H [FC [TB [TR [RY _]]]].
  destruct (pay_royalties (fp_royalties p) (s_fv s)) as [[fv1 ev1]| |] eqn:P1; try discriminate.
  destruct (pay_fees (fp_success p) (rev (s_fees s)) fv1 (fp_total_cost p) 0) as [[[[fv2 ev2] required] collected]| |] eqn:P2; try discriminate.
  rewrite FC in H. cbn [Z.ltb Z.compare] in H.
  replace (0 <? 0) with false in H by reflexivity.
  destruct (cadd collected 0) as [col|] eqn:C1; [|discriminate]. apply cadd_some in C1.
  destruct (csub required 0) as [req|] eqn:C2; [|discriminate]. apply csub_some in C2.
  destruct (req =? 0) eqn:RQ; cbn in H; [|discriminate].
  destruct (csub col (fp_total_royalty p)) as [remaining|] eqn:C3; [|discriminate]. apply csub_some in C3.
  destruct (cadd (fp_to_rewards p) (fp_to_burn p)) as [td|] eqn:C4; [|discriminate]. apply cadd_some in C4.
  destruct (remaining =? td) eqn:RM; cbn in H; [|discriminate]. apply Z.eqb_eq in RM.
  destruct (pay_royalties_sum _ _ _ _ r P1) as [A1 [M1 B1]].
  destruct (pay_fees_sum _ _ _ _ _ _ _ _ _ r P2) as [A2 [M2 B2]].
  rewrite fees_sum_rev in A2.
  assert (MA : forall a b, mintedF r (a ++ b) = mintedF r a + mintedF r b).
  { induction a as [| e t IH]; intros; cbn; [lia|]. destruct e; cbn; rewrite ?IH; lia. }
  assert (BA : forall a b, burnedF r (a ++ b) = burnedF r a + burnedF r b).
  { induction a as [| e t IH]; intros; cbn; [lia|]. destruct e; cbn; rewrite ?IH; lia. }
  destruct (fp_to_rewards p =? 0) eqn:TW; cbn in H.
  - inversion H; subst; clear H. apply Z.eqb_eq in TW.
    rewrite !MA, !BA, M1, M2, B1, B2. rewrite !total_eq. cbn.
    unfold ind in *. destruct (N.eqb r XRD) eqn:E.
    + destruct (0 <? fp_to_burn p) eqn:TB'; cbn; rewrite ?E; lia.
    + destruct (0 <? fp_to_burn p) eqn:TB'; cbn; rewrite ?E; lia.
  - destruct (col <? fp_to_rewards p); [discriminate|].
    destruct (f_put fv2 (fp_rewards_vault p) XRD (fp_to_rewards p)) as [fv3| |] eqn:P3; try discriminate.
    inversion H; subst; clear H. pose proof (f_put_sum _ _ _ _ _ r P3) as A3.
    rewrite !MA, !BA, M1, M2, B1, B2. rewrite !total_eq. cbn.
    unfold ind in *. destruct (N.eqb r XRD) eqn:E.
    + destruct (0 <? fp_to_burn p) eqn:TB'; cbn; rewrite ?E; apply Z.ltb_ge in TB' || apply Z.ltb_lt in TB'; lia.
    + destruct (0 <? fp_to_burn p) eqn:TB'; cbn; rewrite ?E; lia.
Qed.


(* ------------------------------------------------------------------------------------------ *)
(* every operation moves the fungible total by exactly minted - burned                         *)
(* ------------------------------------------------------------------------------------------ *)
Lemma mintedF_app : forall r a b, mintedF r (a ++ b) = mintedF r a + mintedF r b.
Proof. induction a as [| e t IH]; intros; cbn; [lia|]. destruct e; cbn; rewrite ?IH; lia. Qed.
Lemma burnedF_app : forall r a b, burnedF r (a ++ b) = burnedF r a + burnedF r b.
Proof. induction a as [| e t IH]; intros; cbn; [lia|]. destruct e; cbn; rewrite ?IH; lia. Qed.

Ltac inv H := inversion H; subst; clear H.
Ltac ok_inv H :=
  repeat match type of H with
  | (if negb ?c then _ else _) = Ok _ => let E := fresh "E" in destruct c eqn:E; cbn [negb] in H; [|discriminate H]
  | (if ?c then Err _ else _) = Ok _ => let E := fresh "E" in destruct c eqn:E; [discriminate H|]
  | (if ?c then Panic else _) = Ok _ => let E := fresh "E" in destruct c eqn:E; [discriminate H|]
  | match ?x with Some _ => _ | None => Err _ end = Ok _ => let E := fresh "E" in destruct x eqn:E; [|discriminate H]
  | match ?x with Some _ => _ | None => Panic end = Ok _ => let E := fresh "E" in destruct x eqn:E; [|discriminate H]
  | match ?x with None => Err _ | Some _ => _ end = Ok _ => let E := fresh "E" in destruct x eqn:E; [|discriminate H]
  | bind ?x _ = Ok _ => let E := fresh "E" in destruct x eqn:E; cbn [bind] in H; try discriminate H
  | match ?x with Ok _ => _ | Err _ => _ | Panic => _ end = Ok _ => let E := fresh "E" in destruct x eqn:E; try discriminate H
  | (let (_, _) := ?x in _) = Ok _ => is_var x; destruct x; cbv beta iota in H
  | match ?x with (_, _) => _ end = Ok _ => is_var x; destruct x; cbv beta iota in H
  end.

Lemma check_mint_amount_ok : forall a d u, check_mint_amount a d = Ok u -> 0 <= a.
Proof.
  unfold check_mint_amount, check_amount. intros a d u H.
  destruct ((0 <=? a) && (a mod 10 ^ (18 - d) =? 0)) eqn:E; cbn in H; [|discriminate].
  apply andb_true_iff in E. destruct E as [E _]. apply Z.leb_le in E. exact E.
Qed.

Ltac totals := rewrite ?total_eq; cbn [s_fv s_nv s_fb s_nb s_fees s_res s_data set_res set_fv set_nv set_fb set_nb set_data set_fees mintedF burnedF];
  rewrite ?fsum_cons.
Ltac fin r := unfold ind in *; repeat match goal with |- context [N.eqb r ?x] => destruct (N.eqb r x) eqn:? end; try lia.

Ltac same_get :=
  repeat match goal with
  | H1 : aget ?k ?l = Some _, H2 : aget ?k ?l = Some _ |- _ => rewrite H1 in H2; inversion H2; subst; clear H2
  end.
Ltac eqs :=
  repeat match goal with
  | H : N.eqb _ _ = true |- _ => apply N.eqb_eq in H; subst
  | H : Z.eqb _ _ = true |- _ => apply Z.eqb_eq in H; subst
  | H : cadd _ _ = Some _ |- _ => apply cadd_some in H; subst
  | H : csub _ _ = Some _ |- _ => apply csub_some in H; subst
  end.
Ltac use_hyps r :=
  repeat match goal with
  | H : f_take _ _ _ = Ok _ |- _ =>
      let Q := fresh "Q" in pose proof (f_take_sum _ _ _ _ _ r H) as Q;
      apply f_take_ok in H; destruct H as (? & ? & ? & ?)
  | H : f_put _ _ _ _ = Ok _ |- _ =>
      let Q := fresh "Q" in pose proof (f_put_sum _ _ _ _ _ r H) as Q;
      apply f_put_ok in H; destruct H as (? & ? & ?)
  | H : supply_add _ _ _ = Ok _ |- _ =>
      let Q := fresh "Q" in pose proof (supply_add_total _ _ _ _ r H) as Q; clear H
  end.
Ltac sums r :=
  repeat match goal with
  | H : aget ?k ?l = Some (?r0, ?x) |- context [fsum r (adel ?k ?l)] => rewrite (fsum_adel _ _ _ _ r H)
  | H : aget ?k ?l = Some (?r0, ?x), Q : context [fsum r (adel ?k ?l)] |- _ => rewrite (fsum_adel _ _ _ _ r H) in Q
  end.
Ltac fin2 r H :=
  inversion H; subst; clear H; eqs; use_hyps r; same_get;
  rewrite ?total_eq in *;
  cbn [s_fv s_nv s_fb s_nb s_fees s_res s_data set_res set_fv set_nv set_fb set_nb set_data set_fees mintedF burnedF fsum fees_sum] in *;
  rewrite ?fees_sum_app in *; cbn [fees_sum] in *;
  sums r; unfold ind in *;
  repeat match goal with Q : fsum r _ = _ |- _ => revert Q | Q : total_f r _ = _ |- _ => revert Q end;
  repeat match goal with
  | |- context [N.eqb r ?x] => destruct (N.eqb r x) eqn:?
  end; intros; try lia.

Lemma step_total : forall s o s' evs r,
  step s o = Ok (s', evs) -> op_ok o ->
  total_f r s' = total_f r s + mintedF r evs - burnedF r evs.
Proof.
  intros s o s' evs r H OK. destruct o; cbn [step] in H; cbn [op_ok] in OK.
  - (* OCreateF *) ok_inv H. destruct initial as [[a b]|]; ok_inv H; fin2 r H.
  - (* OCreateN *) ok_inv H. destruct initial as [[ids b]|]; ok_inv H; fin2 r H.
  - (* OMintF *) ok_inv H. fin2 r H.
  - (* OMintN *) ok_inv H. apply supply_add_spec in E2. destruct E2 as (A & B & C & D & _ & F & _).
    inversion H; subst; clear H. rewrite !total_eq. cbn. rewrite A, C, F. lia.
  - (* OBurn *) destruct (aget b (s_fb s)) as [[r0 a]|] eqn:G1.
    + ok_inv H. fin2 r H.
    + destruct (aget b (s_nb s)) as [[r0 ids]|] eqn:G2; [|discriminate].
      ok_inv H. apply supply_add_spec in E. destruct E as (A & B & C & D & _ & F & _).
      inversion H; subst; clear H. rewrite !total_eq. cbn. rewrite A, C, F. cbn. lia.
  - (* OCreateVault *) ok_inv H. destruct (r_nf r1); fin2 r H.
  - (* OCreateBucket *) ok_inv H. destruct (r_nf r1); fin2 r H.
  - (* ODropEmpty *) destruct (aget b (s_fb s)) as [[r0 a]|] eqn:G1.
    + destruct (a =? 0) eqn:Z0; [|discriminate]. fin2 r H.
    + destruct (aget b (s_nb s)) as [[r0 ids]|] eqn:G2; [|discriminate].
      destruct ids; [|discriminate]. fin2 r H.
  - (* OVaultTake *) ok_inv H. fin2 r H.
  - (* OVaultTakeN *) ok_inv H. fin2 r H.
  - (* OVaultTakeIds *) ok_inv H. fin2 r H.
  - (* OVaultPut *) destruct (aget b (s_fb s)) as [[r0 a]|] eqn:G1.
    + ok_inv H. destruct (a =? 0) eqn:Z0.
      * fin2 r H.
      * ok_inv H. fin2 r H.
    + destruct (aget b (s_nb s)) as [[r0 ids]|] eqn:G2; [|discriminate].
      ok_inv H. destruct ids as [|i ids].
      * fin2 r H.
      * ok_inv H. fin2 r H.
  - (* OVaultRecall *) ok_inv H. fin2 r H.
  - (* OVaultRecallIds *) ok_inv H. fin2 r H.
  - (* OBucketTake *) ok_inv H. fin2 r H.
  - (* OBucketTakeIds *) ok_inv H. fin2 r H.
  - (* OBucketPut *) destruct (N.eqb b b') eqn:NE; [discriminate|].
    destruct (aget b' (s_fb s)) as [[r0 a]|] eqn:G1.
    + ok_inv H. fin2 r H.
    + destruct (aget b' (s_nb s)) as [[r0 ids]|] eqn:G2; [|discriminate].
      ok_inv H. fin2 r H.
  - (* OLockFee *) ok_inv H. fin2 r H.
  - (* OPayFee *) eapply finalize_total; eauto.
Qed.

(* ------------------------------------------------------------------------------------------ *)
(* op lists                                                                                    *)
(* ------------------------------------------------------------------------------------------ *)
Lemma run_total : forall ops s s' evs r,
  run s ops = Ok (s', evs) -> Forall op_ok ops ->
  total_f r s' = total_f r s + mintedF r evs - burnedF r evs.
Proof.
  induction ops as [| o t IH]; intros s s' evs r H OK; cbn in H.
  - inversion H; subst. cbn. lia.
  - unfold bind in H. destruct (step s o) as [[s1 e1]| |] eqn:S1; try discriminate.
    destruct (run s1 t) as [[s2 e2]| |] eqn:S2; try discriminate.
    inversion H; subst; clear H. inversion OK; subst.
    rewrite (IH _ _ _ r S2 H2), (step_total _ _ _ _ r S1 H1), mintedF_app, burnedF_app. lia.
Qed.

Definition fvault_sum (r : N) (s : state) : Z := fsum r (s_fv s).

Lemma at_rest_total : forall r s, at_rest s = true -> total_f r s = fvault_sum r s.
Proof.
  unfold at_rest, total_f, fvault_sum. intros r s H.
  destruct (s_fb s); [|discriminate]. destruct (s_nb s); [|discriminate]. destruct (s_fees s); [|discriminate].
  cbn. destruct (N.eqb r XRD); lia.
Qed.

(* C03 (fungible resources, incl. XRD with fee locks, refunds, rewards, royalties and the burnt fee
   share): a transaction = any accepted op list that starts and ends with nothing in flight. *)
Theorem tx_conservation_fungible : forall ops s s' evs,
  run s ops = Ok (s', evs) -> Forall op_ok ops -> at_rest s = true -> at_rest s' = true ->
  forall r, fvault_sum r s' - fvault_sum r s = mintedF r evs - burnedF r evs.
Proof.
  intros ops s s' evs H OK R0 R1 r.
  pose proof (run_total _ _ _ _ r H OK) as T.
  rewrite (at_rest_total r s R0), (at_rest_total r s' R1) in T. lia.
Qed.

(* with free credit the equation fails: the credited amount is collected without a source vault *)
Definition fc_state : state :=
  mkS [(XRD, mkR false 18 None)] [(1%N, (XRD, 0))] [] [] [] [] [].
Definition fc_params : fee_params := mkFee true 10 [] 0 5 5 1%N 10.
Lemma free_credit_counterexample :
  exists s' evs, step fc_state (OPayFee fc_params) = Ok (s', evs)
    /\ at_rest fc_state = true /\ at_rest s' = true
    /\ fvault_sum XRD s' - fvault_sum XRD fc_state <> mintedF XRD evs - burnedF XRD evs.
Proof. eexists. eexists. split; [vm_compute; reflexivity|]. repeat split; vm_compute; congruence. Qed.

(* ------------------------------------------------------------------------------------------ *)
(* recorded total supply moves by exactly minted - burned (all resource kinds)                 *)
(* ------------------------------------------------------------------------------------------ *)
Lemma minted_app : forall r a b, minted r (a ++ b) = minted r a + minted r b.
Proof. induction a as [| e t IH]; intros; cbn; [lia|]. destruct e; cbn; rewrite ?IH; lia. Qed.
Lemma burned_app : forall r a b, burned r (a ++ b) = burned r a + burned r b.
Proof. induction a as [| e t IH]; intros; cbn; [lia|]. destruct e; cbn; rewrite ?IH; lia. Qed.
Lemma quiet_events : forall r evs,
  Forall (fun e => match e with EvDeposit _ _ | EvPayFee _ _ => True | _ => False end) evs ->
  minted r evs = 0 /\ burned r evs = 0.
Proof. induction 1 as [| e t HE HT IH]; cbn; [auto|]. destruct e; try contradiction; exact IH. Qed.
Lemma pay_royalties_quiet : forall rs fv fv' evs, pay_royalties rs fv = Ok (fv', evs) ->
  Forall (fun e => match e with EvDeposit _ _ | EvPayFee _ _ => True | _ => False end) evs.
Proof.
  induction rs as [| [v a] t IH]; intros fv fv' evs H; cbn in H.
  - inversion H; subst. constructor.
  - unfold bind in H. destruct (f_put fv v XRD a) as [fv1| |]; try discriminate.
    destruct (pay_royalties t fv1) as [[fv2 ev2]| |] eqn:R; try discriminate.
    inversion H; subst. constructor; [exact I|]. eapply IH; eauto.
Qed.
Lemma pay_fees_quiet : forall success fees fv rq col fv' evs rq' col',
  pay_fees success fees fv rq col = Ok (fv', evs, rq', col') ->
  Forall (fun e => match e with EvDeposit _ _ | EvPayFee _ _ => True | _ => False end) evs.
Proof.
  induction fees as [| [[v locked] cont] t IH]; intros fv rq col fv' evs rq' col' H; cbn in H.
  - inversion H; subst. constructor.
  - destruct (locked <? _); [discriminate|].
    destruct (csub locked _); [|discriminate]. destruct (cadd col _); [|discriminate].
    destruct (csub rq _); [|discriminate]. unfold bind in H.
    destruct (f_put fv v XRD _) as [fv1| |]; try discriminate.
    destruct (pay_fees success t fv1 _ _) as [[[[fv2 ev2] rq2] col2]| |] eqn:R; try discriminate.
    inversion H; subst. constructor; [exact I|]. eapply IH; eauto.
Qed.
Lemma finalize_supply : forall p s s' evs r,
  finalize_fees p s = Ok (s', evs) -> s_res s' = s_res s /\ (N.eqb r XRD = false -> minted r evs = 0 /\ burned r evs = 0).
Proof.
  unfold finalize_fees, bind. intros p s s' evs r H.
  destruct (pay_royalties (fp_royalties p) (s_fv s)) as [[fv1 ev1]| |] eqn:P1; try discriminate.
  destruct (pay_fees (fp_success p) (rev (s_fees s)) fv1 (fp_total_cost p) 0) as [[[[fv2 ev2] required] collected]| |] eqn:P2; try discriminate.
  destruct (cadd collected _) as [col|]; [|discriminate].
  destruct (csub required _) as [req|]; [|discriminate].
  destruct (negb (req =? 0)); [discriminate|].
  destruct (csub col _); [|discriminate]. destruct (cadd (fp_to_rewards p) _); [|discriminate].
  destruct (negb _); [discriminate|].
  destruct (quiet_events r _ (pay_royalties_quiet _ _ _ _ P1)) as [M1 B1].
  destruct (quiet_events r _ (pay_fees_quiet _ _ _ _ _ _ _ _ _ P2)) as [M2 B2].
  destruct (negb (fp_to_rewards p =? 0)).
  - destruct (col <? fp_to_rewards p); [discriminate|].
    destruct (f_put fv2 _ XRD _); try discriminate. inversion H; subst. split; [reflexivity|]. intros NE.
    rewrite !minted_app, !burned_app, M1, M2, B1, B2. destruct (0 <? fp_to_burn p); cbn; rewrite ?NE; lia.
  - inversion H; subst. split; [reflexivity|]. intros NE.
    rewrite !minted_app, !burned_app, M1, M2, B1, B2. destruct (0 <? fp_to_burn p); cbn; rewrite ?NE; lia.
Qed.

Lemma supply_of_cons : forall s r0 ri r,
  supply_of r (set_res s ((r0, ri) :: s_res s)) = if N.eqb r r0 then r_supply ri else supply_of r s.
Proof. intros. unfold supply_of. cbn. destruct (N.eqb r r0); reflexivity. Qed.
Lemma fresh_none : forall {V} k (l : list (N * V)), fresh k l = true -> aget k l = None.
Proof. unfold fresh. intros V k l. destruct (aget k l); congruence. Qed.

Ltac sup_same H := inversion H; subst; clear H; cbn [minted burned]; unfold supply_z;
  match goal with Q : supply_of _ _ = Some _ |- _ => unfold supply_of in *; cbn [s_res set_res set_fv set_nv set_fb set_nb set_data set_fees] in *; rewrite Q; lia end.

Lemma step_supply : forall s o s' evs r t',
  step s o = Ok (s', evs) -> xrd_ok s -> supply_of r s' = Some t' ->
  t' = supply_z r s + minted r evs - burned r evs.
Proof.
  intros s o s' evs r t' H [xi [X1 X2]] S'. destruct o; cbn [step] in H.
  - (* OCreateF *) ok_inv H. apply fresh_none in E.
    destruct initial as [[a b]|]; ok_inv H; inversion H; subst; clear H; cbn [minted burned];
      cbn [set_fb] in S'; unfold supply_of in S'; cbn in S'; unfold supply_z, supply_of;
      (destruct (N.eqb r r0) eqn:Q; [apply N.eqb_eq in Q; subst; rewrite E; destruct track; inversion S'; subst; cbn; lia| rewrite S'; lia]).
  - (* OCreateN *) ok_inv H. apply fresh_none in E.
    destruct initial as [[ids b]|]; ok_inv H; inversion H; subst; clear H; cbn [minted burned];
      cbn [set_nb set_data] in S'; unfold supply_of in S'; cbn in S'; unfold supply_z, supply_of;
      (destruct (N.eqb r r0) eqn:Q; [apply N.eqb_eq in Q; subst; rewrite E; destruct track; inversion S'; subst; cbn; lia| rewrite S'; lia]).
  - (* OMintF *) ok_inv H. inversion H; subst; clear H. apply supply_add_spec in E3.
    destruct E3 as (_ & _ & _ & _ & _ & _ & _ & SP & _). rewrite SP in S'. unfold supply_z.
    change (supply_of r (set_fb s ((b, (r0, a)) :: s_fb s))) with (supply_of r s) in S'.
    destruct (supply_of r s); [|discriminate]. inversion S'; subst. cbn. unfold ind. destruct (N.eqb r r0); lia.
  - (* OMintN *) ok_inv H. inversion H; subst; clear H. apply supply_add_spec in E2.
    destruct E2 as (_ & _ & _ & _ & _ & _ & _ & SP & _).
    change (supply_of r (set_nb (set_data a a0) ((b, (r0, ids)) :: s_nb a))) with (supply_of r a) in S'.
    rewrite SP in S'. unfold supply_z.
    destruct (supply_of r s); [|discriminate]. inversion S'; subst. cbn. unfold ind. destruct (N.eqb r r0); lia.
  - (* OBurn *) destruct (aget b (s_fb s)) as [[r0 a]|] eqn:G1.
    + ok_inv H. inversion H; subst; clear H. apply supply_add_spec in E.
      destruct E as (_ & _ & _ & _ & _ & _ & _ & SP & _). rewrite SP in S'. unfold supply_z.
      change (supply_of r (set_fb s (adel b (s_fb s)))) with (supply_of r s) in S'.
      destruct (supply_of r s); [|discriminate]. inversion S'; subst. cbn. unfold ind. destruct (N.eqb r r0); lia.
    + destruct (aget b (s_nb s)) as [[r0 ids]|] eqn:G2; [|discriminate].
      ok_inv H. inversion H; subst; clear H. apply supply_add_spec in E.
      destruct E as (_ & _ & _ & _ & _ & _ & _ & SP & _).
      change (supply_of r (set_data a (data_burn r0 ids (s_data a)))) with (supply_of r a) in S'.
      rewrite SP in S'. unfold supply_z.
      change (supply_of r (set_nb s (adel b (s_nb s)))) with (supply_of r s) in S'.
      destruct (supply_of r s); [|discriminate]. inversion S'; subst. cbn. unfold ind. destruct (N.eqb r r0); lia.
  - ok_inv H. destruct (r_nf r1); sup_same H.
  - ok_inv H. destruct (r_nf r1); sup_same H.
  - destruct (aget b (s_fb s)) as [[r0 a]|] eqn:G1.
    + destruct (a =? 0); [|discriminate]. sup_same H.
    + destruct (aget b (s_nb s)) as [[r0 ids]|] eqn:G2; [|discriminate]. destruct ids; [|discriminate]. sup_same H.
  - ok_inv H. sup_same H.
  - ok_inv H. sup_same H.
  - ok_inv H. sup_same H.
  - destruct (aget b (s_fb s)) as [[r0 a]|] eqn:G1.
    + ok_inv H. destruct (a =? 0); [sup_same H|]. ok_inv H. sup_same H.
    + destruct (aget b (s_nb s)) as [[r0 ids]|] eqn:G2; [|discriminate].
      ok_inv H. destruct ids; [sup_same H|]. ok_inv H. sup_same H.
  - ok_inv H. sup_same H.
  - ok_inv H. sup_same H.
  - ok_inv H. sup_same H.
  - ok_inv H. sup_same H.
  - destruct (N.eqb b b'); [discriminate|]. destruct (aget b' (s_fb s)) as [[r0 a]|] eqn:G1.
    + ok_inv H. sup_same H.
    + destruct (aget b' (s_nb s)) as [[r0 ids]|] eqn:G2; [|discriminate]. ok_inv H. sup_same H.
  - ok_inv H. sup_same H.
  - (* OPayFee *) destruct (finalize_supply _ _ _ _ r H) as [RS EV]. unfold supply_z.
    unfold supply_of in *. rewrite RS in S'. rewrite S'.
    destruct (N.eqb r XRD) eqn:Q.
    + apply N.eqb_eq in Q; subst. rewrite X1, X2 in S'. discriminate.
    + destruct (EV eq_refl) as [M B]. lia.
Qed.

Lemma supply_add_xrd : forall s r d s', supply_add s r d = Ok s' -> xrd_ok s -> xrd_ok s'.
Proof.
  unfold supply_add, xrd_ok. intros s r d s' H [xi [X1 X2]].
  destruct (aget r (s_res s)) as [ri|] eqn:G; [|discriminate].
  destruct (r_supply ri) as [t|] eqn:S.
  - destruct (cadd t d); [|discriminate]. inversion H; subst; clear H. cbn.
    destruct (N.eqb XRD r) eqn:E.
    + apply N.eqb_eq in E; subst. rewrite X1 in G. inversion G; subst. congruence.
    + rewrite aget_aset_other by assumption. eauto.
  - inversion H; subst. eauto.
Qed.
Lemma xrd_same_res : forall s s', s_res s' = s_res s -> xrd_ok s -> xrd_ok s'.
Proof. unfold xrd_ok. intros s s' E. rewrite E. auto. Qed.
Lemma xrd_cons : forall s r0 ri s', fresh r0 (s_res s) = true -> s_res s' = (r0, ri) :: s_res s -> xrd_ok s -> xrd_ok s'.
Proof.
  unfold xrd_ok. intros s r0 ri s' F E [xi [X1 X2]]. rewrite E.
  change (aget XRD ((r0, ri) :: s_res s)) with (if N.eqb XRD r0 then Some ri else aget XRD (s_res s)).
  destruct (N.eqb XRD r0) eqn:Q.
  - apply N.eqb_eq in Q; subst. apply fresh_none in F. congruence.
  - eauto.
Qed.

Ltac xsame H := inversion H; subst; clear H; (apply xrd_same_res; reflexivity) || (eapply xrd_same_res; [|eassumption]; reflexivity).

Lemma step_xrd_ok : forall s o s' evs, step s o = Ok (s', evs) -> xrd_ok s -> xrd_ok s'.
Proof.
  intros s o s' evs H X. destruct o; cbn [step] in H.
  - ok_inv H. destruct initial as [[a b]|]; ok_inv H; inversion H; subst; clear H;
      (eapply xrd_cons; [exact E| |exact X]; reflexivity).
  - ok_inv H. destruct initial as [[ids b]|]; ok_inv H; inversion H; subst; clear H;
      (eapply xrd_cons; [exact E| |exact X]; reflexivity).
  - ok_inv H. inversion H; subst; clear H. eapply supply_add_xrd; [eassumption|]. eapply xrd_same_res; [|exact X]. reflexivity.
  - ok_inv H. inversion H; subst; clear H. eapply xrd_same_res with (s := a); [reflexivity|].
    eapply supply_add_xrd; eassumption.
  - destruct (aget b (s_fb s)) as [[r0 a]|] eqn:G1.
    + ok_inv H. inversion H; subst; clear H. eapply supply_add_xrd; [eassumption|]. eapply xrd_same_res; [|exact X]. reflexivity.
    + destruct (aget b (s_nb s)) as [[r0 ids]|] eqn:G2; [|discriminate].
      ok_inv H. inversion H; subst; clear H. eapply xrd_same_res with (s := a); [reflexivity|].
      eapply supply_add_xrd; [eassumption|]. eapply xrd_same_res; [|exact X]. reflexivity.
  - ok_inv H. destruct (r_nf r0); xsame H.
  - ok_inv H. destruct (r_nf r0); xsame H.
  - destruct (aget b (s_fb s)) as [[r0 a]|] eqn:G1.
    + destruct (a =? 0); [|discriminate]. xsame H.
    + destruct (aget b (s_nb s)) as [[r0 ids]|] eqn:G2; [|discriminate]. destruct ids; [|discriminate]. xsame H.
  - ok_inv H. xsame H.
  - ok_inv H. xsame H.
  - ok_inv H. xsame H.
  - destruct (aget b (s_fb s)) as [[r0 a]|] eqn:G1.
    + ok_inv H. destruct (a =? 0); [xsame H|]. ok_inv H. xsame H.
    + destruct (aget b (s_nb s)) as [[r0 ids]|] eqn:G2; [|discriminate].
      ok_inv H. destruct ids; [xsame H|]. ok_inv H. xsame H.
  - ok_inv H. xsame H.
  - ok_inv H. xsame H.
  - ok_inv H. xsame H.
  - ok_inv H. xsame H.
  - destruct (N.eqb b b'); [discriminate|]. destruct (aget b' (s_fb s)) as [[r0 a]|] eqn:G1.
    + ok_inv H. xsame H.
    + destruct (aget b' (s_nb s)) as [[r0 ids]|] eqn:G2; [|discriminate]. ok_inv H. xsame H.
  - ok_inv H. xsame H.
  - destruct (finalize_supply _ _ _ _ XRD H) as [RS _]. eapply xrd_same_res; eassumption.
Qed.

(* ------------------------------------------------------------------------------------------ *)
(* C04: the supply invariant (fungible resources)                                              *)
(* ------------------------------------------------------------------------------------------ *)
(* one step keeps "recorded supply = everything that exists" for a resource whose events in this
   step are fungible events (always the case for a fungible resource) *)
Theorem supply_invariant_step : forall s o s' evs r t t',
  step s o = Ok (s', evs) -> op_ok o -> xrd_ok s ->
  minted r evs = mintedF r evs -> burned r evs = burnedF r evs ->
  supply_of r s = Some t -> t = total_f r s ->
  supply_of r s' = Some t' -> t' = total_f r s'.
Proof.
  intros s o s' evs r t t' H OK X M B S0 I0 S1.
  pose proof (step_supply _ _ _ _ r t' H X S1) as Q. unfold supply_z in Q. rewrite S0 in Q.
  rewrite (step_total _ _ _ _ r H OK). lia.
Qed.

(* a resource created by the step starts with supply = what was minted at creation *)
Theorem supply_invariant_created : forall s o s' evs r t',
  step s o = Ok (s', evs) -> op_ok o -> xrd_ok s ->
  minted r evs = mintedF r evs -> burned r evs = burnedF r evs ->
  supply_of r s = None -> total_f r s = 0 ->
  supply_of r s' = Some t' -> t' = total_f r s'.
Proof.
  intros s o s' evs r t' H OK X M B S0 I0 S1.
  pose proof (step_supply _ _ _ _ r t' H X S1) as Q. unfold supply_z in Q. rewrite S0 in Q.
  rewrite (step_total _ _ _ _ r H OK). lia.
Qed.

(* non-vacuity witnesses *)
Definition demo_ops : list op :=
  [ OCreateF 5%N 2 true (Some (1000 * 10 ^ 16, 100%N)); OCreateVault 5%N 10%N; OVaultPut 10%N 100%N;
    OMintF 5%N (7 * 10 ^ 16) 101%N; OVaultTake 10%N (3 * 10 ^ 16) 102%N; OBucketPut 101%N 102%N; OBurn 101%N;
    OLockFee 1%N 50 false; OLockFee 1%N 20 true;
    OPayFee (mkFee true 30 [] 0 10 20 2%N 0) ].
Definition demo_state : state :=
  mkS [(XRD, mkR false 18 None)] [(1%N, (XRD, 1000)); (2%N, (XRD, 0))] [] [] [] [] [].
Lemma demo_runs : exists s' evs, run demo_state demo_ops = Ok (s', evs) /\ at_rest s' = true
   /\ fvault_sum 5%N s' = 997 * 10 ^ 16 /\ supply_of 5%N s' = Some (997 * 10 ^ 16)
   /\ fvault_sum XRD s' = 980 /\ burnedF XRD evs = 20.
Proof. eexists. eexists. split; [vm_compute; reflexivity|]. repeat split; vm_compute; reflexivity. Qed.
Lemma demo_ok : Forall op_ok demo_ops.
Proof. repeat constructor; cbn; lia. Qed.
