(* C28 — the 8 -> 5 -> 8 bit regrouping round trip (ToBase32 for [u8], then convert_bits 5 8 false),
   for every byte list. Method: the two loops are run in lock step; the joint state is finite up to
   the high bits of the decoder accumulator, which are shown irrelevant (eqlow); the step relation
   and the end-of-input flush are then checked for all 6 * 256 * 256 joint states by vm_compute. *)
From Coq Require Import List NArith Arith Bool Lia.
Import ListNotations.
Require Import RV.Model.C28_Bech32 RV.Proof.C28_Address.
Open Scope N_scope.

(* ---------------------------------------------------------------------------------------------- *)
(* only the low `bits` bits of the accumulator matter *)

Definition eqlow (k a a' : N) : Prop := forall i, i < k -> N.testbit a i = N.testbit a' i.

Lemma eqlow_mono : forall k k' a a', k' <= k -> eqlow k a a' -> eqlow k' a a'.
Proof. intros k k' a a' L H i Hi. apply H. lia. Qed.

Lemma eqlow_mod : forall k a, eqlow k a (a mod 2 ^ k).
Proof. intros k a i Hi. symmetry. apply N.mod_pow2_bits_low. exact Hi. Qed.

Lemma eqlow_step : forall k a a' v, eqlow k a a' ->
  eqlow (k + 5) (N.lor (u32 (N.shiftl a 5)) v) (N.lor (u32 (N.shiftl a' 5)) v).
Proof.
  intros k a a' v H i Hi. unfold u32. rewrite !N.lor_spec, !N.land_spec. f_equal. f_equal.
  destruct (N.lt_ge_cases i 5) as [L|L].
  - now rewrite !N.shiftl_spec_low by exact L.
  - rewrite !N.shiftl_spec_high by (try apply N.le_0_l; exact L). apply H. lia.
Qed.

Lemma out_eq : forall k a a', eqlow (k + 8) a a' ->
  N.land (N.shiftr a k) 0xff = N.land (N.shiftr a' k) 0xff.
Proof.
  intros k a a' H. apply N.bits_inj. intros i. rewrite !N.land_spec.
  change 0xff with (N.ones 8).
  destruct (N.lt_ge_cases i 8) as [L|L].
  - f_equal. rewrite !N.shiftr_spec by apply N.le_0_l. apply H. lia.
  - rewrite N.ones_spec_high by exact L. now rewrite !andb_false_r.
Qed.

Lemma pad_eq : forall k a a', k <= 8 -> eqlow k a a' ->
  N.land (u32 (N.shiftl a (8 - k))) 0xff = N.land (u32 (N.shiftl a' (8 - k))) 0xff.
Proof.
  intros k a a' K H. apply N.bits_inj. intros i. unfold u32. rewrite !N.land_spec.
  change 0xff with (N.ones 8).
  destruct (N.lt_ge_cases i 8) as [L|L].
  - f_equal. f_equal. destruct (N.lt_ge_cases i (8 - k)) as [M|M].
    + now rewrite !N.shiftl_spec_low by exact M.
    + rewrite !N.shiftl_spec_high by (try apply N.le_0_l; exact M). apply H. lia.
  - rewrite N.ones_spec_high by exact L. now rewrite !andb_false_r.
Qed.

Lemma drain2 : forall acc bits, bits < 16 ->
  drain 2 acc bits =
  if 8 <=? bits then ([N.land (N.shiftr acc (bits - 8)) 0xff], bits - 8) else ([], bits).
Proof.
  intros acc bits H. cbn [drain]. destruct (N.leb_spec 8 bits) as [L|L]; [|reflexivity].
  destruct (N.leb_spec 8 (bits - 8)); [lia|reflexivity].
Qed.

Lemma fb_equiv : forall data acc acc' bits, bits <= 7 -> eqlow bits acc acc' ->
  from_base32_loop data acc bits = from_base32_loop data acc' bits.
Proof.
  induction data as [|v data IH]; intros acc acc' bits B H; cbn [from_base32_loop].
  - now rewrite (pad_eq bits acc acc' ltac:(lia) H).
  - destruct (negb (N.shiftr v 5 =? 0)); [reflexivity|].
    rewrite !drain2 by lia.
    pose proof (eqlow_step bits acc acc' v H) as E.
    set (a1 := N.lor (u32 (N.shiftl acc 5)) v) in *.
    set (a1' := N.lor (u32 (N.shiftl acc' 5)) v) in *.
    destruct (N.leb_spec 8 (bits + 5)) as [L|L].
    + rewrite (out_eq (bits + 5 - 8) a1 a1')
        by (replace (bits + 5 - 8 + 8) with (bits + 5) by lia; exact E).
      rewrite (IH a1 a1' (bits + 5 - 8) ltac:(lia) (eqlow_mono (bits + 5) (bits + 5 - 8) a1 a1' ltac:(lia) E)).
      reflexivity.
    + rewrite (IH a1 a1' (bits + 5) ltac:(lia) E). reflexivity.
Qed.

(* ---------------------------------------------------------------------------------------------- *)
(* one encoder iteration, and feeding a few u5 to the decoder *)

Definition enc_step (bb buf b : N) : list N * N * N :=
  let '(out1, buffer, buffer_bits) :=
    if 5 <=? bb
    then ([N.shiftr (N.land buf 0xf8) 3], u8 (N.shiftl buf 5), bb - 5)
    else ([], buf, bb) in
  (out1 ++ [N.lor (N.shiftr buffer 3) (N.shiftr b (3 + buffer_bits))],
   buffer_bits + 3, u8 (N.shiftl b (5 - buffer_bits))).

Lemma enc_step_spec : forall b tl bb buf,
  to_base32_loop (b :: tl) bb buf =
  let '(outs, bb', buf') := enc_step bb buf b in outs ++ to_base32_loop tl bb' buf'.
Proof.
  intros. unfold enc_step. cbn [to_base32_loop].
  destruct (5 <=? bb); cbv beta iota zeta; rewrite <- app_assoc; reflexivity.
Qed.

Fixpoint dec_feed (vs : list N) (acc bits : N) : option (list N * N * N) :=
  match vs with
  | [] => Some ([], acc, bits)
  | v :: tl =>
    if negb (N.shiftr v 5 =? 0) then None else
    let acc := N.lor (u32 (N.shiftl acc 5)) v in
    let bits := bits + 5 in
    let '(out, bits) := drain 2 acc bits in
    match dec_feed tl acc bits with
    | Some (o2, a2, b2) => Some (out ++ o2, a2, b2)
    | None => None
    end
  end.

Lemma dec_feed_spec : forall vs rest acc bits,
  from_base32_loop (vs ++ rest) acc bits =
  match dec_feed vs acc bits with
  | Some (out, a, b) => r <- from_base32_loop rest a b ;; Ok (out ++ r)
  | None => Err InvalidData
  end.
Proof.
  induction vs as [|v vs IH]; intros rest acc bits.
  - cbn. destruct (from_base32_loop rest acc bits); reflexivity.
  - cbn [app from_base32_loop dec_feed].
    destruct (negb (N.shiftr v 5 =? 0)); [reflexivity|].
    destruct (drain 2 (N.lor (u32 (N.shiftl acc 5)) v) (bits + 5)) as [out b'].
    rewrite IH. destruct (dec_feed vs _ b') as [[[o2 a2] b2]|]; [|reflexivity].
    cbn [bind]. destruct (from_base32_loop rest a2 b2); cbn [bind]; try reflexivity.
    now rewrite app_assoc.
Qed.

(* ---------------------------------------------------------------------------------------------- *)
(* the joint states and the sweep *)

(* encoder holds bb pending bits p (at the top of `buffer`), the decoder holds db bits q; together
   they are the byte (q << bb | p) that has been read but not yet written *)
Definition pending (bb p q : N) : list N := if bb =? 0 then [] else [N.lor (N.shiftl q bb) p].
Definition states : list (N * N) := [(0, 0); (3, 5); (6, 2); (4, 4); (7, 1); (5, 3)].
Definition state_okb (bb db : N) : bool :=
  existsb (fun s => (fst s =? bb) && (snd s =? db)) states.

Definition step_ok (bb db p q b : N) : bool :=
  let buf := N.shiftl p (8 - bb) in
  let '(outs, bb', buf') := enc_step bb buf b in
  match dec_feed outs q db with
  | Some (out, acc', db') =>
    let p' := N.shiftr buf' (8 - bb') in
    let q' := acc' mod 2 ^ db' in
    state_okb bb' db' && (buf' =? N.shiftl p' (8 - bb')) && (p' <? 2 ^ bb')
    && forallb (fun v => v <? 32) outs
    && bytes_eqb (out ++ pending bb' p' q') (pending bb p q ++ [b])
  | None => false
  end.

Definition final_ok (bb db p q : N) : bool :=
  let outs := to_base32_loop [] bb (N.shiftl p (8 - bb)) in
  forallb (fun v => v <? 32) outs
  && match from_base32_loop outs q db with
     | Ok l => bytes_eqb l (pending bb p q)
     | _ => false
     end.

Fixpoint nrange_from (k : nat) (start : N) : list N :=
  match k with O => [] | S k' => start :: nrange_from k' (start + 1) end.
Definition nrange (n : N) : list N := nrange_from (N.to_nat n) 0.
Lemma nrange_from_in : forall k start x, start <= x -> x < start + N.of_nat k -> In x (nrange_from k start).
Proof.
  induction k as [|k IH]; intros start x L U.
  - lia.
  - cbn [nrange_from]. destruct (N.eq_dec x start) as [->|NE]; [left; reflexivity|].
    right. apply IH; lia.
Qed.
Lemma nrange_in : forall n x, x < n -> In x (nrange n).
Proof. intros n x H. unfold nrange. apply nrange_from_in; lia. Qed.

Definition all_ok : bool :=
  let r256 := nrange 256 in
  forallb (fun s : N * N =>
    let (bb, db) := s in
    let rq := nrange (2 ^ db) in
    forallb (fun p =>
      forallb (fun q =>
        final_ok bb db p q && forallb (fun b => step_ok bb db p q b) r256)
        rq)
      (nrange (2 ^ bb)))
    states.

Lemma all_ok_true : all_ok = true.
Proof. vm_cast_no_check (eq_refl true). Qed.

Lemma sweep_facts : forall bb db p q, In (bb, db) states -> p < 2 ^ bb -> q < 2 ^ db ->
  final_ok bb db p q = true /\ forall b, b < 256 -> step_ok bb db p q b = true.
Proof.
  intros bb db p q S Hp Hq. pose proof all_ok_true as A. unfold all_ok in A. cbv zeta in A.
  rewrite forallb_forall in A. specialize (A _ S). cbv beta iota zeta in A.
  rewrite forallb_forall in A. specialize (A p (nrange_in _ _ Hp)).
  rewrite forallb_forall in A. specialize (A q (nrange_in _ _ Hq)).
  apply andb_prop in A. destruct A as [F St]. split; [exact F|].
  intros b Hb. rewrite forallb_forall in St. apply St. apply nrange_in. exact Hb.
Qed.

Lemma state_okb_in : forall bb db, state_okb bb db = true -> In (bb, db) states.
Proof.
  intros bb db H. unfold state_okb in H. apply existsb_exists in H.
  destruct H as ([x y] & I & E). cbn [fst snd] in E. apply andb_prop in E. destruct E as [E1 E2].
  apply N.eqb_eq in E1. apply N.eqb_eq in E2. subst. exact I.
Qed.

Lemma states_db : forall bb db, In (bb, db) states -> db <= 7.
Proof.
  intros bb db H. unfold states in H. cbn [In] in H.
  repeat (destruct H as [H|H]; [inversion H; lia|]). contradiction.
Qed.

(* ---------------------------------------------------------------------------------------------- *)
(* the invariant is preserved along any byte list *)

Definition byte_list (l : list N) : Prop := Forall (fun x => x < 256) l.

Lemma lockstep : forall rest bb db p q acc,
  In (bb, db) states -> p < 2 ^ bb -> q < 2 ^ db -> eqlow db acc q -> byte_list rest ->
  from_base32_loop (to_base32_loop rest bb (N.shiftl p (8 - bb))) acc db
    = Ok (pending bb p q ++ rest)
  /\ Forall (fun v => v < 32) (to_base32_loop rest bb (N.shiftl p (8 - bb))).
Proof.
  induction rest as [|b rest IH]; intros bb db p q acc S Hp Hq E BL.
  - destruct (sweep_facts bb db p q S Hp Hq) as [F _]. unfold final_ok in F.
    apply andb_prop in F. destruct F as [F32 F].
    rewrite (fb_equiv _ acc q db (states_db _ _ S) E).
    split.
    + destruct (from_base32_loop _ q db) as [l| |]; try discriminate.
      apply bytes_eqb_eq in F. subst l. now rewrite app_nil_r.
    + apply Forall_forall. intros v Hv. rewrite forallb_forall in F32. apply N.ltb_lt. now apply F32.
  - inversion BL as [|? ? Hb BL']. subst.
    destruct (sweep_facts bb db p q S Hp Hq) as [_ St]. specialize (St b Hb). unfold step_ok in St.
    rewrite enc_step_spec.
    destruct (enc_step bb (N.shiftl p (8 - bb)) b) as [[outs bb'] buf'].
    rewrite (fb_equiv _ acc q db (states_db _ _ S) E).
    rewrite dec_feed_spec.
    destruct (dec_feed outs q db) as [[[out acc'] db']|]; [|discriminate].
    cbv zeta in St.
    apply andb_prop in St. destruct St as [St Eq].
    apply andb_prop in St. destruct St as [St O32].
    apply andb_prop in St. destruct St as [St P'].
    apply andb_prop in St. destruct St as [S' Bf].
    apply state_okb_in in S'. apply N.eqb_eq in Bf. apply N.ltb_lt in P'. apply bytes_eqb_eq in Eq.
    set (p' := N.shiftr buf' (8 - bb')) in *. set (q' := acc' mod 2 ^ db') in *.
    assert (q' < 2 ^ db') as Hq' by (apply N.mod_lt, N.pow_nonzero; discriminate).
    destruct (IH bb' db' p' q' acc' S' P' Hq' (eqlow_mod _ _) BL') as [IH1 IH2].
    rewrite Bf. split.
    + rewrite IH1. cbn [bind]. f_equal. rewrite app_assoc, Eq, <- app_assoc. reflexivity.
    + apply Forall_app. split; [|exact IH2].
      apply Forall_forall. intros v Hv. rewrite forallb_forall in O32. apply N.ltb_lt. now apply O32.
Qed.

Theorem bits_roundtrip : forall bytes, byte_list bytes -> from_base32 (to_base32 bytes) = Ok bytes.
Proof.
  intros bytes H. unfold from_base32, to_base32.
  destruct (lockstep bytes 0 0 0 0 0 ltac:(left; reflexivity) ltac:(reflexivity) ltac:(reflexivity)
              (fun i _ => eq_refl) H) as [R _].
  exact R.
Qed.

Theorem to_base32_u5 : forall bytes, byte_list bytes -> Forall (fun v => v < 32) (to_base32 bytes).
Proof.
  intros bytes H. unfold to_base32.
  destruct (lockstep bytes 0 0 0 0 0 ltac:(left; reflexivity) ltac:(reflexivity) ltac:(reflexivity)
              (fun i _ => eq_refl) H) as [_ R].
  exact R.
Qed.
