(* C12 / C02 — revert_non_force_write_changes: never panics on a well-formed track state, keeps
   exactly the force-written substates. *)
From Coq Require Import List NArith Bool Lia.
Import ListNotations.
Require Import RV.Model.C12_Track RV.Model.C12_View RV.Proof.C12_Maps RV.Proof.C12_Track RV.Proof.C12_Ops.
Open Scope N_scope.

(* ---------- the reverted (pre-restore) node map ---------- *)
Definition reverted (ns : nodes) : nodes :=
  map (fun e => (fst e, revert_node (snd e))) (filter (fun e => negb (tn_new (snd e))) ns).

Lemma al_get_reverted : forall ns n, NoDup (map fst ns) ->
  al_get n (reverted ns) =
  match al_get n ns with Some nd => if tn_new nd then None else Some (revert_node nd) | None => None end.
Proof.
  intros. unfold reverted. rewrite al_get_map_snd.
  rewrite (al_get_filter_snd _ (fun nd => negb (tn_new nd))) by assumption.
  destruct (al_get n ns) as [nd|]; [|reflexivity]. destruct (tn_new nd); reflexivity.
Qed.
Lemma find_part_reverted : forall ns n p, NoDup (map fst ns) ->
  find_part (reverted ns) n p =
  if node_is_new ns n then None else option_map revert_part (find_part ns n p).
Proof.
  intros. unfold find_part, node_is_new. rewrite al_get_reverted by assumption.
  destruct (al_get n ns) as [nd|]; [|reflexivity]. destruct (tn_new nd); [reflexivity|].
  simpl. apply al_get_map_snd.
Qed.
Lemma tlookup_reverted : forall ns n p k, NoDup (map fst ns) ->
  tlookup (reverted ns) n p k =
  if node_is_new ns n then None else option_map tsv_revert (tlookup ns n p k).
Proof.
  intros. unfold tlookup. rewrite find_part_reverted by assumption.
  destruct (node_is_new ns n); [reflexivity|]. destruct (find_part ns n p) as [ps|]; [|reflexivity].
  simpl. apply al_get_map_snd.
Qed.
Lemma node_is_new_reverted : forall ns n, NoDup (map fst ns) -> node_is_new (reverted ns) n = false.
Proof.
  intros. unfold node_is_new. rewrite al_get_reverted by assumption.
  destruct (al_get n ns) as [nd|]; [|reflexivity]. destruct (tn_new nd) eqn:E; [reflexivity|]. simpl. exact E.
Qed.
Lemma nodes_wf_reverted : forall ns, nodes_wf ns -> nodes_wf (reverted ns).
Proof.
  intros ns [H1 H2]. split.
  - unfold reverted. rewrite map_snd_keys. apply filter_keys_nodup. assumption.
  - intros n nd. rewrite al_get_reverted by assumption. destruct (al_get n ns) as [nd0|] eqn:E; [|discriminate].
    destruct (tn_new nd0); [discriminate|]. intros X; inversion X; subst. simpl. rewrite map_snd_keys. eapply H2; eauto.
Qed.
Lemma subs_sorted_reverted : forall ns, NoDup (map fst ns) -> subs_sorted ns -> subs_sorted (reverted ns).
Proof.
  intros ns Hn H n p ps. rewrite find_part_reverted by assumption. destruct (node_is_new ns n); [discriminate|].
  destruct (find_part ns n p) as [ps0|] eqn:E; [|discriminate]. simpl. intros X; inversion X; subst. simpl.
  apply map_snd_sorted. eapply H; eauto.
Qed.

(* ---------- restore ---------- *)
Lemma restore_one_upd : forall ns n p k tv, tlookup ns n p k <> None ->
  restore_one ns n p k tv = Some (upd_sub ns n p k tv).
Proof.
  intros ns n p k tv H. unfold restore_one, upd_sub, put_part, cur_part, node_or_default, part_or_default.
  unfold tlookup, find_part in H.
  destruct (al_get n ns) as [nd|]; [|congruence]. destruct (al_get p (tn_parts nd)) as [ps|]; [|congruence].
  destruct (al_get k (ps_subs ps)); [reflexivity|congruence].
Qed.

Definition keeps (ns ns' : nodes) : Prop :=
  (nodes_wf ns -> nodes_wf ns') /\ (subs_sorted ns -> subs_sorted ns') /\
  (forall n, node_is_new ns' n = node_is_new ns n).
Lemma keeps_refl : forall ns, keeps ns ns.
Proof. intros. unfold keeps. split; [auto|split; [auto|intros; reflexivity]]. Qed.
Lemma keeps_trans : forall a b c, keeps a b -> keeps b c -> keeps a c.
Proof.
  intros a b c [A1 [A2 A3]] [B1 [B2 B3]]. unfold keeps. split; [auto|split; [auto|]].
  intros n. rewrite (B3 n). apply A3.
Qed.
Lemma keeps_upd_sub : forall ns n p k tv, keeps ns (upd_sub ns n p k tv).
Proof.
  intros. unfold keeps.
  split; [apply nodes_wf_upd_sub|split; [apply subs_sorted_upd_sub|apply node_is_new_upd_sub]].
Qed.

Lemma restore_subs_spec : forall l ns n p,
  NoDup (map fst l) -> (forall k, In k (map fst l) -> tlookup ns n p k <> None) ->
  exists ns', restore_subs ns n p l = Some ns' /\ keeps ns ns' /\
    forall n' p' k', tlookup ns' n' p' k' =
      if (n' =? n) && (p' =? p)
      then match al_get k' l with Some tv => Some tv | None => tlookup ns n' p' k' end
      else tlookup ns n' p' k'.
Proof.
  induction l as [|[k0 tv0] r IH]; simpl; intros ns n p Hn Hex.
  - exists ns. split; [reflexivity|]. split; [apply keeps_refl|]. intros. destruct ((n' =? n) && (p' =? p)); reflexivity.
  - inversion Hn; subst. rewrite restore_one_upd by (apply Hex; left; reflexivity).
    destruct (IH (upd_sub ns n p k0 tv0) n p H2) as [ns' [E [K L]]].
    { intros k Hin. rewrite tlookup_upd_sub. destruct (same3 n p k0 n p k); [discriminate|]. apply Hex. right; assumption. }
    exists ns'. split; [assumption|]. split; [eapply keeps_trans; [apply keeps_upd_sub|eassumption]|].
    intros n' p' k'. rewrite L, tlookup_upd_sub. unfold same3.
    destruct ((n' =? n) && (p' =? p)) eqn:E1; simpl; [|reflexivity].
    destruct (k' =? k0) eqn:E2; [|reflexivity].
    apply N.eqb_eq in E2; subst. apply al_get_none_notin in H1. rewrite H1. reflexivity.
Qed.

Lemma restore_parts_spec : forall l ns n,
  NoDup (map fst l) -> (forall p ps, In (p, ps) l -> sorted (ps_subs ps)) ->
  (forall p ps k, al_get p l = Some ps -> al_get k (ps_subs ps) <> None -> tlookup ns n p k <> None) ->
  exists ns', restore_parts ns n l = Some ns' /\ keeps ns ns' /\
    forall n' p' k', tlookup ns' n' p' k' =
      if n' =? n
      then match al_get p' l with
           | Some ps => match al_get k' (ps_subs ps) with Some tv => Some tv | None => tlookup ns n' p' k' end
           | None => tlookup ns n' p' k'
           end
      else tlookup ns n' p' k'.
Proof.
  induction l as [|[p0 ps0] r IH]; simpl; intros ns n Hn Hs Hex.
  - exists ns. split; [reflexivity|]. split; [apply keeps_refl|]. intros. destruct (n' =? n); reflexivity.
  - inversion Hn; subst.
    destruct (restore_subs_spec (ps_subs ps0) ns n p0) as [ns1 [E1 [K1 L1]]].
    { apply sorted_nodup. eapply Hs. left; reflexivity. }
    { intros k Hin. eapply Hex; [rewrite N.eqb_refl; reflexivity|]. apply al_get_some_in. assumption. }
    rewrite E1.
    destruct (IH ns1 n H2) as [ns' [E [K L]]].
    { intros. eapply Hs. right; eassumption. }
    { intros p ps k G Hk. rewrite L1. rewrite N.eqb_refl. simpl.
      destruct (p =? p0) eqn:Ep.
      - apply N.eqb_eq in Ep; subst. apply al_get_in in G. exfalso. apply H1. change p0 with (fst (p0, ps)). apply in_map. assumption.
      - eapply Hex; [rewrite Ep; eassumption|assumption]. }
    exists ns'. split; [assumption|]. split; [eapply keeps_trans; eassumption|].
    intros n' p' k'. rewrite L, L1. destruct (n' =? n) eqn:En; simpl; [|reflexivity].
    destruct (p' =? p0) eqn:Ep.
    + apply N.eqb_eq in Ep; subst. apply al_get_none_notin in H1. rewrite H1. reflexivity.
    + reflexivity.
Qed.

Lemma tlookup_cons : forall n0 nd0 (r : nodes) n p k,
  tlookup ((n0, nd0) :: r) n p k =
  if n =? n0 then match al_get p (tn_parts nd0) with Some ps => al_get k (ps_subs ps) | None => None end
  else tlookup r n p k.
Proof. intros. unfold tlookup, find_part. simpl. destruct (n =? n0); reflexivity. Qed.

Lemma restore_nodes_spec : forall fw ns,
  nodes_wf fw -> subs_sorted fw ->
  (forall n p k, tlookup fw n p k <> None -> tlookup ns n p k <> None) ->
  exists ns', restore_nodes ns fw = Some ns' /\ keeps ns ns' /\
    forall n' p' k', tlookup ns' n' p' k' =
      match tlookup fw n' p' k' with Some tv => Some tv | None => tlookup ns n' p' k' end.
Proof.
  induction fw as [|[n0 nd0] r IH]; intros ns Hwf Hs Hex.
  - exists ns. split; [reflexivity|]. split; [apply keeps_refl|]. intros. reflexivity.
  - destruct Hwf as [W1 W2]. simpl in W1. inversion W1; subst. simpl.
    destruct (restore_parts_spec (tn_parts nd0) ns n0) as [ns1 [E1 [K1 L1]]].
    { apply (W2 n0). simpl. rewrite N.eqb_refl. reflexivity. }
    { intros p ps Hin. apply (Hs n0 p). unfold find_part. simpl. rewrite N.eqb_refl.
      apply in_nodup_al_get; [|assumption]. apply (W2 n0). simpl. rewrite N.eqb_refl. reflexivity. }
    { intros p ps k G Hk. apply Hex. rewrite tlookup_cons, N.eqb_refl, G. assumption. }
    rewrite E1.
    assert (Wr : nodes_wf r).
    { split; [assumption|]. intros n nd G. apply (W2 n). simpl. destruct (n =? n0) eqn:En; [|assumption].
      apply N.eqb_eq in En; subst. apply al_get_in in G. exfalso. apply H1. change n0 with (fst (n0, nd)). apply in_map. assumption. }
    assert (Sr : subs_sorted r).
    { intros n p ps G. apply (Hs n p). unfold find_part in *. simpl. destruct (n =? n0) eqn:En; [|assumption].
      apply N.eqb_eq in En; subst. destruct (al_get n0 r) eqn:G2; [|discriminate].
      apply al_get_in in G2. exfalso. apply H1. change n0 with (fst (n0, t)). apply in_map. assumption. }
    destruct (IH ns1 Wr Sr) as [ns' [E [K L]]].
    { intros n p k Hk. rewrite L1. destruct (n =? n0) eqn:En.
      - apply N.eqb_eq in En; subst. exfalso. apply Hk. unfold tlookup, find_part.
        destruct (al_get n0 r) eqn:G2; [|reflexivity].
        apply al_get_in in G2. exfalso. apply H1. change n0 with (fst (n0, t)). apply in_map. assumption.
      - apply Hex. rewrite tlookup_cons, En. assumption. }
    exists ns'. split; [assumption|]. split; [eapply keeps_trans; eassumption|].
    intros n' p' k'. rewrite L, L1, tlookup_cons. destruct (n' =? n0) eqn:En.
    + apply N.eqb_eq in En; subst.
      assert (tlookup r n0 p' k' = None) as ->.
      { unfold tlookup, find_part. destruct (al_get n0 r) eqn:G2; [|reflexivity].
        apply al_get_in in G2. exfalso. apply H1. change n0 with (fst (n0, t)). apply in_map. assumption. }
      destruct (al_get p' (tn_parts nd0)); [|reflexivity]. destruct (al_get k' (ps_subs t)); reflexivity.
    + reflexivity.
Qed.

(* ---------- the view that survives ---------- *)
Lemma fw_view_spec : forall db fw n p, sorted (db n p) ->
  sorted (fw_view db fw n p) /\
  forall k, al_get k (fw_view db fw n p) = match fw_get fw n p k with Some x => x | None => al_get k (db n p) end.
Proof.
  induction fw as [|[[[n0 p0] k0] x] r IH]; simpl; intros n p Hs.
  - auto.
  - destruct (IH n p Hs) as [S1 S2]. fold (fw_view db r n p).
    destruct ((n =? n0) && (p =? p0)) eqn:E; simpl.
    + destruct x as [v|].
      * split; [apply sm_put_sorted; assumption|]. intros k. rewrite al_get_sm_put. destruct (k =? k0); [reflexivity|apply S2].
      * split; [apply sm_del_sorted; assumption|]. intros k. rewrite al_get_sm_del by assumption. destruct (k =? k0); [reflexivity|apply S2].
    + split; [assumption|]. apply S2.
Qed.

Lemma tsv_revert_ok : forall tv b, tsv_ok tv b -> (forall w, tv = TWo w -> b = None) ->
  tsv_ok (tsv_revert tv) b /\ tsv_get (tsv_revert tv) = b.
Proof.
  destruct tv; simpl; intros b H Hw; try (subst; split; reflexivity); try (split; congruence).
  split; [eapply Hw; reflexivity|symmetry; eapply Hw; reflexivity].
Qed.

(* ---------- revert never panics on an invariant state; what is left ---------- *)
Lemma revert_no_panic : forall db t s, Inv db t s -> exists t', revert t = Some t'.
Proof.
  intros db t s I. unfold revert. fold (reverted (t_nodes t)).
  destruct (restore_nodes_spec (t_fw t) (reverted (t_nodes t))) as [ns' [E _]].
  - apply (inv_fw_wf _ _ _ I).
  - apply (inv_fw_sorted _ _ _ I).
  - intros n p k H. destruct (tlookup (t_fw t) n p k) as [tv|] eqn:L; [|congruence].
    destruct (inv_fw_in _ _ _ I _ _ _ _ L) as [H1 [H2 _]].
    rewrite tlookup_reverted by apply (inv_wf _ _ _ I). rewrite (inv_new _ _ _ I), H1.
    destruct (tlookup (t_nodes t) n p k); [discriminate|congruence].
  - rewrite E. eexists; reflexivity.
Qed.

Lemma step_revert : forall db t s t',
  db_wf db -> Inv db t s -> no_blind_overwrite db t -> revert t = Some t' ->
  Inv db t' (spec_next db s ORevert RUnit).
Proof.
  intros db t s t' Hdb I Hnb G. unfold revert in G. fold (reverted (t_nodes t)) in G.
  assert (Hex : forall n p k, tlookup (t_fw t) n p k <> None -> tlookup (reverted (t_nodes t)) n p k <> None).
  { intros n p k H. destruct (tlookup (t_fw t) n p k) as [tv|] eqn:L; [|congruence].
    destruct (inv_fw_in _ _ _ I _ _ _ _ L) as [H1 [H2 _]].
    rewrite tlookup_reverted by apply (inv_wf _ _ _ I). rewrite (inv_new _ _ _ I), H1.
    destruct (tlookup (t_nodes t) n p k); [discriminate|congruence]. }
  destruct (restore_nodes_spec (t_fw t) (reverted (t_nodes t)) (inv_fw_wf _ _ _ I) (inv_fw_sorted _ _ _ I) Hex)
    as [ns' [E [[K1 [K2 K3]] L]]].
  rewrite E in G. inversion G; subst; clear G.
  pose proof (inv_wf _ _ _ I) as [Wn Wp].
  assert (TL : forall n p k tv, tlookup ns' n p k = Some tv ->
            tsv_ok tv (al_get k (db n p)) /\
            tsv_get tv = match fw_get (v_fw s) n p k with Some x => x | None => al_get k (db n p) end).
  { intros n p k tv. rewrite L, (inv_fw_get _ _ _ I). destruct (tlookup (t_fw t) n p k) as [ftv|] eqn:F; simpl.
    - intros X; inversion X; subst. destruct (inv_fw_in _ _ _ I _ _ _ _ F) as [_ [_ H3]]. auto.
    - rewrite tlookup_reverted by assumption. destruct (node_is_new (t_nodes t) n); [discriminate|].
      destruct (tlookup (t_nodes t) n p k) as [tv0|] eqn:T0; simpl; [|discriminate].
      intros X; inversion X; subst. apply tsv_revert_ok.
      + eapply inv_ok; eauto.
      + intros w ->. unfold tlookup in T0. destruct (find_part (t_nodes t) n p) eqn:FP; [|discriminate]. eapply Hnb; eauto. }
  constructor; simpl; auto.
  - apply K1. apply nodes_wf_reverted. apply (inv_wf _ _ _ I).
  - apply K2. apply subs_sorted_reverted; [assumption|apply (inv_sorted _ _ _ I)].
  - intros n p k. destruct (fw_view_spec db (v_fw s) n p (Hdb n p)) as [_ S2]. rewrite S2.
    unfold tview; simpl. destruct (tlookup ns' n p k) as [tv|] eqn:T.
    + destruct (TL _ _ _ _ T) as [_ X]. symmetry. exact X.
    + rewrite L in T. rewrite (inv_fw_get _ _ _ I). destruct (tlookup (t_fw t) n p k); [discriminate|]. reflexivity.
  - intros n p. apply fw_view_spec. apply Hdb.
  - intros n. rewrite K3. apply node_is_new_reverted. assumption.
  - intros; discriminate.
  - intros n p k tv T. apply (TL _ _ _ _ T).
  - apply nodes_wf_nil.
  - intros n p ps. unfold find_part. simpl. discriminate.
  - intros; discriminate.
  - apply (inv_del _ _ _ I).
Qed.
