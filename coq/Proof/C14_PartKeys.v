(* C14 — list_partition_keys of the overlay and database_updates(): the OverlayingIterator at a
   generic key type, the staged partition keys in order, the exact relation to the partition set of
   the specification. *)
From Coq Require Import List Arith NArith Bool Lia.
Import ListNotations.
Require Import RV.Lib.Bytes RV.Lib.SortedMap RV.Model.C14_Store RV.Model.C14_Overlay
               RV.Proof.C14_Store RV.Proof.C14_Overlay.
Open Scope N_scope.

Local Notation BST := blt_strict_total.
Local Notation NST := Nltb_strict_total.
Local Notation PST := pk_ltb_strict_total.

Section GenIter.
  Context {K V : Type}.
  Variable ltb : K -> K -> bool.
  Hypothesis ST : StrictTotal ltb.
  Notation iter := (overlaying_iter_gen ltb).

  Definition gemit (ko : K) (c : option V) (rest : list (K * V)) : list (K * V) :=
    match c with Some v => (ko, v) :: rest | None => rest end.
  Lemma gi_nil_r : forall u : list (K * V), iter u [] = u.
  Proof. destruct u; reflexivity. Qed.
  Lemma gi_nil_l : forall ko c o, iter [] ((ko, c) :: o) = gemit ko c (iter [] o).
  Proof. reflexivity. Qed.
  Lemma gi_cons : forall ku vu u ko c o,
    iter ((ku, vu) :: u) ((ko, c) :: o) =
      if ltb ku ko then (ku, vu) :: iter u ((ko, c) :: o)
      else if ltb ko ku then gemit ko c (iter ((ku, vu) :: u) o)
      else gemit ko c (iter u o).
  Proof. reflexivity. Qed.

  Definition gspec (k : K) (u : list (K * V)) (o : list (K * option V)) : option V :=
    match lookup ltb k o with
    | Some (Some v) => Some v
    | Some None => None
    | None => lookup ltb k u
    end.

  Lemma lt_all_gemit : forall a ko c (r : list (K * V)), ltb a ko = true -> lt_all ltb a r -> lt_all ltb a (gemit ko c r).
  Proof. intros a ko [v|] r H L; cbn [gemit]; [constructor; [exact H|exact L]|exact L]. Qed.
  Lemma gi_lt_all : forall (u : list (K * V)) (o : list (K * option V)) a, lt_all ltb a u -> lt_all ltb a o -> lt_all ltb a (iter u o).
  Proof.
    induction u as [|[ku vu] u IHu]; intro o; induction o as [|[ko c] o IHo]; intros a Lu Lo.
    - constructor.
    - rewrite gi_nil_l. inversion Lo; subst. apply lt_all_gemit; [assumption|]. apply IHo; assumption.
    - rewrite gi_nil_r. exact Lu.
    - rewrite gi_cons. inversion Lu; subst. inversion Lo; subst. cbn [fst] in *.
      destruct (ltb ku ko); [|destruct (ltb ko ku)].
      + constructor; [assumption|]. apply IHu; assumption.
      + apply lt_all_gemit; [assumption|]. apply IHo; assumption.
      + apply lt_all_gemit; [assumption|]. apply IHu; assumption.
  Qed.
  Lemma sorted_gemit : forall ko c (r : list (K * V)), lt_all ltb ko r -> sorted ltb r -> sorted ltb (gemit ko c r).
  Proof. intros ko [v|] r L S; cbn [gemit]; [split; assumption|exact S]. Qed.
  Lemma gi_sorted : forall (u : list (K * V)) (o : list (K * option V)), sorted ltb u -> sorted ltb o -> sorted ltb (iter u o).
  Proof.
    induction u as [|[ku vu] u IHu]; intro o; induction o as [|[ko c] o IHo]; intros Su So.
    - exact I.
    - rewrite gi_nil_l. destruct So as [Lo So]. apply sorted_gemit; [|apply IHo; assumption].
      apply gi_lt_all; [constructor|exact Lo].
    - rewrite gi_nil_r. exact Su.
    - rewrite gi_cons. destruct Su as [Lu Su']. destruct So as [Lo So'].
      destruct (ltb ku ko) eqn:A; [|destruct (ltb ko ku) eqn:B].
      + split; [|apply IHu; [exact Su'|split; assumption]].
        apply gi_lt_all; [exact Lu|]. constructor; [exact A|]. eapply (lt_all_trans _ ST); eassumption.
      + apply sorted_gemit; [|apply IHo; [split; assumption|exact So']].
        apply gi_lt_all; [|exact Lo]. constructor; [exact B|]. eapply (lt_all_trans _ ST); eassumption.
      + assert (ku = ko) as -> by (apply (st_total _ ST); assumption).
        apply sorted_gemit; [|apply IHu; assumption]. apply gi_lt_all; assumption.
  Qed.
  Lemma lookup_gemit : forall k ko c (r : list (K * V)),
    lookup ltb k (gemit ko c r) = if keqb ltb k ko then (match c with Some v => Some v | None => lookup ltb k r end) else lookup ltb k r.
  Proof. intros k ko [v|] r; cbn [gemit lookup]; destruct (keqb ltb k ko); reflexivity. Qed.
  Lemma gi_lookup : forall (u : list (K * V)) (o : list (K * option V)) k, sorted ltb u -> sorted ltb o -> lookup ltb k (iter u o) = gspec k u o.
  Proof.
    induction u as [|[ku vu] u IHu]; intro o; induction o as [|[ko c] o IHo]; intros k Su So.
    - reflexivity.
    - rewrite gi_nil_l, lookup_gemit. destruct So as [Lo So]. rewrite (IHo k I So).
      unfold gspec. cbn [lookup]. destruct (keqb ltb k ko) eqn:E; [|reflexivity].
      apply (keqb_eq _ ST) in E. subst k. rewrite lookup_lt_all by exact Lo. destruct c; reflexivity.
    - rewrite gi_nil_r. reflexivity.
    - rewrite gi_cons. destruct Su as [Lu Su']. destruct So as [Lo So'].
      destruct (ltb ku ko) eqn:A; [|destruct (ltb ko ku) eqn:B].
      + cbn [lookup]. rewrite (IHu ((ko, c) :: o) k Su' (conj Lo So')). unfold gspec. cbn [lookup].
        destruct (keqb ltb k ku) eqn:E; [|reflexivity].
        apply (keqb_eq _ ST) in E. subst k. rewrite (keqb_lt ltb _ _ A).
        rewrite lookup_lt_all; [reflexivity|]. eapply (lt_all_trans _ ST); eassumption.
      + rewrite lookup_gemit. rewrite (IHo k (conj Lu Su') So'). unfold gspec. cbn [lookup].
        destruct (keqb ltb k ko) eqn:E; [|reflexivity].
        apply (keqb_eq _ ST) in E. subst k. rewrite lookup_lt_all by exact Lo.
        rewrite (keqb_lt ltb _ _ B). rewrite lookup_lt_all; [destruct c; reflexivity|].
        eapply (lt_all_trans _ ST); eassumption.
      + assert (ku = ko) as -> by (apply (st_total _ ST); assumption).
        rewrite lookup_gemit. rewrite (IHu _ k Su' So'). unfold gspec. cbn [lookup].
        destruct (keqb ltb k ko) eqn:E; [|reflexivity].
        apply (keqb_eq _ ST) in E. subst k. rewrite !lookup_lt_all by assumption. destruct c; reflexivity.
  Qed.
End GenIter.

(* ---- the staged partition keys, in BTreeMap order ---- *)
Definition staged_keys (s : staging) : list (pkey * option unit) :=
  flat_map (fun e : bytes * staging_node => map (fun e' : N * staging_part => ((fst e, fst e'), Some tt)) (snd e)) s.

Lemma pk_ltb_same_node : forall nk a b, pk_ltb (nk, a) (nk, b) = (a <? b).
Proof. intros. unfold pk_ltb. cbn [fst snd]. rewrite blt_irrefl, beqb_refl. reflexivity. Qed.
Lemma pk_ltb_node_lt : forall nk nk' a b, blt nk nk' = true -> pk_ltb (nk, a) (nk', b) = true.
Proof. intros. unfold pk_ltb. cbn [fst snd]. rewrite H. reflexivity. Qed.

Lemma node_keys_sorted : forall nk (sn : staging_node), sorted N.ltb sn ->
  sorted pk_ltb (map (fun e' : N * staging_part => ((nk, fst e'), Some tt)) sn).
Proof.
  intros nk sn S.
  change (map (fun e' : N * staging_part => ((nk, fst e'), Some tt)) sn)
    with (map_vals (fun _ : staging_part => Some tt) (map_keys (fun pn => (nk, pn)) sn)) || idtac.
  induction sn as [|[pn sp] r IH]; [exact I|]. destruct S as [L S]. cbn [map fst]. split; [|apply IH; exact S].
  unfold lt_all in *. rewrite Forall_forall in *. intros e He. apply in_map_iff in He. destruct He as [[pn' sp'] [<- He]].
  cbn [fst]. rewrite pk_ltb_same_node. exact (L _ He).
Qed.

Lemma staged_keys_In : forall s pk c, In (pk, c) (staged_keys s) <->
  c = Some tt /\ exists sn sp, In (fst pk, sn) s /\ In (snd pk, sp) sn.
Proof.
  intros s [nk pn] c. unfold staged_keys. rewrite in_flat_map. cbn [fst snd]. split.
  - intros [[nk' sn] [Hs He]]. cbn [fst snd] in He. apply in_map_iff in He. destruct He as [[pn' sp] [E He]].
    cbn [fst] in E. inversion E; subst. split; [reflexivity|]. exists sn, sp. split; assumption.
  - intros [-> [sn [sp [Hs He]]]]. exists (nk, sn). split; [exact Hs|]. cbn [fst snd]. apply in_map_iff.
    exists (pn, sp). split; [reflexivity|exact He].
Qed.

Lemma staged_keys_sorted : forall s, st_wf s -> sorted pk_ltb (staged_keys s).
Proof.
  induction s as [|[nk sn] r IH]; intros [S F]; [exact I|]. destruct S as [L S]. inversion F as [|x l Fn Fr]; subst.
  cbn [staged_keys flat_map fst snd]. apply sorted_app.
  - apply node_keys_sorted. exact (proj1 Fn).
  - apply IH. split; assumption.
  - intros [[n1 p1] c1] [[n2 p2] c2] H1 H2. cbn [fst]. apply in_map_iff in H1. destruct H1 as [[pn sp] [E1 _]].
    cbn [fst] in E1. inversion E1; subst. apply (staged_keys_In r (n2, p2) c2) in H2. destruct H2 as [_ [sn2 [sp2 [Hn _]]]].
    cbn [fst] in Hn. apply pk_ltb_node_lt. unfold lt_all in L. rewrite Forall_forall in L. exact (L _ Hn).
Qed.

Lemma lookup_staged_keys : forall s pk, st_wf s ->
  lookup pk_ltb pk (staged_keys s) = match ov_lookup_part s pk with Some _ => Some (Some tt) | None => None end.
Proof.
  intros s pk W. pose proof (staged_keys_sorted s W) as SS. destruct W as [S F].
  destruct (ov_lookup_part s pk) as [sp|] eqn:E.
  - apply (lookup_In _ PST); [exact SS|]. apply staged_keys_In. split; [reflexivity|].
    unfold ov_lookup_part in E. destruct (lookup blt (fst pk) s) as [sn|] eqn:E1; [|discriminate].
    exists sn, sp. split; [apply (lookup_Some_In _ BST); exact E1|apply (lookup_Some_In _ NST); exact E].
  - destruct (lookup pk_ltb pk (staged_keys s)) as [c|] eqn:E2; [|reflexivity]. exfalso.
    apply (lookup_Some_In _ PST) in E2. apply staged_keys_In in E2. destruct E2 as [_ [sn [sp [H1 H2]]]].
    apply (lookup_In _ BST) in H1; [|exact S]. unfold ov_lookup_part in E. rewrite H1 in E.
    pose proof (Forall_lookup _ BST _ _ _ _ F H1) as [Sn _]. cbn [snd] in Sn.
    apply (lookup_In _ NST) in H2; [|exact Sn]. congruence.
Qed.

Definition root_keys (db : memdb) : list (pkey * unit) := map (fun pk => (pk, tt)) (mem_list_partition_keys db).
Lemma root_keys_sorted : forall db, sorted pk_ltb db -> sorted pk_ltb (root_keys db).
Proof.
  intros db S. unfold root_keys, mem_list_partition_keys. rewrite map_map.
  change (map (fun x : pkey * pmap => (fst x, tt)) db) with (map_vals (fun _ : pmap => tt) db).
  apply map_vals_sorted. exact S.
Qed.
Lemma lookup_root_keys : forall db pk,
  lookup pk_ltb pk (root_keys db) = match lookup pk_ltb pk db with Some _ => Some tt | None => None end.
Proof.
  intros db pk. unfold root_keys, mem_list_partition_keys. rewrite map_map.
  change (map (fun x : pkey * pmap => (fst x, tt)) db) with (map_vals (fun _ : pmap => tt) db).
  rewrite lookup_map_vals. destruct (lookup pk_ltb pk db); reflexivity.
Qed.

(* ---- list_partition_keys of the overlay: strictly ordered, = root partitions + staged partitions ---- *)
Lemma ov_partition_keys_spec : forall o, st_wf (ov_staging o) -> db_wf (ov_root o) ->
  NoDup (ov_list_partition_keys o) /\
  forall pk, In pk (ov_list_partition_keys o) <->
             (lookup pk_ltb pk (ov_root o) <> None \/ ov_lookup_part (ov_staging o) pk <> None).
Proof.
  intros o W B. unfold ov_list_partition_keys. fold (staged_keys (ov_staging o)). fold (root_keys (ov_root o)).
  pose proof (root_keys_sorted _ (db_wf_sorted _ B)) as Su. pose proof (staged_keys_sorted _ W) as So.
  pose proof (gi_sorted pk_ltb PST _ _ Su So) as Si. split.
  - apply (sorted_NoDup_keys _ PST). exact Si.
  - intro pk. change (map fst ?m) with (keys m). rewrite (In_keys_lookup _ PST) by exact Si.
    rewrite (gi_lookup pk_ltb PST) by assumption. unfold gspec.
    rewrite lookup_staged_keys by exact W. rewrite lookup_root_keys.
    destruct (ov_lookup_part (ov_staging o) pk); destruct (lookup pk_ltb pk (ov_root o)); split; intro H;
      try discriminate; try (left; discriminate); try (right; discriminate); try tauto.
Qed.

(* the partition set of the specification = the listed partitions whose listing through the overlay is not empty *)
Theorem overlay_partition_keys : forall base cs, db_wf base -> Forall updates_wf cs ->
  let o := ov_run base cs in
  NoDup (ov_list_partition_keys o) /\
  (forall pk, In pk (mem_list_partition_keys (apply_commits base cs)) <->
              (In pk (ov_list_partition_keys o) /\ ov_list o pk None <> [])).
Proof.
  intros base cs B U. cbv zeta. destruct (refines base cs B U) as [W H].
  assert (db_wf (ov_root (ov_run base cs))) as B' by (rewrite ov_run_eq; exact B).
  destruct (ov_partition_keys_spec _ W B') as [ND HI]. split; [exact ND|]. intro pk.
  pose proof (apply_commits_wf cs base B) as WS.
  assert (In pk (mem_list_partition_keys (apply_commits base cs)) <-> part_of (apply_commits base cs) pk <> []) as ->.
  { unfold mem_list_partition_keys. change (map fst ?m) with (keys m).
    rewrite (In_keys_lookup _ PST) by (apply db_wf_sorted; exact WS).
    rewrite (lookup_of_part_of _ _ WS). destruct (part_of (apply_commits base cs) pk); split; intro X; congruence. }
  rewrite <- H. rewrite (ov_list_view _ pk None W B'). cbn [from_cursor]. rewrite HI.
  rewrite ov_run_eq. cbn [ov_staging ov_root].
  split; [|intros [_ X]; exact X]. intro NE. split; [|exact NE].
  unfold view in NE. destruct (ov_lookup_part (fold_left merge cs []) pk) as [sp|] eqn:E; [right; discriminate|].
  left. cbn [view_part] in NE. unfold part_of in NE. destruct (lookup pk_ltb pk base); [discriminate|contradiction].
Qed.

(* database_updates(): sorted, satisfies the IndexMap invariant, and committing it to the base gives the specification *)
Lemma from_staging_wf : forall s, st_wf s -> updates_wf (from_staging s).
Proof.
  intros s [S F]. unfold updates_wf, from_staging. apply Forall_forall. intros e He. apply in_map_iff in He.
  destruct He as [[nk sn] [<- He]]. cbn [snd fst]. rewrite Forall_forall in F. destruct (F _ He) as [Sn _]. cbn [snd] in Sn.
  unfold from_staging_node. rewrite map_map. cbn [fst]. apply (sorted_NoDup_keys _ NST). exact Sn.
Qed.
Theorem overlay_database_updates : forall base cs, db_wf base -> Forall updates_wf cs ->
  updates_wf (ov_database_updates (ov_run base cs)) /\
  mem_commit base (ov_database_updates (ov_run base cs)) = apply_commits base cs.
Proof.
  intros base cs B U. destruct (refines base cs B U) as [W _]. split; [apply from_staging_wf; exact W|].
  pose proof (overlay_merge_into_base base cs B U) as M. unfold ov_commit_into_root, overlay_new in M.
  injection M as M. rewrite ov_run_eq in *. exact M.
Qed.
