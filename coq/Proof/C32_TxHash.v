(* C32 — proofs about the hash-input builders and the payload envelope. *)
From Coq Require Import List Arith NArith Bool Lia.
Import ListNotations.
Require Import RV.Model.C32_TxHash.
Open Scope N_scope.

(* ---------------------------------------------------------------------------------------- *)
(* list facts                                                                               *)
(* ---------------------------------------------------------------------------------------- *)
Lemma app_same_length_inj : forall (A : Type) (a a' b b' : list A),
  length a = length a' -> a ++ b = a' ++ b' -> a = a' /\ b = b'.
Proof.
  induction a as [|x a IH]; destruct a' as [|x' a']; cbn [length app]; intros b b' HL E;
    try discriminate.
  - split; [reflexivity|exact E].
  - inversion E; subst. destruct (IH a' b b') as [E1 E2]; [lia|assumption|]. subst. split; reflexivity.
Qed.

Definition Len32 (b : bytes) : Prop := length b = 32%nat.

Lemma len32_true : forall b, len32 b = true <-> Len32 b.
Proof. intro b. unfold len32, Len32. apply Nat.eqb_eq. Qed.

Lemma forallb_len32 : forall l, forallb len32 l = true <-> Forall Len32 l.
Proof.
  intro l. rewrite forallb_forall, Forall_forall. split; intros HH x Hx; apply len32_true, HH, Hx.
Qed.

(* concatenation of fixed-width (32-byte) pieces is injective *)
Lemma concat_len32_inj : forall l l', Forall Len32 l -> Forall Len32 l' -> concat l = concat l' -> l = l'.
Proof.
  induction l as [|x l IH]; destruct l' as [|x' l']; cbn [concat]; intros F F' E.
  - reflexivity.
  - inversion F' as [|? ? Hx' _]; subst. unfold Len32 in Hx'.
    assert (length (x' ++ concat l') = 0%nat) as HL by (rewrite <- E; reflexivity).
    rewrite app_length in HL. lia.
  - inversion F as [|? ? Hx _]; subst. unfold Len32 in Hx.
    assert (length (x ++ concat l) = 0%nat) as HL by (rewrite E; reflexivity).
    rewrite app_length in HL. lia.
  - inversion F as [|? ? Hx Fl]; inversion F' as [|? ? Hx' Fl']; subst.
    destruct (app_same_length_inj _ x x' (concat l) (concat l')) as [E1 E2];
      [unfold Len32 in *; congruence|exact E|].
    subst. f_equal. apply IH; assumption.
Qed.

(* the generic statement: same-length initial bytes + 32-byte digests determine the digest list *)
Lemma composite_input_inj : forall pre pre' ds ds',
  length pre = length pre' -> Forall Len32 ds -> Forall Len32 ds' ->
  composite_input pre ds = composite_input pre' ds' -> pre = pre' /\ ds = ds'.
Proof.
  unfold composite_input. intros pre pre' ds ds' HL F F' E.
  destruct (app_same_length_inj _ _ _ _ _ HL E) as [E1 E2]. split; [exact E1|].
  apply concat_len32_inj; assumption.
Qed.

Section WithHash.
  Variable H : bytes -> bytes.
  Hypothesis Hlen : forall x, length (H x) = 32%nat.

  Lemma map_H_len32 : forall (A : Type) (f : A -> bytes) (l : list A),
    (forall a, Len32 (f a)) -> Forall Len32 (map f l).
  Proof. intros A f l Hf. apply Forall_forall. intros x Hx. apply in_map_iff in Hx. destruct Hx as [a [E _]]. subst. apply Hf. Qed.

  Lemma part_digests_len32 : forall p, part_wf p = true -> Forall Len32 (part_digests H p).
  Proof.
    intros p W. destruct p; cbn [part_digests part_wf] in *;
      try (apply map_H_len32; intro; apply Hlen);
      try (apply forallb_len32; exact W);
      unfold core_digests, v1_intent_digests, v1_signed_digests, v1_notarized_digests, v2_intent_digests,
        v2_signed_digests, v2_notarized_digests, partial_digests, signed_partial_digests;
      repeat constructor; apply Hlen.
  Qed.

  (* the kind of a part = its constructor *)
  Definition part_kind (p : part) : N :=
    match p with
    | PBlobs _ => 100 | PChildren _ => 101 | PSigBatches _ => 102 | PSubintents _ => 103 | PCore _ => 104
    | PV1Intent _ => D_V1_INTENT | PV1Signed _ => D_V1_SIGNED_INTENT | PV1Notarized _ => D_V1_NOTARIZED
    | PSubintent _ => D_V2_SUBINTENT | PV2Intent _ => D_V2_TRANSACTION_INTENT
    | PV2Signed _ => D_V2_SIGNED_TRANSACTION_INTENT | PV2Notarized _ => D_V2_NOTARIZED
    | PPartial _ => D_V2_PARTIAL_TRANSACTION | PSignedPartial _ => D_V2_SIGNED_PARTIAL_TRANSACTION
    end.
  (* transaction payload parts: the ones whose hash is an identifier; they start with
     TRANSACTION_HASHABLE_PAYLOAD_PREFIX and their discriminator *)
  Definition is_payload_part (p : part) : bool := part_kind p <? 100.

  Lemma part_prefix_kind : forall p p', part_kind p = part_kind p' -> part_prefix p = part_prefix p'.
  Proof. intros p p' E. destruct p; destruct p'; cbn in E; try discriminate E; reflexivity. Qed.

  Lemma hash_input_injective : forall p p',
    part_kind p = part_kind p' -> part_wf p = true -> part_wf p' = true ->
    part_input H p = part_input H p' -> part_digests H p = part_digests H p'.
  Proof.
    intros p p' K W W' E. unfold part_input in E.
    apply composite_input_inj in E.
    - apply E.
    - rewrite (part_prefix_kind _ _ K). reflexivity.
    - apply part_digests_len32, W.
    - apply part_digests_len32, W'.
  Qed.

  Lemma payload_part_prefix : forall p, is_payload_part p = true ->
    part_prefix p = payload_prefix (part_kind p).
  Proof. intros p P. destruct p; cbn in P; try discriminate P; reflexivity. Qed.

  Lemma hash_input_kinds_disjoint : forall p p',
    is_payload_part p = true -> is_payload_part p' = true -> part_kind p <> part_kind p' ->
    part_input H p <> part_input H p'.
  Proof.
    intros p p' P P' K E. unfold part_input, composite_input in E.
    rewrite (payload_part_prefix _ P), (payload_part_prefix _ P') in E.
    unfold payload_prefix in E. cbn [app] in E. inversion E. contradiction.
  Qed.

  (* a payload part input always starts with the two domain-separation bytes *)
  Lemma payload_part_input_starts : forall p, is_payload_part p = true ->
    exists rest, part_input H p = TRANSACTION_HASHABLE_PAYLOAD_PREFIX :: part_kind p :: rest.
  Proof.
    intros p P. unfold part_input, composite_input. rewrite (payload_part_prefix _ P).
    eexists. reflexivity.
  Qed.

  (* -------------------------------------------------------------------------------------- *)
  (* collision-freeness on a finite set of inputs                                           *)
  (* -------------------------------------------------------------------------------------- *)
  Definition CollisionFreeOn (S : list bytes) : Prop :=
    forall x y, In x S -> In y S -> H x = H y -> x = y.

  Lemma cf_incl : forall S S', CollisionFreeOn S -> incl S' S -> CollisionFreeOn S'.
  Proof. intros S S' C I x y Hx Hy. apply C; apply I; assumption. Qed.

  Section OnS.
    Variable S : list bytes.
    Hypothesis CF : CollisionFreeOn S.

    Lemma leaf_inj : forall x y, In x S -> In y S -> H x = H y -> x = y.
    Proof. exact CF. Qed.

    Lemma map_H_inj : forall l l', incl l S -> incl l' S -> map H l = map H l' -> l = l'.
    Proof.
      induction l as [|x l IH]; destruct l' as [|x' l']; cbn [map]; intros I I' E; try discriminate.
      - reflexivity.
      - inversion E as [[E1 E2]]. f_equal.
        + apply CF; [apply I; left; reflexivity|apply I'; left; reflexivity|exact E1].
        + apply IH; [intros z Hz; apply I; right; exact Hz|intros z Hz; apply I'; right; exact Hz|exact E2].
    Qed.

    (* arrays of hashed leaves: blobs, signature batches *)
    Lemma hashed_array_inj : forall l l',
      incl (l ++ [composite_input [] (map H l)]) S -> incl (l' ++ [composite_input [] (map H l')]) S ->
      H (composite_input [] (map H l)) = H (composite_input [] (map H l')) -> l = l'.
    Proof.
      intros l l' I I' E.
      apply CF in E; [|apply I; apply in_or_app; right; left; reflexivity
                      |apply I'; apply in_or_app; right; left; reflexivity].
      apply composite_input_inj in E; [|reflexivity|apply map_H_len32; intro; apply Hlen..].
      destruct E as [_ E].
      apply map_H_inj; [intros z Hz; apply I, in_or_app; left; exact Hz
                       |intros z Hz; apply I', in_or_app; left; exact Hz|exact E].
    Qed.

    Lemma blobs_hash_inj : forall l l', incl (blobs_inputs H l) S -> incl (blobs_inputs H l') S ->
      blobs_hash H l = blobs_hash H l' -> l = l'.
    Proof. intros l l'. unfold blobs_inputs, blobs_hash, blobs_input, blobs_digests. apply hashed_array_inj. Qed.

    Lemma sig_batches_hash_inj : forall l l',
      incl (sig_batches_inputs H l) S -> incl (sig_batches_inputs H l') S ->
      sig_batches_hash H l = sig_batches_hash H l' -> l = l'.
    Proof.
      intros l l'. unfold sig_batches_inputs, sig_batches_hash, sig_batches_input, sig_batches_digests.
      apply hashed_array_inj.
    Qed.

    Lemma children_hash_inj : forall ch ch', forallb len32 ch = true -> forallb len32 ch' = true ->
      In (children_input ch) S -> In (children_input ch') S ->
      children_hash H ch = children_hash H ch' -> ch = ch'.
    Proof.
      intros ch ch' W W' I I' E. unfold children_hash in E. apply CF in E; [|assumption..].
      unfold children_input in E. apply composite_input_inj in E;
        [apply E|reflexivity|apply forallb_len32; assumption..].
    Qed.
  End OnS.
End WithHash.

(* incl helpers *)
Ltac in_list :=
  repeat match goal with
         | |- In _ (_ ++ _) => apply in_or_app
         | |- In ?x (?x :: _) => left; reflexivity
         | |- In _ (_ :: _) => right
         | |- _ \/ _ => first [left; in_list; fail | right; in_list; fail]
         end.

Section Sensitivity.
  Variable H : bytes -> bytes.
  Hypothesis Hlen : forall x, length (H x) = 32%nat.
  Variable S : list bytes.
  Hypothesis CF : CollisionFreeOn H S.

  Ltac split_input E :=
    apply (composite_input_inj) in E;
      [|reflexivity|repeat constructor; apply Hlen|repeat constructor; apply Hlen];
    destruct E as [_ E]; inversion E; clear E.

  Lemma incl_app_l : forall (A : Type) (a b c : list A), incl (a ++ b) c -> incl a c.
  Proof. intros A a b c I x Hx. apply I, in_or_app. left. exact Hx. Qed.
  Lemma incl_app_r : forall (A : Type) (a b c : list A), incl (a ++ b) c -> incl b c.
  Proof. intros A a b c I x Hx. apply I, in_or_app. right. exact Hx. Qed.
  Lemma incl_cons_hd : forall (A : Type) (a : A) (b c : list A), incl (a :: b) c -> In a c.
  Proof. intros A a b c I. apply I. left. reflexivity. Qed.
  Lemma incl_cons_tl : forall (A : Type) (a : A) (b c : list A), incl (a :: b) c -> incl b c.
  Proof. intros A a b c I x Hx. apply I. right. exact Hx. Qed.

  (* ---- V1 ---- *)
  Lemma v1_intent_hash_inj : forall i i',
    incl (v1_intent_inputs H i) S -> incl (v1_intent_inputs H i') S ->
    v1_intent_hash H i = v1_intent_hash H i' -> i = i'.
  Proof.
    intros i i' I I' E. unfold v1_intent_hash in E.
    apply CF in E; [|apply I; unfold v1_intent_inputs; in_list|apply I'; unfold v1_intent_inputs; in_list].
    unfold v1_intent_input, v1_intent_digests in E. split_input E.
    destruct i as [h ins bl m]; destruct i' as [h' ins' bl' m']; cbn [i1_header i1_instructions i1_blobs i1_message] in *.
    unfold v1_intent_inputs in I, I'. cbn [i1_header i1_instructions i1_blobs i1_message app] in I, I'.
    assert (h = h') by (apply CF; [apply I; in_list|apply I'; in_list|assumption]).
    assert (ins = ins') by (apply CF; [apply I; in_list|apply I'; in_list|assumption]).
    assert (m = m') by (apply CF; [apply I; in_list|apply I'; in_list|assumption]).
    assert (bl = bl').
    { apply (blobs_hash_inj H Hlen S CF); [| |assumption].
      - do 3 apply incl_cons_tl in I. apply incl_app_l in I. exact I.
      - do 3 apply incl_cons_tl in I'. apply incl_app_l in I'. exact I'. }
    subst. reflexivity.
  Qed.

  Lemma v1_signed_hash_inj : forall n n',
    incl (v1_inputs H n) S -> incl (v1_inputs H n') S ->
    v1_signed_hash H n = v1_signed_hash H n' ->
    n1_intent n = n1_intent n' /\ n1_signatures n = n1_signatures n'.
  Proof.
    intros n n' I I' E. unfold v1_signed_hash in E. unfold v1_inputs in I, I'.
    apply CF in E; [|apply I; in_list|apply I'; in_list].
    unfold v1_signed_input, v1_signed_digests in E. split_input E. split.
    - apply v1_intent_hash_inj; [apply incl_app_l in I; exact I|apply incl_app_l in I'; exact I'|assumption].
    - apply CF; [apply I; in_list|apply I'; in_list|assumption].
  Qed.

  Lemma v1_notarized_hash_inj : forall n n',
    incl (v1_inputs H n) S -> incl (v1_inputs H n') S ->
    v1_notarized_hash H n = v1_notarized_hash H n' -> n = n'.
  Proof.
    intros n n' I I' E. unfold v1_notarized_hash in E.
    assert (E0 := E). apply CF in E; [|apply I; unfold v1_inputs; in_list|apply I'; unfold v1_inputs; in_list].
    unfold v1_notarized_input, v1_notarized_digests in E. split_input E.
    match goal with X : v1_signed_hash H n = v1_signed_hash H n' |- _ =>
      destruct (v1_signed_hash_inj n n' I I' X) as [E1 E2] end.
    assert (n1_notary_signature n = n1_notary_signature n') as E3
      by (apply CF; [apply I; unfold v1_inputs; in_list|apply I'; unfold v1_inputs; in_list|assumption]).
    destruct n; destruct n'; cbn in *. subst. reflexivity.
  Qed.

  (* ---- V2 ---- *)
  Lemma core_hash_inj : forall c c', core_wf c = true -> core_wf c' = true ->
    incl (core_inputs H c) S -> incl (core_inputs H c') S ->
    core_hash H c = core_hash H c' -> c = c'.
  Proof.
    intros c c' W W' I I' E. unfold core_hash in E. unfold core_inputs in I, I'.
    apply CF in E; [|apply I; in_list|apply I'; in_list].
    unfold core_input, core_digests in E. split_input E.
    destruct c as [h bl m ch ins]; destruct c' as [h' bl' m' ch' ins'];
      cbn [c_header c_blobs c_message c_children c_instructions app] in *.
    unfold core_wf in W, W'. cbn [c_children] in W, W'.
    assert (h = h') by (apply CF; [apply I; in_list|apply I'; in_list|assumption]).
    assert (m = m') by (apply CF; [apply I; in_list|apply I'; in_list|assumption]).
    assert (ins = ins') by (apply CF; [apply I; in_list|apply I'; in_list|assumption]).
    assert (ch = ch').
    { apply (children_hash_inj H S CF); try assumption; [apply I; in_list|apply I'; in_list]. }
    assert (bl = bl').
    { apply (blobs_hash_inj H Hlen S CF); [| |assumption].
      - do 4 apply incl_cons_tl in I. apply incl_app_l in I. exact I.
      - do 4 apply incl_cons_tl in I'. apply incl_app_l in I'. exact I'. }
    subst. reflexivity.
  Qed.

  Lemma subintent_hash_inj : forall c c', core_wf c = true -> core_wf c' = true ->
    incl (subintent_inputs H c) S -> incl (subintent_inputs H c') S ->
    subintent_hash H c = subintent_hash H c' -> c = c'.
  Proof.
    intros c c' W W' I I' E. unfold subintent_hash in E. unfold subintent_inputs in I, I'.
    apply CF in E; [|apply I; in_list|apply I'; in_list].
    unfold subintent_input in E. split_input E.
    apply core_hash_inj; try assumption; [apply incl_app_l in I; exact I|apply incl_app_l in I'; exact I'].
  Qed.

  Lemma subintent_hashes_inj : forall l l',
    forallb core_wf l = true -> forallb core_wf l' = true ->
    incl (flat_map (subintent_inputs H) l) S -> incl (flat_map (subintent_inputs H) l') S ->
    map (subintent_hash H) l = map (subintent_hash H) l' -> l = l'.
  Proof.
    induction l as [|c l IH]; destruct l' as [|c' l']; cbn [map flat_map forallb]; intros W W' I I' E;
      try discriminate.
    - reflexivity.
    - apply andb_true_iff in W. apply andb_true_iff in W'. destruct W as [W1 W2]. destruct W' as [W1' W2'].
      inversion E as [[E1 E2]]. f_equal.
      + apply subintent_hash_inj; try assumption; [apply incl_app_l in I; exact I|apply incl_app_l in I'; exact I'].
      + apply IH; try assumption; [apply incl_app_r in I; exact I|apply incl_app_r in I'; exact I'].
  Qed.

  Lemma subintents_hash_inj : forall l l',
    forallb core_wf l = true -> forallb core_wf l' = true ->
    incl (subintents_inputs H l) S -> incl (subintents_inputs H l') S ->
    subintents_hash H l = subintents_hash H l' -> l = l'.
  Proof.
    intros l l' W W' I I' E. unfold subintents_hash in E. unfold subintents_inputs in I, I'.
    apply CF in E; [|apply I; in_list|apply I'; in_list].
    unfold subintents_input, subintents_digests in E.
    apply composite_input_inj in E; [|reflexivity|apply map_H_len32; intro; apply Hlen..].
    destruct E as [_ E].
    apply subintent_hashes_inj; try assumption; [apply incl_app_l in I; exact I|apply incl_app_l in I'; exact I'].
  Qed.

  Lemma v2_intent_hash_inj : forall t t', tx_intent_wf t = true -> tx_intent_wf t' = true ->
    incl (v2_intent_inputs H t) S -> incl (v2_intent_inputs H t') S ->
    v2_intent_hash H t = v2_intent_hash H t' -> t = t'.
  Proof.
    intros t t' W W' I I' E. unfold v2_intent_hash in E. unfold v2_intent_inputs in I, I'.
    apply CF in E; [|apply I; in_list|apply I'; in_list].
    unfold v2_intent_input, v2_intent_digests in E. split_input E.
    unfold tx_intent_wf in W, W'. apply andb_true_iff in W. apply andb_true_iff in W'.
    destruct W as [W1 W2]. destruct W' as [W1' W2'].
    destruct t as [h r sl]; destruct t' as [h' r' sl']; cbn [t_header t_root t_subintents app] in *.
    assert (h = h') by (apply CF; [apply I; in_list|apply I'; in_list|assumption]).
    apply incl_cons_tl in I. apply incl_cons_tl in I'.
    assert (r = r').
    { apply core_hash_inj; try assumption; [apply incl_app_l in I; exact I|apply incl_app_l in I'; exact I']. }
    apply incl_app_r in I. apply incl_app_r in I'.
    assert (sl = sl').
    { apply subintents_hash_inj; try assumption; [apply incl_app_l in I; exact I|apply incl_app_l in I'; exact I']. }
    subst. reflexivity.
  Qed.

  Lemma v2_signed_hash_inj : forall n n',
    tx_intent_wf (n2_intent n) = true -> tx_intent_wf (n2_intent n') = true ->
    incl (v2_inputs H n) S -> incl (v2_inputs H n') S ->
    v2_signed_hash H n = v2_signed_hash H n' ->
    n2_intent n = n2_intent n' /\ n2_signatures n = n2_signatures n'
    /\ n2_sub_signatures n = n2_sub_signatures n'.
  Proof.
    intros n n' W W' I I' E. unfold v2_signed_hash in E. unfold v2_inputs in I, I'.
    apply CF in E; [|apply I; in_list|apply I'; in_list].
    unfold v2_signed_input, v2_signed_digests in E. split_input E. repeat split.
    - apply v2_intent_hash_inj; try assumption; [apply incl_app_l in I; exact I|apply incl_app_l in I'; exact I'].
    - apply CF; [apply I; in_list|apply I'; in_list|assumption].
    - apply (sig_batches_hash_inj H Hlen S CF); [| |assumption].
      + apply incl_app_r in I. apply incl_app_r in I. apply incl_app_l in I. exact I.
      + apply incl_app_r in I'. apply incl_app_r in I'. apply incl_app_l in I'. exact I'.
  Qed.

  Lemma v2_notarized_hash_inj : forall n n',
    tx_intent_wf (n2_intent n) = true -> tx_intent_wf (n2_intent n') = true ->
    incl (v2_inputs H n) S -> incl (v2_inputs H n') S ->
    v2_notarized_hash H n = v2_notarized_hash H n' -> n = n'.
  Proof.
    intros n n' W W' I I' E. unfold v2_notarized_hash in E.
    apply CF in E; [|apply I; unfold v2_inputs; in_list|apply I'; unfold v2_inputs; in_list].
    unfold v2_notarized_input, v2_notarized_digests in E. split_input E.
    match goal with X : v2_signed_hash H n = v2_signed_hash H n' |- _ =>
      destruct (v2_signed_hash_inj n n' W W' I I' X) as [E1 [E2 E3]] end.
    assert (n2_notary_signature n = n2_notary_signature n') as E4
      by (apply CF; [apply I; unfold v2_inputs; in_list|apply I'; unfold v2_inputs; in_list|assumption]).
    destruct n; destruct n'; cbn in *. subst. reflexivity.
  Qed.

  (* ---- partial transactions ---- *)
  Lemma partial_hash_inj : forall p p', partial_wf p = true -> partial_wf p' = true ->
    incl (partial_inputs H p) S -> incl (partial_inputs H p') S ->
    partial_hash H p = partial_hash H p' -> p = p'.
  Proof.
    intros p p' W W' I I' E. unfold partial_hash in E. unfold partial_inputs in I, I'.
    apply CF in E; [|apply I; in_list|apply I'; in_list].
    unfold partial_input, partial_digests in E. split_input E.
    unfold partial_wf in W, W'. apply andb_true_iff in W. apply andb_true_iff in W'.
    destruct W as [W1 W2]. destruct W' as [W1' W2'].
    destruct p as [r sl]; destruct p' as [r' sl']; cbn [p_root p_subintents] in *.
    assert (r = r').
    { apply subintent_hash_inj; try assumption; [apply incl_app_l in I; exact I|apply incl_app_l in I'; exact I']. }
    apply incl_app_r in I. apply incl_app_r in I'.
    assert (sl = sl').
    { apply subintents_hash_inj; try assumption; [apply incl_app_l in I; exact I|apply incl_app_l in I'; exact I']. }
    subst. reflexivity.
  Qed.

  Lemma signed_partial_hash_inj : forall s s',
    partial_wf (sp_partial s) = true -> partial_wf (sp_partial s') = true ->
    incl (signed_partial_inputs H s) S -> incl (signed_partial_inputs H s') S ->
    signed_partial_hash H s = signed_partial_hash H s' -> s = s'.
  Proof.
    intros s s' W W' I I' E. unfold signed_partial_hash in E. unfold signed_partial_inputs in I, I'.
    apply CF in E; [|apply I; in_list|apply I'; in_list].
    unfold signed_partial_input, signed_partial_digests in E. split_input E.
    assert (sp_partial s = sp_partial s').
    { apply partial_hash_inj; try assumption; [apply incl_app_l in I; exact I|apply incl_app_l in I'; exact I']. }
    assert (sp_root_signatures s = sp_root_signatures s')
      by (apply CF; [apply I; in_list|apply I'; in_list|assumption]).
    assert (sp_sub_signatures s = sp_sub_signatures s').
    { apply (sig_batches_hash_inj H Hlen S CF); [| |assumption].
      + apply incl_app_r in I. apply incl_app_r in I. apply incl_app_l in I. exact I.
      + apply incl_app_r in I'. apply incl_app_r in I'. apply incl_app_l in I'. exact I'. }
    destruct s; destruct s'; cbn in *. subst. reflexivity.
  Qed.
End Sensitivity.

(* ---------------------------------------------------------------------------------------- *)
(* field sensitivity of the identifiers of a whole transaction                              *)
(* ---------------------------------------------------------------------------------------- *)
Section TxSensitivity.
  Variable H : bytes -> bytes.
  Hypothesis Hlen : forall x, length (H x) = 32%nat.

  Lemma subintent_parts_wf : forall t, tx_wf t = true -> forallb core_wf (subintent_parts t) = true.
  Proof.
    intros t W. destruct t as [n|n|s]; cbn [tx_wf subintent_parts] in *; [reflexivity| |].
    - unfold tx_intent_wf in W. apply andb_true_iff in W. apply W.
    - unfold partial_wf in W. apply andb_true_iff in W. apply W.
  Qed.

  Lemma subintent_parts_inputs : forall t,
    incl (flat_map (subintent_inputs H) (subintent_parts t)) (tx_inputs H t).
  Proof.
    intros t x Hx. destruct t as [n|n|s]; cbn [subintent_parts tx_inputs flat_map] in *.
    - destruct Hx.
    - unfold v2_inputs, v2_intent_inputs, subintents_inputs. rewrite !in_app_iff. tauto.
    - unfold signed_partial_inputs, partial_inputs, subintents_inputs. rewrite !in_app_iff. tauto.
  Qed.

  Lemma h_subintents_eq : forall t, h_subintents (tx_hashes H t) = map (subintent_hash H) (subintent_parts t).
  Proof. intros [n|n|s]; reflexivity. Qed.

  (* the input whose hash is each identifier, and that it is in tx_inputs *)
  Definition intent_id_input (t : tx) : bytes :=
    match t with
    | TxV1 n => v1_intent_input H (n1_intent n)
    | TxV2 n => v2_intent_input H (n2_intent n)
    | TxPartial s => subintent_input H (p_root (sp_partial s))
    end.
  Definition signed_id_input (t : tx) : bytes :=
    match t with
    | TxV1 n => v1_signed_input H n
    | TxV2 n => v2_signed_input H n
    | TxPartial s => partial_input H (sp_partial s)
    end.
  Definition notarized_id_input (t : tx) : bytes :=
    match t with
    | TxV1 n => v1_notarized_input H n
    | TxV2 n => v2_notarized_input H n
    | TxPartial s => signed_partial_input H s
    end.
  Definition tx_disc (t : tx) : N * N * N :=
    match t with
    | TxV1 _ => (D_V1_INTENT, D_V1_SIGNED_INTENT, D_V1_NOTARIZED)
    | TxV2 _ => (D_V2_TRANSACTION_INTENT, D_V2_SIGNED_TRANSACTION_INTENT, D_V2_NOTARIZED)
    | TxPartial _ => (D_V2_SUBINTENT, D_V2_PARTIAL_TRANSACTION, D_V2_SIGNED_PARTIAL_TRANSACTION)
    end.

  Lemma id_inputs_in : forall t,
    In (intent_id_input t) (tx_inputs H t) /\ In (signed_id_input t) (tx_inputs H t)
    /\ In (notarized_id_input t) (tx_inputs H t).
  Proof.
    intros [n|n|s]; cbn [intent_id_input signed_id_input notarized_id_input tx_inputs];
      unfold v1_inputs, v1_intent_inputs, v2_inputs, v2_intent_inputs, signed_partial_inputs,
        partial_inputs, subintent_inputs; repeat split; in_list.
  Qed.
  Lemma id_hashes : forall t,
    h_intent (tx_hashes H t) = H (intent_id_input t) /\ h_signed (tx_hashes H t) = H (signed_id_input t)
    /\ h_notarized (tx_hashes H t) = H (notarized_id_input t).
  Proof. intros [n|n|s]; repeat split; reflexivity. Qed.
  Lemma id_inputs_start : forall t,
    (exists r, intent_id_input t = TRANSACTION_HASHABLE_PAYLOAD_PREFIX :: fst (fst (tx_disc t)) :: r)
    /\ (exists r, signed_id_input t = TRANSACTION_HASHABLE_PAYLOAD_PREFIX :: snd (fst (tx_disc t)) :: r)
    /\ (exists r, notarized_id_input t = TRANSACTION_HASHABLE_PAYLOAD_PREFIX :: snd (tx_disc t) :: r).
  Proof. intros [n|n|s]; repeat split; eexists; reflexivity. Qed.

  Lemma incl_l : forall (A : Type) (a b : list A), incl a (a ++ b).
  Proof. intros A a b x Hx. apply in_or_app. left. exact Hx. Qed.
  Lemma incl_r : forall (A : Type) (a b : list A), incl b (a ++ b).
  Proof. intros A a b x Hx. apply in_or_app. right. exact Hx. Qed.

  Lemma tx_intent_inputs_incl : forall t,
    match t with
    | TxV1 n => incl (v1_intent_inputs H (n1_intent n)) (tx_inputs H t)
    | TxV2 n => incl (v2_intent_inputs H (n2_intent n)) (tx_inputs H t)
    | TxPartial s => incl (subintent_inputs H (p_root (sp_partial s))) (tx_inputs H t)
                     /\ incl (partial_inputs H (sp_partial s)) (tx_inputs H t)
    end.
  Proof.
    intros [n|n|s]; cbn [tx_inputs]; unfold v1_inputs, v2_inputs, signed_partial_inputs, partial_inputs.
    - apply incl_l.
    - apply incl_l.
    - split; [|apply incl_l]. intros x Hx. apply in_or_app. left. apply in_or_app. left. exact Hx.
  Qed.

  Theorem field_sensitivity : forall t t',
    tx_wf t = true -> tx_wf t' = true ->
    CollisionFreeOn H (tx_inputs H t ++ tx_inputs H t') ->
    let h := tx_hashes H t in let h' := tx_hashes H t' in
    (h_intent h = h_intent h' <-> intent_part t = intent_part t')
    /\ (h_signed h = h_signed h' <-> signed_part t = signed_part t')
    /\ (h_notarized h = h_notarized h' <-> t = t')
    /\ (h_subintents h = h_subintents h' <-> subintent_parts t = subintent_parts t').
  Proof.
    intros t t' W W' CF h h'. subst h h'.
    set (S := tx_inputs H t ++ tx_inputs H t') in *.
    assert (IL : incl (tx_inputs H t) S) by apply incl_l.
    assert (IR : incl (tx_inputs H t') S) by apply incl_r.
    destruct (id_inputs_in t) as [A1 [A2 A3]]. destruct (id_inputs_in t') as [A1' [A2' A3']].
    destruct (id_hashes t) as [B1 [B2 B3]]. destruct (id_hashes t') as [B1' [B2' B3']].
    destruct (id_inputs_start t) as [[r1 C1] [[r2 C2] [r3 C3]]].
    destruct (id_inputs_start t') as [[r1' C1'] [[r2' C2'] [r3' C3']]].
    pose proof (tx_intent_inputs_incl t) as TI. pose proof (tx_intent_inputs_incl t') as TI'.
    repeat split.
    - (* intent *) intro E. rewrite B1, B1' in E. apply CF in E; [|apply IL, A1|apply IR, A1'].
      destruct t as [n|n|s]; destruct t' as [n'|n'|s'];
        try (rewrite C1, C1' in E; cbn in E; inversion E; fail);
        cbn [intent_id_input] in E; cbn [intent_part]; f_equal.
      + apply (v1_intent_hash_inj H Hlen S CF); [eapply incl_tran; [apply TI|exact IL]
                                                 |eapply incl_tran; [apply TI'|exact IR]|unfold v1_intent_hash; congruence].
      + cbn [tx_wf] in W, W'. apply (v2_intent_hash_inj H Hlen S CF); try assumption;
          [eapply incl_tran; [apply TI|exact IL]|eapply incl_tran; [apply TI'|exact IR]|unfold v2_intent_hash; congruence].
      + cbn [tx_wf] in W, W'. unfold partial_wf in W, W'. apply andb_true_iff in W. apply andb_true_iff in W'.
        apply (subintent_hash_inj H Hlen S CF); try (apply W); try (apply W');
          [eapply incl_tran; [apply TI|exact IL]|eapply incl_tran; [apply TI'|exact IR]|unfold subintent_hash; congruence].
    - intro E. destruct t as [n|n|s]; destruct t' as [n'|n'|s']; cbn [intent_part] in E; try discriminate E;
        inversion E; cbn [tx_hashes h_intent]; congruence.
    - (* signed *) intro E. rewrite B2, B2' in E. assert (E0 := E). apply CF in E; [|apply IL, A2|apply IR, A2'].
      destruct t as [n|n|s]; destruct t' as [n'|n'|s'];
        try (rewrite C2, C2' in E; cbn in E; inversion E; fail);
        cbn [signed_id_input] in E0; cbn [signed_part tx_inputs tx_wf] in *.
      + destruct (v1_signed_hash_inj H Hlen S CF n n' IL IR E0) as [E1 E2]. congruence.
      + destruct (v2_signed_hash_inj H Hlen S CF n n' W W' IL IR E0) as [E1 [E2 E3]]. congruence.
      + f_equal. apply (partial_hash_inj H Hlen S CF); try assumption;
          [eapply incl_tran; [apply TI|exact IL]|eapply incl_tran; [apply TI'|exact IR]].
    - intro E. destruct t as [n|n|s]; destruct t' as [n'|n'|s']; cbn [signed_part] in E; try discriminate E;
        inversion E; cbn [tx_hashes h_signed].
      + unfold v1_signed_hash, v1_signed_input, v1_signed_digests. congruence.
      + unfold v2_signed_hash, v2_signed_input, v2_signed_digests. congruence.
      + congruence.
    - (* notarized *) intro E. rewrite B3, B3' in E. assert (E0 := E). apply CF in E; [|apply IL, A3|apply IR, A3'].
      destruct t as [n|n|s]; destruct t' as [n'|n'|s'];
        try (rewrite C3, C3' in E; cbn in E; inversion E; fail);
        cbn [notarized_id_input] in E0; cbn [tx_inputs tx_wf] in *; f_equal.
      + apply (v1_notarized_hash_inj H Hlen S CF); assumption.
      + apply (v2_notarized_hash_inj H Hlen S CF); assumption.
      + apply (signed_partial_hash_inj H Hlen S CF); assumption.
    - intro E. subst. reflexivity.
    - (* subintents *) intro E. rewrite !h_subintents_eq in E.
      apply (subintent_hashes_inj H Hlen S CF); try (apply subintent_parts_wf; assumption); try assumption.
      + eapply incl_tran; [apply subintent_parts_inputs|exact IL].
      + eapply incl_tran; [apply subintent_parts_inputs|exact IR].
    - intro E. rewrite !h_subintents_eq. congruence.
  Qed.

  (* the table-based correspondence is justified: the hashes depend on H only through its values
     on tx_inputs *)
  Lemma map_ext_in' : forall (A B : Type) (f g : A -> B) l, (forall a, In a l -> f a = g a) -> map f l = map g l.
  Proof. intros. apply map_ext_in. assumption. Qed.
End TxSensitivity.

(* ---------------------------------------------------------------------------------------- *)
(* payload envelope                                                                         *)
(* ---------------------------------------------------------------------------------------- *)
Definition rejected {A : Type} (r : result A) : Prop := exists e, r = Err e.

Section EnvelopeProofs.
  Variable A : Type.
  Variable decode_fields : bytes -> result (A * bytes).

  Lemma prepare_known_accept_inv : forall s k disc nf payload a,
    prepare_known A decode_fields s k disc nf payload = Ok a ->
    check_len s k (N.of_nat (length payload)) = true
    /\ exists rest body,
         payload = MANIFEST_SBOR_V1_PAYLOAD_PREFIX :: VK_ENUM :: disc :: rest
         /\ read_size rest = Ok (nf, body)
         /\ decode_fields body = Ok (a, []).
  Proof.
    intros s k disc nf payload a E. unfold prepare_known in E.
    destruct (check_len s k (N.of_nat (length payload))) eqn:CL; cbn [negb] in E; [|discriminate E].
    split; [reflexivity|].
    destruct payload as [|p rest0]; [discriminate E|].
    destruct (p =? MANIFEST_SBOR_V1_PAYLOAD_PREFIX) eqn:EP; cbn [negb] in E; [|discriminate E].
    apply N.eqb_eq in EP. subst p.
    unfold read_enum_header in E.
    destruct rest0 as [|vk r1]; [discriminate E|].
    destruct (vk =? VK_ENUM) eqn:EV; cbn [negb] in E; [|discriminate E].
    apply N.eqb_eq in EV. subst vk.
    destruct r1 as [|d r2]; [discriminate E|].
    destruct (d =? disc) eqn:ED; cbn [negb] in E; [|discriminate E].
    apply N.eqb_eq in ED. subst d.
    destruct (read_size r2) as [[n r3]|e] eqn:RS; [|discriminate E].
    destruct (n =? nf) eqn:EN; [|discriminate E]. apply N.eqb_eq in EN. subst n.
    destruct (decode_fields r3) as [[a' tr]|e] eqn:DF; [|discriminate E].
    destruct tr as [|t tr]; [|discriminate E]. inversion E; subst.
    exists r2, r3. repeat split; assumption.
  Qed.

  (* over-limit size *)
  Lemma too_large_rejected : forall s disc nf payload,
    max_user_payload_length s < N.of_nat (length payload) ->
    prepare_known A decode_fields s CompleteUserTransaction disc nf payload = Err ETransactionTooLarge.
  Proof.
    intros s disc nf payload L. unfold prepare_known, check_len.
    destruct (N.leb_spec (N.of_nat (length payload)) (max_user_payload_length s)) as [L'|L']; [lia|reflexivity].
  Qed.
  Lemma too_large_ledger_rejected : forall s disc nf payload,
    max_ledger_payload_length s < N.of_nat (length payload) ->
    prepare_known A decode_fields s LedgerTransaction disc nf payload = Err ETransactionTooLarge.
  Proof.
    intros s disc nf payload L. unfold prepare_known, check_len.
    destruct (N.leb_spec (N.of_nat (length payload)) (max_ledger_payload_length s)) as [L'|L']; [lia|reflexivity].
  Qed.

  Lemma wrong_prefix_rejected : forall s k disc nf p rest,
    p <> MANIFEST_SBOR_V1_PAYLOAD_PREFIX ->
    rejected (prepare_known A decode_fields s k disc nf (p :: rest)).
  Proof.
    intros s k disc nf p rest NE. unfold prepare_known.
    destruct (check_len s k _); cbn [negb]; [|eexists; reflexivity].
    apply N.eqb_neq in NE. rewrite NE. cbn [negb]. eexists; reflexivity.
  Qed.

  Lemma wrong_value_kind_rejected : forall s k disc nf vk rest,
    vk <> VK_ENUM ->
    rejected (prepare_known A decode_fields s k disc nf (MANIFEST_SBOR_V1_PAYLOAD_PREFIX :: vk :: rest)).
  Proof.
    intros s k disc nf vk rest NE. unfold prepare_known.
    destruct (check_len s k _); cbn [negb]; [|eexists; reflexivity].
    rewrite N.eqb_refl. cbn [negb read_enum_header].
    apply N.eqb_neq in NE. rewrite NE. cbn [negb]. eexists; reflexivity.
  Qed.

  Lemma wrong_discriminator_rejected : forall s k disc nf d rest,
    d <> disc ->
    rejected (prepare_known A decode_fields s k disc nf
                (MANIFEST_SBOR_V1_PAYLOAD_PREFIX :: VK_ENUM :: d :: rest)).
  Proof.
    intros s k disc nf d rest NE. unfold prepare_known.
    destruct (check_len s k _); cbn [negb]; [|eexists; reflexivity].
    rewrite N.eqb_refl. cbn [negb read_enum_header]. rewrite N.eqb_refl. cbn [negb].
    apply N.eqb_neq in NE. rewrite NE. cbn [negb]. eexists; reflexivity.
  Qed.

  Lemma wrong_field_count_rejected : forall s k disc nf n rest body,
    read_size rest = Ok (n, body) -> n <> nf ->
    rejected (prepare_known A decode_fields s k disc nf
                (MANIFEST_SBOR_V1_PAYLOAD_PREFIX :: VK_ENUM :: disc :: rest)).
  Proof.
    intros s k disc nf n rest body RS NE. unfold prepare_known.
    destruct (check_len s k _); cbn [negb]; [|eexists; reflexivity].
    rewrite N.eqb_refl. cbn [negb read_enum_header]. rewrite !N.eqb_refl. cbn [negb].
    rewrite RS. apply N.eqb_neq in NE. rewrite NE. eexists; reflexivity.
  Qed.

  (* check_complete: whatever the field decoder leaves unread makes the payload unacceptable *)
  Lemma trailing_bytes_rejected : forall s k disc nf rest body a t tr,
    read_size rest = Ok (nf, body) -> decode_fields body = Ok (a, t :: tr) ->
    rejected (prepare_known A decode_fields s k disc nf
                (MANIFEST_SBOR_V1_PAYLOAD_PREFIX :: VK_ENUM :: disc :: rest)).
  Proof.
    intros s k disc nf rest body a t tr RS DF. unfold prepare_known.
    destruct (check_len s k _); cbn [negb]; [|eexists; reflexivity].
    rewrite N.eqb_refl. cbn [negb read_enum_header]. rewrite !N.eqb_refl. cbn [negb].
    rewrite RS, N.eqb_refl, DF. eexists; reflexivity.
  Qed.

  (* appended bytes: if the field decoder does not look beyond what it consumes (it reads the
     same prefix and leaves the extra bytes), a valid payload with bytes appended is rejected *)
  Definition reads_prefix_only : Prop :=
    forall body a tr extra, decode_fields body = Ok (a, tr) -> decode_fields (body ++ extra) = Ok (a, tr ++ extra).

  Lemma read_size_aux_app : forall fuel acc shift bs n r extra,
    read_size_aux fuel acc shift bs = Ok (n, r) -> read_size_aux fuel acc shift (bs ++ extra) = Ok (n, r ++ extra).
  Proof.
    induction fuel as [|f IH]; intros acc shift bs n r extra E; destruct bs as [|b bs]; cbn [read_size_aux app] in *;
      try discriminate E.
    - destruct (b <? 128).
      + destruct ((b =? 0) && negb (shift =? 0)); [discriminate E|]. inversion E; subst. reflexivity.
      + destruct (28 <=? shift + 7); discriminate E.
    - destruct (b <? 128).
      + destruct ((b =? 0) && negb (shift =? 0)); [discriminate E|]. inversion E; subst. reflexivity.
      + destruct (28 <=? shift + 7); [discriminate E|]. apply IH. exact E.
  Qed.

  Lemma appended_bytes_rejected : forall s k disc nf payload a x extra,
    reads_prefix_only ->
    prepare_known A decode_fields s k disc nf payload = Ok a ->
    rejected (prepare_known A decode_fields s k disc nf (payload ++ x :: extra)).
  Proof.
    intros s k disc nf payload a x extra RP E.
    apply prepare_known_accept_inv in E. destruct E as [_ [rest [body [EP [RS DF]]]]]. subst payload.
    cbn [app]. eapply trailing_bytes_rejected.
    - unfold read_size in *. apply read_size_aux_app. exact RS.
    - apply (RP _ _ _ (x :: extra)) in DF. cbn [app] in DF. exact DF.
  Qed.
End EnvelopeProofs.

Section UserEnvelopeProofs.
  Variables A1 A2 : Type.
  Variable decode_v1 : bytes -> result (A1 * bytes).
  Variable decode_v2 : bytes -> result (A2 * bytes).

  Lemma user_unknown_discriminator_rejected : forall s vk d rest,
    d <> D_V1_NOTARIZED -> d <> D_V2_NOTARIZED ->
    rejected (prepare_user A1 A2 decode_v1 decode_v2 s (MANIFEST_SBOR_V1_PAYLOAD_PREFIX :: vk :: d :: rest)).
  Proof.
    intros s vk d rest N1 N2. unfold prepare_user.
    destruct (check_len s _ _); cbn [negb]; [|eexists; reflexivity].
    rewrite N.eqb_refl. cbn [negb].
    apply N.eqb_neq in N1. apply N.eqb_neq in N2. rewrite N1, N2. eexists; reflexivity.
  Qed.

  Lemma user_accept_inv : forall s payload r,
    prepare_user A1 A2 decode_v1 decode_v2 s payload = Ok r ->
    N.of_nat (length payload) <= max_user_payload_length s
    /\ match r with
       | inl a => prepare_known A1 decode_v1 s CompleteUserTransaction D_V1_NOTARIZED 2 payload = Ok a
       | inr a => prepare_known A2 decode_v2 s CompleteUserTransaction D_V2_NOTARIZED 2 payload = Ok a
       end.
  Proof.
    intros s payload r E. unfold prepare_user in E.
    destruct (check_len s CompleteUserTransaction (N.of_nat (length payload))) eqn:CL; cbn [negb] in E; [|discriminate E].
    split; [apply N.leb_le; exact CL|].
    destruct payload as [|p rest]; [discriminate E|].
    destruct (negb (p =? MANIFEST_SBOR_V1_PAYLOAD_PREFIX)); [discriminate E|].
    destruct rest as [|vk [|d rest]]; try discriminate E.
    destruct (d =? D_V1_NOTARIZED).
    - destruct (prepare_known A1 decode_v1 s CompleteUserTransaction D_V1_NOTARIZED 2 _) eqn:PK; inversion E; subst. reflexivity.
    - destruct (d =? D_V2_NOTARIZED); [|discriminate E].
      destruct (prepare_known A2 decode_v2 s CompleteUserTransaction D_V2_NOTARIZED 2 _) eqn:PK; inversion E; subst. reflexivity.
  Qed.
End UserEnvelopeProofs.

(* ---------------------------------------------------------------------------------------- *)
(* corollaries                                                                              *)
(* ---------------------------------------------------------------------------------------- *)
Lemma field_sensitivity_chain : forall H, (forall x, length (H x) = 32%nat) ->
  forall t t', tx_wf t = true -> tx_wf t' = true ->
  CollisionFreeOn H (tx_inputs H t ++ tx_inputs H t') ->
  let h := tx_hashes H t in let h' := tx_hashes H t' in
  (intent_part t <> intent_part t' ->
     h_intent h <> h_intent h' /\ h_signed h <> h_signed h' /\ h_notarized h <> h_notarized h')
  /\ (intent_part t = intent_part t' -> signed_part t <> signed_part t' ->
     h_intent h = h_intent h' /\ h_signed h <> h_signed h' /\ h_notarized h <> h_notarized h')
  /\ (signed_part t = signed_part t' -> t <> t' ->
     h_intent h = h_intent h' /\ h_signed h = h_signed h' /\ h_notarized h <> h_notarized h').
Proof.
  intros H Hlen t t' W W' CF h h'.
  destruct (field_sensitivity H Hlen t t' W W' CF) as [[I1 I2] [[S1 S2] [[N1 N2] _]]].
  fold h in I1, I2, S1, S2, N1, N2. fold h' in I1, I2, S1, S2, N1, N2.
  assert (SI : signed_part t = signed_part t' -> intent_part t = intent_part t').
  { destruct t as [n|n|s]; destruct t' as [n'|n'|s']; cbn; intro E; try discriminate E; inversion E; congruence. }
  assert (TS : t = t' -> signed_part t = signed_part t') by (intro; subst; reflexivity).
  repeat split.
  - intro E. apply H0. apply I1. exact E.
  - intro E. apply H0. apply SI, S1, E.
  - intro E. apply H0. apply SI, TS, N1, E.
  - apply I2. assumption.
  - intro E. apply H1, S1, E.
  - intro E. apply H1, TS, N1, E.
  - apply I2, SI. assumption.
  - apply S2. assumption.
  - intro E. apply H1, N1, E.
Qed.

(* the hashes depend on H only through its values on tx_inputs *)
Section Ext.
  Variables H H' : bytes -> bytes.

  Definition agree (l : list bytes) : Prop := forall x, In x l -> H x = H' x.
  Lemma agree_app : forall a b, agree (a ++ b) <-> agree a /\ agree b.
  Proof.
    intros a b. unfold agree. split.
    - intro G. split; intros x Hx; apply G, in_or_app; [left|right]; exact Hx.
    - intros [G1 G2] x Hx. apply in_app_or in Hx. destruct Hx; [apply G1|apply G2]; assumption.
  Qed.
  Lemma agree_cons : forall a b, agree (a :: b) <-> H a = H' a /\ agree b.
  Proof.
    intros a b. unfold agree. split.
    - intro G. split; [apply G; left; reflexivity|intros x Hx; apply G; right; exact Hx].
    - intros [G1 G2] x [Hx|Hx]; [subst; exact G1|apply G2; exact Hx].
  Qed.
  Lemma agree_map : forall l, agree l -> map H l = map H' l.
  Proof. intros l G. apply map_ext_in. exact G. Qed.

  Lemma hashed_array_ext : forall l, agree (l ++ [composite_input [] (map H l)]) ->
    composite_input [] (map H l) = composite_input [] (map H' l)
    /\ H (composite_input [] (map H l)) = H' (composite_input [] (map H' l)).
  Proof.
    intros l G. apply agree_app in G. destruct G as [G1 G2]. apply agree_cons in G2. destruct G2 as [G2 _].
    rewrite <- (agree_map l G1). split; [reflexivity|exact G2].
  Qed.

  Lemma blobs_ext : forall bl, agree (blobs_inputs H bl) ->
    blobs_inputs H bl = blobs_inputs H' bl /\ blobs_hash H bl = blobs_hash H' bl.
  Proof.
    intros bl G. unfold blobs_inputs, blobs_hash, blobs_input, blobs_digests in *.
    destruct (hashed_array_ext bl G) as [E1 E2]. rewrite <- E1. split; [reflexivity|]. rewrite E1 at 2. exact E2.
  Qed.
  Lemma sig_batches_ext : forall l, agree (sig_batches_inputs H l) ->
    sig_batches_inputs H l = sig_batches_inputs H' l /\ sig_batches_hash H l = sig_batches_hash H' l.
  Proof.
    intros l G. unfold sig_batches_inputs, sig_batches_hash, sig_batches_input, sig_batches_digests in *.
    destruct (hashed_array_ext l G) as [E1 E2]. rewrite <- E1. split; [reflexivity|]. rewrite E1 at 2. exact E2.
  Qed.

  Ltac agree_split G :=
    repeat match type of G with
           | agree (_ ++ _) => let G1 := fresh "G" in apply agree_app in G; destruct G as [G1 G]
           | agree (_ :: _) => let G1 := fresh "G" in apply agree_cons in G; destruct G as [G1 G]
           end.

  Lemma v1_intent_ext : forall i, agree (v1_intent_inputs H i) ->
    v1_intent_inputs H i = v1_intent_inputs H' i /\ v1_intent_hash H i = v1_intent_hash H' i.
  Proof.
    intros i G. unfold v1_intent_inputs in *. cbn [app] in G.
    apply agree_cons in G. destruct G as [G1 G]. apply agree_cons in G. destruct G as [G2 G].
    apply agree_cons in G. destruct G as [G3 G]. apply agree_app in G. destruct G as [G4 G].
    apply agree_cons in G. destruct G as [G5 _].
    destruct (blobs_ext _ G4) as [B1 B2].
    assert (EI : v1_intent_input H i = v1_intent_input H' i).
    { unfold v1_intent_input, v1_intent_digests. rewrite G1, G2, G3, B2. reflexivity. }
    split.
    - rewrite B1, EI. reflexivity.
    - unfold v1_intent_hash. rewrite <- EI. exact G5.
  Qed.

  Lemma v1_ext : forall n, agree (v1_inputs H n) ->
    v1_inputs H n = v1_inputs H' n /\ v1_intent_hash H (n1_intent n) = v1_intent_hash H' (n1_intent n)
    /\ v1_signed_hash H n = v1_signed_hash H' n /\ v1_notarized_hash H n = v1_notarized_hash H' n.
  Proof.
    intros n G. unfold v1_inputs in *. apply agree_app in G. destruct G as [G0 G].
    apply agree_cons in G. destruct G as [G1 G]. apply agree_cons in G. destruct G as [G2 G].
    apply agree_cons in G. destruct G as [G3 G]. apply agree_cons in G. destruct G as [G4 _].
    destruct (v1_intent_ext _ G0) as [I1 I2].
    assert (ES : v1_signed_input H n = v1_signed_input H' n).
    { unfold v1_signed_input, v1_signed_digests. rewrite I2, G1. reflexivity. }
    assert (HS : v1_signed_hash H n = v1_signed_hash H' n).
    { unfold v1_signed_hash. rewrite <- ES. exact G2. }
    assert (EN : v1_notarized_input H n = v1_notarized_input H' n).
    { unfold v1_notarized_input, v1_notarized_digests. rewrite HS, G3. reflexivity. }
    repeat split; try assumption.
    - rewrite I1, ES, EN. reflexivity.
    - unfold v1_notarized_hash. rewrite <- EN. exact G4.
  Qed.

  Lemma core_ext : forall c, agree (core_inputs H c) ->
    core_inputs H c = core_inputs H' c /\ core_hash H c = core_hash H' c.
  Proof.
    intros c G. unfold core_inputs in *. cbn [app] in G.
    apply agree_cons in G. destruct G as [G1 G]. apply agree_cons in G. destruct G as [G2 G].
    apply agree_cons in G. destruct G as [G3 G]. apply agree_cons in G. destruct G as [G4 G].
    apply agree_app in G. destruct G as [G5 G]. apply agree_cons in G. destruct G as [G6 _].
    destruct (blobs_ext _ G5) as [B1 B2].
    assert (EI : core_input H c = core_input H' c).
    { unfold core_input, core_digests, children_hash. rewrite G1, G2, G3, G4, B2. reflexivity. }
    split.
    - rewrite B1, EI. reflexivity.
    - unfold core_hash. rewrite <- EI. exact G6.
  Qed.

  Lemma subintent_ext : forall c, agree (subintent_inputs H c) ->
    subintent_inputs H c = subintent_inputs H' c /\ subintent_hash H c = subintent_hash H' c.
  Proof.
    intros c G. unfold subintent_inputs in *. apply agree_app in G. destruct G as [G0 G].
    apply agree_cons in G. destruct G as [G1 _].
    destruct (core_ext _ G0) as [C1 C2].
    assert (EI : subintent_input H c = subintent_input H' c).
    { unfold subintent_input. rewrite C2. reflexivity. }
    split.
    - rewrite C1, EI. reflexivity.
    - unfold subintent_hash. rewrite <- EI. exact G1.
  Qed.

  Lemma subintent_list_ext : forall l, agree (flat_map (subintent_inputs H) l) ->
    flat_map (subintent_inputs H) l = flat_map (subintent_inputs H') l
    /\ map (subintent_hash H) l = map (subintent_hash H') l.
  Proof.
    induction l as [|c l IH]; cbn [flat_map map]; intro G; [split; reflexivity|].
    apply agree_app in G. destruct G as [G1 G2].
    destruct (subintent_ext _ G1) as [E1 E2]. destruct (IH G2) as [E3 E4].
    rewrite E1, E2, E3, E4. split; reflexivity.
  Qed.

  Lemma subintents_ext : forall l, agree (subintents_inputs H l) ->
    subintents_inputs H l = subintents_inputs H' l /\ subintents_hash H l = subintents_hash H' l
    /\ map (subintent_hash H) l = map (subintent_hash H') l.
  Proof.
    intros l G. unfold subintents_inputs in *. apply agree_app in G. destruct G as [G0 G].
    apply agree_cons in G. destruct G as [G1 _].
    destruct (subintent_list_ext _ G0) as [E1 E2].
    assert (EI : subintents_input H l = subintents_input H' l).
    { unfold subintents_input, subintents_digests. rewrite E2. reflexivity. }
    repeat split; try assumption.
    - rewrite E1, EI. reflexivity.
    - unfold subintents_hash. rewrite <- EI. exact G1.
  Qed.

  Lemma v2_intent_ext : forall t, agree (v2_intent_inputs H t) ->
    v2_intent_inputs H t = v2_intent_inputs H' t /\ v2_intent_hash H t = v2_intent_hash H' t
    /\ map (subintent_hash H) (t_subintents t) = map (subintent_hash H') (t_subintents t).
  Proof.
    intros t G. unfold v2_intent_inputs in *. cbn [app] in G.
    apply agree_cons in G. destruct G as [G1 G]. apply agree_app in G. destruct G as [G2 G].
    apply agree_app in G. destruct G as [G3 G]. apply agree_cons in G. destruct G as [G4 _].
    destruct (core_ext _ G2) as [C1 C2]. destruct (subintents_ext _ G3) as [S1 [S2 S3]].
    assert (EI : v2_intent_input H t = v2_intent_input H' t).
    { unfold v2_intent_input, v2_intent_digests. rewrite G1, C2, S2. reflexivity. }
    repeat split; try assumption.
    - rewrite C1, S1, EI. reflexivity.
    - unfold v2_intent_hash. rewrite <- EI. exact G4.
  Qed.

  Lemma v2_ext : forall n, agree (v2_inputs H n) ->
    v2_inputs H n = v2_inputs H' n /\ tx_hashes H (TxV2 n) = tx_hashes H' (TxV2 n).
  Proof.
    intros n G. unfold v2_inputs in *. apply agree_app in G. destruct G as [G0 G].
    cbn [app] in G. apply agree_cons in G. destruct G as [G1 G].
    apply agree_app in G. destruct G as [G2 G].
    apply agree_cons in G. destruct G as [G3 G]. apply agree_cons in G. destruct G as [G4 G].
    apply agree_cons in G. destruct G as [G5 _].
    destruct (v2_intent_ext _ G0) as [I1 [I2 I3]]. destruct (sig_batches_ext _ G2) as [B1 B2].
    assert (ES : v2_signed_input H n = v2_signed_input H' n).
    { unfold v2_signed_input, v2_signed_digests. rewrite I2, G1, B2. reflexivity. }
    assert (HS : v2_signed_hash H n = v2_signed_hash H' n).
    { unfold v2_signed_hash. rewrite <- ES. exact G3. }
    assert (EN : v2_notarized_input H n = v2_notarized_input H' n).
    { unfold v2_notarized_input, v2_notarized_digests. rewrite HS, G4. reflexivity. }
    split.
    - rewrite I1, B1, ES, EN. reflexivity.
    - cbn [tx_hashes]. rewrite I2, HS, I3. f_equal. unfold v2_notarized_hash. rewrite <- EN. exact G5.
  Qed.

  Lemma partial_ext : forall p, agree (partial_inputs H p) ->
    partial_inputs H p = partial_inputs H' p /\ partial_hash H p = partial_hash H' p
    /\ subintent_hash H (p_root p) = subintent_hash H' (p_root p)
    /\ map (subintent_hash H) (p_subintents p) = map (subintent_hash H') (p_subintents p).
  Proof.
    intros p G. unfold partial_inputs in *. apply agree_app in G. destruct G as [G1 G].
    apply agree_app in G. destruct G as [G2 G]. apply agree_cons in G. destruct G as [G3 _].
    destruct (subintent_ext _ G1) as [R1 R2]. destruct (subintents_ext _ G2) as [S1 [S2 S3]].
    assert (EI : partial_input H p = partial_input H' p).
    { unfold partial_input, partial_digests. rewrite R2, S2. reflexivity. }
    repeat split; try assumption.
    - rewrite R1, S1, EI. reflexivity.
    - unfold partial_hash. rewrite <- EI. exact G3.
  Qed.

  Lemma signed_partial_ext : forall s, agree (signed_partial_inputs H s) ->
    signed_partial_inputs H s = signed_partial_inputs H' s
    /\ tx_hashes H (TxPartial s) = tx_hashes H' (TxPartial s).
  Proof.
    intros s G. unfold signed_partial_inputs in *. apply agree_app in G. destruct G as [G0 G].
    cbn [app] in G. apply agree_cons in G. destruct G as [G1 G].
    apply agree_app in G. destruct G as [G2 G]. apply agree_cons in G. destruct G as [G3 _].
    destruct (partial_ext _ G0) as [P1 [P2 [P3 P4]]]. destruct (sig_batches_ext _ G2) as [B1 B2].
    assert (EI : signed_partial_input H s = signed_partial_input H' s).
    { unfold signed_partial_input, signed_partial_digests. rewrite P2, G1, B2. reflexivity. }
    split.
    - rewrite P1, B1, EI. reflexivity.
    - cbn [tx_hashes]. rewrite P2, P3, P4. f_equal. unfold signed_partial_hash. rewrite <- EI. exact G3.
  Qed.

  Lemma hashes_depend_on_inputs_only_aux : forall t, agree (tx_inputs H t) ->
    tx_hashes H t = tx_hashes H' t /\ tx_inputs H t = tx_inputs H' t.
  Proof.
    intros [n|n|s] G; cbn [tx_inputs] in *.
    - destruct (v1_ext _ G) as [E1 [E2 [E3 E4]]]. split; [|exact E1]. cbn [tx_hashes]. rewrite E2, E3, E4. reflexivity.
    - destruct (v2_ext _ G) as [E1 E2]. split; assumption.
    - destruct (signed_partial_ext _ G) as [E1 E2]. split; assumption.
  Qed.
End Ext.

Lemma hashes_depend_on_inputs_only : forall H H' t,
  (forall x, In x (tx_inputs H t) -> H x = H' x) ->
  tx_hashes H t = tx_hashes H' t /\ tx_inputs H t = tx_inputs H' t.
Proof. intros H H' t G. apply hashes_depend_on_inputs_only_aux. exact G. Qed.

(* ---------------------------------------------------------------------------------------- *)
(* boolean certificate for CollisionFreeOn (used for the non-vacuity example)               *)
(* ---------------------------------------------------------------------------------------- *)
Lemma beqb_eq : forall a b, beqb a b = true <-> a = b.
Proof.
  induction a as [|x a IH]; destruct b as [|y b]; cbn [beqb]; split; intro E;
    try reflexivity; try discriminate.
  - apply andb_true_iff in E. destruct E as [E1 E2]. apply N.eqb_eq in E1. apply IH in E2. congruence.
  - inversion E; subst. rewrite N.eqb_refl. cbn. apply IH. reflexivity.
Qed.

Definition cf_check (H : bytes -> bytes) (S : list bytes) : bool :=
  forallb (fun x => forallb (fun y => negb (beqb (H x) (H y)) || beqb x y) S) S.

Lemma cf_check_sound : forall H S, cf_check H S = true -> CollisionFreeOn H S.
Proof.
  intros H S C x y Hx Hy E. unfold cf_check in C. rewrite forallb_forall in C.
  specialize (C x Hx). rewrite forallb_forall in C. specialize (C y Hy).
  apply orb_true_iff in C. destruct C as [C|C].
  - apply negb_true_iff in C. assert (beqb (H x) (H y) = true) by (apply beqb_eq; exact E). congruence.
  - apply beqb_eq. exact C.
Qed.

Fixpoint to_le (n : nat) (v : N) : bytes :=
  match n with O => [] | S k => v mod 256 :: to_le k (v / 256) end.
Lemma to_le_length : forall n v, length (to_le n v) = n.
Proof. induction n as [|n IH]; intro v; cbn [to_le length]; [reflexivity|rewrite IH; reflexivity]. Qed.

(* ---------------------------------------------------------------------------------------- *)
(* ledger transaction payloads                                                              *)
(* ---------------------------------------------------------------------------------------- *)
Lemma land_127_small : forall b, b < 128 -> N.land b 127 = b.
Proof.
  intros b Hb. change 127 with (N.ones 7). rewrite N.land_ones. apply N.mod_small. exact Hb.
Qed.
(* once a continuation byte has been read the decoded size is at least 128 *)
Lemma read_size_aux_ge : forall f acc shift bs n r,
  7 <= shift -> read_size_aux f acc shift bs = Ok (n, r) -> 128 <= n.
Proof.
  induction f as [|f IH]; intros acc shift bs n r Hs E; destruct bs as [|b rest]; cbn in E; try discriminate.
  - destruct (N.ltb_spec b 128) as [Hb|Hb].
    + destruct (N.eqb_spec b 0) as [->|Hb0]; destruct (N.eqb_spec shift 0) as [->|Hs0]; cbn in E; try discriminate; try lia.
      inversion E; subst. rewrite (land_127_small b Hb).
      rewrite N.shiftl_mul_pow2.
      assert (2 ^ 7 <= 2 ^ shift) by (apply N.pow_le_mono_r; lia). change (2 ^ 7) with 128 in H. nia.
    + destruct (28 <=? shift + 7); discriminate.
  - destruct (N.ltb_spec b 128) as [Hb|Hb].
    + destruct (N.eqb_spec b 0) as [->|Hb0]; destruct (N.eqb_spec shift 0) as [->|Hs0]; cbn in E; try discriminate; try lia.
      inversion E; subst. rewrite (land_127_small b Hb).
      rewrite N.shiftl_mul_pow2.
      assert (2 ^ 7 <= 2 ^ shift) by (apply N.pow_le_mono_r; lia). change (2 ^ 7) with 128 in H. nia.
    + destruct (28 <=? shift + 7); [discriminate|]. eapply IH; [|exact E]. lia.
Qed.
(* a size below 128 has exactly one accepted encoding: the single byte *)
Lemma read_size_aux_small : forall f bs n r, read_size_aux (S f) 0 0 bs = Ok (n, r) -> n < 128 -> bs = n :: r.
Proof.
  intros f bs n r E Hn. destruct bs as [|b rest]; cbn in E; [discriminate|].
  destruct (N.ltb_spec b 128) as [Hb|Hb].
  - rewrite andb_false_r in E. inversion E; subst.
    rewrite N.shiftl_0_r, (land_127_small b Hb). reflexivity.
  - apply read_size_aux_ge in E; [lia|lia].
Qed.
Lemma read_size_small : forall bs n r, read_size bs = Ok (n, r) -> n < 128 -> bs = n :: r.
Proof. intros bs n r E Hn. unfold read_size in E. eapply read_size_aux_small; eauto. Qed.
Lemma read_any_enum_header_inv : forall bs d n r,
  read_any_enum_header bs = Ok (d, n, r) -> n < 128 -> bs = VK_ENUM :: d :: n :: r.
Proof.
  intros bs d n r E Hn. unfold read_any_enum_header in E.
  destruct bs as [|vk r1]; [discriminate|].
  destruct (vk =? VK_ENUM) eqn:EV; cbn [negb] in E; [|discriminate]. apply N.eqb_eq in EV. subst vk.
  destruct r1 as [|d' r2]; [discriminate|].
  destruct (read_size r2) as [[n' r3]|e] eqn:RS; [|discriminate]. inversion E; subst.
  rewrite (read_size_small _ _ _ RS Hn). reflexivity.
Qed.
Lemma read_enum_header_inv : forall disc nf bs body,
  read_enum_header disc nf bs = Ok body -> nf < 128 -> bs = VK_ENUM :: disc :: nf :: body.
Proof.
  intros disc nf bs body E Hn. unfold read_enum_header in E.
  destruct bs as [|vk r1]; [discriminate|].
  destruct (vk =? VK_ENUM) eqn:EV; cbn [negb] in E; [|discriminate]. apply N.eqb_eq in EV. subst vk.
  destruct r1 as [|d r2]; [discriminate|].
  destruct (d =? disc) eqn:ED; cbn [negb] in E; [|discriminate]. apply N.eqb_eq in ED. subst d.
  destruct (read_size r2) as [[n r3]|e] eqn:RS; [|discriminate].
  destruct (n =? nf) eqn:EN; [|discriminate]. apply N.eqb_eq in EN. subst n. inversion E; subst.
  rewrite (read_size_small _ _ _ RS Hn). reflexivity.
Qed.
Lemma check_length_inv : forall B n e (k : result B) x, check_length n e k = Ok x -> n = e /\ k = Ok x.
Proof. intros B n e k x H. unfold check_length in H. destruct (N.eqb_spec n e); [auto|discriminate]. Qed.

Section LedgerProofs.
  Variable A : Type.
  Variable decode_inner : ledger_variant -> bytes -> result (A * bytes).
  Variable unknown : N -> perr.

  Definition ledger_content_ok (v : ledger_variant) (a : option A) (body trailing : bytes) : Prop :=
    match v with
    | LGenesisFlash => a = None /\ body = trailing
    | _ => exists x, a = Some x /\ decode_inner v body = Ok (x, trailing)
    end.

  Lemma nested_inv : forall v bs v' a tr,
    nested A decode_inner v bs = Ok (v', a, tr) -> v' = v /\ exists x, a = Some x /\ decode_inner v bs = Ok (x, tr).
  Proof.
    intros v bs v' a tr E. unfold nested in E. destruct (decode_inner v bs) as [[x r]|e]; [|discriminate].
    inversion E; subst. eauto.
  Qed.

  Lemma prepare_ledger_inner_inv : forall bs v a tr,
    prepare_ledger_inner A decode_inner unknown bs = Ok (v, a, tr) ->
    exists body, bs = skipn 4 (ledger_header v) ++ body /\ ledger_content_ok v a body tr.
  Proof.
    intros bs v a tr E. unfold prepare_ledger_inner in E.
    destruct (read_any_enum_header bs) as [[[d n] r]|e] eqn:RH; [|discriminate].
    assert (Hone : forall B (k : result B) x, check_length n 1 k = Ok x -> bs = VK_ENUM :: d :: 1 :: r /\ k = Ok x).
    { intros B k x Hc. apply check_length_inv in Hc. destruct Hc as (-> & Hk). split; auto.
      apply read_any_enum_header_inv; [exact RH|lia]. }
    destruct (N.eqb_spec d 0) as [->|D0].
    { apply Hone in E. destruct E as (-> & E).
      destruct (read_any_enum_header r) as [[[g m] r2]|e] eqn:RG; [|discriminate].
      destruct (N.eqb_spec g 0) as [->|G0].
      - apply check_length_inv in E. destruct E as (-> & E). inversion E; subst.
        rewrite (read_any_enum_header_inv _ _ _ _ RG) by lia.
        exists tr. split; [reflexivity|]. cbn. auto.
      - destruct (N.eqb_spec g 1) as [->|G1]; [|discriminate].
        apply check_length_inv in E. destruct E as (-> & E).
        apply nested_inv in E. destruct E as (-> & x & -> & Hd).
        rewrite (read_any_enum_header_inv _ _ _ _ RG) by lia.
        exists r2. split; [reflexivity|]. cbn. eauto. }
    destruct (N.eqb_spec d 1) as [->|D1].
    { apply Hone in E. destruct E as (-> & E). apply nested_inv in E. destruct E as (-> & x & -> & Hd).
      exists r. split; [reflexivity|]. cbn. eauto. }
    destruct (N.eqb_spec d 2) as [->|D2].
    { apply Hone in E. destruct E as (-> & E). apply nested_inv in E. destruct E as (-> & x & -> & Hd).
      exists r. split; [reflexivity|]. cbn. eauto. }
    destruct (N.eqb_spec d 3) as [->|D3].
    { apply Hone in E. destruct E as (-> & E). apply nested_inv in E. destruct E as (-> & x & -> & Hd).
      exists r. split; [reflexivity|]. cbn. eauto. }
    destruct (N.eqb_spec d 4) as [->|D4]; [|discriminate].
    apply Hone in E. destruct E as (-> & E). apply nested_inv in E. destruct E as (-> & x & -> & Hd).
    exists r. split; [reflexivity|]. cbn. eauto.
  Qed.

  (* an accepted ledger payload is, byte for byte, the header determined by its variant followed by the
     nested transaction, which its decoder consumes completely; and it is within the ledger size limit *)
  Theorem prepare_ledger_accept_inv : forall s payload v a,
    prepare_ledger A decode_inner unknown s payload = Ok (v, a) ->
    N.of_nat (length payload) <= max_ledger_payload_length s /\
    exists body, payload = ledger_header v ++ body /\ ledger_content_ok v a body [].
  Proof.
    intros s payload v a E. unfold prepare_ledger in E.
    destruct (check_len s LedgerTransaction (N.of_nat (length payload))) eqn:CL; cbn [negb] in E; [|discriminate].
    split; [apply N.leb_le; exact CL|].
    destruct payload as [|p rest]; [discriminate|].
    destruct (p =? MANIFEST_SBOR_V1_PAYLOAD_PREFIX) eqn:EP; cbn [negb] in E; [|discriminate].
    apply N.eqb_eq in EP. subst p.
    destruct (read_enum_header D_LEDGER 1 rest) as [body0|e] eqn:RH; [|discriminate].
    apply read_enum_header_inv in RH; [|lia]. subst rest.
    destruct (prepare_ledger_inner A decode_inner unknown body0) as [[[v' a'] tr]|e] eqn:PI; [|discriminate].
    destruct tr as [|t tr]; [|discriminate]. inversion E; subst.
    destruct (prepare_ledger_inner_inv _ _ _ _ PI) as (body & Hb & Hc).
    exists body. split; [|exact Hc].
    rewrite Hb. destruct v; reflexivity.
  Qed.
End LedgerProofs.

Section LedgerCorollaries.
  Variable A : Type.
  Variable decode_inner : ledger_variant -> bytes -> result (A * bytes).
  Variable unknown : N -> perr.

  Lemma ledger_noncanonical_rejected : forall s payload,
    (forall v body, payload <> ledger_header v ++ body) ->
    rejected (prepare_ledger A decode_inner unknown s payload).
  Proof.
    intros s payload Hn. destruct (prepare_ledger A decode_inner unknown s payload) as [[v a]|e] eqn:E.
    - exfalso. destruct (prepare_ledger_accept_inv A decode_inner unknown s payload v a E) as (_ & body & Hb & _).
      apply (Hn v body Hb).
    - eexists; reflexivity.
  Qed.
  (* the two size bytes of the ledger envelope (offsets 3 and 6) are exactly 1 in every accepted payload *)
  Lemma ledger_size_bytes : forall s payload v a,
    prepare_ledger A decode_inner unknown s payload = Ok (v, a) ->
    nth 3 payload 0 = 1 /\ nth 6 payload 0 = 1 /\ nth 0 payload 0 = MANIFEST_SBOR_V1_PAYLOAD_PREFIX /\
    nth 1 payload 0 = VK_ENUM /\ nth 2 payload 0 = D_LEDGER /\ nth 4 payload 0 = VK_ENUM.
  Proof.
    intros s payload v a E.
    destruct (prepare_ledger_accept_inv A decode_inner unknown s payload v a E) as (_ & body & -> & _).
    destruct v; cbn; repeat split; reflexivity.
  Qed.
  Lemma ledger_too_large_rejected : forall s payload,
    max_ledger_payload_length s < N.of_nat (length payload) ->
    prepare_ledger A decode_inner unknown s payload = Err ETransactionTooLarge.
  Proof.
    intros s payload Hl. unfold prepare_ledger, check_len.
    destruct (N.leb_spec (N.of_nat (length payload)) (max_ledger_payload_length s)); [lia|reflexivity].
  Qed.
  (* two accepted payloads with the same variant and the same nested transaction bytes are the same bytes *)
  Lemma ledger_accepted_unique : forall s p1 p2 v a1 a2 body,
    prepare_ledger A decode_inner unknown s p1 = Ok (v, a1) ->
    prepare_ledger A decode_inner unknown s p2 = Ok (v, a2) ->
    skipn (length (ledger_header v)) p1 = body -> skipn (length (ledger_header v)) p2 = body -> p1 = p2.
  Proof.
    intros s p1 p2 v a1 a2 body E1 E2 B1 B2.
    destruct (prepare_ledger_accept_inv A decode_inner unknown s p1 v a1 E1) as (_ & b1 & -> & _).
    destruct (prepare_ledger_accept_inv A decode_inner unknown s p2 v a2 E2) as (_ & b2 & -> & _).
    rewrite skipn_app, skipn_all, Nat.sub_diag in B1, B2. cbn in B1, B2. congruence.
  Qed.
End LedgerCorollaries.

Lemma ledger_hash_input_inj : forall k i k' i',
  ledger_hash_input k i = ledger_hash_input k' i' -> k = k' /\ i = i'.
Proof. intros k i k' i' E. unfold ledger_hash_input in E. cbn in E. inversion E. auto. Qed.
Lemma ledger_hash_sensitivity : forall (H : bytes -> bytes) v i v' i',
  CollisionFreeOn H [ledger_hash_input (ledger_kind_for_hash v) i; ledger_hash_input (ledger_kind_for_hash v') i'] ->
  (ledger_hash H v i = ledger_hash H v' i' <-> ledger_kind_for_hash v = ledger_kind_for_hash v' /\ i = i').
Proof.
  intros H v i v' i' CF. unfold ledger_hash. split.
  - intro E. apply ledger_hash_input_inj. apply CF; cbn; auto.
  - intros (-> & ->). reflexivity.
Qed.
Lemma payload_part_kind_not_ledger : forall p, is_payload_part p = true -> part_kind p <> D_LEDGER.
Proof. intros p P. destruct p; cbn in *; try discriminate; intro E; vm_compute in E; discriminate. Qed.
Lemma ledger_input_not_payload_part : forall (H : bytes -> bytes) p k i,
  is_payload_part p = true -> part_input H p <> ledger_hash_input k i.
Proof.
  intros H p k i P E. destruct (payload_part_input_starts H p P) as (rest & R). rewrite R in E.
  unfold ledger_hash_input in E. cbn in E. injection E as K _. apply (payload_part_kind_not_ledger p P K).
Qed.
