(* C17 — Theorem B: the batch-update recursion of jellyfish.rs (batch_update_subtree,
   batch_update_subtree_with_existing_leaf, batch_insert_at with every collapse rule) keeps the
   tree canonical (`good`) and realises the key-wise override of the old leaves by the batch.
   Semantics of a tree = its look-up function `lookup`. *)
From Coq Require Import List NArith Bool Lia Arith.
Import ListNotations.
Require Import RV.Model.C17_Jmt RV.Model.C17_Smt RV.Proof.C17_Base RV.Proof.C17_Lists.
Open Scope N_scope.

Lemma leqb_sym : forall a b, leqb a b = leqb b a.
Proof.
  intros a b. destruct (leqb a b) eqn:E.
  - apply leqb_eq in E. subst. symmetry. apply leqb_refl.
  - symmetry. apply leqb_false. apply leqb_false in E. congruence.
Qed.

Definition is_prefix (a b : list N) : Prop := exists c, b = a ++ c.
(* a prefix-free universe of keys (relative to the current node) *)
Definition pfree (U : list N -> Prop) : Prop := forall a b, U a -> U b -> is_prefix a b -> a = b.

Lemma pfree_down : forall U n, pfree U -> pfree (fun k => U (n :: k)).
Proof.
  intros U n P a b Ua Ub [c E]. assert (n :: a = n :: b); [|congruence].
  apply P; try assumption. exists c. cbn. congruence.
Qed.
Lemma pfree_nil : forall U b, pfree U -> U [] -> U b -> b = [].
Proof. intros U b P U0 Ub. symmetry. apply P; try assumption. exists b. reflexivity. Qed.

Section UPD.
  Variable H : list N -> list N.
  Variable A : Type.
  Notation nodeA := (node A).
  Notation child := (child_of (node A)).
  Notation lhT := (list N -> list N -> list N).
  Notation kv := (kv A).
  Notation ldata := (ldata A).

  Definition rget (fuel : nat) (r : option nodeA) (k : list N) : option ldata :=
    match r with Some t => lookup A fuel t k | None => None end.
  Definition upd_spec (old : list N -> option ldata) (kvs : list kv) (k : list N) : option ldata :=
    match kv_get A k kvs with Some u => u | None => old k end.
  Definition leafsem (s : list N) (d : ldata) : list N -> option ldata :=
    fun k => if leqb s k then Some d else None.
  Definition res_good (fuel : nat) (lh : lhT) (r : option nodeA) : Prop :=
    match r with Some t => good H A fuel lh t | None => True end.

  Definition kvs_ok (U : list N -> Prop) (fuel : nat) (kvs : list kv) : Prop :=
    forall x, In x kvs -> U (fst x) /\ kvalid (fst x) /\ (length (fst x) < fuel)%nat.

  Lemma lookup_leaf : forall fuel s vh p a k,
    lookup A fuel (Leaf s vh p a) k = leafsem s (vh, p, a) k.
  Proof. intros. destruct fuel; reflexivity. Qed.
  Lemma lookup_internal : forall f cs n k,
    lookup A (S f) (Internal cs) (n :: k) =
    match cs_find A n cs with Some c => lookup A f (c_sub c) k | None => None end.
  Proof. reflexivity. Qed.
  Lemma lookup_internal_nil : forall fuel cs, lookup A fuel (Internal cs) [] = None.
  Proof. intros. destruct fuel; reflexivity. Qed.

  (* ---------- run_groups ---------- *)
  Lemma run_groups_ok : forall fn (P : N -> list kv -> option nodeA -> Prop) gs,
    (forall n g, In (n, g) gs -> exists r lg, fn n g = Ok (r, lg) /\ P n g r) ->
    exists rs lg, run_groups A fn gs = Ok (rs, lg) /\ map fst rs = map fst gs /\
      (forall n r, In (n, r) rs -> exists g, In (n, g) gs /\ P n g r).
  Proof.
    intros fn P gs. induction gs as [|[n g] gs IH]; intro Hall.
    - exists [], nolog. cbn. repeat split. intros n r [].
    - destruct (Hall n g (or_introl eq_refl)) as (r & lg & E & Pr).
      destruct (IH (fun n' g' Hin => Hall n' g' (or_intror Hin))) as (rs & lg' & E' & M & Q).
      exists ((n, r) :: rs), (lapp A lg lg'). cbn [run_groups]. rewrite E, E'. split; [reflexivity|].
      split; [cbn; f_equal; exact M|].
      intros n' r' [Ein|Hin].
      + inversion Ein; subst. exists g. split; [left; reflexivity|exact Pr].
      + destruct (Q n' r' Hin) as (g' & Hg & Pg). exists g'. split; [right; exact Hg|exact Pg].
  Qed.

  Lemma rs_assoc : forall (P : N -> list kv -> option nodeA -> Prop) gs rs n,
    NoDup (map fst gs) -> map fst rs = map fst gs ->
    (forall n r, In (n, r) rs -> exists g, In (n, g) gs /\ P n g r) ->
    match nassoc n gs with
    | Some g => exists r, nassoc n rs = Some r /\ P n g r
    | None => nassoc n rs = None
    end.
  Proof.
    intros P gs rs n ND M Q. destruct (nassoc n gs) as [g|] eqn:Eg.
    - apply nassoc_in in Eg. assert (Hin : In n (map fst rs)).
      { rewrite M. apply in_map_iff. exists (n, g). split; [reflexivity|exact Eg]. }
      destruct (nassoc n rs) as [r|] eqn:Er; [|exfalso; eapply nassoc_some_in; eassumption].
      exists r. split; [reflexivity|]. apply nassoc_in in Er. destruct (Q n r Er) as (g' & Hg' & Pg').
      assert (g' = g); [|subst; exact Pg'].
      pose proof (nassoc_nodup n gs g ND Eg) as E1. pose proof (nassoc_nodup n gs g' ND Hg') as E2. congruence.
    - apply nassoc_none. rewrite M. intro Hin. eapply nassoc_some_in; eassumption.
  Qed.

  Lemma somes_in : forall rs n t, In (n, t) (somes A rs) <-> In (n, Some t) rs.
  Proof.
    induction rs as [|[m [t'|]] rs IH]; intros n t; cbn [somes]; [tauto| |].
    - cbn [In]. rewrite IH. split; intros [E|Hin]; try (right; assumption); left; congruence.
    - cbn [In]. rewrite IH. split; [tauto|]. intros [E|Hin]; [discriminate|assumption].
  Qed.
  Lemma somes_fst_incl : forall rs n, In n (map fst (somes A rs)) -> In n (map fst rs).
  Proof.
    intros rs n Hin. apply in_map_iff in Hin. destruct Hin as ([m t] & E & Hin). cbn in E. subst m.
    apply somes_in in Hin. apply in_map_iff. exists (n, Some t). split; [reflexivity|exact Hin].
  Qed.
  Lemma somes_nodup : forall rs, NoDup (map fst rs) -> NoDup (map fst (somes A rs)).
  Proof.
    induction rs as [|[m [t'|]] rs IH]; intro ND; cbn [somes map fst] in *; [constructor| |].
    - inversion ND; subst. constructor; [|apply IH; assumption]. intro Hin. apply H2. apply somes_fst_incl. exact Hin.
    - inversion ND; subst. apply IH. assumption.
  Qed.
  Lemma nassoc_somes : forall rs n, NoDup (map fst rs) ->
    nassoc n (somes A rs) = match nassoc n rs with Some (Some t) => Some t | _ => None end.
  Proof.
    induction rs as [|[m [t'|]] rs IH]; intros n ND; cbn [somes nassoc map fst] in *; [reflexivity| |].
    - inversion ND; subst. destruct (m =? n); [reflexivity|apply IH; assumption].
    - inversion ND; subst. destruct (m =? n) eqn:E; [|apply IH; assumption].
      apply N.eqb_eq in E. subst m. apply nassoc_none. intro Hin. apply H2. apply somes_fst_incl. exact Hin.
  Qed.

  (* ---------- building an internal node from created children ---------- *)
  Lemma mk_child_ok : forall f lh ver n t, n < 16 -> good H A f (lh_down lh n) t ->
    child_ok H A f lh (mk_child H A lh ver (n, t)).
  Proof. intros. unfold child_ok, mk_child. cbn. repeat split; assumption. Qed.

  Lemma fold_insert_spec : forall f lh ver (children : list (N * nodeA)),
    (forall n t, In (n, t) children -> n < 16 /\ good H A f (lh_down lh n) t) ->
    let cs := fold_right (fun nt acc => cs_insert A (mk_child H A lh ver nt) acc) [] children in
    ssorted A cs /\ Forall (child_ok H A f lh) cs /\
    forall n, cs_find A n cs = match nassoc n children with
                               | Some t => Some (mk_child H A lh ver (n, t)) | None => None end.
  Proof.
    intros f lh ver children. induction children as [|[m t] r IH]; intro Hc; cbn [fold_right].
    - split; [exact I|]. split; [constructor|]. intro n. reflexivity.
    - destruct (IH (fun n' t' Hin => Hc n' t' (or_intror Hin))) as (I1 & I2 & I3).
      destruct (Hc m t (or_introl eq_refl)) as [Hm Hg].
      split; [apply ssorted_insert; exact I1|]. split; [apply Forall_insert; [apply mk_child_ok; assumption|exact I2]|].
      intro n. rewrite cs_find_insert. cbn [nassoc]. change (c_nib (mk_child H A lh ver (m, t))) with m.
      destruct (m =? n) eqn:E; [apply N.eqb_eq in E; subst; reflexivity|apply I3].
  Qed.

  Lemma lookup_lift : forall fuel n t m k, is_leaf A t = true ->
    lookup A (S fuel) (lift A n t) (m :: k) = if n =? m then lookup A fuel t k else None.
  Proof.
    intros fuel n t m k L. destruct t as [|s vh p a|cs]; try discriminate. cbn [lift].
    rewrite !lookup_leaf. unfold leafsem. cbn [leqb]. destruct (n =? m); reflexivity.
  Qed.
  Lemma lookup_lift_nil : forall fuel n t, is_leaf A t = true -> lookup A fuel (lift A n t) [] = None.
  Proof.
    intros fuel n t L. destruct t as [|s vh p a|cs]; try discriminate. cbn [lift]. rewrite lookup_leaf. reflexivity.
  Qed.
  Lemma good_lift : forall fuel lh n t, is_leaf A t = true -> good H A fuel lh (lift A n t).
  Proof. intros fuel lh n t L. destruct t; try discriminate. destruct fuel; exact I. Qed.

  Lemma finish_ok : forall f lh path ver children r lg,
    NoDup (map fst children) ->
    (forall n t, In (n, t) children -> n < 16 /\ good H A f (lh_down lh n) t) ->
    finish_children H A lh path ver children = (r, lg) ->
    res_good (S f) lh r /\
    (forall n k, rget (S f) r (n :: k) =
                 match nassoc n children with Some t => lookup A f t k | None => None end) /\
    rget (S f) r [] = None.
  Proof.
    intros f lh path ver children r lg ND Hc E.
    pose proof (fold_insert_spec f lh ver children Hc) as (I1 & I2 & I3).
    assert (Gen : forall cs', cs' = fold_right (fun nt acc => cs_insert A (mk_child H A lh ver nt) acc) [] children ->
                  two_leaves A cs' ->
                  res_good (S f) lh (Some (Internal cs')) /\
                  (forall n k, rget (S f) (Some (Internal cs')) (n :: k) =
                               match nassoc n children with Some t => lookup A f t k | None => None end) /\
                  rget (S f) (Some (Internal cs')) [] = None).
    { intros cs' Ecs T. subst cs'. split; [|split].
      - cbn [res_good]. apply good_internal. repeat split; assumption.
      - intros n k. cbn [rget]. rewrite lookup_internal, I3. destruct (nassoc n children); reflexivity.
      - reflexivity. }
    destruct children as [|[n t] [|[n2 t2] rest]]; cbn [finish_children] in E.
    - inversion E; subst. cbn. repeat split; reflexivity.
    - destruct (is_leaf A t) eqn:L.
      + inversion E; subst. split; [apply good_lift; exact L|]. split.
        * intros m k. cbn [rget nassoc]. rewrite lookup_lift by exact L. destruct (n =? m); reflexivity.
        * cbn [rget]. apply lookup_lift_nil. exact L.
      + inversion E; subst. apply Gen; [reflexivity|]. cbn. exact L.
    - inversion E; subst. apply Gen; [reflexivity|].
      inversion ND as [|? ? Hn ND']; subst. cbn [map fst] in Hn.
      eapply (two_of_finds A _ n n2).
      + intro E2. apply Hn. left. congruence.
      + rewrite I3. cbn [nassoc]. rewrite N.eqb_refl. reflexivity.
      + rewrite I3. cbn [nassoc]. destruct (n =? n2) eqn:E2; [apply N.eqb_eq in E2; exfalso; apply Hn; left; congruence|].
        rewrite N.eqb_refl. reflexivity.
  Qed.

  (* ---------- batch_update_subtree ---------- *)
  Definition bus_body (f : nat) (lh : lhT) (path : list N) (ver : N) (kvs : list kv) :=
    match groups A kvs with
    | None => Panic
    | Some gs =>
      match run_groups A (fun n g => bus H A f (lh_down lh n) (path ++ [n]) ver g) gs with
      | Ok (rs, lg) =>
        let '(r, lg') := finish_children H A lh path ver (somes A rs) in Ok (r, lapp A lg lg')
      | Panic => Panic | OutOfFuel => OutOfFuel
      end
    end.

  Lemma no_empty_key : forall U fuel kvs, ksorted A kvs -> pfree U -> kvs_ok U fuel kvs ->
    (2 <= length kvs)%nat -> forall x, In x kvs -> fst x <> [].
  Proof.
    intros U fuel kvs KS PF OK L x Hx E.
    destruct kvs as [|x1 [|x2 r]]; cbn in L; try lia.
    assert (U []) by (rewrite <- E; apply OK; exact Hx).
    assert (E1 : fst x1 = []) by (eapply pfree_nil; [exact PF|assumption|apply OK; left; reflexivity]).
    assert (E2 : fst x2 = []) by (eapply pfree_nil; [exact PF|assumption|apply OK; right; left; reflexivity]).
    destruct KS as [KS _]. inversion KS; subst. rewrite E1, E2 in H3. discriminate.
  Qed.


  Lemma bus_ok : forall fuel lh path ver kvs U,
    (0 < fuel)%nat -> ksorted A kvs -> pfree U -> kvs_ok U fuel kvs ->
    exists r lg, bus H A fuel lh path ver kvs = Ok (r, lg) /\ res_good fuel lh r /\
      forall k, rget fuel r k = upd_spec (fun _ => None) kvs k.
  Proof.
    induction fuel as [|f IH]; intros lh path ver kvs U Hf KS PF OK; [lia|].
    assert (Single : forall k u, kvs = [(k, u)] ->
              exists r lg, bus H A (S f) lh path ver kvs = Ok (r, lg) /\ res_good (S f) lh r /\
                forall k, rget (S f) r k = upd_spec (fun _ => None) kvs k).
    { intros k u E. subst kvs. cbn [bus]. destruct u as [[[vh p] a]|].
      - eexists _, _. split; [reflexivity|]. split; [exact I|]. intro k2. cbn [rget]. rewrite lookup_leaf.
        unfold upd_spec, leafsem. cbn [kv_get]. rewrite (leqb_sym k2 k). destruct (leqb k k2); reflexivity.
      - eexists _, _. split; [reflexivity|]. split; [exact I|]. intro k2. unfold upd_spec. cbn [rget kv_get].
        destruct (leqb k2 k); reflexivity. }
    assert (General : ((2 <= length kvs)%nat \/ kvs = []) ->
              exists r lg, bus_body f lh path ver kvs = Ok (r, lg) /\ res_good (S f) lh r /\
                forall k, rget (S f) r k = upd_spec (fun _ => None) kvs k).
    { intro Hlen.
      assert (NE : forall x, In x kvs -> fst x <> []).
      { destruct Hlen as [Hlen|Hlen]; [eapply no_empty_key; eassumption|subst; intros x []]. }
      destruct (groups_spec A kvs KS NE) as (gs & G0 & G1 & G2 & G3 & _).
      unfold bus_body. rewrite G0.
      set (P := fun (n : N) (g : list kv) (r : option nodeA) =>
                  res_good f (lh_down lh n) r /\ forall k, rget f r k = upd_spec (fun _ => None) g k).
      destruct (run_groups_ok (fun n g => bus H A f (lh_down lh n) (path ++ [n]) ver g) P gs) as (rs & lg & E & M & Q).
      { intros n g Hin. destruct (G2 n g Hin) as (Gn1 & Gn2 & Gn3).
        assert (OKg : kvs_ok (fun k => U (n :: k)) f g).
        { intros y Hy. destruct (OK _ (Gn3 y Hy)) as (O1 & O2 & O3). cbn [fst] in *.
          split; [exact O1|]. split; [apply (kvalid_head n); exact O2|cbn in O3; lia]. }
        assert (Hf' : (0 < f)%nat).
        { destruct g as [|y g']; [contradiction|]. destruct (OKg y (or_introl eq_refl)) as (_ & _ & L). lia. }
        destruct (IH (lh_down lh n) (path ++ [n]) ver g (fun k => U (n :: k)) Hf' Gn2 (pfree_down U n PF) OKg)
          as (r & lg & E & R1 & R2).
        exists r, lg. split; [exact E|]. split; assumption. }
      rewrite E.
      assert (NDg : NoDup (map fst gs)) by (apply gsorted_nodup; exact G1).
      assert (NDr : NoDup (map fst rs)) by (rewrite M; exact NDg).
      destruct (finish_children H A lh path ver (somes A rs)) as [r lg'] eqn:EF.
      assert (Hch : forall n t, In (n, t) (somes A rs) -> n < 16 /\ good H A f (lh_down lh n) t).
      { intros n t Hin. apply somes_in in Hin. destruct (Q n (Some t) Hin) as (g & Hg & [Pg _]).
        split; [|exact Pg]. destruct (G2 n g Hg) as (Gn1 & _ & Gn3).
        destruct g as [|y g']; [contradiction|]. destruct (OK _ (Gn3 y (or_introl eq_refl))) as (_ & V & _).
        apply kvalid_head in V. tauto. }
      destruct (finish_ok f lh path ver (somes A rs) r lg' (somes_nodup rs NDr) Hch EF) as (F1 & F2 & F3).
      exists r, (lapp A lg lg'). split; [reflexivity|]. split; [exact F1|].
      intros [|n k].
      - rewrite F3. unfold upd_spec. rewrite (kv_get_notin A [] kvs); [reflexivity|].
        intro Hin. apply in_map_iff in Hin. destruct Hin as (x & Ex & Hx). apply (NE x Hx). exact Ex.
      - rewrite F2, nassoc_somes by exact NDr. unfold upd_spec. rewrite G3.
        pose proof (rs_assoc P gs rs n NDg M Q) as RA.
        destruct (nassoc n gs) as [g|].
        + destruct RA as (r' & Er & [_ Pr]). rewrite Er. specialize (Pr k). unfold upd_spec in Pr.
          destruct r' as [t|]; cbn [rget] in Pr; [exact Pr|]. rewrite <- Pr. reflexivity.
        + rewrite RA. reflexivity. }
    destruct kvs as [|[k u] [|y rest]].
    - change (bus H A (S f) lh path ver []) with (bus_body f lh path ver []). apply General. right. reflexivity.
    - eapply Single. reflexivity.
    - change (bus H A (S f) lh path ver ((k, u) :: y :: rest)) with (bus_body f lh path ver ((k, u) :: y :: rest)).
      apply General. left. cbn. lia.
  Qed.

  (* ---------- batch_update_subtree_with_existing_leaf ---------- *)
  Definition buswel_general (f : nat) (lh : lhT) (path : list N) (ver : N)
             (s : list N) (vh : list N) (p : N) (a : A) (kvs : list kv) : res (option nodeA * log A) :=
    match s with
    | [] => Panic
    | bucket :: s' =>
      match groups A kvs with
      | None => Panic
      | Some gs =>
        match run_groups A (fun n g =>
                 if n =? bucket then buswel H A f (lh_down lh n) (path ++ [n]) ver s' vh p a g
                 else bus H A f (lh_down lh n) (path ++ [n]) ver g) gs with
        | Ok (rs, lg) =>
          let isolated := negb (existsb (fun ng => fst ng =? bucket) gs) in
          let children := somes A rs ++ (if isolated then [(bucket, Leaf s' vh p a)] else []) in
          let '(r, lg') := finish_children H A lh path ver children in Ok (r, lapp A lg lg')
        | Panic => Panic | OutOfFuel => OutOfFuel
        end
      end
    end.

  Lemma buswel_unfold : forall f lh path ver s vh p a kvs,
    buswel H A (S f) lh path ver s vh p a kvs =
    match kvs with
    | [(k, u)] =>
      if leqb k s then
        match u with
        | Some (vh', p', a') => Ok (Some (Leaf k vh' p' a'), nolog)
        | None => Ok (None, nolog)
        end
      else buswel_general f lh path ver s vh p a kvs
    | _ => buswel_general f lh path ver s vh p a kvs
    end.
  Proof. intros. destruct kvs as [|[k u] [|y r]]; reflexivity. Qed.

  Lemma nodup_snoc : forall {X} (l : list X) b, NoDup l -> ~ In b l -> NoDup (l ++ [b]).
  Proof.
    induction l as [|x l IH]; intros b ND Hn; cbn; [constructor; [intros []|constructor]|].
    inversion ND; subst. constructor.
    - intro Hin. apply in_app_or in Hin. destruct Hin as [Hin|[E|[]]]; [contradiction|subst; apply Hn; left; reflexivity].
    - apply IH; [assumption|]. intro Hin. apply Hn. right. exact Hin.
  Qed.

  Lemma existsb_fst : forall {X} b (gs : list (N * X)),
    existsb (fun ng => fst ng =? b) gs = true <-> In b (map fst gs).
  Proof.
    intros X b gs. rewrite existsb_exists. split.
    - intros (x & Hx & E). apply N.eqb_eq in E. subst. apply in_map. exact Hx.
    - intro Hin. apply in_map_iff in Hin. destruct Hin as (x & E & Hx). exists x. split; [exact Hx|subst; apply N.eqb_refl].
  Qed.

  Lemma buswel_ok : forall fuel lh path ver s vh p a kvs U,
    ksorted A kvs -> pfree U -> kvs_ok U fuel kvs ->
    U s -> kvalid s -> (length s < fuel)%nat -> (kvs = [] -> s <> []) ->
    exists r lg, buswel H A fuel lh path ver s vh p a kvs = Ok (r, lg) /\ res_good fuel lh r /\
      forall k, rget fuel r k = upd_spec (leafsem s (vh, p, a)) kvs k.
  Proof.
    induction fuel as [|f IH]; intros lh path ver s vh p a kvs U KS PF OK Us Vs Ls Hnil; [lia|].
    rewrite buswel_unfold.
    assert (General : (forall k u, kvs = [(k, u)] -> k <> s) ->
              exists r lg, buswel_general f lh path ver s vh p a kvs = Ok (r, lg) /\ res_good (S f) lh r /\
                forall k, rget (S f) r k = upd_spec (leafsem s (vh, p, a)) kvs k).
    { intro Hdiff.
      assert (NE : forall x, In x kvs -> fst x <> []).
      { intros x Hx E. assert (U0 : U []) by (rewrite <- E; apply OK; exact Hx).
        assert (Es : s = []) by (eapply pfree_nil; eassumption).
        destruct kvs as [|[k u] [|y rest]]; [destruct Hx| |].
        - destruct Hx as [Hx|[]]. subst x. cbn in E. apply (Hdiff k u eq_refl). congruence.
        - eapply (no_empty_key U (S f) ((k, u) :: y :: rest)); try eassumption. cbn. lia. }
      destruct s as [|bucket s'].
      { exfalso. destruct kvs as [|x rest]; [apply Hnil; reflexivity|].
        apply (NE x (or_introl eq_refl)). eapply pfree_nil; [exact PF|exact Us|apply OK; left; reflexivity]. }
      destruct (groups_spec A kvs KS NE) as (gs & G0 & G1 & G2 & G3 & _).
      unfold buswel_general. rewrite G0.
      apply kvalid_head in Vs. destruct Vs as [Vb Vs'].
      set (P := fun (n : N) (g : list kv) (r : option nodeA) =>
                  res_good f (lh_down lh n) r /\
                  forall k, rget f r k = upd_spec (if n =? bucket then leafsem s' (vh, p, a) else fun _ => None) g k).
      destruct (run_groups_ok (fun n g =>
                 if n =? bucket then buswel H A f (lh_down lh n) (path ++ [n]) ver s' vh p a g
                 else bus H A f (lh_down lh n) (path ++ [n]) ver g) P gs) as (rs & lg & E & M & Q).
      { intros n g Hin. destruct (G2 n g Hin) as (Gn1 & Gn2 & Gn3).
        assert (OKg : kvs_ok (fun k => U (n :: k)) f g).
        { intros y Hy. destruct (OK _ (Gn3 y Hy)) as (O1 & O2 & O3). cbn [fst] in *.
          split; [exact O1|]. split; [apply (kvalid_head n); exact O2|cbn in O3; lia]. }
        assert (Hf' : (0 < f)%nat).
        { destruct g as [|y g']; [contradiction|]. destruct (OKg y (or_introl eq_refl)) as (_ & _ & L). lia. }
        unfold P. destruct (n =? bucket) eqn:En.
        - apply N.eqb_eq in En. subst n.
          destruct (IH (lh_down lh bucket) (path ++ [bucket]) ver s' vh p a g (fun k => U (bucket :: k))
                       Gn2 (pfree_down U bucket PF) OKg Us Vs' ltac:(cbn in Ls; lia) ltac:(intro; contradiction))
            as (r & lg & E & R1 & R2).
          exists r, lg. repeat split; assumption.
        - destruct (bus_ok f (lh_down lh n) (path ++ [n]) ver g (fun k => U (n :: k)) Hf' Gn2 (pfree_down U n PF) OKg)
            as (r & lg & E & R1 & R2).
          exists r, lg. repeat split; assumption. }
      rewrite E.
      assert (NDg : NoDup (map fst gs)) by (apply gsorted_nodup; exact G1).
      assert (NDr : NoDup (map fst rs)) by (rewrite M; exact NDg).
      set (isolated := negb (existsb (fun ng => fst ng =? bucket) gs)).
      set (extra := if isolated then [(bucket, Leaf s' vh p a)] else [] : list (N * nodeA)).
      assert (Hiso : isolated = true <-> ~ In bucket (map fst gs)).
      { unfold isolated. rewrite negb_true_iff. rewrite <- existsb_fst. destruct (existsb _ gs); split; congruence. }
      destruct (finish_children H A lh path ver (somes A rs ++ extra)) as [r lg'] eqn:EF.
      assert (NDc : NoDup (map fst (somes A rs ++ extra))).
      { rewrite map_app. unfold extra. destruct isolated eqn:Ei; cbn [map fst].
        - apply nodup_snoc; [apply somes_nodup; exact NDr|]. intro Hin. apply somes_fst_incl in Hin.
          rewrite M in Hin. apply (proj1 Hiso eq_refl). exact Hin.
        - rewrite app_nil_r. apply somes_nodup; exact NDr. }
      assert (Hch : forall n t, In (n, t) (somes A rs ++ extra) -> n < 16 /\ good H A f (lh_down lh n) t).
      { intros n t Hin. apply in_app_or in Hin. destruct Hin as [Hin|Hin].
        - apply somes_in in Hin. destruct (Q n (Some t) Hin) as (g & Hg & [Pg _]).
          split; [|exact Pg]. destruct (G2 n g Hg) as (Gn1 & _ & Gn3).
          destruct g as [|y g']; [contradiction|]. destruct (OK _ (Gn3 y (or_introl eq_refl))) as (_ & V & _).
          apply kvalid_head in V. tauto.
        - unfold extra in Hin. destruct isolated; [|destruct Hin]. destruct Hin as [Ein|[]].
          inversion Ein; subst. split; [exact Vb|destruct f; exact I]. }
      destruct (finish_ok f lh path ver (somes A rs ++ extra) r lg' NDc Hch EF) as (F1 & F2 & F3).
      exists r, (lapp A lg lg'). split; [reflexivity|]. split; [exact F1|].
      intros [|n k'].
      - rewrite F3. unfold upd_spec. rewrite (kv_get_notin A [] kvs); [reflexivity|].
        intro Hin. apply in_map_iff in Hin. destruct Hin as (x & Ex & Hx). apply (NE x Hx). exact Ex.
      - rewrite F2, nassoc_app, nassoc_somes by exact NDr. unfold upd_spec. rewrite G3.
        assert (Lsem : leafsem (bucket :: s') (vh, p, a) (n :: k') =
                       (if n =? bucket then leafsem s' (vh, p, a) else fun _ => None) k').
        { unfold leafsem. cbn [leqb]. rewrite (N.eqb_sym bucket n). destruct (n =? bucket); reflexivity. }
        rewrite Lsem.
        pose proof (rs_assoc P gs rs n NDg M Q) as RA.
        destruct (nassoc n gs) as [g|] eqn:Eg.
        + destruct RA as (r' & Er & [_ Pr]). rewrite Er. specialize (Pr k'). unfold upd_spec in Pr.
          assert (Hex : nassoc n extra = None).
          { unfold extra. destruct isolated eqn:Ei; [|reflexivity]. cbn [nassoc].
            destruct (bucket =? n) eqn:Eb; [|reflexivity]. apply N.eqb_eq in Eb. subst n. exfalso.
            apply (proj1 Hiso eq_refl). apply nassoc_in in Eg. apply (in_map fst) in Eg. exact Eg. }
          destruct r' as [t|]; cbn [rget] in Pr; [exact Pr|]. rewrite Hex. exact Pr.
        + rewrite RA. unfold extra. destruct isolated eqn:Ei; cbn [nassoc].
          * destruct (bucket =? n) eqn:Eb.
            -- rewrite (N.eqb_sym n bucket), Eb. rewrite lookup_leaf. reflexivity.
            -- rewrite (N.eqb_sym n bucket), Eb. reflexivity.
          * destruct (n =? bucket) eqn:Eb; [|reflexivity]. apply N.eqb_eq in Eb. subst n. exfalso.
            assert (Hin : In bucket (map fst gs)).
            { apply existsb_fst. unfold isolated in Ei. apply negb_false_iff in Ei. exact Ei. }
            eapply nassoc_some_in; eassumption. }
    destruct kvs as [|[k u] [|y rest]].
    - apply General. intros; discriminate.
    - destruct (leqb k s) eqn:Eks.
      + apply leqb_eq in Eks. subst k. destruct u as [[[vh' p'] a']|].
        * eexists _, _. split; [reflexivity|]. split; [exact I|]. intro k2. cbn [rget]. rewrite lookup_leaf.
          unfold upd_spec, leafsem. cbn [kv_get]. rewrite (leqb_sym k2 s). destruct (leqb s k2); reflexivity.
        * eexists _, _. split; [reflexivity|]. split; [exact I|]. intro k2. unfold upd_spec, leafsem. cbn [rget kv_get].
          rewrite (leqb_sym k2 s). destruct (leqb s k2); reflexivity.
      + apply General. intros k0 u0 E0. inversion E0; subst. apply leqb_false. exact Eks.
    - apply General. intros; discriminate.
  Qed.

  (* ---------- batch_insert_at ---------- *)
  Definition tree_ok (U : list N -> Prop) (fuel : nat) (t : nodeA) : Prop :=
    forall k d, lookup A fuel t k = Some d -> U k /\ kvalid k /\ (length k < fuel)%nat.

  Lemma good_has_leaf : forall n lh t, good H A n lh t -> exists k d, lookup A n t k = Some d.
  Proof.
    induction n as [|n IH]; intros lh t G; destruct t as [|s vh p a|cs]; cbn [good] in G; try contradiction.
    - exists s, (vh, p, a). cbn. rewrite leqb_refl. reflexivity.
    - exists s, (vh, p, a). cbn. rewrite leqb_refl. reflexivity.
    - destruct G as (G1 & G2 & G3). destruct cs as [|c r]; [contradiction|].
      inversion G2 as [|? ? C _]; subst. destruct C as (_ & C2 & _).
      destruct (IH _ _ C2) as (k & d & E). exists (c_nib c :: k), d.
      rewrite lookup_internal, cs_find_head. exact E.
  Qed.

  Definition old_step (acc : list child) (nr : N * option nodeA) : list child :=
    match snd nr with None => cs_remove A (fst nr) acc | Some _ => acc end.

  Lemma old_spec : forall f lh rs cs, NoDup (map fst rs) -> ssorted A cs -> Forall (child_ok H A f lh) cs ->
    let old := fold_left old_step rs cs in
    ssorted A old /\ Forall (child_ok H A f lh) old /\
    forall m, cs_find A m old = match nassoc m rs with Some None => None | _ => cs_find A m cs end.
  Proof.
    intros f lh rs. induction rs as [|[a r] rs IH]; intros cs ND S F; cbn [fold_left].
    - repeat split; assumption.
    - inversion ND as [|? ? Hn ND']; subst. cbn [map fst] in Hn.
      assert (S' : ssorted A (old_step cs (a, r))) by (unfold old_step; destruct r; cbn [snd fst]; [exact S|apply ssorted_remove; exact S]).
      assert (F' : Forall (child_ok H A f lh) (old_step cs (a, r))) by (unfold old_step; destruct r; cbn [snd fst]; [exact F|apply Forall_remove; exact F]).
      destruct (IH _ ND' S' F') as (I1 & I2 & I3). split; [exact I1|]. split; [exact I2|].
      intro m. rewrite I3. cbn [nassoc]. destruct (a =? m) eqn:E.
      + apply N.eqb_eq in E. subst a. rewrite (nassoc_none m rs Hn). unfold old_step. cbn [snd fst].
        destruct r; [reflexivity|]. rewrite cs_find_remove, N.eqb_refl. reflexivity.
      + assert (E2 : cs_find A m (old_step cs (a, r)) = cs_find A m cs).
        { unfold old_step. cbn [snd fst]. destruct r; [reflexivity|]. rewrite cs_find_remove, (N.eqb_sym m a), E. reflexivity. }
        rewrite E2. reflexivity.
  Qed.

  Lemma final_spec : forall f lh ver (new : list (N * nodeA)) old, NoDup (map fst new) ->
    (forall n t, In (n, t) new -> n < 16 /\ good H A f (lh_down lh n) t) ->
    ssorted A old -> Forall (child_ok H A f lh) old ->
    let final := fold_left (fun acc nt => cs_insert A (mk_child H A lh ver nt) acc) new old in
    ssorted A final /\ Forall (child_ok H A f lh) final /\ (length old <= length final)%nat /\
    forall m, cs_find A m final = match nassoc m new with
                                  | Some t => Some (mk_child H A lh ver (m, t)) | None => cs_find A m old end.
  Proof.
    intros f lh ver new. induction new as [|[a t] new IH]; intros old ND Hc S F; cbn [fold_left].
    - repeat split; try assumption. lia.
    - inversion ND as [|? ? Hn ND']; subst. cbn [map fst] in Hn.
      destruct (Hc a t (or_introl eq_refl)) as [Ha Hg].
      destruct (IH (cs_insert A (mk_child H A lh ver (a, t)) old) ND' (fun n' t' Hin => Hc n' t' (or_intror Hin))
                   (ssorted_insert A _ _ S) (Forall_insert A _ _ _ (mk_child_ok f lh ver a t Ha Hg) F)) as (I1 & I2 & I3 & I4).
      split; [exact I1|]. split; [exact I2|]. split; [pose proof (cs_insert_length A (mk_child H A lh ver (a, t)) old); lia|].
      intro m. rewrite I4. cbn [nassoc]. destruct (a =? m) eqn:E.
      + apply N.eqb_eq in E. subst a. rewrite (nassoc_none m new Hn). rewrite cs_find_insert.
        change (c_nib (mk_child H A lh ver (m, t))) with m. rewrite N.eqb_refl. reflexivity.
      + destruct (nassoc m new); [reflexivity|]. rewrite cs_find_insert.
        change (c_nib (mk_child H A lh ver (a, t))) with a. rewrite E. reflexivity.
  Qed.

  Lemma bia_ok : forall fuel lh path ver nver t kvs U,
    good H A fuel lh t -> ksorted A kvs -> pfree U -> kvs_ok U fuel kvs -> tree_ok U fuel t ->
    (kvs = [] -> ~ U []) ->
    exists r lg, bia H A fuel lh path ver nver t kvs = Ok (r, lg) /\ res_good fuel lh r /\
      forall k, rget fuel r k = upd_spec (lookup A fuel t) kvs k.
  Proof.
    induction fuel as [|f IH]; intros lh path ver nver t kvs U G KS PF OK TO Hnil.
    { (* fuel 0: only a leaf is good *)
      destruct t as [|s vh p a|cs]; cbn [good] in G; try contradiction.
      destruct (TO s (vh, p, a)) as (_ & _ & L); [cbn; rewrite leqb_refl; reflexivity|lia]. }
    destruct t as [|s vh p a|cs]; [cbn [good] in G; contradiction| |].
    - (* existing leaf *)
      destruct (TO s (vh, p, a)) as (Us & Vs & Ls); [cbn; rewrite leqb_refl; reflexivity|].
      destruct (buswel_ok (S f) lh path ver s vh p a kvs U KS PF OK Us Vs Ls) as (r & lg & E & R1 & R2).
      { intros E0 Es. subst. apply (Hnil eq_refl). exact Us. }
      cbn [bia]. rewrite E. eexists _, _. split; [reflexivity|]. split; [exact R1|].
      intro k. rewrite R2. unfold upd_spec. rewrite lookup_leaf. reflexivity.
    - (* internal node *)
      apply good_internal in G. destruct G as (G1 & G2 & G3).
      assert (NE : forall x, In x kvs -> fst x <> []).
      { intros x Hx E0. assert (U0 : U []) by (rewrite <- E0; apply OK; exact Hx).
        destruct (good_has_leaf (S f) lh (Internal cs)) as (k0 & d0 & E1); [apply good_internal; tauto|].
        destruct (TO k0 d0 E1) as (Uk & _). assert (k0 = []) by (eapply pfree_nil; eassumption). subst k0.
        rewrite lookup_internal_nil in E1. discriminate. }
      destruct (groups_spec A kvs KS NE) as (gs & G0 & Gs1 & Gs2 & Gs3 & _).
      cbn [bia]. rewrite G0.
      set (oldsem := fun (n : N) => match cs_find A n cs with Some c => lookup A f (c_sub c) | None => fun _ => None end).
      set (P := fun (n : N) (g : list kv) (r : option nodeA) =>
                  res_good f (lh_down lh n) r /\ forall k, rget f r k = upd_spec (oldsem n) g k).
      destruct (run_groups_ok (fun n g =>
                   match cs_find A n cs with
                   | Some c => bia H A f (lh_down lh n) (path ++ [n]) ver (c_ver c) (c_sub c) g
                   | None => bus H A f (lh_down lh n) (path ++ [n]) ver g
                   end) P gs) as (rs & lg & E & M & Q).
      { intros n g Hin. destruct (Gs2 n g Hin) as (Gn1 & Gn2 & Gn3).
        assert (OKg : kvs_ok (fun k => U (n :: k)) f g).
        { intros y Hy. destruct (OK _ (Gn3 y Hy)) as (O1 & O2 & O3). cbn [fst] in *.
          split; [exact O1|]. split; [apply (kvalid_head n); exact O2|cbn in O3; lia]. }
        assert (Hf' : (0 < f)%nat).
        { destruct g as [|y g']; [contradiction|]. destruct (OKg y (or_introl eq_refl)) as (_ & _ & L). lia. }
        unfold P, oldsem. destruct (cs_find A n cs) as [c|] eqn:Ec.
        - destruct (cs_find_some A n cs c Ec) as [Hc Enib]. rewrite Forall_forall in G2.
          destruct (G2 c Hc) as (_ & C2 & _). rewrite Enib in C2.
          destruct (IH (lh_down lh n) (path ++ [n]) ver (c_ver c) (c_sub c) g (fun k => U (n :: k)) C2 Gn2
                       (pfree_down U n PF) OKg) as (r & lg & E & R1 & R2).
          + intros k d Ek. destruct (TO (n :: k) d) as (T1 & T2 & T3); [rewrite lookup_internal, Ec; exact Ek|].
            split; [exact T1|]. split; [apply (kvalid_head n); exact T2|cbn in T3; lia].
          + intro E0. subst g. contradiction.
          + exists r, lg. repeat split; assumption.
        - destruct (bus_ok f (lh_down lh n) (path ++ [n]) ver g (fun k => U (n :: k)) Hf' Gn2 (pfree_down U n PF) OKg)
            as (r & lg & E & R1 & R2).
          exists r, lg. repeat split; assumption. }
      rewrite E.
      assert (NDg : NoDup (map fst gs)) by (apply gsorted_nodup; exact Gs1).
      assert (NDr : NoDup (map fst rs)) by (rewrite M; exact NDg).
      fold old_step.
      destruct (old_spec f lh rs cs NDr G1 G2) as (O1 & O2 & O3).
      set (old := fold_left old_step rs cs) in *.
      assert (Hch : forall n t, In (n, t) (somes A rs) -> n < 16 /\ good H A f (lh_down lh n) t).
      { intros n t Hin. apply somes_in in Hin. destruct (Q n (Some t) Hin) as (g & Hg & [Pg _]).
        split; [|exact Pg]. destruct (Gs2 n g Hg) as (Gn1 & _ & Gn3).
        destruct g as [|y g']; [contradiction|]. destruct (OK _ (Gn3 y (or_introl eq_refl))) as (_ & V & _).
        apply kvalid_head in V. tauto. }
      destruct (final_spec f lh ver (somes A rs) old (somes_nodup rs NDr) Hch O1 O2) as (F1 & F2 & F3 & F4).
      set (new := somes A rs) in *.
      set (final := fold_left (fun acc nt => cs_insert A (mk_child H A lh ver nt) acc) new old) in *.
      (* meaning of the final children map *)
      assert (Sem : forall m k', match cs_find A m final with Some c => lookup A f (c_sub c) k' | None => None end =
                                 upd_spec (lookup A (S f) (Internal cs)) kvs (m :: k')).
      { intros m k'. unfold upd_spec. rewrite Gs3, lookup_internal.
        assert (Eo : oldsem m k' = match cs_find A m cs with Some c => lookup A f (c_sub c) k' | None => None end)
          by (unfold oldsem; destruct (cs_find A m cs); reflexivity).
        rewrite <- Eo. clear Eo.
        rewrite F4. unfold new. rewrite nassoc_somes by exact NDr. rewrite O3.
        pose proof (rs_assoc P gs rs m NDg M Q) as RA.
        destruct (nassoc m gs) as [g|].
        - destruct RA as (r' & Er & [_ Pr]). rewrite Er. specialize (Pr k'). unfold upd_spec in Pr.
          destruct r' as [t'|]; cbn [rget] in Pr; exact Pr.
        - rewrite RA. unfold oldsem. destruct (cs_find A m cs); reflexivity. }
      assert (Sem0 : None = upd_spec (lookup A (S f) (Internal cs)) kvs []).
      { unfold upd_spec. rewrite (kv_get_notin A [] kvs); [reflexivity|].
        intro Hin. apply in_map_iff in Hin. destruct Hin as (x & Ex & Hx). apply (NE x Hx). exact Ex. }
      (* the two possible shapes of the result *)
      assert (Build : forall lgb, two_leaves A final ->
                exists r lg0, Ok (Some (Internal final), lapp A (log_stale A nver path) (lapp A lg lgb)) = Ok (r, lg0) /\
                  res_good (S f) lh r /\ forall k, rget (S f) r k = upd_spec (lookup A (S f) (Internal cs)) kvs k).
      { intros lgb T. eexists _, _. split; [reflexivity|]. split.
        - cbn [res_good]. apply good_internal. repeat split; assumption.
        - intros [|m k']; [exact Sem0|]. cbn [rget]. rewrite lookup_internal. apply Sem. }
      assert (Lift : forall nn t c lgb, is_leaf A t = true -> c_sub c = t ->
                (forall m, cs_find A m final = if nn =? m then Some c else None) ->
                exists r lg0, Ok (Some (lift A nn t), lapp A (log_stale A nver path) (lapp A lg lgb)) = Ok (r, lg0) /\
                  res_good (S f) lh r /\ forall k, rget (S f) r k = upd_spec (lookup A (S f) (Internal cs)) kvs k).
      { intros nn t c lgb L Ec Ff. eexists _, _. split; [reflexivity|]. split; [apply good_lift; exact L|].
        intros [|m k'].
        - cbn [rget]. rewrite lookup_lift_nil by exact L. exact Sem0.
        - cbn [rget]. rewrite lookup_lift by exact L. rewrite <- Sem, Ff. destruct (nn =? m); [rewrite Ec|]; reflexivity. }
      assert (Two : forall n1 t1 n2 t2 rest, new = (n1, t1) :: (n2, t2) :: rest -> two_leaves A final).
      { intros n1 t1 n2 t2 rest En. pose proof (somes_nodup rs NDr) as NDn. fold new in NDn. rewrite En in NDn.
        inversion NDn as [|? ? Hn _]; subst. cbn [map fst] in Hn.
        eapply (two_of_finds A final n1 n2).
        - intro E0. apply Hn. left. congruence.
        - rewrite F4, En. cbn [nassoc]. rewrite N.eqb_refl. reflexivity.
        - rewrite F4, En. cbn [nassoc]. destruct (n1 =? n2) eqn:E0; [apply N.eqb_eq in E0; exfalso; apply Hn; left; congruence|].
          rewrite N.eqb_refl. reflexivity. }
      assert (Big : (2 <= length old)%nat -> two_leaves A final).
      { intro L. destruct final as [|c1 [|c2 r']]; cbn in F3; try lia. exact I. }
      clearbody final.
      destruct old as [|oc [|oc2 old']] eqn:Eold; destruct new as [|[nn nc] [|[n2 t2] new']] eqn:Enew.
      + (* nothing left *)
        eexists _, _. split; [reflexivity|]. split; [exact I|].
        intros [|m k']; [exact Sem0|]. cbn [rget]. rewrite <- Sem, F4. cbn [nassoc].
        unfold cs_find. reflexivity.
      + destruct (is_leaf A nc) eqn:L.
        * eapply (Lift nn nc (mk_child H A lh ver (nn, nc))); [exact L|reflexivity|].
          intro m. rewrite F4. cbn [nassoc]. destruct (nn =? m) eqn:E0; [apply N.eqb_eq in E0; subst; reflexivity|reflexivity].
        * apply Build. assert (Ef : cs_find A nn final = Some (mk_child H A lh ver (nn, nc))).
          { rewrite F4. cbn [nassoc]. rewrite N.eqb_refl. reflexivity. }
          destruct final as [|c1 [|c2 r']]; [discriminate| |exact I].
          apply cs_find_some in Ef. destruct Ef as [[Ef|[]] _]. subst c1. cbn. exact L.
      + apply Build. eapply Two. reflexivity.
      + (* one old child, nothing new *)
        assert (Ff : forall m, cs_find A m final = if c_nib oc =? m then Some oc else None).
        { intro m. rewrite F4. cbn [nassoc]. unfold cs_find. cbn [find]. destruct (c_nib oc =? m); reflexivity. }
        destruct (c_leaf oc) eqn:L.
        * inversion O2 as [|? ? C _]; subst. destruct C as (_ & _ & _ & C4). rewrite L in C4.
          eapply (Lift (c_nib oc) (c_sub oc) oc); [symmetry; exact C4|reflexivity|exact Ff].
        * apply Build. assert (Ef : cs_find A (c_nib oc) final = Some oc) by (rewrite Ff, N.eqb_refl; reflexivity).
          destruct final as [|c1 [|c2 r']]; [discriminate| |exact I].
          apply cs_find_some in Ef. destruct Ef as [[Ef|[]] _]. subst c1. cbn. exact L.
      + (* one old child, one new child *)
        destruct ((c_nib oc =? nn) && is_leaf A nc) eqn:Cond.
        * apply andb_true_iff in Cond. destruct Cond as [C1 L]. apply N.eqb_eq in C1.
          eapply (Lift nn nc (mk_child H A lh ver (nn, nc))); [exact L|reflexivity|].
          intro m. rewrite F4. cbn [nassoc]. destruct (nn =? m) eqn:E0; [apply N.eqb_eq in E0; subst; reflexivity|].
          unfold cs_find. cbn [find]. rewrite C1, E0. reflexivity.
        * apply Build. destruct (c_nib oc =? nn) eqn:C1.
          -- cbn [andb] in Cond. apply N.eqb_eq in C1.
             assert (Ef : forall m, cs_find A m final = if nn =? m then Some (mk_child H A lh ver (nn, nc)) else None).
             { intro m. rewrite F4. cbn [nassoc]. destruct (nn =? m) eqn:E0; [apply N.eqb_eq in E0; subst; reflexivity|].
               unfold cs_find. cbn [find]. rewrite C1, E0. reflexivity. }
             destruct final as [|c1 [|c2 r']].
             ++ specialize (Ef nn). rewrite N.eqb_refl in Ef. discriminate.
             ++ pose proof (Ef nn) as Ef1. rewrite N.eqb_refl in Ef1. apply cs_find_some in Ef1.
                destruct Ef1 as [[Ef1|[]] _]. subst c1. cbn. exact Cond.
             ++ exact I.
          -- apply N.eqb_neq in C1. eapply (two_of_finds A final nn (c_nib oc)).
             ++ congruence.
             ++ rewrite F4. cbn [nassoc]. rewrite N.eqb_refl. reflexivity.
             ++ rewrite F4. cbn [nassoc]. destruct (nn =? c_nib oc) eqn:E0; [apply N.eqb_eq in E0; congruence|].
                apply cs_find_head.
      + apply Build. eapply Two. reflexivity.
      + apply Build. apply Big. cbn. lia.
      + apply Build. apply Big. cbn. lia.
      + apply Build. apply Big. cbn. lia.
  Qed.
End UPD.
