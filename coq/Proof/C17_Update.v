(* C17 — Theorem B: the batch-update recursion of jellyfish.rs (batch_update_subtree,
   batch_update_subtree_with_existing_leaf, batch_insert_at with every collapse rule) keeps the
   tree canonical (`good`) and realises the key-wise override of the old leaves by the batch.
   Semantics of a tree = its look-up function `lookup`. *)
From Coq Require Import List NArith Bool Lia Arith.
Import ListNotations.
Require Import RV.Model.C17_Jmt RV.Model.C17_Smt RV.Proof.C17_Base RV.Proof.C17_Lists.
Open Scope N_scope.

Lemma leqb_sym : forall a b, leqb a b = leqb b a.
Proof.
  intros a b. destruct (leqb a b) eqn:E.
  - apply leqb_eq in E. subst. symmetry. apply leqb_refl.
  - symmetry. apply leqb_false. apply leqb_false in E. congruence.
Qed.

Definition kvalid (k : list N) : Prop := Forall (fun x => x < 16) k.
Definition is_prefix (a b : list N) : Prop := exists c, b = a ++ c.
(* a prefix-free universe of keys (relative to the current node) *)
Definition pfree (U : list N -> Prop) : Prop := forall a b, U a -> U b -> is_prefix a b -> a = b.

Lemma pfree_down : forall U n, pfree U -> pfree (fun k => U (n :: k)).
Proof.
  intros U n P a b Ua Ub [c E]. assert (n :: a = n :: b); [|congruence].
  apply P; try assumption. exists c. cbn. congruence.
Qed.
Lemma pfree_nil : forall U b, pfree U -> U [] -> U b -> b = [].
Proof. intros U b P U0 Ub. symmetry. apply P; try assumption. exists b. reflexivity. Qed.

Section UPD.
  Variable H : list N -> list N.
  Variable A : Type.
  Notation nodeA := (node A).
  Notation child := (child_of (node A)).
  Notation lhT := (list N -> list N -> list N).
  Notation kv := (kv A).
  Notation ldata := (ldata A).

  Definition rget (fuel : nat) (r : option nodeA) (k : list N) : option ldata :=
    match r with Some t => lookup A fuel t k | None => None end.
  Definition upd_spec (old : list N -> option ldata) (kvs : list kv) (k : list N) : option ldata :=
    match kv_get A k kvs with Some u => u | None => old k end.
  Definition leafsem (s : list N) (d : ldata) : list N -> option ldata :=
    fun k => if leqb s k then Some d else None.
  Definition res_good (fuel : nat) (lh : lhT) (r : option nodeA) : Prop :=
    match r with Some t => good H A fuel lh t | None => True end.

  Definition kvs_ok (U : list N -> Prop) (fuel : nat) (kvs : list kv) : Prop :=
    forall x, In x kvs -> U (fst x) /\ kvalid (fst x) /\ (length (fst x) < fuel)%nat.

  Lemma lookup_leaf : forall fuel s vh p a k,
    lookup A fuel (Leaf s vh p a) k = leafsem s (vh, p, a) k.
  Proof. intros. destruct fuel; reflexivity. Qed.
  Lemma lookup_internal : forall f cs n k,
    lookup A (S f) (Internal cs) (n :: k) =
    match cs_find A n cs with Some c => lookup A f (c_sub c) k | None => None end.
  Proof. reflexivity. Qed.
  Lemma lookup_internal_nil : forall fuel cs, lookup A fuel (Internal cs) [] = None.
  Proof. intros. destruct fuel; reflexivity. Qed.

  (* ---------- run_groups ---------- *)
  Lemma run_groups_ok : forall fn (P : N -> list kv -> option nodeA -> Prop) gs,
    (forall n g, In (n, g) gs -> exists r lg, fn n g = Ok (r, lg) /\ P n g r) ->
    exists rs lg, run_groups A fn gs = Ok (rs, lg) /\ map fst rs = map fst gs /\
      (forall n r, In (n, r) rs -> exists g, In (n, g) gs /\ P n g r).
  Proof.
    intros fn P gs. induction gs as [|[n g] gs IH]; intro Hall.
    - exists [], nolog. cbn. repeat split. intros n r [].
    - destruct (Hall n g (or_introl eq_refl)) as (r & lg & E & Pr).
      destruct (IH (fun n' g' Hin => Hall n' g' (or_intror Hin))) as (rs & lg' & E' & M & Q).
      exists ((n, r) :: rs), (lapp A lg lg'). cbn [run_groups]. rewrite E, E'. split; [reflexivity|].
      split; [cbn; f_equal; exact M|].
      intros n' r' [Ein|Hin].
      + inversion Ein; subst. exists g. split; [left; reflexivity|exact Pr].
      + destruct (Q n' r' Hin) as (g' & Hg & Pg). exists g'. split; [right; exact Hg|exact Pg].
  Qed.

  Lemma rs_assoc : forall (P : N -> list kv -> option nodeA -> Prop) gs rs n,
    NoDup (map fst gs) -> map fst rs = map fst gs ->
    (forall n r, In (n, r) rs -> exists g, In (n, g) gs /\ P n g r) ->
    match nassoc n gs with
    | Some g => exists r, nassoc n rs = Some r /\ P n g r
    | None => nassoc n rs = None
    end.
  Proof.
    intros P gs rs n ND M Q. destruct (nassoc n gs) as [g|] eqn:Eg.
    - apply nassoc_in in Eg. assert (Hin : In n (map fst rs)).
      { rewrite M. apply in_map_iff. exists (n, g). split; [reflexivity|exact Eg]. }
      destruct (nassoc n rs) as [r|] eqn:Er; [|exfalso; eapply nassoc_some_in; eassumption].
      exists r. split; [reflexivity|]. apply nassoc_in in Er. destruct (Q n r Er) as (g' & Hg' & Pg').
      assert (g' = g); [|subst; exact Pg'].
      pose proof (nassoc_nodup n gs g ND Eg) as E1. pose proof (nassoc_nodup n gs g' ND Hg') as E2. congruence.
    - apply nassoc_none. rewrite M. intro Hin. eapply nassoc_some_in; eassumption.
  Qed.

  Lemma somes_in : forall rs n t, In (n, t) (somes A rs) <-> In (n, Some t) rs.
  Proof.
    induction rs as [|[m [t'|]] rs IH]; intros n t; cbn [somes]; [tauto| |].
    - cbn [In]. rewrite IH. split; intros [E|Hin]; try (right; assumption); left; congruence.
    - cbn [In]. rewrite IH. split; [tauto|]. intros [E|Hin]; [discriminate|assumption].
  Qed.
  Lemma somes_fst_incl : forall rs n, In n (map fst (somes A rs)) -> In n (map fst rs).
  Proof.
    intros rs n Hin. apply in_map_iff in Hin. destruct Hin as ([m t] & E & Hin). cbn in E. subst m.
    apply somes_in in Hin. apply in_map_iff. exists (n, Some t). split; [reflexivity|exact Hin].
  Qed.
  Lemma somes_nodup : forall rs, NoDup (map fst rs) -> NoDup (map fst (somes A rs)).
  Proof.
    induction rs as [|[m [t'|]] rs IH]; intro ND; cbn [somes map fst] in *; [constructor| |].
    - inversion ND; subst. constructor; [|apply IH; assumption]. intro Hin. apply H2. apply somes_fst_incl. exact Hin.
    - inversion ND; subst. apply IH. assumption.
  Qed.
  Lemma nassoc_somes : forall rs n, NoDup (map fst rs) ->
    nassoc n (somes A rs) = match nassoc n rs with Some (Some t) => Some t | _ => None end.
  Proof.
    induction rs as [|[m [t'|]] rs IH]; intros n ND; cbn [somes nassoc map fst] in *; [reflexivity| |].
    - inversion ND; subst. destruct (m =? n); [reflexivity|apply IH; assumption].
    - inversion ND; subst. destruct (m =? n) eqn:E; [|apply IH; assumption].
      apply N.eqb_eq in E. subst m. apply nassoc_none. intro Hin. apply H2. apply somes_fst_incl. exact Hin.
  Qed.

  (* ---------- building an internal node from created children ---------- *)
  Lemma mk_child_ok : forall f lh ver n t, n < 16 -> good H A f (lh_down lh n) t ->
    child_ok H A f lh (mk_child H A lh ver (n, t)).
  Proof. intros. unfold child_ok, mk_child. cbn. repeat split; assumption. Qed.

  Lemma fold_insert_spec : forall f lh ver (children : list (N * nodeA)),
    (forall n t, In (n, t) children -> n < 16 /\ good H A f (lh_down lh n) t) ->
    let cs := fold_right (fun nt acc => cs_insert A (mk_child H A lh ver nt) acc) [] children in
    ssorted A cs /\ Forall (child_ok H A f lh) cs /\
    forall n, cs_find A n cs = match nassoc n children with
                               | Some t => Some (mk_child H A lh ver (n, t)) | None => None end.
  Proof.
    intros f lh ver children. induction children as [|[m t] r IH]; intro Hc; cbn [fold_right].
    - split; [exact I|]. split; [constructor|]. intro n. reflexivity.
    - destruct (IH (fun n' t' Hin => Hc n' t' (or_intror Hin))) as (I1 & I2 & I3).
      destruct (Hc m t (or_introl eq_refl)) as [Hm Hg].
      split; [apply ssorted_insert; exact I1|]. split; [apply Forall_insert; [apply mk_child_ok; assumption|exact I2]|].
      intro n. rewrite cs_find_insert. cbn [nassoc]. change (c_nib (mk_child H A lh ver (m, t))) with m.
      destruct (m =? n) eqn:E; [apply N.eqb_eq in E; subst; reflexivity|apply I3].
  Qed.

  Lemma lookup_lift : forall fuel n t m k, is_leaf A t = true ->
    lookup A (S fuel) (lift A n t) (m :: k) = if n =? m then lookup A fuel t k else None.
  Proof.
    intros fuel n t m k L. destruct t as [|s vh p a|cs]; try discriminate. cbn [lift].
    rewrite !lookup_leaf. unfold leafsem. cbn [leqb]. destruct (n =? m); reflexivity.
  Qed.
  Lemma lookup_lift_nil : forall fuel n t, is_leaf A t = true -> lookup A fuel (lift A n t) [] = None.
  Proof.
    intros fuel n t L. destruct t as [|s vh p a|cs]; try discriminate. cbn [lift]. rewrite lookup_leaf. reflexivity.
  Qed.
  Lemma good_lift : forall fuel lh n t, is_leaf A t = true -> good H A fuel lh (lift A n t).
  Proof. intros fuel lh n t L. destruct t; try discriminate. destruct fuel; exact I. Qed.

  Lemma finish_ok : forall f lh path ver children r lg,
    NoDup (map fst children) ->
    (forall n t, In (n, t) children -> n < 16 /\ good H A f (lh_down lh n) t) ->
    finish_children H A lh path ver children = (r, lg) ->
    res_good (S f) lh r /\
    (forall n k, rget (S f) r (n :: k) =
                 match nassoc n children with Some t => lookup A f t k | None => None end) /\
    rget (S f) r [] = None.
  Proof.
    intros f lh path ver children r lg ND Hc E.
    pose proof (fold_insert_spec f lh ver children Hc) as (I1 & I2 & I3).
    assert (Gen : forall cs', cs' = fold_right (fun nt acc => cs_insert A (mk_child H A lh ver nt) acc) [] children ->
                  two_leaves A cs' ->
                  res_good (S f) lh (Some (Internal cs')) /\
                  (forall n k, rget (S f) (Some (Internal cs')) (n :: k) =
                               match nassoc n children with Some t => lookup A f t k | None => None end) /\
                  rget (S f) (Some (Internal cs')) [] = None).
    { intros cs' Ecs T. subst cs'. split; [|split].
      - cbn [res_good]. apply good_internal. repeat split; assumption.
      - intros n k. cbn [rget]. rewrite lookup_internal, I3. destruct (nassoc n children); reflexivity.
      - reflexivity. }
    destruct children as [|[n t] [|[n2 t2] rest]]; cbn [finish_children] in E.
    - inversion E; subst. cbn. repeat split; reflexivity.
    - destruct (is_leaf A t) eqn:L.
      + inversion E; subst. split; [apply good_lift; exact L|]. split.
        * intros m k. cbn [rget nassoc]. rewrite lookup_lift by exact L. destruct (n =? m); reflexivity.
        * cbn [rget]. apply lookup_lift_nil. exact L.
      + inversion E; subst. apply Gen; [reflexivity|]. cbn. exact L.
    - inversion E; subst. apply Gen; [reflexivity|].
      inversion ND as [|? ? Hn ND']; subst. cbn [map fst] in Hn.
      eapply (two_of_finds A _ n n2).
      + intro E2. apply Hn. left. congruence.
      + rewrite I3. cbn [nassoc]. rewrite N.eqb_refl. reflexivity.
      + rewrite I3. cbn [nassoc]. destruct (n =? n2) eqn:E2; [apply N.eqb_eq in E2; exfalso; apply Hn; left; congruence|].
        rewrite N.eqb_refl. reflexivity.
  Qed.

  (* ---------- batch_update_subtree ---------- *)
  Definition bus_body (f : nat) (lh : lhT) (path : list N) (ver : N) (kvs : list kv) :=
    match groups A kvs with
    | None => Panic
    | Some gs =>
      match run_groups A (fun n g => bus H A f (lh_down lh n) (path ++ [n]) ver g) gs with
      | Ok (rs, lg) =>
        let '(r, lg') := finish_children H A lh path ver (somes A rs) in Ok (r, lapp A lg lg')
      | Panic => Panic | OutOfFuel => OutOfFuel
      end
    end.

  Lemma no_empty_key : forall U fuel kvs, ksorted A kvs -> pfree U -> kvs_ok U fuel kvs ->
    (2 <= length kvs)%nat -> forall x, In x kvs -> fst x <> [].
  Proof.
    intros U fuel kvs KS PF OK L x Hx E.
    destruct kvs as [|x1 [|x2 r]]; cbn in L; try lia.
    assert (U []) by (rewrite <- E; apply OK; exact Hx).
    assert (E1 : fst x1 = []) by (eapply pfree_nil; [exact PF|assumption|apply OK; left; reflexivity]).
    assert (E2 : fst x2 = []) by (eapply pfree_nil; [exact PF|assumption|apply OK; right; left; reflexivity]).
    destruct KS as [KS _]. inversion KS; subst. rewrite E1, E2 in H3. discriminate.
  Qed.

  Lemma kvalid_head : forall n k, kvalid (n :: k) -> n < 16 /\ kvalid k.
  Proof. intros n k V. inversion V; subst. split; assumption. Qed.

  Lemma bus_ok : forall fuel lh path ver kvs U,
    (0 < fuel)%nat -> ksorted A kvs -> pfree U -> kvs_ok U fuel kvs ->
    exists r lg, bus H A fuel lh path ver kvs = Ok (r, lg) /\ res_good fuel lh r /\
      forall k, rget fuel r k = upd_spec (fun _ => None) kvs k.
  Proof.
    induction fuel as [|f IH]; intros lh path ver kvs U Hf KS PF OK; [lia|].
    assert (Single : forall k u, kvs = [(k, u)] ->
              exists r lg, bus H A (S f) lh path ver kvs = Ok (r, lg) /\ res_good (S f) lh r /\
                forall k, rget (S f) r k = upd_spec (fun _ => None) kvs k).
    { intros k u E. subst kvs. cbn [bus]. destruct u as [[[vh p] a]|].
      - eexists _, _. split; [reflexivity|]. split; [exact I|]. intro k2. cbn [rget]. rewrite lookup_leaf.
        unfold upd_spec, leafsem. cbn [kv_get]. rewrite (leqb_sym k2 k). destruct (leqb k k2); reflexivity.
      - eexists _, _. split; [reflexivity|]. split; [exact I|]. intro k2. unfold upd_spec. cbn [rget kv_get].
        destruct (leqb k2 k); reflexivity. }
    assert (General : ((2 <= length kvs)%nat \/ kvs = []) ->
              exists r lg, bus_body f lh path ver kvs = Ok (r, lg) /\ res_good (S f) lh r /\
                forall k, rget (S f) r k = upd_spec (fun _ => None) kvs k).
    { intro Hlen.
      assert (NE : forall x, In x kvs -> fst x <> []).
      { destruct Hlen as [Hlen|Hlen]; [eapply no_empty_key; eassumption|subst; intros x []]. }
      destruct (groups_spec A kvs KS NE) as (gs & G0 & G1 & G2 & G3 & _).
      unfold bus_body. rewrite G0.
      set (P := fun (n : N) (g : list kv) (r : option nodeA) =>
                  res_good f (lh_down lh n) r /\ forall k, rget f r k = upd_spec (fun _ => None) g k).
      destruct (run_groups_ok (fun n g => bus H A f (lh_down lh n) (path ++ [n]) ver g) P gs) as (rs & lg & E & M & Q).
      { intros n g Hin. destruct (G2 n g Hin) as (Gn1 & Gn2 & Gn3).
        assert (OKg : kvs_ok (fun k => U (n :: k)) f g).
        { intros y Hy. destruct (OK _ (Gn3 y Hy)) as (O1 & O2 & O3). cbn [fst] in *.
          split; [exact O1|]. split; [apply (kvalid_head n); exact O2|cbn in O3; lia]. }
        assert (Hf' : (0 < f)%nat).
        { destruct g as [|y g']; [contradiction|]. destruct (OKg y (or_introl eq_refl)) as (_ & _ & L). lia. }
        destruct (IH (lh_down lh n) (path ++ [n]) ver g (fun k => U (n :: k)) Hf' Gn2 (pfree_down U n PF) OKg)
          as (r & lg & E & R1 & R2).
        exists r, lg. split; [exact E|]. split; assumption. }
      rewrite E.
      assert (NDg : NoDup (map fst gs)) by (apply gsorted_nodup; exact G1).
      assert (NDr : NoDup (map fst rs)) by (rewrite M; exact NDg).
      destruct (finish_children H A lh path ver (somes A rs)) as [r lg'] eqn:EF.
      assert (Hch : forall n t, In (n, t) (somes A rs) -> n < 16 /\ good H A f (lh_down lh n) t).
      { intros n t Hin. apply somes_in in Hin. destruct (Q n (Some t) Hin) as (g & Hg & [Pg _]).
        split; [|exact Pg]. destruct (G2 n g Hg) as (Gn1 & _ & Gn3).
        destruct g as [|y g']; [contradiction|]. destruct (OK _ (Gn3 y (or_introl eq_refl))) as (_ & V & _).
        apply kvalid_head in V. tauto. }
      destruct (finish_ok f lh path ver (somes A rs) r lg' (somes_nodup rs NDr) Hch EF) as (F1 & F2 & F3).
      exists r, (lapp A lg lg'). split; [reflexivity|]. split; [exact F1|].
      intros [|n k].
      - rewrite F3. unfold upd_spec. rewrite (kv_get_notin A [] kvs); [reflexivity|].
        intro Hin. apply in_map_iff in Hin. destruct Hin as (x & Ex & Hx). apply (NE x Hx). exact Ex.
      - rewrite F2, nassoc_somes by exact NDr. unfold upd_spec. rewrite G3.
        pose proof (rs_assoc P gs rs n NDg M Q) as RA.
        destruct (nassoc n gs) as [g|].
        + destruct RA as (r' & Er & [_ Pr]). rewrite Er. specialize (Pr k). unfold upd_spec in Pr.
          destruct r' as [t|]; cbn [rget] in Pr; [exact Pr|]. rewrite <- Pr. reflexivity.
        + rewrite RA. reflexivity. }
    destruct kvs as [|[k u] [|y rest]].
    - change (bus H A (S f) lh path ver []) with (bus_body f lh path ver []). apply General. right. reflexivity.
    - eapply Single. reflexivity.
    - change (bus H A (S f) lh path ver ((k, u) :: y :: rest)) with (bus_body f lh path ver ((k, u) :: y :: rest)).
      apply General. left. cbn. lia.
  Qed.

  (* ---------- batch_update_subtree_with_existing_leaf ---------- *)
  Definition buswel_general (f : nat) (lh : lhT) (path : list N) (ver : N)
             (s : list N) (vh : list N) (p : N) (a : A) (kvs : list kv) : res (option nodeA * log A) :=
    match s with
    | [] => Panic
    | bucket :: s' =>
      match groups A kvs with
      | None => Panic
      | Some gs =>
        match run_groups A (fun n g =>
                 if n =? bucket then buswel H A f (lh_down lh n) (path ++ [n]) ver s' vh p a g
                 else bus H A f (lh_down lh n) (path ++ [n]) ver g) gs with
        | Ok (rs, lg) =>
          let isolated := negb (existsb (fun ng => fst ng =? bucket) gs) in
          let children := somes A rs ++ (if isolated then [(bucket, Leaf s' vh p a)] else []) in
          let '(r, lg') := finish_children H A lh path ver children in Ok (r, lapp A lg lg')
        | Panic => Panic | OutOfFuel => OutOfFuel
        end
      end
    end.

  Lemma buswel_unfold : forall f lh path ver s vh p a kvs,
    buswel H A (S f) lh path ver s vh p a kvs =
    match kvs with
    | [(k, u)] =>
      if leqb k s then
        match u with
        | Some (vh', p', a') => Ok (Some (Leaf k vh' p' a'), nolog)
        | None => Ok (None, nolog)
        end
      else buswel_general f lh path ver s vh p a kvs
    | _ => buswel_general f lh path ver s vh p a kvs
    end.
  Proof. intros. destruct kvs as [|[k u] [|y r]]; reflexivity. Qed.

  Lemma nodup_snoc : forall {X} (l : list X) b, NoDup l -> ~ In b l -> NoDup (l ++ [b]).
  Proof.
    induction l as [|x l IH]; intros b ND Hn; cbn; [constructor; [intros []|constructor]|].
    inversion ND; subst. constructor.
    - intro Hin. apply in_app_or in Hin. destruct Hin as [Hin|[E|[]]]; [contradiction|subst; apply Hn; left; reflexivity].
    - apply IH; [assumption|]. intro Hin. apply Hn. right. exact Hin.
  Qed.

  Lemma existsb_fst : forall {X} b (gs : list (N * X)),
    existsb (fun ng => fst ng =? b) gs = true <-> In b (map fst gs).
  Proof.
    intros X b gs. rewrite existsb_exists. split.
    - intros (x & Hx & E). apply N.eqb_eq in E. subst. apply in_map. exact Hx.
    - intro Hin. apply in_map_iff in Hin. destruct Hin as (x & E & Hx). exists x. split; [exact Hx|subst; apply N.eqb_refl].
  Qed.

  Lemma buswel_ok : forall fuel lh path ver s vh p a kvs U,
    ksorted A kvs -> pfree U -> kvs_ok U fuel kvs ->
    U s -> kvalid s -> (length s < fuel)%nat -> (kvs = [] -> s <> []) ->
    exists r lg, buswel H A fuel lh path ver s vh p a kvs = Ok (r, lg) /\ res_good fuel lh r /\
      forall k, rget fuel r k = upd_spec (leafsem s (vh, p, a)) kvs k.
  Proof.
    induction fuel as [|f IH]; intros lh path ver s vh p a kvs U KS PF OK Us Vs Ls Hnil; [lia|].
    rewrite buswel_unfold.
    assert (General : (forall k u, kvs = [(k, u)] -> k <> s) ->
              exists r lg, buswel_general f lh path ver s vh p a kvs = Ok (r, lg) /\ res_good (S f) lh r /\
                forall k, rget (S f) r k = upd_spec (leafsem s (vh, p, a)) kvs k).
    { intro Hdiff.
      assert (NE : forall x, In x kvs -> fst x <> []).
      { intros x Hx E. assert (U0 : U []) by (rewrite <- E; apply OK; exact Hx).
        assert (Es : s = []) by (eapply pfree_nil; eassumption).
        destruct kvs as [|[k u] [|y rest]]; [destruct Hx| |].
        - destruct Hx as [Hx|[]]. subst x. cbn in E. apply (Hdiff k u eq_refl). congruence.
        - eapply (no_empty_key U (S f) ((k, u) :: y :: rest)); try eassumption. cbn. lia. }
      destruct s as [|bucket s'].
      { exfalso. destruct kvs as [|x rest]; [apply Hnil; reflexivity|].
        apply (NE x (or_introl eq_refl)). eapply pfree_nil; [exact PF|exact Us|apply OK; left; reflexivity]. }
      destruct (groups_spec A kvs KS NE) as (gs & G0 & G1 & G2 & G3 & _).
      unfold buswel_general. rewrite G0.
      apply kvalid_head in Vs. destruct Vs as [Vb Vs'].
      set (P := fun (n : N) (g : list kv) (r : option nodeA) =>
                  res_good f (lh_down lh n) r /\
                  forall k, rget f r k = upd_spec (if n =? bucket then leafsem s' (vh, p, a) else fun _ => None) g k).
      destruct (run_groups_ok (fun n g =>
                 if n =? bucket then buswel H A f (lh_down lh n) (path ++ [n]) ver s' vh p a g
                 else bus H A f (lh_down lh n) (path ++ [n]) ver g) P gs) as (rs & lg & E & M & Q).
      { intros n g Hin. destruct (G2 n g Hin) as (Gn1 & Gn2 & Gn3).
        assert (OKg : kvs_ok (fun k => U (n :: k)) f g).
        { intros y Hy. destruct (OK _ (Gn3 y Hy)) as (O1 & O2 & O3). cbn [fst] in *.
          split; [exact O1|]. split; [apply (kvalid_head n); exact O2|cbn in O3; lia]. }
        assert (Hf' : (0 < f)%nat).
        { destruct g as [|y g']; [contradiction|]. destruct (OKg y (or_introl eq_refl)) as (_ & _ & L). lia. }
        unfold P. destruct (n =? bucket) eqn:En.
        - apply N.eqb_eq in En. subst n.
          destruct (IH (lh_down lh bucket) (path ++ [bucket]) ver s' vh p a g (fun k => U (bucket :: k))
                       Gn2 (pfree_down U bucket PF) OKg Us Vs' ltac:(cbn in Ls; lia) ltac:(intro; contradiction))
            as (r & lg & E & R1 & R2).
          exists r, lg. repeat split; assumption.
        - destruct (bus_ok f (lh_down lh n) (path ++ [n]) ver g (fun k => U (n :: k)) Hf' Gn2 (pfree_down U n PF) OKg)
            as (r & lg & E & R1 & R2).
          exists r, lg. repeat split; assumption. }
      rewrite E.
      assert (NDg : NoDup (map fst gs)) by (apply gsorted_nodup; exact G1).
      assert (NDr : NoDup (map fst rs)) by (rewrite M; exact NDg).
      set (isolated := negb (existsb (fun ng => fst ng =? bucket) gs)).
      set (extra := if isolated then [(bucket, Leaf s' vh p a)] else [] : list (N * nodeA)).
      assert (Hiso : isolated = true <-> ~ In bucket (map fst gs)).
      { unfold isolated. rewrite negb_true_iff. rewrite <- existsb_fst. destruct (existsb _ gs); split; congruence. }
      destruct (finish_children H A lh path ver (somes A rs ++ extra)) as [r lg'] eqn:EF.
      assert (NDc : NoDup (map fst (somes A rs ++ extra))).
      { rewrite map_app. unfold extra. destruct isolated eqn:Ei; cbn [map fst].
        - apply nodup_snoc; [apply somes_nodup; exact NDr|]. intro Hin. apply somes_fst_incl in Hin.
          rewrite M in Hin. apply (proj1 Hiso eq_refl). exact Hin.
        - rewrite app_nil_r. apply somes_nodup; exact NDr. }
      assert (Hch : forall n t, In (n, t) (somes A rs ++ extra) -> n < 16 /\ good H A f (lh_down lh n) t).
      { intros n t Hin. apply in_app_or in Hin. destruct Hin as [Hin|Hin].
        - apply somes_in in Hin. destruct (Q n (Some t) Hin) as (g & Hg & [Pg _]).
          split; [|exact Pg]. destruct (G2 n g Hg) as (Gn1 & _ & Gn3).
          destruct g as [|y g']; [contradiction|]. destruct (OK _ (Gn3 y (or_introl eq_refl))) as (_ & V & _).
          apply kvalid_head in V. tauto.
        - unfold extra in Hin. destruct isolated; [|destruct Hin]. destruct Hin as [Ein|[]].
          inversion Ein; subst. split; [exact Vb|destruct f; exact I]. }
      destruct (finish_ok f lh path ver (somes A rs ++ extra) r lg' NDc Hch EF) as (F1 & F2 & F3).
      exists r, (lapp A lg lg'). split; [reflexivity|]. split; [exact F1|].
      intros [|n k'].
      - rewrite F3. unfold upd_spec. rewrite (kv_get_notin A [] kvs); [reflexivity|].
        intro Hin. apply in_map_iff in Hin. destruct Hin as (x & Ex & Hx). apply (NE x Hx). exact Ex.
      - rewrite F2, nassoc_app, nassoc_somes by exact NDr. unfold upd_spec. rewrite G3.
        assert (Lsem : leafsem (bucket :: s') (vh, p, a) (n :: k') =
                       (if n =? bucket then leafsem s' (vh, p, a) else fun _ => None) k').
        { unfold leafsem. cbn [leqb]. rewrite (N.eqb_sym bucket n). destruct (n =? bucket); reflexivity. }
        rewrite Lsem.
        pose proof (rs_assoc P gs rs n NDg M Q) as RA.
        destruct (nassoc n gs) as [g|] eqn:Eg.
        + destruct RA as (r' & Er & [_ Pr]). rewrite Er. specialize (Pr k'). unfold upd_spec in Pr.
          assert (Hex : nassoc n extra = None).
          { unfold extra. destruct isolated eqn:Ei; [|reflexivity]. cbn [nassoc].
            destruct (bucket =? n) eqn:Eb; [|reflexivity]. apply N.eqb_eq in Eb. subst n. exfalso.
            apply (proj1 Hiso eq_refl). apply nassoc_in in Eg. apply (in_map fst) in Eg. exact Eg. }
          destruct r' as [t|]; cbn [rget] in Pr; [exact Pr|]. rewrite Hex. exact Pr.
        + rewrite RA. unfold extra. destruct isolated eqn:Ei; cbn [nassoc].
          * destruct (bucket =? n) eqn:Eb.
            -- rewrite (N.eqb_sym n bucket), Eb. rewrite lookup_leaf. reflexivity.
            -- rewrite (N.eqb_sym n bucket), Eb. reflexivity.
          * destruct (n =? bucket) eqn:Eb; [|reflexivity]. apply N.eqb_eq in Eb. subst n. exfalso.
            assert (Hin : In bucket (map fst gs)).
            { apply existsb_fst. unfold isolated in Ei. apply negb_false_iff in Ei. exact Ei. }
            eapply nassoc_some_in; eassumption. }
    destruct kvs as [|[k u] [|y rest]].
    - apply General. intros; discriminate.
    - destruct (leqb k s) eqn:Eks.
      + apply leqb_eq in Eks. subst k. destruct u as [[[vh' p'] a']|].
        * eexists _, _. split; [reflexivity|]. split; [exact I|]. intro k2. cbn [rget]. rewrite lookup_leaf.
          unfold upd_spec, leafsem. cbn [kv_get]. rewrite (leqb_sym k2 s). destruct (leqb s k2); reflexivity.
        * eexists _, _. split; [reflexivity|]. split; [exact I|]. intro k2. unfold upd_spec, leafsem. cbn [rget kv_get].
          rewrite (leqb_sym k2 s). destruct (leqb s k2); reflexivity.
      + apply General. intros k0 u0 E0. inversion E0; subst. apply leqb_false. exact Eks.
    - apply General. intros; discriminate.
  Qed.
End UPD.
