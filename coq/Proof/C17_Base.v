(* C17 — proof-side definitions: the canonical-shape invariant `good` of the 16-ary tree and basic
   facts (monotonicity in the depth bound, number of leaves, children-map lemmas). *)
From Coq Require Import List NArith Bool Lia Arith.
Import ListNotations.
Require Import RV.Model.C17_Jmt RV.Model.C17_Smt.
Open Scope N_scope.

Lemma leqb_eq : forall a b, leqb a b = true <-> a = b.
Proof.
  induction a as [|x a IH]; destruct b as [|y b]; cbn [leqb]; split; intro E;
    try reflexivity; try discriminate.
  - apply andb_true_iff in E. destruct E as [E1 E2]. apply N.eqb_eq in E1. apply IH in E2. congruence.
  - inversion E; subst. rewrite N.eqb_refl. cbn. apply IH. reflexivity.
Qed.
Lemma leqb_refl : forall a, leqb a a = true.
Proof. intro a. apply leqb_eq. reflexivity. Qed.
Lemma leqb_false : forall a b, leqb a b = false <-> a <> b.
Proof.
  intros a b. split.
  - intros E C. apply leqb_eq in C. congruence.
  - intro C. destruct (leqb a b) eqn:E; [apply leqb_eq in E; contradiction|reflexivity].
Qed.

Definition kvalid (k : list N) : Prop := Forall (fun x => x < 16) k.
Lemma kvalid_head : forall n k, kvalid (n :: k) -> n < 16 /\ kvalid k.
Proof. intros n k V. inversion V; subst. split; assumption. Qed.

Section BASE.
  Variable H : list N -> list N.
  Variable A : Type.
  Notation nodeA := (node A).
  Notation child := (child_of (node A)).
  Notation lhT := (list N -> list N -> list N).

  (* children sorted strictly by nibble *)
  Fixpoint ssorted (cs : list child) : Prop :=
    match cs with
    | [] => True
    | c :: r => Forall (fun d => c_nib c < c_nib d) r /\ ssorted r
    end.

  (* an internal node has at least two leaves below: not empty, and an only child is not a leaf *)
  Definition two_leaves (cs : list child) : Prop :=
    match cs with
    | [] => False
    | [c] => c_leaf c = false
    | _ => True
    end.

  (* canonical shape with correct caches, depth <= n.  Null is not `good` (it only occurs as the
     root of an empty tier). *)
  Fixpoint good (n : nat) (lh : lhT) (t : nodeA) : Prop :=
    match t with
    | Null => False
    | Leaf _ _ _ _ => True
    | Internal cs =>
      match n with
      | O => False
      | S m =>
        ssorted cs /\
        Forall (fun c => c_nib c < 16 /\
                         good m (lh_down lh (c_nib c)) (c_sub c) /\
                         c_hash c = node_hash H A (lh_down lh (c_nib c)) (c_sub c) /\
                         c_leaf c = is_leaf A (c_sub c)) cs /\
        two_leaves cs
      end
    end.

  Definition child_ok (m : nat) (lh : lhT) (c : child) : Prop :=
    c_nib c < 16 /\ good m (lh_down lh (c_nib c)) (c_sub c) /\
    c_hash c = node_hash H A (lh_down lh (c_nib c)) (c_sub c) /\ c_leaf c = is_leaf A (c_sub c).

  Lemma good_internal : forall m lh cs,
    good (S m) lh (Internal cs) <-> ssorted cs /\ Forall (child_ok m lh) cs /\ two_leaves cs.
  Proof. intros. cbn [good]. unfold child_ok. tauto. Qed.

  Lemma good_mono : forall n lh t, good n lh t -> good (S n) lh t.
  Proof.
    induction n as [|n IH]; intros lh t G; destruct t as [|s vh p a|cs]; cbn [good] in G |- *;
      try contradiction; try exact I.
    destruct G as (G1 & G2 & G3). repeat split; try assumption.
    eapply Forall_impl; [|exact G2]. intros c (C1 & C2 & C3 & C4). repeat split; try assumption.
    apply IH. exact C2.
  Qed.
  Lemma good_le : forall n m lh t, (n <= m)%nat -> good n lh t -> good m lh t.
  Proof. intros n m lh t L G. induction L; [exact G|apply good_mono; exact IHL]. Qed.

  (* number of leaves below a good node *)
  Lemma good_leaves : forall n lh t, good n lh t ->
    match t with
    | Null => False
    | Leaf s vh p a => leaves A n t = [(s, (vh, p, a))]
    | Internal _ => (2 <= length (leaves A n t))%nat
    end.
  Proof.
    induction n as [|n IH]; intros lh t G; destruct t as [|s vh p a|cs]; cbn [good] in G;
      try contradiction; try reflexivity.
    destruct G as (G1 & G2 & G3).
    assert (L1 : forall c, In c cs -> (1 <= length (leaves A n (c_sub c)))%nat /\
                                      (c_leaf c = false -> 2 <= length (leaves A n (c_sub c)))%nat).
    { intros c Hc. rewrite Forall_forall in G2. destruct (G2 c Hc) as (_ & C2 & _ & C4).
      specialize (IH _ _ C2). destruct (c_sub c) as [|s vh p a|cs']; [contradiction| |].
      - rewrite IH. cbn. split; [lia|]. intro E. rewrite C4 in E. discriminate.
      - split; [lia|]. intros _. exact IH. }
    cbn [leaves]. destruct cs as [|c1 [|c2 r]]; cbn [two_leaves] in G3; [contradiction| |].
    - cbn [flat_map]. rewrite app_nil_r, map_length. apply L1; [left; reflexivity|exact G3].
    - cbn [flat_map]. rewrite !app_length, !map_length.
      pose proof (proj1 (L1 c1 (or_introl eq_refl))). pose proof (proj1 (L1 c2 (or_intror (or_introl eq_refl)))). lia.
  Qed.

  Lemma good_leaves_nonempty : forall n lh t, good n lh t -> leaves A n t <> [].
  Proof.
    intros n lh t G. pose proof (good_leaves _ _ _ G) as L. destruct t; [contradiction| |].
    - rewrite L. discriminate.
    - intro E. rewrite E in L. cbn in L. lia.
  Qed.

  (* ---- filter / sortedness ---- *)
  Lemma ssorted_filter : forall f cs, ssorted cs -> ssorted (filter f cs).
  Proof.
    induction cs as [|c r IH]; intro S; [exact I|]. destruct S as [S1 S2]. cbn [filter].
    destruct (f c); [|apply IH; exact S2]. split; [|apply IH; exact S2].
    rewrite Forall_forall in *. intros d Hd. apply filter_In in Hd. apply S1. tauto.
  Qed.

  Lemma filter_id : forall {X} (f : X -> bool) l, (forall x, In x l -> f x = true) -> filter f l = l.
  Proof.
    induction l as [|x l IH]; intro Hf; [reflexivity|]. cbn. rewrite Hf by (left; reflexivity).
    f_equal. apply IH. intros y Hy. apply Hf. right. exact Hy.
  Qed.
End BASE.
