(* C21 — simulation between the recursive Value decoder (Model/C20_Sbor.v) and the traverser
   stack machine (Model/C21_Traverser.v): accept direction, reject direction, totality. *)
From Coq Require Import List NArith ZArith Bool Lia.
Import ListNotations.
Require Import RV.Lib.Utf8 RV.Model.C20_Sbor RV.Model.C21_Traverser RV.Proof.C20_Base RV.Proof.C20_Codec RV.Proof.C20_Sbor RV.Proof.C20_Top.
Open Scope N_scope.

Arguments N.add : simpl never. Arguments N.sub : simpl never. Arguments N.mul : simpl never.
Arguments N.eqb : simpl never. Arguments N.ltb : simpl never. Arguments N.leb : simpl never.
Arguments N.even : simpl never.

Section Sim.
Variable fl : flavour.
Variable cfg : tconfig.
Notation md := (c_md cfg).
Notation stepc := (step fl cfg).
Notation rvb := (read_value_body fl cfg).
Notation rv := (read_value fl cfg).

Definition mk (a : action) (S : list ancestor) (st : bytes) : tstate :=
  {| t_act := a; t_stack := S; t_in := st |}.
Definition anc (h : header) (s i : N) : ancestor := {| a_hdr := h; a_start := s; a_idx := i |}.

(* n non-final steps *)
Fixpoint steps (n : nat) (s : tstate) : option tstate :=
  match n with
  | O => Some s
  | S n' => match stepc s with
            | TStep e s' => if is_final (l_ev e) then None else steps n' s'
            | TPanic => None
            end
  end.

Lemma steps_app : forall n m s s1, steps n s = Some s1 -> steps (n + m) s = steps m s1.
Proof.
  induction n as [|n IH]; intros m s s1 H; cbn [steps plus] in *.
  - inversion H. reflexivity.
  - destruct (stepc s) as [e s'|]; [|discriminate]. destruct (is_final (l_ev e)); [discriminate|].
    apply IH. exact H.
Qed.

Definition ReachOut (t : tout) (n : nat) (target : tstate) : Prop :=
  exists e s', t = TStep e s' /\ is_final (l_ev e) = false /\ steps n s' = Some target.

Definition is_uf (e : dec_err) : bool := match e with BufferUnderflow _ _ => true | _ => false end.
Definition err_ok (e e' : dec_err) : Prop :=
  e' = e \/ e' = MaxDepthExceeded md \/ (is_uf e = true /\ is_uf e' = true).

(* an error event within b steps *)
Definition Fail (s : tstate) (b : nat) (e : dec_err) : Prop :=
  exists n s1 ev s2 e', steps n s = Some s1 /\ stepc s1 = TStep ev s2 /\ l_ev ev = EvError e' /\
                        err_ok e e' /\ (n + 1 <= b)%nat.
Definition FailOut (t : tout) (b : nat) (e : dec_err) : Prop :=
  (exists ev s' e', t = TStep ev s' /\ l_ev ev = EvError e' /\ err_ok e e' /\ (1 <= b)%nat) \/
  (exists ev s' b', t = TStep ev s' /\ is_final (l_ev ev) = false /\ Fail s' b' e /\ (b' + 1 <= b)%nat).

Lemma steps_S : forall s t n target, stepc s = t -> ReachOut t n target -> steps (S n) s = Some target.
Proof. intros s t n target H [e [s' [E [F R]]]]. cbn [steps]. rewrite H, E, F. exact R. Qed.
Lemma Fail_S : forall s t b e, stepc s = t -> FailOut t b e -> Fail s b e.
Proof.
  intros s t b e H [[ev [s' [e' [E [L [Oe B]]]]]]|[ev [s' [b' [E [F [[n [s1 [ev2 [s2 [e' [R [St [L [Oe B']]]]]]]]] B]]]]]]].
  - exists O, s, ev, s', e'. cbn [steps]. rewrite H. repeat split; assumption.
  - exists (S n), s1, ev2, s2, e'. cbn [steps]. rewrite H, E, F. repeat split; try assumption. lia.
Qed.
Lemma Fail_steps : forall n s s1 b e, steps n s = Some s1 -> Fail s1 b e -> Fail s (n + b) e.
Proof.
  intros n s s1 b e R [m [s2 [ev [s3 [e' [R2 [St [L [Oe B]]]]]]]]].
  exists (n + m)%nat, s2, ev, s3, e'. rewrite (steps_app n m s s1 R). repeat split; try assumption. lia.
Qed.
Lemma Fail_mono : forall s b b' e, Fail s b e -> (b <= b')%nat -> Fail s b' e.
Proof. intros s b b' e [n [s1 [ev [s2 [e' [R [St [L [Oe B]]]]]]]]] H. exists n, s1, ev, s2, e'. repeat split; try assumption. lia. Qed.
Lemma FailOut_mono : forall t b b' e, FailOut t b e -> (b <= b')%nat -> FailOut t b' e.
Proof.
  intros t b b' e [[ev [s' [e' [E [L [Oe B]]]]]]|[ev [s' [b0 [E [F [Fl B]]]]]]] H.
  - left. exists ev, s', e'. repeat split; try assumption. lia.
  - right. exists ev, s', b0. repeat split; try assumption. lia.
Qed.
Lemma ReachOut_Fail : forall t n s1 b e, ReachOut t n s1 -> Fail s1 b e -> FailOut t (n + b + 1) e.
Proof.
  intros t n s1 b e [ev [s' [E [F R]]]] Fl. right. exists ev, s', (n + b)%nat. repeat split; try assumption.
  - eapply Fail_steps; eassumption.
  - lia.
Qed.
Lemma ReachOut_steps : forall t n s1 m s2, ReachOut t n s1 -> steps m s1 = Some s2 -> ReachOut t (n + m) s2.
Proof.
  intros t n s1 m s2 [ev [s' [E [F R]]]] R2. exists ev, s'. repeat split; try assumption.
  rewrite (steps_app n m s' s1 R). exact R2.
Qed.

Lemma err_ok_refl : forall e, err_ok e e.
Proof. intro e. left. reflexivity. Qed.

(* shape of `complete` *)
Lemma complete_reach : forall ev start S st next, is_final ev = false ->
  ReachOut (complete cfg ev start S st next) 0 (mk next S st).
Proof. intros. eexists _, _. split; [reflexivity|]. split; [assumption|reflexivity]. Qed.
Lemma complete_reach_steps : forall ev start S st next m t, is_final ev = false ->
  steps m (mk next S st) = Some t -> ReachOut (complete cfg ev start S st next) m t.
Proof. intros. eexists _, _. split; [reflexivity|]. split; assumption. Qed.
Lemma complete_err_fail : forall e e' start S st b, err_ok e e' -> (1 <= b)%nat ->
  FailOut (complete_err cfg e' start S st) b e.
Proof. intros. left. eexists _, _, e'. split; [reflexivity|]. repeat split; assumption. Qed.

(* ------------------------------------------------------------------------------------------ *)
(* terminal kinds: the body decoder does not depend on fuel / depth                            *)
Lemma leaf_fuel_indep : forall f m d k st, is_container k = false ->
  dec_body fl (S f) m d k st = dec_body fl 1 0 0 k st.
Proof. intros f m d k st C. rewrite !dec_body_S. destruct k; try discriminate C; reflexivity. Qed.

Lemma nlen_cons' : forall (a : ancestor) S, nlen (a :: S) = nlen S + 1.
Proof. intros. apply nlen_cons. Qed.

Definition resolve (ek : option vkind) (st : bytes) : dres (vkind * bytes) :=
  match ek with Some k => Ok (k, st) | None => read_value_kind fl st end.
Lemma dec_elems_S' : forall f m d ek n st, dec_elems fl (S f) m d ek n st =
  if n =? 0 then Ok ([], st) else
  '(v, st) <- ('(k, st) <- resolve ek st ;; dec_deeper fl f m d k st) ;;
  '(vs, st) <- dec_elems fl f m d ek (n - 1) st ;; Ok (v :: vs, st).
Proof. intros. rewrite dec_elems_S. destruct ek; reflexivity. Qed.

Lemma resolve_len : forall ek st k st', resolve ek st = Ok (k, st') ->
  (length st' <= length st)%nat /\ ((forall k0, ek = Some k0 -> kind_ok fl k0 = true) -> kind_ok fl k = true).
Proof.
  intros ek st k st' H. destruct ek as [k0|]; cbn [resolve] in H.
  - inversion H; subst. split; [lia|]. intro Hk. apply Hk. reflexivity.
  - apply read_value_kind_len in H. destruct H as [L K]. split; [lia|]. intros _. exact K.
Qed.

(* ------------------------------------------------------------------------------------------ *)
(* byte arrays: the element-wise decoder and the batch read agree                              *)
Lemma take_zero : forall l, take 0 l = Some ([], l).
Proof. destruct l; reflexivity. Qed.
Lemma take_succ : forall n b l, n <> 0 -> take n (b :: l) =
  match take (n - 1) l with Some (a, r) => Some (b :: a, r) | None => None end.
Proof. intros n b l H. cbn [take]. replace (n =? 0) with false by (symmetry; apply N.eqb_neq; exact H). reflexivity. Qed.

Lemma u8_elems_ok : forall f m d n st vs rest,
  dec_elems fl f m d (Some (KInt U8)) n st = Ok (vs, rest) -> exists b, read_slice n st = Ok (b, rest).
Proof.
  induction f as [|f IH]; intros m d n st vs rest D; [discriminate|].
  rewrite dec_elems_S in D. destruct (n =? 0) eqn:N0.
  - apply N.eqb_eq in N0. subst n. inversion D; subst. exists []. unfold read_slice. rewrite take_zero. reflexivity.
  - apply N.eqb_neq in N0.
    destruct (dec_deeper fl f m d (KInt U8) st) as [[v st1]| | |] eqn:D1; cbn [bind] in D; try discriminate.
    destruct (dec_elems fl f m d (Some (KInt U8)) (n - 1) st1) as [[vs' st2]| | |] eqn:D2; cbn [bind] in D; try discriminate.
    inversion D; subst. unfold dec_deeper in D1. destruct (m <? d + 1); [discriminate|].
    destruct f as [|f]; [discriminate|]. rewrite dec_body_S in D1. cbn [ikind_bytes] in D1.
    destruct (read_slice 1 st) as [[s st1']| | |] eqn:S1; cbn [bind] in D1; try discriminate. inversion D1; subst.
    apply read_slice_ok in S1. destruct S1 as [E L]. destruct s as [|b [|b2 s]]; try (rewrite ?nlen_nil, ?nlen_cons in L; lia).
    subst st. apply IH in D2. destruct D2 as [bs R]. unfold read_slice in *. cbn [app]. rewrite take_succ by exact N0.
    destruct (take (n - 1) st1) as [[a r]|]; [|discriminate]. inversion R; subst. eexists. reflexivity.
Qed.

Lemma u8_elems_err : forall f m d n st e, d + 1 <= m ->
  dec_elems fl f m d (Some (KInt U8)) n st = Err e ->
  is_uf e = true /\ exists e', read_slice n st = Err e' /\ is_uf e' = true.
Proof.
  induction f as [|f IH]; intros m d n st e Hd D; [discriminate|].
  rewrite dec_elems_S in D. destruct (n =? 0) eqn:N0; [discriminate|]. apply N.eqb_neq in N0.
  unfold dec_deeper in D. replace (m <? d + 1) with false in D by (symmetry; apply N.ltb_ge; exact Hd).
  destruct f as [|f]; [discriminate|]. rewrite dec_body_S in D. cbn [ikind_bytes] in D.
  unfold read_slice in D at 1. destruct st as [|b st'].
  - cbn [take] in D. cbn [bind] in D. inversion D; subst. split; [reflexivity|].
    unfold read_slice. cbn [take]. replace (n =? 0) with false by (symmetry; apply N.eqb_neq; exact N0).
    eexists. split; reflexivity.
  - rewrite take_succ in D by lia. change (1 - 1) with 0 in D. rewrite take_zero in D. cbn [bind] in D.
    destruct (dec_elems fl (S f) m d (Some (KInt U8)) (n - 1) st') as [[vs' st2]| | |] eqn:D2; cbn [bind] in D; try discriminate.
    inversion D; subst. apply IH in D2; [|exact Hd]. destruct D2 as [U [e' [R U']]]. split; [exact U|].
    unfold read_slice in *. rewrite take_succ by exact N0. destruct (take (n - 1) st') as [[a r]|] eqn:T; [discriminate|].
    eexists. split; reflexivity.
Qed.

(* ------------------------------------------------------------------------------------------ *)
(* unfolding the machine                                                                       *)
Lemma step_next_end : forall h cs i Sk st, child_count h <= i + 1 ->
  stepc (mk ANextChild (anc h cs i :: Sk) st) = complete cfg (EvContainerEnd h) cs Sk st ANextChild.
Proof.
  intros. unfold step, mk, anc. cbn [t_act t_stack t_in a_idx a_hdr a_start].
  replace (child_count h <=? i + 1) with true by (symmetry; apply N.leb_le; assumption). reflexivity.
Qed.
Lemma step_next_child : forall h cs i Sk st, i + 1 < child_count h ->
  stepc (mk ANextChild (anc h cs i :: Sk) st) = rv (implicit_kind h (i + 1)) (anc h cs (i + 1) :: Sk) st.
Proof.
  intros. unfold step, mk, anc. cbn [t_act t_stack t_in a_idx a_hdr a_start].
  replace (child_count h <=? i + 1) with false by (symmetry; apply N.leb_gt; assumption). reflexivity.
Qed.
Lemma step_cs_empty : forall h cs Sk st, child_count h = 0 ->
  stepc (mk (AContainerStart h cs) Sk st) = complete cfg (EvContainerEnd h) cs Sk st ANextChild.
Proof. intros h cs Sk st H. unfold step, mk. cbn [t_act t_stack t_in]. rewrite H. reflexivity. Qed.
Lemma step_cs_depth : forall h cs Sk st, child_count h <> 0 -> md <= nlen Sk + 1 ->
  stepc (mk (AContainerStart h cs) Sk st) =
  complete_err cfg (MaxDepthExceeded md) (offset cfg st) (anc h cs 0 :: Sk) st.
Proof.
  intros h cs Sk st H D. unfold step, mk. cbn [t_act t_stack t_in].
  replace (child_count h =? 0) with false by (symmetry; apply N.eqb_neq; assumption).
  rewrite nlen_cons. replace (md <=? nlen Sk + 1) with true by (symmetry; apply N.leb_le; assumption). reflexivity.
Qed.
Lemma step_cs_child : forall h cs Sk st, child_count h <> 0 -> nlen Sk + 1 < md -> is_u8_array h = false ->
  stepc (mk (AContainerStart h cs) Sk st) = rv (implicit_kind h 0) (anc h cs 0 :: Sk) st.
Proof.
  intros h cs Sk st H D U. unfold step, mk. cbn [t_act t_stack t_in].
  replace (child_count h =? 0) with false by (symmetry; apply N.eqb_neq; assumption).
  rewrite nlen_cons. replace (md <=? nlen Sk + 1) with false by (symmetry; apply N.leb_gt; assumption).
  rewrite U. reflexivity.
Qed.
Lemma step_cs_batch : forall h cs Sk st, child_count h <> 0 -> nlen Sk + 1 < md -> is_u8_array h = true ->
  stepc (mk (AContainerStart h cs) Sk st) =
  match read_slice (child_count h) st with
  | Ok (b, st') => complete cfg (EvBatch b) (offset cfg st) (anc h cs (child_count h - 1) :: Sk) st' ANextChild
  | Err e => complete_err cfg e (offset cfg st) (anc h cs (child_count h - 1) :: Sk) st
  | _ => TPanic
  end.
Proof.
  intros h cs Sk st H D U. unfold step, mk. cbn [t_act t_stack t_in].
  replace (child_count h =? 0) with false by (symmetry; apply N.eqb_neq; assumption).
  rewrite nlen_cons. replace (md <=? nlen Sk + 1) with false by (symmetry; apply N.leb_gt; assumption).
  rewrite U. reflexivity.
Qed.
Lemma u8_array_inv : forall h ek, is_u8_array h = true -> (forall j, implicit_kind h j = ek) ->
  ek = Some (KInt U8) /\ exists l, h = HArray (KInt U8) l.
Proof.
  intros h ek U C. destruct h as [l|v l|k l|k1 k2 l]; try discriminate U.
  destruct k as [|i| | | | | |c]; try discriminate U. destruct i; try discriminate U.
  specialize (C 0). cbn in C. split; [symmetry; exact C|]. exists l. reflexivity.
Qed.

(* ------------------------------------------------------------------------------------------ *)
(* accept direction                                                                            *)
Definition SVB (f : nat) : Prop := forall k Sk st v rest start, kind_ok fl k = true -> nlen Sk + 1 <= md ->
  dec_body fl f md (nlen Sk + 1) k st = Ok (v, rest) ->
  exists n, ReachOut (rvb k start Sk st) n (mk ANextChild Sk rest) /\
            (S n + 2 * length rest <= 2 * length st)%nat.
Definition SE (f : nat) : Prop := forall ek n st vs rest h cs i Sk,
  dec_elems fl f md (nlen Sk + 1) ek n st = Ok (vs, rest) ->
  child_count h = i + 1 + n -> (forall j, implicit_kind h j = ek) ->
  (forall k, ek = Some k -> kind_ok fl k = true) ->
  exists m, steps m (mk ANextChild (anc h cs i :: Sk) st) = Some (mk ANextChild Sk rest) /\
            (m + 2 * length rest <= 2 * length st + 1)%nat.
Definition SC (f : nat) : Prop := forall ek n st vs rest h cs Sk,
  dec_elems fl f md (nlen Sk + 1) ek n st = Ok (vs, rest) ->
  child_count h = n -> (forall j, implicit_kind h j = ek) ->
  (forall k, ek = Some k -> kind_ok fl k = true) ->
  exists m, steps m (mk (AContainerStart h cs) Sk st) = Some (mk ANextChild Sk rest) /\
            (m + 2 * length rest <= 2 * length st + 1)%nat.
Definition SM (f : nat) : Prop := forall kk vk n st es rest len cs i Sk,
  dec_entries fl f md (nlen Sk + 1) kk vk n st = Ok (es, rest) ->
  len * 2 = i + 1 + 2 * n -> N.even i = false -> kind_ok fl kk = true -> kind_ok fl vk = true ->
  exists m, steps m (mk ANextChild (anc (HMap kk vk len) cs i :: Sk) st) = Some (mk ANextChild Sk rest) /\
            (m + 2 * length rest <= 2 * length st + 1)%nat.
Definition SCM (f : nat) : Prop := forall kk vk n st es rest cs Sk,
  dec_entries fl f md (nlen Sk + 1) kk vk n st = Ok (es, rest) ->
  kind_ok fl kk = true -> kind_ok fl vk = true ->
  exists m, steps m (mk (AContainerStart (HMap kk vk n) cs) Sk st) = Some (mk ANextChild Sk rest) /\
            (m + 2 * length rest <= 2 * length st + 1)%nat.

Lemma SV_of : forall f, SVB f -> forall ek k Sk st st' v rest,
  resolve ek st = Ok (k, st') -> (forall k0, ek = Some k0 -> kind_ok fl k0 = true) -> nlen Sk + 1 <= md ->
  dec_body fl f md (nlen Sk + 1) k st' = Ok (v, rest) ->
  exists n, ReachOut (rv ek Sk st) n (mk ANextChild Sk rest) /\ (S n + 2 * length rest <= 2 * length st)%nat.
Proof.
  intros f H ek k Sk st st' v rest R Hk Hd D. destruct (resolve_len _ _ _ _ R) as [L K]. specialize (K Hk).
  unfold read_value. destruct ek as [k0|]; cbn [resolve] in R.
  - inversion R; subst. eapply H; eassumption.
  - rewrite R. destruct (H k Sk st' v rest (offset cfg st) K Hd D) as [n [RO B]]. exists n. split; [exact RO|lia].
Qed.

(* a successful dec_deeper = passed depth check + body *)
Lemma deeper_ok : forall f d k st v rest, dec_deeper fl f md d k st = Ok (v, rest) ->
  d + 1 <= md /\ dec_body fl f md (d + 1) k st = Ok (v, rest).
Proof.
  intros f d k st v rest D. unfold dec_deeper in D. destruct (md <? d + 1) eqn:C; [discriminate|].
  apply N.ltb_ge in C. split; assumption.
Qed.

Lemma SE_step : forall f, SVB f -> SE f -> SE (S f).
Proof.
  intros f HV HE ek n st vs rest h cs i Sk D Hc Hi Hk. rewrite dec_elems_S' in D.
  destruct (n =? 0) eqn:N0.
  - apply N.eqb_eq in N0. subst n. inversion D; subst. exists 1%nat. split; [|lia].
    cbn [steps]. rewrite step_next_end by lia. reflexivity.
  - apply N.eqb_neq in N0.
    destruct (resolve ek st) as [[k st']| | |] eqn:R; cbn [bind] in D; try discriminate.
    destruct (dec_deeper fl f md (nlen Sk + 1) k st') as [[v st1]| | |] eqn:D1; cbn [bind] in D; try discriminate.
    destruct (dec_elems fl f md (nlen Sk + 1) ek (n - 1) st1) as [[vs' st2]| | |] eqn:D2; cbn [bind] in D; try discriminate.
    inversion D; subst vs rest. clear D.
    apply deeper_ok in D1. destruct D1 as [Dd D1].
    destruct (SV_of f HV ek k (anc h cs (i + 1) :: Sk) st st' v st1 R Hk) as [n1 [RO B1]];
      [rewrite nlen_cons; lia|rewrite nlen_cons; exact D1|].
    destruct (HE ek (n - 1) st1 vs' st2 h cs (i + 1) Sk D2) as [m2 [R2 B2]]; [lia|exact Hi|exact Hk|].
    exists (S n1 + m2)%nat. split; [|lia].
    rewrite (steps_app (S n1) m2 _ (mk ANextChild (anc h cs (i + 1) :: Sk) st1)); [exact R2|].
    eapply steps_S; [apply step_next_child; lia|]. rewrite Hi. exact RO.
Qed.

Lemma SC_step : forall f, SVB f -> SE f -> SC (S f).
Proof.
  intros f HV HE ek n st vs rest h cs Sk D Hc Hi Hk.
  destruct (N.eq_dec n 0) as [N0|N0].
  - rewrite dec_elems_S', N0 in D. change (0 =? 0) with true in D. cbv iota in D. inversion D; subst vs rest.
    exists 1%nat. split; [|lia]. cbn [steps]. rewrite step_cs_empty by (rewrite Hc; exact N0). reflexivity.
  - destruct (is_u8_array h) eqn:U.
    + destruct (u8_array_inv h ek U Hi) as [Eek [l Eh]]. subst ek h. cbn [child_count] in Hc. subst l.
      assert (Dd : nlen Sk + 1 + 1 <= md).
      { rewrite dec_elems_S' in D. replace (n =? 0) with false in D by (symmetry; apply N.eqb_neq; exact N0).
        cbn [resolve bind] in D. destruct (dec_deeper fl f md (nlen Sk + 1) (KInt U8) st) as [[v st1]| | |] eqn:D1; cbn [bind] in D; try discriminate.
        apply deeper_ok in D1. tauto. }
      destruct (u8_elems_ok _ _ _ _ _ _ _ D) as [b R].
      assert (L := read_slice_len _ _ _ _ R).
      exists 2%nat. split; [|lia]. cbn [steps].
      rewrite step_cs_batch by (cbn [child_count is_u8_array]; try lia; reflexivity). cbn [child_count]. rewrite R.
      unfold complete. cbn [l_ev is_final]. fold (mk ANextChild (anc (HArray (KInt U8) n) cs (n - 1) :: Sk) rest).
      rewrite step_next_end by (cbn [child_count]; lia). reflexivity.
    + rewrite dec_elems_S' in D. replace (n =? 0) with false in D by (symmetry; apply N.eqb_neq; exact N0).
      destruct (resolve ek st) as [[k st']| | |] eqn:R; cbn [bind] in D; try discriminate.
      destruct (dec_deeper fl f md (nlen Sk + 1) k st') as [[v st1]| | |] eqn:D1; cbn [bind] in D; try discriminate.
      destruct (dec_elems fl f md (nlen Sk + 1) ek (n - 1) st1) as [[vs' st2]| | |] eqn:D2; cbn [bind] in D; try discriminate.
      inversion D; subst vs rest. clear D.
      apply deeper_ok in D1. destruct D1 as [Dd D1].
      destruct (SV_of f HV ek k (anc h cs 0 :: Sk) st st' v st1 R Hk) as [n1 [RO B1]];
        [rewrite nlen_cons; lia|rewrite nlen_cons; exact D1|].
      destruct (HE ek (n - 1) st1 vs' st2 h cs 0 Sk D2) as [m2 [R2 B2]]; [lia|exact Hi|exact Hk|].
      exists (S n1 + m2)%nat. split; [|lia].
      rewrite (steps_app (S n1) m2 _ (mk ANextChild (anc h cs 0 :: Sk) st1)); [exact R2|].
      eapply steps_S; [apply step_cs_child; try lia; exact U|]. rewrite Hi. exact RO.
Qed.

Lemma even_p1 : forall i, N.even (i + 1) = negb (N.even i).
Proof. intro i. rewrite N.add_1_r, N.even_succ, <- N.negb_even. reflexivity. Qed.

Lemma SM_step : forall f, SVB f -> SM f -> SM (S f).
Proof.
  intros f HV HM kk vk n st es rest len cs i Sk D Hc Hev Hkk Hvk. rewrite dec_entries_S in D.
  destruct (n =? 0) eqn:N0.
  - apply N.eqb_eq in N0. subst n. inversion D; subst. exists 1%nat. split; [|lia].
    cbn [steps]. rewrite step_next_end by (cbn [child_count]; lia). reflexivity.
  - apply N.eqb_neq in N0.
    destruct (dec_deeper fl f md (nlen Sk + 1) kk st) as [[k st1]| | |] eqn:D1; cbn [bind] in D; try discriminate.
    destruct (dec_deeper fl f md (nlen Sk + 1) vk st1) as [[x st2]| | |] eqn:D2; cbn [bind] in D; try discriminate.
    destruct (dec_entries fl f md (nlen Sk + 1) kk vk (n - 1) st2) as [[es' st3]| | |] eqn:D3; cbn [bind] in D; try discriminate.
    inversion D; subst es rest. clear D.
    apply deeper_ok in D1. destruct D1 as [Dd D1]. apply deeper_ok in D2. destruct D2 as [_ D2].
    set (h := HMap kk vk len) in *.
    destruct (SV_of f HV (Some kk) kk (anc h cs (i + 1) :: Sk) st st k st1 eq_refl) as [n1 [RO1 B1]];
      [intros k0 E0; inversion E0; subst; exact Hkk|rewrite nlen_cons; lia|rewrite nlen_cons; exact D1|].
    destruct (SV_of f HV (Some vk) vk (anc h cs (i + 1 + 1) :: Sk) st1 st1 x st2 eq_refl) as [n2 [RO2 B2]];
      [intros k0 E0; inversion E0; subst; exact Hvk|rewrite nlen_cons; lia|rewrite nlen_cons; exact D2|].
    destruct (HM kk vk (n - 1) st2 es' st3 len cs (i + 1 + 1) Sk D3) as [m3 [R3 B3]];
      [lia|rewrite !even_p1, Hev; reflexivity|exact Hkk|exact Hvk|].
    exists (S n1 + (S n2 + m3))%nat. split; [|lia].
    rewrite (steps_app (S n1) _ _ (mk ANextChild (anc h cs (i + 1) :: Sk) st1)).
    2:{ eapply steps_S; [apply step_next_child; unfold h; cbn [child_count]; lia|].
        unfold h; cbn [implicit_kind]; fold h. rewrite even_p1, Hev. exact RO1. }
    rewrite (steps_app (S n2) _ _ (mk ANextChild (anc h cs (i + 1 + 1) :: Sk) st2)); [exact R3|].
    eapply steps_S; [apply step_next_child; unfold h; cbn [child_count]; lia|].
    unfold h; cbn [implicit_kind]; fold h. rewrite !even_p1, Hev. exact RO2.
Qed.

Lemma SCM_step : forall f, SVB f -> SM f -> SCM (S f).
Proof.
  intros f HV HM kk vk n st es rest cs Sk D Hkk Hvk. rewrite dec_entries_S in D.
  destruct (n =? 0) eqn:N0.
  - apply N.eqb_eq in N0. subst n. inversion D; subst. exists 1%nat. split; [|lia].
    cbn [steps]. rewrite step_cs_empty by reflexivity. reflexivity.
  - apply N.eqb_neq in N0.
    destruct (dec_deeper fl f md (nlen Sk + 1) kk st) as [[k st1]| | |] eqn:D1; cbn [bind] in D; try discriminate.
    destruct (dec_deeper fl f md (nlen Sk + 1) vk st1) as [[x st2]| | |] eqn:D2; cbn [bind] in D; try discriminate.
    destruct (dec_entries fl f md (nlen Sk + 1) kk vk (n - 1) st2) as [[es' st3]| | |] eqn:D3; cbn [bind] in D; try discriminate.
    inversion D; subst es rest. clear D.
    apply deeper_ok in D1. destruct D1 as [Dd D1]. apply deeper_ok in D2. destruct D2 as [_ D2].
    set (h := HMap kk vk n) in *.
    destruct (SV_of f HV (Some kk) kk (anc h cs 0 :: Sk) st st k st1 eq_refl) as [n1 [RO1 B1]];
      [intros k0 E0; inversion E0; subst; exact Hkk|rewrite nlen_cons; lia|rewrite nlen_cons; exact D1|].
    destruct (SV_of f HV (Some vk) vk (anc h cs (0 + 1) :: Sk) st1 st1 x st2 eq_refl) as [n2 [RO2 B2]];
      [intros k0 E0; inversion E0; subst; exact Hvk|rewrite nlen_cons; lia|rewrite nlen_cons; exact D2|].
    destruct (HM kk vk (n - 1) st2 es' st3 n cs (0 + 1) Sk D3) as [m3 [R3 B3]];
      [lia|reflexivity|exact Hkk|exact Hvk|].
    exists (S n1 + (S n2 + m3))%nat. split; [|lia].
    rewrite (steps_app (S n1) _ _ (mk ANextChild (anc h cs 0 :: Sk) st1)).
    2:{ eapply steps_S; [apply step_cs_child; unfold h; cbn [child_count is_u8_array]; try lia; reflexivity|]. exact RO1. }
    rewrite (steps_app (S n2) _ _ (mk ANextChild (anc h cs (0 + 1) :: Sk) st2)); [exact R3|].
    eapply steps_S; [apply step_next_child; unfold h; cbn [child_count]; lia|]. exact RO2.
Qed.

Lemma SVB_step : forall f, SC f -> SCM f -> SVB (S f).
Proof.
  intros f HC HCM k Sk st v rest start Hk Hd D.
  destruct (is_container k) eqn:C.
  2:{ (* terminal *)
    assert (T := proj1 (T_all fl (S f)) md (nlen Sk + 1) k st Hk). rewrite D in T. cbn [Tres] in T.
    rewrite leaf_fuel_indep in D by exact C.
    exists O. split; [|lia]. unfold read_value_body.
    destruct k; try discriminate C; rewrite D; apply complete_reach; reflexivity. }
  rewrite dec_body_S in D. destruct k; try discriminate C; unfold read_value_body.
  - (* Enum *)
    destruct st as [|disc st']; cbn [read_byte bind] in D |- *; [discriminate|].
    destruct (read_size st') as [[n st1]| | |] eqn:R; cbn [bind] in D |- *; try discriminate.
    destruct (dec_elems fl f md (nlen Sk + 1) None n st1) as [[fs st2]| | |] eqn:DE; cbn [bind] in D; try discriminate.
    inversion D; subst v rest. clear D. apply read_size_consumes in R.
    destruct (HC None n st1 fs st2 (HEnum disc n) start Sk DE eq_refl) as [m [RS B]]; [reflexivity|discriminate|].
    exists m. split; [|cbn [length]; lia].
    apply complete_reach_steps; [reflexivity|exact RS].
  - (* Array *)
    destruct (read_value_kind fl st) as [[ek st0]| | |] eqn:RK; cbn [bind] in D |- *; try discriminate.
    apply read_value_kind_len in RK. destruct RK as [L Hek].
    destruct (read_size st0) as [[n st1]| | |] eqn:R; cbn [bind] in D |- *; try discriminate.
    destruct (dec_elems fl f md (nlen Sk + 1) (Some ek) n st1) as [[fs st2]| | |] eqn:DE; cbn [bind] in D; try discriminate.
    inversion D; subst v rest. clear D. apply read_size_consumes in R.
    destruct (HC (Some ek) n st1 fs st2 (HArray ek n) start Sk DE eq_refl) as [m [RS B]];
      [reflexivity|intros k0 E0; inversion E0; subst; exact Hek|].
    exists m. split; [|lia].
    apply complete_reach_steps; [reflexivity|exact RS].
  - (* Tuple *)
    destruct (read_size st) as [[n st1]| | |] eqn:R; cbn [bind] in D |- *; try discriminate.
    destruct (dec_elems fl f md (nlen Sk + 1) None n st1) as [[fs st2]| | |] eqn:DE; cbn [bind] in D; try discriminate.
    inversion D; subst v rest. clear D. apply read_size_consumes in R.
    destruct (HC None n st1 fs st2 (HTuple n) start Sk DE eq_refl) as [m [RS B]]; [reflexivity|discriminate|].
    exists m. split; [|lia].
    apply complete_reach_steps; [reflexivity|exact RS].
  - (* Map *)
    destruct (read_value_kind fl st) as [[kk st0]| | |] eqn:RK; cbn [bind] in D |- *; try discriminate.
    apply read_value_kind_len in RK. destruct RK as [L Hkk].
    destruct (read_value_kind fl st0) as [[vk st0']| | |] eqn:RV; cbn [bind] in D |- *; try discriminate.
    apply read_value_kind_len in RV. destruct RV as [L' Hvk].
    destruct (read_size st0') as [[n st1]| | |] eqn:R; cbn [bind] in D |- *; try discriminate.
    destruct (dec_entries fl f md (nlen Sk + 1) kk vk n st1) as [[es st2]| | |] eqn:DE; cbn [bind] in D; try discriminate.
    inversion D; subst v rest. clear D. apply read_size_consumes in R.
    destruct (HCM kk vk n st1 es st2 start Sk DE Hkk Hvk) as [m [RS B]].
    exists m. split; [|lia].
    apply complete_reach_steps; [reflexivity|exact RS].
Qed.

Lemma S_all : forall f, SVB f /\ SE f /\ SC f /\ SM f /\ SCM f.
Proof.
  induction f as [|f [IV [IE [IC [IM ICM]]]]].
  - repeat split; repeat intro; discriminate.
  - split; [apply SVB_step; assumption|]. split; [apply SE_step; assumption|].
    split; [apply SC_step; assumption|]. split; [apply SM_step; assumption|apply SCM_step; assumption].
Qed.

(* ------------------------------------------------------------------------------------------ *)
(* reject direction                                                                            *)
Definition RVB (f : nat) : Prop := forall k Sk st e start, kind_ok fl k = true -> nlen Sk + 1 <= md ->
  dec_body fl f md (nlen Sk + 1) k st = Err e -> FailOut (rvb k start Sk st) (2 * length st + 1) e.
Definition RE (f : nat) : Prop := forall ek n st e h cs i Sk,
  dec_elems fl f md (nlen Sk + 1) ek n st = Err e ->
  child_count h = i + 1 + n -> (forall j, implicit_kind h j = ek) ->
  (forall k, ek = Some k -> kind_ok fl k = true) -> nlen Sk + 2 <= md ->
  Fail (mk ANextChild (anc h cs i :: Sk) st) (2 * length st + 1) e.
Definition RC (f : nat) : Prop := forall ek n st e h cs Sk,
  dec_elems fl f md (nlen Sk + 1) ek n st = Err e ->
  child_count h = n -> (forall j, implicit_kind h j = ek) ->
  (forall k, ek = Some k -> kind_ok fl k = true) -> nlen Sk + 1 <= md ->
  Fail (mk (AContainerStart h cs) Sk st) (2 * length st + 2) e.
Definition RM (f : nat) : Prop := forall kk vk n st e len cs i Sk,
  dec_entries fl f md (nlen Sk + 1) kk vk n st = Err e ->
  len * 2 = i + 1 + 2 * n -> N.even i = false -> kind_ok fl kk = true -> kind_ok fl vk = true ->
  nlen Sk + 2 <= md ->
  Fail (mk ANextChild (anc (HMap kk vk len) cs i :: Sk) st) (2 * length st + 1) e.
Definition RCM (f : nat) : Prop := forall kk vk n st e cs Sk,
  dec_entries fl f md (nlen Sk + 1) kk vk n st = Err e ->
  kind_ok fl kk = true -> kind_ok fl vk = true -> nlen Sk + 1 <= md ->
  Fail (mk (AContainerStart (HMap kk vk n) cs) Sk st) (2 * length st + 2) e.

Lemma RV_res_err : forall ek Sk st e b, resolve ek st = Err e -> (1 <= b)%nat -> FailOut (rv ek Sk st) b e.
Proof.
  intros ek Sk st e b R B. destruct ek as [k|]; cbn [resolve] in R; [discriminate|].
  unfold read_value. rewrite R. apply complete_err_fail; [apply err_ok_refl|exact B].
Qed.
Lemma RV_of : forall f, RVB f -> forall ek k Sk st st' e,
  resolve ek st = Ok (k, st') -> (forall k0, ek = Some k0 -> kind_ok fl k0 = true) -> nlen Sk + 1 <= md ->
  dec_body fl f md (nlen Sk + 1) k st' = Err e -> FailOut (rv ek Sk st) (2 * length st + 1) e.
Proof.
  intros f H ek k Sk st st' e R Hk Hd D. destruct (resolve_len _ _ _ _ R) as [L K]. specialize (K Hk).
  unfold read_value. destruct ek as [k0|]; cbn [resolve] in R.
  - inversion R; subst. eapply H; eassumption.
  - rewrite R. eapply FailOut_mono; [eapply H; eassumption|lia].
Qed.

(* a failing dec_deeper, when the depth check passes, is a failing body *)
Lemma deeper_err : forall f d k st e, d + 1 <= md -> dec_deeper fl f md d k st = Err e ->
  dec_body fl f md (d + 1) k st = Err e.
Proof.
  intros f d k st e Hd D. unfold dec_deeper in D.
  replace (md <? d + 1) with false in D by (symmetry; apply N.ltb_ge; exact Hd). exact D.
Qed.

Lemma RE_step : forall f, SVB f -> RVB f -> RE f -> RE (S f).
Proof.
  intros f HS HV HE ek n st e h cs i Sk D Hc Hi Hk Hd. rewrite dec_elems_S' in D.
  destruct (n =? 0) eqn:N0; [discriminate|]. apply N.eqb_neq in N0.
  assert (St : stepc (mk ANextChild (anc h cs i :: Sk) st) = rv ek (anc h cs (i + 1) :: Sk) st).
  { rewrite step_next_child by lia. rewrite Hi. reflexivity. }
  destruct (resolve ek st) as [[k st']|e0| |] eqn:R; cbn [bind] in D; try discriminate.
  2:{ inversion D; subst e0. eapply Fail_S; [exact St|]. apply RV_res_err; [exact R|lia]. }
  destruct (dec_deeper fl f md (nlen Sk + 1) k st') as [[v st1]|e0| |] eqn:D1; cbn [bind] in D; try discriminate.
  2:{ inversion D; subst e0. apply deeper_err in D1; [|lia].
      eapply Fail_S; [exact St|]. eapply RV_of; try eassumption; rewrite nlen_cons; [lia|exact D1]. }
  destruct (dec_elems fl f md (nlen Sk + 1) ek (n - 1) st1) as [[vs' st2]|e0| |] eqn:D2; cbn [bind] in D; try discriminate.
  inversion D; subst e0. clear D.
  apply deeper_ok in D1. destruct D1 as [_ D1].
  destruct (SV_of f HS ek k (anc h cs (i + 1) :: Sk) st st' v st1 R Hk) as [n1 [RO B1]];
    [rewrite nlen_cons; lia|rewrite nlen_cons; exact D1|].
  assert (F2 := HE ek (n - 1) st1 e h cs (i + 1) Sk D2 ltac:(lia) Hi Hk Hd).
  eapply Fail_mono; [eapply Fail_steps; [eapply steps_S; [exact St|exact RO]|exact F2]|lia].
Qed.

Lemma RC_step : forall f, SVB f -> RVB f -> RE f -> RC (S f).
Proof.
  intros f HS HV HE ek n st e h cs Sk D Hc Hi Hk Hd.
  destruct (N.eq_dec n 0) as [N0|N0].
  { rewrite dec_elems_S', N0 in D. change (0 =? 0) with true in D. discriminate. }
  destruct (N.le_gt_cases md (nlen Sk + 1)) as [Dp|Dp].
  { (* children would be too deep: the machine reports it before reading anything *)
    exists O, (mk (AContainerStart h cs) Sk st). eexists _, _, (MaxDepthExceeded md).
    split; [reflexivity|]. split; [apply step_cs_depth; [rewrite Hc; exact N0|exact Dp]|].
    split; [reflexivity|]. split; [right; left; reflexivity|lia]. }
  destruct (is_u8_array h) eqn:U.
  { destruct (u8_array_inv h ek U Hi) as [Eek [l Eh]]. subst ek h. cbn [child_count] in Hc. subst l.
    assert (Dp' : nlen Sk + 1 + 1 <= md) by lia.
    destruct (u8_elems_err _ _ _ _ _ _ Dp' D) as [Ue [e' [R Ue']]].
    exists O, (mk (AContainerStart (HArray (KInt U8) n) cs) Sk st). eexists _, _, e'.
    split; [reflexivity|]. split.
    { rewrite step_cs_batch by (cbn [child_count is_u8_array]; try lia; reflexivity). cbn [child_count]. rewrite R. reflexivity. }
    split; [reflexivity|]. split; [right; right; split; assumption|lia]. }
  rewrite dec_elems_S' in D. replace (n =? 0) with false in D by (symmetry; apply N.eqb_neq; exact N0).
  assert (St : stepc (mk (AContainerStart h cs) Sk st) = rv ek (anc h cs 0 :: Sk) st).
  { rewrite step_cs_child by (try rewrite Hc; try lia; assumption). rewrite Hi. reflexivity. }
  destruct (resolve ek st) as [[k st']|e0| |] eqn:R; cbn [bind] in D; try discriminate.
  2:{ inversion D; subst e0. eapply Fail_S; [exact St|]. apply RV_res_err; [exact R|lia]. }
  destruct (dec_deeper fl f md (nlen Sk + 1) k st') as [[v st1]|e0| |] eqn:D1; cbn [bind] in D; try discriminate.
  2:{ inversion D; subst e0. apply deeper_err in D1; [|lia].
      eapply Fail_S; [exact St|]. eapply FailOut_mono; [eapply RV_of; try eassumption; rewrite nlen_cons; [lia|exact D1]|lia]. }
  destruct (dec_elems fl f md (nlen Sk + 1) ek (n - 1) st1) as [[vs' st2]|e0| |] eqn:D2; cbn [bind] in D; try discriminate.
  inversion D; subst e0. clear D.
  apply deeper_ok in D1. destruct D1 as [_ D1].
  destruct (SV_of f HS ek k (anc h cs 0 :: Sk) st st' v st1 R Hk) as [n1 [RO B1]];
    [rewrite nlen_cons; lia|rewrite nlen_cons; exact D1|].
  assert (F2 := HE ek (n - 1) st1 e h cs 0 Sk D2 ltac:(lia) Hi Hk ltac:(lia)).
  eapply Fail_mono; [eapply Fail_steps; [eapply steps_S; [exact St|exact RO]|exact F2]|lia].
Qed.

Lemma some_ok : forall k, kind_ok fl k = true -> forall k0, Some k = Some k0 -> kind_ok fl k0 = true.
Proof. intros k H k0 E. inversion E; subst. exact H. Qed.

Lemma RM_step : forall f, SVB f -> RVB f -> RM f -> RM (S f).
Proof.
  intros f HS HV HM kk vk n st e len cs i Sk D Hc Hev Hkk Hvk Hd. rewrite dec_entries_S in D.
  destruct (n =? 0) eqn:N0; [discriminate|]. apply N.eqb_neq in N0.
  set (h := HMap kk vk len) in *.
  assert (St1 : forall s, stepc (mk ANextChild (anc h cs i :: Sk) s) = rv (Some kk) (anc h cs (i + 1) :: Sk) s).
  { intro s. rewrite step_next_child by (unfold h; cbn [child_count]; lia).
    unfold h; cbn [implicit_kind]. rewrite even_p1, Hev. reflexivity. }
  assert (St2 : forall s, stepc (mk ANextChild (anc h cs (i + 1) :: Sk) s) = rv (Some vk) (anc h cs (i + 1 + 1) :: Sk) s).
  { intro s. rewrite step_next_child by (unfold h; cbn [child_count]; lia).
    unfold h; cbn [implicit_kind]. rewrite !even_p1, Hev. reflexivity. }
  destruct (dec_deeper fl f md (nlen Sk + 1) kk st) as [[k st1]|e0| |] eqn:D1; cbn [bind] in D; try discriminate.
  2:{ inversion D; subst e0. apply deeper_err in D1; [|lia]. eapply Fail_S; [apply St1|].
      eapply (RV_of f HV (Some kk) kk); [reflexivity|apply some_ok; exact Hkk|rewrite nlen_cons; lia|rewrite nlen_cons; exact D1]. }
  apply deeper_ok in D1. destruct D1 as [_ D1].
  destruct (SV_of f HS (Some kk) kk (anc h cs (i + 1) :: Sk) st st k st1 eq_refl (some_ok kk Hkk)) as [n1 [RO1 B1]];
    [rewrite nlen_cons; lia|rewrite nlen_cons; exact D1|].
  assert (R1 : steps (S n1) (mk ANextChild (anc h cs i :: Sk) st) = Some (mk ANextChild (anc h cs (i + 1) :: Sk) st1)).
  { eapply steps_S; [apply St1|exact RO1]. }
  destruct (dec_deeper fl f md (nlen Sk + 1) vk st1) as [[x st2]|e0| |] eqn:D2; cbn [bind] in D; try discriminate.
  2:{ inversion D; subst e0. apply deeper_err in D2; [|lia].
      eapply Fail_mono; [eapply Fail_steps; [exact R1|]|].
      - eapply Fail_S; [apply St2|].
        eapply (RV_of f HV (Some vk) vk); [reflexivity|apply some_ok; exact Hvk|rewrite nlen_cons; lia|rewrite nlen_cons; exact D2].
      - lia. }
  apply deeper_ok in D2. destruct D2 as [_ D2].
  destruct (SV_of f HS (Some vk) vk (anc h cs (i + 1 + 1) :: Sk) st1 st1 x st2 eq_refl (some_ok vk Hvk)) as [n2 [RO2 B2]];
    [rewrite nlen_cons; lia|rewrite nlen_cons; exact D2|].
  assert (R2 : steps (S n2) (mk ANextChild (anc h cs (i + 1) :: Sk) st1) = Some (mk ANextChild (anc h cs (i + 1 + 1) :: Sk) st2)).
  { eapply steps_S; [apply St2|exact RO2]. }
  destruct (dec_entries fl f md (nlen Sk + 1) kk vk (n - 1) st2) as [[es' st3]|e0| |] eqn:D3; cbn [bind] in D; try discriminate.
  inversion D; subst e0. clear D.
  assert (F3 := HM kk vk (n - 1) st2 e len cs (i + 1 + 1) Sk D3 ltac:(lia)).
  rewrite !even_p1, Hev in F3. specialize (F3 eq_refl Hkk Hvk Hd).
  eapply Fail_mono; [eapply Fail_steps; [exact R1|eapply Fail_steps; [exact R2|exact F3]]|lia].
Qed.

Lemma RCM_step : forall f, SVB f -> RVB f -> RM f -> RCM (S f).
Proof.
  intros f HS HV HM kk vk n st e cs Sk D Hkk Hvk Hd. rewrite dec_entries_S in D.
  destruct (n =? 0) eqn:N0; [discriminate|]. apply N.eqb_neq in N0.
  set (h := HMap kk vk n) in *.
  destruct (N.le_gt_cases md (nlen Sk + 1)) as [Dp|Dp].
  { exists O, (mk (AContainerStart h cs) Sk st). eexists _, _, (MaxDepthExceeded md).
    split; [reflexivity|]. split; [apply step_cs_depth; [unfold h; cbn [child_count]; lia|exact Dp]|].
    split; [reflexivity|]. split; [right; left; reflexivity|lia]. }
  assert (St1 : forall s, stepc (mk (AContainerStart h cs) Sk s) = rv (Some kk) (anc h cs 0 :: Sk) s).
  { intro s. rewrite step_cs_child by (unfold h; cbn [child_count is_u8_array]; try lia; reflexivity). reflexivity. }
  assert (St2 : forall s, stepc (mk ANextChild (anc h cs 0 :: Sk) s) = rv (Some vk) (anc h cs (0 + 1) :: Sk) s).
  { intro s. rewrite step_next_child by (unfold h; cbn [child_count]; lia). reflexivity. }
  destruct (dec_deeper fl f md (nlen Sk + 1) kk st) as [[k st1]|e0| |] eqn:D1; cbn [bind] in D; try discriminate.
  2:{ inversion D; subst e0. apply deeper_err in D1; [|lia]. eapply Fail_S; [apply St1|].
      eapply FailOut_mono; [eapply (RV_of f HV (Some kk) kk); [reflexivity|apply some_ok; exact Hkk|rewrite nlen_cons; lia|rewrite nlen_cons; exact D1]|lia]. }
  apply deeper_ok in D1. destruct D1 as [_ D1].
  destruct (SV_of f HS (Some kk) kk (anc h cs 0 :: Sk) st st k st1 eq_refl (some_ok kk Hkk)) as [n1 [RO1 B1]];
    [rewrite nlen_cons; lia|rewrite nlen_cons; exact D1|].
  assert (R1 : steps (S n1) (mk (AContainerStart h cs) Sk st) = Some (mk ANextChild (anc h cs 0 :: Sk) st1)).
  { eapply steps_S; [apply St1|exact RO1]. }
  destruct (dec_deeper fl f md (nlen Sk + 1) vk st1) as [[x st2]|e0| |] eqn:D2; cbn [bind] in D; try discriminate.
  2:{ inversion D; subst e0. apply deeper_err in D2; [|lia].
      eapply Fail_mono; [eapply Fail_steps; [exact R1|]|].
      - eapply Fail_S; [apply St2|].
        eapply (RV_of f HV (Some vk) vk); [reflexivity|apply some_ok; exact Hvk|rewrite nlen_cons; lia|rewrite nlen_cons; exact D2].
      - lia. }
  apply deeper_ok in D2. destruct D2 as [_ D2].
  destruct (SV_of f HS (Some vk) vk (anc h cs (0 + 1) :: Sk) st1 st1 x st2 eq_refl (some_ok vk Hvk)) as [n2 [RO2 B2]];
    [rewrite nlen_cons; lia|rewrite nlen_cons; exact D2|].
  assert (R2 : steps (S n2) (mk ANextChild (anc h cs 0 :: Sk) st1) = Some (mk ANextChild (anc h cs (0 + 1) :: Sk) st2)).
  { eapply steps_S; [apply St2|exact RO2]. }
  destruct (dec_entries fl f md (nlen Sk + 1) kk vk (n - 1) st2) as [[es' st3]|e0| |] eqn:D3; cbn [bind] in D; try discriminate.
  inversion D; subst e0. clear D.
  assert (F3 := HM kk vk (n - 1) st2 e n cs (0 + 1) Sk D3 ltac:(lia) eq_refl Hkk Hvk ltac:(lia)).
  eapply Fail_mono; [eapply Fail_steps; [exact R1|eapply Fail_steps; [exact R2|exact F3]]|lia].
Qed.

Lemma start_fail : forall ev start Sk st next b b' e, is_final ev = false ->
  Fail (mk next Sk st) b' e -> (b' + 1 <= b)%nat -> FailOut (complete cfg ev start Sk st next) b e.
Proof. intros. right. eexists _, _, b'. split; [reflexivity|]. repeat split; assumption. Qed.

Lemma RVB_step : forall f, RC f -> RCM f -> RVB (S f).
Proof.
  intros f HC HCM k Sk st e start Hk Hd D.
  destruct (is_container k) eqn:C.
  2:{ rewrite leaf_fuel_indep in D by exact C. unfold read_value_body.
      destruct k; try discriminate C; rewrite D; apply complete_err_fail; try apply err_ok_refl; lia. }
  rewrite dec_body_S in D. destruct k; try discriminate C; unfold read_value_body.
  - (* Enum *)
    destruct st as [|disc st']; cbn [read_byte bind] in D |- *.
    { inversion D; subst. apply complete_err_fail; [apply err_ok_refl|lia]. }
    destruct (read_size st') as [[n st1]|e0| |] eqn:R; cbn [bind] in D |- *; try discriminate.
    2:{ inversion D; subst. apply complete_err_fail; [apply err_ok_refl|lia]. }
    destruct (dec_elems fl f md (nlen Sk + 1) None n st1) as [[fs st2]|e0| |] eqn:DE; cbn [bind] in D; try discriminate.
    inversion D; subst e0. clear D. apply read_size_consumes in R.
    eapply start_fail; [reflexivity|eapply (HC None n st1 e (HEnum disc n) start Sk DE eq_refl); [reflexivity|discriminate|exact Hd]|].
    cbn [length]. lia.
  - (* Array *)
    destruct (read_value_kind fl st) as [[ek st0]|e0| |] eqn:RK; cbn [bind] in D |- *; try discriminate.
    2:{ inversion D; subst. apply complete_err_fail; [apply err_ok_refl|lia]. }
    apply read_value_kind_len in RK. destruct RK as [L Hek].
    destruct (read_size st0) as [[n st1]|e0| |] eqn:R; cbn [bind] in D |- *; try discriminate.
    2:{ inversion D; subst. apply complete_err_fail; [apply err_ok_refl|lia]. }
    destruct (dec_elems fl f md (nlen Sk + 1) (Some ek) n st1) as [[fs st2]|e0| |] eqn:DE; cbn [bind] in D; try discriminate.
    inversion D; subst e0. clear D. apply read_size_consumes in R.
    eapply start_fail; [reflexivity|eapply (HC (Some ek) n st1 e (HArray ek n) start Sk DE eq_refl); [reflexivity|apply some_ok; exact Hek|exact Hd]|].
    lia.
  - (* Tuple *)
    destruct (read_size st) as [[n st1]|e0| |] eqn:R; cbn [bind] in D |- *; try discriminate.
    2:{ inversion D; subst. apply complete_err_fail; [apply err_ok_refl|lia]. }
    destruct (dec_elems fl f md (nlen Sk + 1) None n st1) as [[fs st2]|e0| |] eqn:DE; cbn [bind] in D; try discriminate.
    inversion D; subst e0. clear D. apply read_size_consumes in R.
    eapply start_fail; [reflexivity|eapply (HC None n st1 e (HTuple n) start Sk DE eq_refl); [reflexivity|discriminate|exact Hd]|].
    lia.
  - (* Map *)
    destruct (read_value_kind fl st) as [[kk st0]|e0| |] eqn:RK; cbn [bind] in D |- *; try discriminate.
    2:{ inversion D; subst. apply complete_err_fail; [apply err_ok_refl|lia]. }
    apply read_value_kind_len in RK. destruct RK as [L Hkk].
    destruct (read_value_kind fl st0) as [[vk st0']|e0| |] eqn:RV; cbn [bind] in D |- *; try discriminate.
    2:{ inversion D; subst. apply complete_err_fail; [apply err_ok_refl|lia]. }
    apply read_value_kind_len in RV. destruct RV as [L' Hvk].
    destruct (read_size st0') as [[n st1]|e0| |] eqn:R; cbn [bind] in D |- *; try discriminate.
    2:{ inversion D; subst. apply complete_err_fail; [apply err_ok_refl|lia]. }
    destruct (dec_entries fl f md (nlen Sk + 1) kk vk n st1) as [[es st2]|e0| |] eqn:DE; cbn [bind] in D; try discriminate.
    inversion D; subst e0. clear D. apply read_size_consumes in R.
    eapply start_fail; [reflexivity|eapply (HCM kk vk n st1 e start Sk DE Hkk Hvk Hd)|]. lia.
Qed.

Lemma R_all : forall f, RVB f /\ RE f /\ RC f /\ RM f /\ RCM f.
Proof.
  induction f as [|f [IV [IE [IC [IM ICM]]]]].
  - repeat split; repeat intro; discriminate.
  - destruct (S_all f) as [SV _].
    split; [apply RVB_step; assumption|]. split; [apply RE_step; assumption|].
    split; [apply RC_step; assumption|]. split; [apply RM_step; assumption|apply RCM_step; assumption].
Qed.
End Sim.
