(* C13 — proofs: the implementation-shaped lock table refines the reader/writer specification. *)
From Coq Require Import List NArith Bool Lia Arith.
Import ListNotations.
Require Import RV.Model.C13_Locks.
Open Scope N_scope.

Arguments N.add : simpl never.
Arguments N.sub : simpl never.
Arguments N.eqb : simpl never.

Lemma skey_eqb_eq a b : skey_eqb a b = true <-> a = b.
Proof.
  destruct a as [[a1 a2] a3], b as [[b1 b2] b3]; unfold skey_eqb; cbn [fst snd].
  rewrite !andb_true_iff, !N.eqb_eq. split.
  - intros [[-> ->] ->]; reflexivity.
  - intros H; inversion H; auto.
Qed.
Lemma skey_eqb_refl a : skey_eqb a a = true.
Proof. apply skey_eqb_eq; reflexivity. Qed.
Lemma skey_eqb_neq a b : skey_eqb a b = false <-> a <> b.
Proof.
  split.
  - intros H E. apply skey_eqb_eq in E. congruence.
  - intros H. destruct (skey_eqb a b) eqn:E; [apply skey_eqb_eq in E; contradiction|reflexivity].
Qed.

Definition cnt (p : ohandle -> bool) (l : list ohandle) : nat := length (filter p l).

Lemma cnt_app p l1 l2 : cnt p (l1 ++ l2) = (cnt p l1 + cnt p l2)%nat.
Proof. unfold cnt. rewrite filter_app, app_length. reflexivity. Qed.
Lemma cnt_cons p x l : cnt p (x :: l) = ((if p x then 1 else 0) + cnt p l)%nat.
Proof. unfold cnt. cbn [filter]. destruct (p x); reflexivity. Qed.
Lemma cnt_zero_existsb p q l :
  (forall x, q x = true -> p x = true) -> cnt p l = 0%nat -> existsb q l = false.
Proof.
  intros Hqp. induction l as [|x l IH]; [reflexivity|].
  rewrite cnt_cons. cbn [existsb]. intros H.
  destruct (p x) eqn:Hp; [discriminate|].
  destruct (q x) eqn:Hq; [apply Hqp in Hq; congruence|].
  cbn. apply IH. exact H.
Qed.
Lemma existsb_cnt_pos p l : existsb p l = true <-> (0 < cnt p l)%nat.
Proof.
  induction l as [|x l IH]; cbn [existsb].
  - unfold cnt; cbn. split; [discriminate|lia].
  - rewrite cnt_cons. destruct (p x); cbn [orb].
    + split; [lia|reflexivity].
    + rewrite IH. split; lia.
Qed.
Lemma existsb_false_cnt p l : existsb p l = false <-> cnt p l = 0%nat.
Proof.
  pose proof (existsb_cnt_pos p l) as H.
  destruct (existsb p l).
  - split; [discriminate|]. intros E. assert (0 < cnt p l)%nat by (apply H; reflexivity). lia.
  - split; [|reflexivity]. intros _. destruct (cnt p l) eqn:E; [reflexivity|].
    assert (false = true) by (apply H; lia). discriminate.
Qed.

Definition strip (x : ohandle) : N * (skey * N) := (oh_id x, (oh_key x, oh_data x)).

(* the simulation relation *)
Record R (s : locks) (sp : spec) : Prop := {
  R_handles : handles s = map strip (open sp);
  R_next : next_id s = s_next sp;
  R_lstate : forall k, lstate s k =
               if existsb (writer_on k) (open sp) then LWrite
               else LRead (N.of_nat (cnt (on_key k) (open sp)));
  R_excl : forall k, existsb (writer_on k) (open sp) = true -> cnt (on_key k) (open sp) = 1%nat;
  R_ncount : forall n, ncount s n = N.of_nat (cnt (on_node n) (open sp));
  R_fresh : forall x, In x (open sp) -> oh_id x < s_next sp
}.

Lemma R_init : R locks_new spec_new.
Proof. constructor; cbn; auto; try discriminate; contradiction. Qed.

Lemma find_handle_map h o :
  find_handle h (map strip o) = option_map (fun x => (oh_key x, oh_data x)) (spec_find h o).
Proof.
  induction o as [|x o IH]; [reflexivity|]. cbn [map find_handle spec_find strip].
  destruct (oh_id x =? h); [reflexivity|exact IH].
Qed.
Lemma remove_handle_map h o : remove_handle h (map strip o) = map strip (spec_remove h o).
Proof.
  induction o as [|x o IH]; [reflexivity|]. cbn [map remove_handle spec_remove strip].
  destruct (oh_id x =? h); [reflexivity|]. cbn [map]. f_equal. exact IH.
Qed.
Lemma spec_find_split h o x :
  spec_find h o = Some x ->
  exists l1 l2, o = l1 ++ x :: l2 /\ spec_remove h o = l1 ++ l2 /\ oh_id x = h.
Proof.
  induction o as [|y o IH]; [discriminate|]. cbn [spec_find spec_remove].
  destruct (oh_id y =? h) eqn:E.
  - intros H; inversion H; subst y. exists [], o. apply N.eqb_eq in E. auto.
  - intros H. destruct (IH H) as (l1 & l2 & -> & Hr & Hid).
    exists (y :: l1), l2. rewrite Hr. auto.
Qed.
Lemma spec_find_none_fresh h o :
  (forall x, In x o -> oh_id x < h) -> spec_find h o = None.
Proof.
  induction o as [|y o IH]; [reflexivity|]. intros H. cbn [spec_find].
  destruct (oh_id y =? h) eqn:E.
  - apply N.eqb_eq in E. specialize (H y (or_introl eq_refl)). lia.
  - apply IH. intros x Hx. apply H. right; exact Hx.
Qed.

Lemma writer_on_key k x : writer_on k x = true -> on_key k x = true.
Proof. unfold writer_on. rewrite andb_true_iff. tauto. Qed.

Lemma existsb_app_cons {A} (p : A -> bool) l1 x l2 :
  existsb p (l1 ++ x :: l2) = existsb p l1 || p x || existsb p l2.
Proof. rewrite existsb_app. cbn [existsb]. rewrite orb_assoc. reflexivity. Qed.
Lemma cnt_app_cons p l1 x l2 :
  cnt p (l1 ++ x :: l2) = (cnt p l1 + (if p x then 1 else 0) + cnt p l2)%nat.
Proof. rewrite cnt_app, cnt_cons. lia. Qed.

(* ---- the step lemma --------------------------------------------------------------------- *)

Definition Ropt (a : option locks) (b : option spec) : Prop :=
  match a, b with
  | Some s, Some sp => R s sp
  | None, None => True
  | _, _ => False
  end.

Lemma existsb_snoc {A} (p : A -> bool) l x : existsb p (l ++ [x]) = existsb p l || p x.
Proof. rewrite existsb_app. cbn [existsb]. rewrite orb_false_r. reflexivity. Qed.
Lemma cnt_snoc p l x : cnt p (l ++ [x]) = (cnt p l + (if p x then 1 else 0))%nat.
Proof. rewrite cnt_app, cnt_cons. unfold cnt at 2. cbn. lia. Qed.

Lemma skey_eqb_sym a b : skey_eqb a b = skey_eqb b a.
Proof.
  destruct (skey_eqb a b) eqn:E.
  - apply skey_eqb_eq in E. subst. symmetry. apply skey_eqb_refl.
  - symmetry. apply skey_eqb_neq. apply skey_eqb_neq in E. congruence.
Qed.

(* appending a granted handle preserves the relation *)
Lemma R_grant s sp k ro d st' :
  R s sp ->
  spec_can_lock (open sp) k ro = true ->
  st' = (if ro then LRead (N.of_nat (cnt (on_key k) (open sp)) + 1) else LWrite) ->
  R {| handles := handles s ++ [(next_id s, (k, d))];
       lstate := upd_k (lstate s) k st';
       ncount := upd_n (ncount s) (node_of k) (ncount s (node_of k) + 1);
       next_id := next_id s + 1 |}
    {| open := open sp ++ [{| oh_id := s_next sp; oh_key := k; oh_data := d; oh_ro := ro |}];
       s_next := s_next sp + 1 |}.
Proof.
  intros [Hh Hn Hl He Hc Hf] Hcan ->.
  set (nh := {| oh_id := s_next sp; oh_key := k; oh_data := d; oh_ro := ro |}).
  assert (Hok : forall k', on_key k' nh = skey_eqb k k') by reflexivity.
  assert (Hwk : forall k', writer_on k' nh = skey_eqb k k' && negb ro) by reflexivity.
  assert (Hnk : forall n, on_node n nh = (node_of k =? n)) by reflexivity.
  constructor; cbn [handles lstate ncount next_id open s_next].
  - rewrite Hh, map_app, Hn. reflexivity.
  - rewrite Hn. reflexivity.
  - intros k'. unfold upd_k. rewrite existsb_snoc, cnt_snoc, Hok, Hwk, (skey_eqb_sym k' k).
    destruct (skey_eqb k k') eqn:Ek.
    + apply skey_eqb_eq in Ek. subst k'. unfold spec_can_lock in Hcan. destruct ro.
      * apply negb_true_iff in Hcan. rewrite Hcan. cbn [negb andb orb]. f_equal. lia.
      * cbn [negb andb]. rewrite orb_true_r. reflexivity.
    + cbn [andb]. rewrite orb_false_r, Nat.add_0_r. apply Hl.
  - intros k'. rewrite existsb_snoc, cnt_snoc, Hok, Hwk.
    destruct (skey_eqb k k') eqn:Ek.
    + apply skey_eqb_eq in Ek. subst k'. unfold spec_can_lock in Hcan. destruct ro.
      * apply negb_true_iff in Hcan. rewrite Hcan. cbn. discriminate.
      * apply negb_true_iff in Hcan. intros _.
        apply existsb_false_cnt in Hcan. rewrite Hcan. reflexivity.
    + cbn [andb]. rewrite orb_false_r, Nat.add_0_r. apply He.
  - intros n. unfold upd_n. rewrite cnt_snoc, Hnk, (N.eqb_sym n (node_of k)).
    destruct (node_of k =? n) eqn:En.
    + apply N.eqb_eq in En. subst n. rewrite Hc. lia.
    + rewrite Nat.add_0_r. apply Hc.
  - intros x Hx. apply in_app_or in Hx. destruct Hx as [Hx|[<-|[]]].
    + specialize (Hf x Hx). lia.
    + cbn [oh_id nh]. lia.
Qed.

Lemma try_lock_spec s sp k ro :
  R s sp ->
  ls_try_lock (lstate s k) ro =
    if spec_can_lock (open sp) k ro
    then Some (if ro then LRead (N.of_nat (cnt (on_key k) (open sp)) + 1) else LWrite)
    else None.
Proof.
  intros [Hh Hn Hl He Hc Hf]. rewrite Hl. unfold spec_can_lock.
  destruct (existsb (writer_on k) (open sp)) eqn:Ew.
  - assert (Ek : existsb (on_key k) (open sp) = true).
    { apply existsb_exists in Ew. destruct Ew as (x & Hx & Hw).
      apply existsb_exists. exists x. split; [exact Hx|apply writer_on_key; exact Hw]. }
    rewrite Ek. destruct ro; reflexivity.
  - cbn [ls_try_lock]. destruct ro; cbn [negb]; [reflexivity|].
    destruct (existsb (on_key k) (open sp)) eqn:Ek; cbn [negb].
    + assert (0 < cnt (on_key k) (open sp))%nat by (apply existsb_cnt_pos; exact Ek).
      destruct (N.of_nat (cnt (on_key k) (open sp)) =? 0) eqn:E0;
        [apply N.eqb_eq in E0; lia|reflexivity].
    + assert (E0 : cnt (on_key k) (open sp) = 0%nat) by (apply existsb_false_cnt; exact Ek).
      rewrite E0. reflexivity.
Qed.

Lemma step_lock_sim s sp k ro d :
  R s sp ->
  snd (step s (OpLock k ro d)) = snd (spec_step sp (OpLock k ro d)) /\
  Ropt (fst (step s (OpLock k ro d))) (fst (spec_step sp (OpLock k ro d))).
Proof.
  intros HR. cbn [step spec_step]. rewrite (try_lock_spec s sp k ro HR).
  destruct (spec_can_lock (open sp) k ro) eqn:Hcan; [|cbn [fst snd Ropt]; auto].
  pose proof (R_next _ _ HR) as Hn. rewrite Hn.
  destruct (s_next sp =? U32_MAX); cbn [fst snd Ropt]; [auto|].
  split; [reflexivity|].
  pose proof (R_grant s sp k ro d _ HR Hcan eq_refl) as H. rewrite Hn in H. exact H.
Qed.

Lemma step_unlock_sim s sp h :
  R s sp ->
  snd (step s (OpUnlock h)) = snd (spec_step sp (OpUnlock h)) /\
  Ropt (fst (step s (OpUnlock h))) (fst (spec_step sp (OpUnlock h))).
Proof.
  intros HR. destruct HR as [Hh Hn Hl He Hc Hf].
  cbn [step spec_step]. rewrite Hh, find_handle_map.
  destruct (spec_find h (open sp)) as [x|] eqn:Efind; cbn [option_map];
    [|cbn [fst snd]; split; [reflexivity|exact I]].
  destruct (spec_find_split _ _ _ Efind) as (l1 & l2 & Ho & Hrem & Hid).
  set (k := oh_key x).
  (* the node counter is positive *)
  assert (Hpos : (0 < cnt (on_node (node_of k)) (open sp))%nat).
  { rewrite Ho, cnt_app_cons.
    assert (Hxk : on_node (node_of k) x = true) by (unfold on_node; fold k; apply N.eqb_refl).
    rewrite Hxk. lia. }
  assert (Hkx : on_key k x = true) by (unfold on_key; apply skey_eqb_refl).
  rewrite (Hl k).
  destruct (existsb (writer_on k) (open sp)) eqn:Ew.
  - (* a writer is open on k: x is that writer and the only handle on k *)
    pose proof (He k Ew) as H1. rewrite Ho, cnt_app_cons, Hkx in H1.
    assert (Hc1 : cnt (on_key k) l1 = 0%nat) by lia.
    assert (Hc2 : cnt (on_key k) l2 = 0%nat) by lia.
    cbn [ls_unlock]. rewrite (Hc (node_of k)).
    destruct (N.of_nat (cnt (on_node (node_of k)) (open sp)) =? 0) eqn:E0;
      [apply N.eqb_eq in E0; lia|].
    cbn [fst snd]. split; [reflexivity|]. cbn [Ropt].
    constructor; cbn [handles lstate ncount next_id open s_next].
    + rewrite ?Hh, remove_handle_map. reflexivity.
    + exact Hn.
    + intros k'. unfold upd_k. rewrite Hrem, existsb_app, cnt_app.
      destruct (skey_eqb k' k) eqn:Ekk.
      * apply skey_eqb_eq in Ekk. subst k'.
        rewrite (cnt_zero_existsb (on_key k) (writer_on k) l1 (writer_on_key k) Hc1).
        rewrite (cnt_zero_existsb (on_key k) (writer_on k) l2 (writer_on_key k) Hc2).
        cbn [orb]. rewrite Hc1, Hc2. reflexivity.
      * rewrite (Hl k'), Ho, existsb_app_cons, cnt_app_cons.
        assert (Hx' : on_key k' x = false).
        { unfold on_key. fold k. apply skey_eqb_neq. apply skey_eqb_neq in Ekk. congruence. }
        unfold writer_on at 2. rewrite Hx'. cbn [andb]. rewrite orb_false_r, Nat.add_0_r.
        reflexivity.
    + intros k'. rewrite Hrem, existsb_app, cnt_app. intros Hw.
      assert (Hw' : existsb (writer_on k') (open sp) = true).
      { rewrite Ho, existsb_app_cons. apply orb_true_iff in Hw. destruct Hw as [->| ->];
          rewrite ?orb_true_r; reflexivity. }
      specialize (He k' Hw'). rewrite Ho, cnt_app_cons in He.
      destruct (on_key k' x) eqn:Hx'.
      * (* then k' = k, but l1, l2 have no handle on k: contradiction with Hw *)
        unfold on_key in Hx'. fold k in Hx'. apply skey_eqb_eq in Hx'. subst k'.
        rewrite (cnt_zero_existsb (on_key k) (writer_on k) l1 (writer_on_key k) Hc1) in Hw.
        rewrite (cnt_zero_existsb (on_key k) (writer_on k) l2 (writer_on_key k) Hc2) in Hw.
        discriminate.
      * lia.
    + intros n. unfold upd_n. rewrite Hrem, cnt_app, (Hc n).
      assert (Hxk : on_node (node_of k) x = true) by (unfold on_node; fold k; apply N.eqb_refl).
      destruct (n =? node_of k) eqn:En.
      * apply N.eqb_eq in En. subst n. rewrite Ho, !cnt_app_cons, Hxk. lia.
      * rewrite Ho, cnt_app_cons.
        assert (Hxn : on_node n x = false) by (unfold on_node; fold k; rewrite N.eqb_sym; exact En).
        rewrite Hxn. f_equal. lia.
    + intros y Hy. apply Hf. rewrite Ho. rewrite Hrem in Hy.
      apply in_app_or in Hy. apply in_or_app. destruct Hy; [left|right; right]; assumption.
  - (* only readers on k *)
    assert (Hcpos : (0 < cnt (on_key k) (open sp))%nat).
    { rewrite Ho, cnt_app_cons, Hkx. lia. }
    cbn [ls_unlock].
    destruct (N.of_nat (cnt (on_key k) (open sp)) =? 0) eqn:E0; [apply N.eqb_eq in E0; lia|].
    rewrite (Hc (node_of k)).
    destruct (N.of_nat (cnt (on_node (node_of k)) (open sp)) =? 0) eqn:E1;
      [apply N.eqb_eq in E1; lia|].
    cbn [fst snd]. split; [reflexivity|]. cbn [Ropt].
    assert (Ew' : existsb (writer_on k) l1 = false /\ writer_on k x = false /\
                  existsb (writer_on k) l2 = false).
    { rewrite Ho, existsb_app_cons in Ew. apply orb_false_iff in Ew. destruct Ew as [Ew E3].
      apply orb_false_iff in Ew. tauto. }
    destruct Ew' as (Ew1 & Ewx & Ew2).
    constructor; cbn [handles lstate ncount next_id open s_next].
    + rewrite ?Hh, remove_handle_map. reflexivity.
    + exact Hn.
    + intros k'. unfold upd_k. rewrite Hrem, existsb_app, cnt_app.
      destruct (skey_eqb k' k) eqn:Ekk.
      * apply skey_eqb_eq in Ekk. subst k'. rewrite Ew1, Ew2. cbn [orb].
        rewrite Ho, cnt_app_cons, Hkx. f_equal. lia.
      * rewrite (Hl k'), Ho, existsb_app_cons, cnt_app_cons.
        assert (Hx' : on_key k' x = false).
        { unfold on_key. fold k. apply skey_eqb_neq. apply skey_eqb_neq in Ekk. congruence. }
        unfold writer_on at 2. rewrite Hx'. cbn [andb]. rewrite orb_false_r, Nat.add_0_r.
        reflexivity.
    + intros k'. rewrite Hrem, existsb_app, cnt_app. intros Hw.
      assert (Hw' : existsb (writer_on k') (open sp) = true).
      { rewrite Ho, existsb_app_cons. apply orb_true_iff in Hw. destruct Hw as [->| ->];
          rewrite ?orb_true_r; reflexivity. }
      specialize (He k' Hw'). rewrite Ho, cnt_app_cons in He.
      destruct (on_key k' x) eqn:Hx'.
      * unfold on_key in Hx'. fold k in Hx'. apply skey_eqb_eq in Hx'. subst k'.
        rewrite Ew1, Ew2 in Hw. discriminate.
      * lia.
    + intros n. unfold upd_n. rewrite Hrem, cnt_app, (Hc n).
      assert (Hxk : on_node (node_of k) x = true) by (unfold on_node; fold k; apply N.eqb_refl).
      destruct (n =? node_of k) eqn:En.
      * apply N.eqb_eq in En. subst n. rewrite Ho, !cnt_app_cons, Hxk. lia.
      * rewrite Ho, cnt_app_cons.
        assert (Hxn : on_node n x = false) by (unfold on_node; fold k; rewrite N.eqb_sym; exact En).
        rewrite Hxn. f_equal. lia.
    + intros y Hy. apply Hf. rewrite Ho. rewrite Hrem in Hy.
      apply in_app_or in Hy. apply in_or_app. destruct Hy; [left|right; right]; assumption.
Qed.

Lemma step_sim s sp o :
  R s sp ->
  snd (step s o) = snd (spec_step sp o) /\ Ropt (fst (step s o)) (fst (spec_step sp o)).
Proof.
  intros HR. destruct o as [k ro d|h|h|k|n].
  - apply step_lock_sim; exact HR.
  - apply step_unlock_sim; exact HR.
  - pose proof HR as [Hh Hn Hl He Hc Hf]. cbn [step spec_step].
    rewrite Hh, find_handle_map.
    destruct (spec_find h (open sp)) as [x|]; cbn [option_map fst snd];
      (split; [reflexivity|]); cbn [Ropt]; [exact HR|exact I].
  - pose proof HR as [Hh Hn Hl He Hc Hf]. cbn [step spec_step fst snd].
    split; [|exact HR]. f_equal. rewrite (Hl k).
    destruct (existsb (writer_on k) (open sp)) eqn:Ew.
    + cbn [ls_is_locked]. symmetry. apply existsb_exists in Ew. destruct Ew as (x & Hx & Hw).
      apply existsb_exists. exists x. split; [exact Hx|apply writer_on_key; exact Hw].
    + destruct (existsb (on_key k) (open sp)) eqn:Ek.
      * assert (0 < cnt (on_key k) (open sp))%nat by (apply existsb_cnt_pos; exact Ek).
        destruct (cnt (on_key k) (open sp)) eqn:E; [lia|]. cbn [ls_is_locked N.of_nat].
        reflexivity.
      * assert (E0 : cnt (on_key k) (open sp) = 0%nat) by (apply existsb_false_cnt; exact Ek).
        rewrite E0. reflexivity.
  - pose proof HR as [Hh Hn Hl He Hc Hf]. cbn [step spec_step fst snd].
    split; [|exact HR]. f_equal. rewrite (Hc n).
    destruct (existsb (on_node n) (open sp)) eqn:Ek.
    + assert (0 < cnt (on_node n) (open sp))%nat by (apply existsb_cnt_pos; exact Ek).
      destruct (N.of_nat (cnt (on_node n) (open sp)) =? 0) eqn:E0;
        [apply N.eqb_eq in E0; lia|reflexivity].
    + assert (E0 : cnt (on_node n) (open sp) = 0%nat) by (apply existsb_false_cnt; exact Ek).
      rewrite E0. reflexivity.
Qed.

Lemma run_refines s sp ops : R s sp -> run s ops = spec_run sp ops.
Proof.
  revert s sp. induction ops as [|o ops IH]; intros s sp HR; [reflexivity|].
  cbn [run spec_run]. destruct (step_sim s sp o HR) as [Hout Hst].
  destruct (step s o) as [[s'|] r], (spec_step sp o) as [[sp'|] r']; cbn [fst snd Ropt] in *;
    subst; try contradiction; [|reflexivity].
  f_equal. apply IH. exact Hst.
Qed.

Theorem refines_rw ops : run locks_new ops = spec_run spec_new ops.
Proof. apply run_refines. exact R_init. Qed.

(* ---- properties of the specification, hence (by refinement) of the implementation model ---- *)

(* reachable specification states *)
Fixpoint spec_exec (s : spec) (ops : list op) : option spec :=
  match ops with
  | [] => Some s
  | o :: t => match fst (spec_step s o) with Some s' => spec_exec s' t | None => None end
  end.
Fixpoint exec (s : locks) (ops : list op) : option locks :=
  match ops with
  | [] => Some s
  | o :: t => match fst (step s o) with Some s' => exec s' t | None => None end
  end.

Lemma exec_R s sp ops : R s sp -> Ropt (exec s ops) (spec_exec sp ops).
Proof.
  revert s sp. induction ops as [|o ops IH]; intros s sp HR; [exact HR|].
  cbn [exec spec_exec]. destruct (step_sim s sp o HR) as [_ Hst].
  destruct (fst (step s o)), (fst (spec_step sp o)); cbn [Ropt] in Hst; try contradiction.
  - apply IH; exact Hst.
  - exact I.
Qed.

(* writer exclusivity in every reachable state, stated on the abstract open-handle multiset:
   if a write handle is open on k then it is the only open handle on k *)
Definition WriterExclusive (o : list ohandle) : Prop :=
  forall x y, In x o -> In y o -> oh_ro x = false -> oh_key y = oh_key x -> y = x.

Definition SpecInv (sp : spec) : Prop :=
  (forall k, existsb (writer_on k) (open sp) = true -> cnt (on_key k) (open sp) = 1%nat) /\
  (forall x, In x (open sp) -> oh_id x < s_next sp) /\
  NoDup (map oh_id (open sp)).

Lemma cnt_one_unique p l x y :
  cnt p l = 1%nat -> In x l -> In y l -> p x = true -> p y = true -> NoDup l -> x = y.
Proof.
  induction l as [|z l IH]; [contradiction|].
  rewrite cnt_cons. intros Hc Hx Hy Hpx Hpy Hnd. inversion Hnd as [|? ? Hnotin Hnd']; subst.
  destruct Hx as [->|Hx], Hy as [->|Hy]; auto.
  - rewrite Hpx in Hc. assert (cnt p l = 0%nat) by lia.
    assert (existsb p l = false) by (apply existsb_false_cnt; assumption).
    assert (existsb p l = true) by (apply existsb_exists; exists y; auto). congruence.
  - rewrite Hpy in Hc. assert (cnt p l = 0%nat) by lia.
    assert (existsb p l = false) by (apply existsb_false_cnt; assumption).
    assert (existsb p l = true) by (apply existsb_exists; exists x; auto). congruence.
  - destruct (p z); apply IH; auto; try lia.
    assert (cnt p l = 0%nat) by lia.
    assert (existsb p l = false) by (apply existsb_false_cnt; assumption).
    assert (existsb p l = true) by (apply existsb_exists; exists x; auto). congruence.
Qed.

Lemma NoDup_map_inv {A B} (f : A -> B) l : NoDup (map f l) -> NoDup l.
Proof.
  induction l as [|x l IH]; cbn [map]; intros H; [constructor|].
  inversion H; subst. constructor; [|apply IH; assumption].
  intros Hin. apply H2. apply in_map. exact Hin.
Qed.

Lemma SpecInv_exclusive sp : SpecInv sp -> WriterExclusive (open sp).
Proof.
  intros (He & _ & Hnd) x y Hx Hy Hro Hk.
  assert (Hw : existsb (writer_on (oh_key x)) (open sp) = true).
  { apply existsb_exists. exists x. split; [exact Hx|]. unfold writer_on, on_key.
    rewrite skey_eqb_refl, Hro. reflexivity. }
  specialize (He _ Hw). symmetry.
  apply (cnt_one_unique (on_key (oh_key x)) (open sp)); auto.
  - unfold on_key. apply skey_eqb_refl.
  - unfold on_key. rewrite Hk. apply skey_eqb_refl.
  - eapply NoDup_map_inv; exact Hnd.
Qed.

Lemma spec_remove_subset h o x : In x (spec_remove h o) -> In x o.
Proof.
  induction o as [|y o IH]; cbn [spec_remove]; [auto|].
  destruct (oh_id y =? h); cbn [In]; intuition.
Qed.
Lemma spec_remove_nodup h o : NoDup (map oh_id o) -> NoDup (map oh_id (spec_remove h o)).
Proof.
  induction o as [|y o IH]; cbn [spec_remove map]; [auto|]. intros H. inversion H; subst.
  destruct (oh_id y =? h); [assumption|]. cbn [map]. constructor; [|apply IH; assumption].
  intros Hin. apply H2. apply in_map_iff in Hin. destruct Hin as (z & Hz & Hin).
  apply in_map_iff. exists z. split; [exact Hz|eapply spec_remove_subset; exact Hin].
Qed.

Lemma SpecInv_init : SpecInv spec_new.
Proof. repeat split; cbn; try discriminate; try contradiction. constructor. Qed.

(* SpecInv is carried by R for the first two parts; NoDup is proved directly on the spec *)
Lemma spec_step_nodup sp o sp' :
  (forall x, In x (open sp) -> oh_id x < s_next sp) -> NoDup (map oh_id (open sp)) ->
  fst (spec_step sp o) = Some sp' ->
  (forall x, In x (open sp') -> oh_id x < s_next sp') /\ NoDup (map oh_id (open sp')).
Proof.
  intros Hf Hnd. destruct o as [k ro d|h|h|k|n]; cbn [spec_step].
  - destruct (spec_can_lock (open sp) k ro); cbn [fst].
    + destruct (s_next sp =? U32_MAX); cbn [fst]; [discriminate|].
      intros H; inversion H; subst sp'; clear H. cbn [open s_next]. split.
      * intros x Hx. apply in_app_or in Hx. destruct Hx as [Hx|[<-|[]]].
        -- specialize (Hf x Hx). lia.
        -- cbn [oh_id]. lia.
      * rewrite map_app. cbn [map oh_id].
        assert (Hperm : forall l (a : N), NoDup l -> ~ In a l -> NoDup (l ++ [a])).
        { induction l as [|b l IHl]; cbn [app]; intros a Hn Hni; [constructor; auto; constructor|].
          inversion Hn; subst. constructor.
          - intros Hin. apply in_app_or in Hin. destruct Hin as [Hin|[->|[]]]; [auto|].
            apply Hni. left. reflexivity.
          - apply IHl; auto. intros Hin. apply Hni. right. exact Hin. }
        apply Hperm; [exact Hnd|]. intros Hin. apply in_map_iff in Hin.
        destruct Hin as (z & Hz & Hin). specialize (Hf z Hin). lia.
    + intros H; inversion H; subst sp'. auto.
  - destruct (spec_find h (open sp)); cbn [fst]; [|discriminate].
    intros H; inversion H; subst sp'; clear H. cbn [open s_next]. split.
    + intros x Hx. apply Hf. eapply spec_remove_subset; exact Hx.
    + apply spec_remove_nodup; exact Hnd.
  - destruct (spec_find h (open sp)); cbn [fst]; [|discriminate].
    intros H; inversion H; subst sp'. auto.
  - cbn [fst]. intros H; inversion H; subst sp'. auto.
  - cbn [fst]. intros H; inversion H; subst sp'. auto.
Qed.

Lemma spec_exec_inv s sp ops sp' :
  R s sp -> NoDup (map oh_id (open sp)) -> spec_exec sp ops = Some sp' -> SpecInv sp'.
Proof.
  revert s sp. induction ops as [|o ops IH]; intros s sp HR Hnd; cbn [spec_exec].
  - intros H; inversion H; subst sp'. destruct HR. repeat split; assumption.
  - destruct (step_sim s sp o HR) as [_ Hst].
    destruct (fst (spec_step sp o)) as [sp1|] eqn:E1; [|discriminate].
    destruct (fst (step s o)) as [s1|]; cbn [Ropt] in Hst; [|contradiction].
    intros Hex. apply (IH s1 sp1 Hst); [|exact Hex].
    destruct HR. eapply spec_step_nodup; eauto.
Qed.

Theorem writer_exclusive ops sp :
  spec_exec spec_new ops = Some sp -> WriterExclusive (open sp).
Proof.
  intros H. apply SpecInv_exclusive. eapply spec_exec_inv; [exact R_init| |exact H].
  cbn. constructor.
Qed.

(* any number of readers: a read lock is refused only when a writer is open *)
Theorem readers_coexist sp k d :
  existsb (writer_on k) (open sp) = false -> s_next sp <> U32_MAX ->
  snd (spec_step sp (OpLock k true d)) = OutLock (Some (s_next sp)).
Proof.
  intros Hw Hn. cbn [spec_step]. unfold spec_can_lock. rewrite Hw. cbn [negb].
  destruct (s_next sp =? U32_MAX) eqn:E; [apply N.eqb_eq in E; contradiction|reflexivity].
Qed.

(* handle lifetime: get h succeeds exactly on open handles; ids are never reused *)
Theorem handle_usable_iff_open sp h :
  snd (spec_step sp (OpGet h)) <> OutPanic <-> exists x, In x (open sp) /\ oh_id x = h.
Proof.
  cbn [spec_step]. split.
  - destruct (spec_find h (open sp)) as [x|] eqn:E; cbn [snd]; [|congruence].
    intros _. destruct (spec_find_split _ _ _ E) as (l1 & l2 & Ho & _ & Hid).
    exists x. split; [rewrite Ho; apply in_or_app; right; left; reflexivity|exact Hid].
  - intros (x & Hx & Hid).
    destruct (spec_find h (open sp)) as [y|] eqn:E; cbn [snd]; [discriminate|].
    exfalso. revert Hx E. generalize (open sp). induction l as [|z l IHl]; [contradiction|].
    cbn [spec_find In]. destruct (oh_id z =? h) eqn:Ez; [discriminate|].
    intros [->|Hx] E; [apply N.eqb_neq in Ez; contradiction|auto].
Qed.

Theorem handles_never_reused ops sp :
  spec_exec spec_new ops = Some sp ->
  NoDup (map oh_id (open sp)) /\ forall x, In x (open sp) -> oh_id x < s_next sp.
Proof.
  intros H. assert (Hi : SpecInv sp).
  { eapply spec_exec_inv; [exact R_init| |exact H]. cbn. constructor. }
  destruct Hi as (_ & Hf & Hnd). auto.
Qed.

(* the counters never underflow on open handles: an unlock of an open handle never panics,
   in every reachable implementation-model state *)
Theorem unlock_open_no_panic ops s h :
  exec locks_new ops = Some s ->
  find_handle h (handles s) <> None ->
  snd (step s (OpUnlock h)) <> OutPanic.
Proof.
  intros Hex Hopen.
  pose proof (exec_R locks_new spec_new ops R_init) as HR. rewrite Hex in HR.
  destruct (spec_exec spec_new ops) as [sp|] eqn:Es; cbn [Ropt] in HR; [|contradiction].
  destruct (step_sim s sp (OpUnlock h) HR) as [Hout _]. rewrite Hout.
  destruct HR as [Hh _ _ _ _ _]. rewrite Hh, find_handle_map in Hopen.
  cbn [spec_step]. destruct (spec_find h (open sp)); cbn [snd option_map] in *; congruence.
Qed.

(* no request sequence shorter than 2^32 - 1 locks panics except by using a closed handle *)
Theorem node_locked_iff sp n :
  snd (spec_step sp (OpNodeIsLocked n)) = OutBool true <->
  exists x, In x (open sp) /\ node_of (oh_key x) = n.
Proof.
  cbn [spec_step snd]. split.
  - intros H. inversion H as [H1]. apply existsb_exists in H1. destruct H1 as (x & Hx & Hn).
    exists x. split; [exact Hx|apply N.eqb_eq; exact Hn].
  - intros (x & Hx & Hn). f_equal. apply existsb_exists. exists x. split; [exact Hx|].
    unfold on_node. apply N.eqb_eq. exact Hn.
Qed.

Theorem lock_granted_iff sp k ro d :
  s_next sp <> U32_MAX ->
  (snd (spec_step sp (OpLock k ro d)) <> OutLock None <->
   if ro then forall x, In x (open sp) -> oh_key x = k -> oh_ro x = true
   else forall x, In x (open sp) -> oh_key x <> k).
Proof.
  intros Hn. cbn [spec_step]. unfold spec_can_lock.
  assert (En : (s_next sp =? U32_MAX) = false) by (apply N.eqb_neq; exact Hn).
  destruct ro.
  - destruct (existsb (writer_on k) (open sp)) eqn:E; cbn [negb]; rewrite ?En; cbn [snd].
    + split; [congruence|]. intros H. exfalso. apply existsb_exists in E.
      destruct E as (x & Hx & Hw). unfold writer_on in Hw. apply andb_true_iff in Hw.
      destruct Hw as [Hk Hro]. apply skey_eqb_eq in Hk. rewrite (H x Hx Hk) in Hro. discriminate.
    + split; [|discriminate]. intros _ x Hx Hk.
      destruct (oh_ro x) eqn:Er; [reflexivity|]. exfalso.
      assert (existsb (writer_on k) (open sp) = true); [|congruence].
      apply existsb_exists. exists x. split; [exact Hx|]. unfold writer_on, on_key.
      rewrite Hk, skey_eqb_refl, Er. reflexivity.
  - destruct (existsb (on_key k) (open sp)) eqn:E; cbn [negb]; rewrite ?En; cbn [snd].
    + split; [congruence|]. intros H. exfalso. apply existsb_exists in E.
      destruct E as (x & Hx & Hk). apply skey_eqb_eq in Hk. exact (H x Hx Hk).
    + split; [|discriminate]. intros _ x Hx Hk.
      assert (existsb (on_key k) (open sp) = true); [|congruence].
      apply existsb_exists. exists x. split; [exact Hx|]. unfold on_key.
      rewrite Hk. apply skey_eqb_refl.
Qed.

(* ---- a closed handle stays closed: "usable exactly from open until close" over whole histories ---- *)
Definition Dead (h : N) (sp : spec) : Prop :=
  (forall x, In x (open sp) -> oh_id x <> h) /\ h < s_next sp.

Lemma spec_find_none_notin h o :
  (forall x, In x o -> oh_id x <> h) -> spec_find h o = None.
Proof.
  induction o as [|y o IH]; [reflexivity|]. intros H. cbn [spec_find].
  destruct (oh_id y =? h) eqn:E.
  - apply N.eqb_eq in E. exfalso. exact (H y (or_introl eq_refl) E).
  - apply IH. intros x Hx. apply H. right; exact Hx.
Qed.

Lemma Dead_step h sp o sp' :
  Dead h sp -> fst (spec_step sp o) = Some sp' -> Dead h sp'.
Proof.
  intros [Hn Hlt]. destruct o as [k ro d|h2|h2|k|n]; cbn [spec_step].
  - destruct (spec_can_lock (open sp) k ro).
    + destruct (s_next sp =? U32_MAX); cbn [fst]; [discriminate|].
      intros E; inversion E; subst sp'; clear E. split; cbn [open s_next]; [|lia].
      intros x Hx. apply in_app_or in Hx. destruct Hx as [Hx|[<-|[]]]; [auto|].
      cbn [oh_id]. lia.
    + cbn [fst]. intros E; inversion E; subst sp'. split; assumption.
  - destruct (spec_find h2 (open sp)); cbn [fst]; [|discriminate].
    intros E; inversion E; subst sp'; clear E. split; cbn [open s_next]; [|exact Hlt].
    intros x Hx. apply Hn. eapply spec_remove_subset; exact Hx.
  - destruct (spec_find h2 (open sp)); cbn [fst]; [|discriminate].
    intros E; inversion E; subst sp'. split; assumption.
  - cbn [fst]. intros E; inversion E; subst sp'. split; assumption.
  - cbn [fst]. intros E; inversion E; subst sp'. split; assumption.
Qed.

Lemma Dead_exec h ops : forall sp sp',
  Dead h sp -> spec_exec sp ops = Some sp' -> Dead h sp'.
Proof.
  induction ops as [|o t IH]; intros sp sp' Hd; cbn [spec_exec].
  - intros E; inversion E; subst; exact Hd.
  - destruct (fst (spec_step sp o)) as [s1|] eqn:E1; [|discriminate].
    intros H. eapply IH; [|exact H]. eapply Dead_step; [exact Hd|exact E1].
Qed.

Lemma Dead_after_unlock ops sp h sp' :
  spec_exec spec_new ops = Some sp ->
  fst (spec_step sp (OpUnlock h)) = Some sp' -> Dead h sp'.
Proof.
  intros Hr. destruct (handles_never_reused _ _ Hr) as [Hnd Hlt].
  cbn [spec_step]. destruct (spec_find h (open sp)) as [x|] eqn:E; cbn [fst]; [|discriminate].
  intros E'; inversion E'; subst sp'; clear E'.
  destruct (spec_find_split _ _ _ E) as (l1 & l2 & Ho & Hrm & Hid).
  split; cbn [open s_next].
  - rewrite Hrm. rewrite Ho in Hnd. rewrite map_app in Hnd. cbn [map] in Hnd.
    apply NoDup_remove_2 in Hnd. intros y Hy Hy2. apply Hnd. rewrite <- map_app.
    rewrite Hid, <- Hy2. apply in_map. exact Hy.
  - rewrite <- Hid. apply Hlt. rewrite Ho. apply in_or_app. right. left. reflexivity.
Qed.

(* after an open handle is unlocked in any reachable state, no later history makes it usable again:
   get and unlock on it panic in every state reachable afterwards (ids are never handed out twice) *)
Theorem closed_handle_stays_closed ops sp h sp' rest sp'' :
  spec_exec spec_new ops = Some sp ->
  fst (spec_step sp (OpUnlock h)) = Some sp' ->
  spec_exec sp' rest = Some sp'' ->
  snd (spec_step sp'' (OpGet h)) = OutPanic /\ snd (spec_step sp'' (OpUnlock h)) = OutPanic
  /\ forall k ro d, snd (spec_step sp'' (OpLock k ro d)) <> OutLock (Some h).
Proof.
  intros Hr Hu He.
  assert (Hd : Dead h sp'') by (eapply Dead_exec; [eapply Dead_after_unlock; eassumption|exact He]).
  destruct Hd as [Hn Hlt]. cbn [spec_step]. rewrite (spec_find_none_notin _ _ Hn). cbn [snd].
  split; [reflexivity|]. split; [reflexivity|]. intros k ro d.
  destruct (spec_can_lock (open sp'') k ro); [|cbn [snd]; discriminate].
  destruct (s_next sp'' =? U32_MAX); cbn [snd]; [discriminate|].
  intros E; inversion E. lia.
Qed.

(* a handle that was never handed out is not usable either *)
Theorem unissued_handle_unusable ops sp h :
  spec_exec spec_new ops = Some sp -> s_next sp <= h ->
  snd (spec_step sp (OpGet h)) = OutPanic.
Proof.
  intros Hr Hh. destruct (handles_never_reused _ _ Hr) as [_ Hlt].
  cbn [spec_step]. rewrite spec_find_none_fresh; [reflexivity|].
  intros x Hx. specialize (Hlt x Hx). lia.
Qed.

(* a substate is reported locked exactly while some handle on it is open *)
Theorem substate_locked_iff sp k :
  snd (spec_step sp (OpIsLocked k)) = OutBool true <-> exists x, In x (open sp) /\ oh_key x = k.
Proof.
  cbn [spec_step snd]. split.
  - intros H. assert (E : existsb (on_key k) (open sp) = true) by congruence.
    apply existsb_exists in E. destruct E as (x & Hx & Hk). exists x. split; [exact Hx|].
    apply skey_eqb_eq. exact Hk.
  - intros (x & Hx & Hk). f_equal. apply existsb_exists. exists x. split; [exact Hx|].
    unfold on_key. rewrite Hk. apply skey_eqb_refl.
Qed.
