(* C20 — leaf codecs of the SBOR model: integers, value-kind bytes, custom values. *)
From Coq Require Import List NArith ZArith Bool Lia.
Import ListNotations.
Require Import RV.Lib.Utf8 RV.Model.C20_Sbor RV.Proof.C20_Base.
Open Scope N_scope.
Ltac Zify.zify_post_hook ::= Z.div_mod_to_equations.

Arguments N.add : simpl never. Arguments N.sub : simpl never. Arguments N.mul : simpl never.
Arguments N.eqb : simpl never. Arguments N.ltb : simpl never. Arguments N.leb : simpl never.
Arguments N.div : simpl never. Arguments N.modulo : simpl never. Arguments N.pow : simpl never.

(* ------------------------------------------------------------------------------------------ *)
(* little/big endian                                                                           *)
Lemma le_bytes_len : forall n x, length (le_bytes n x) = n.
Proof. induction n; intro x; cbn [le_bytes length]; [reflexivity|]. rewrite IHn. reflexivity. Qed.
Lemma le_bytes_nlen : forall n x, nlen (le_bytes n x) = N.of_nat n.
Proof. intros. rewrite nlen_spec, le_bytes_len. reflexivity. Qed.
Lemma le_bytes_ok : forall n x, bytes_ok (le_bytes n x) = true.
Proof.
  induction n; intro x; cbn [le_bytes]; [reflexivity|]. rewrite bytes_ok_cons, IHn.
  unfold byte_ok. replace (x mod 256 <? 256) with true; [reflexivity|]. symmetry. apply N.ltb_lt. apply N.mod_lt. lia.
Qed.
Lemma le_to_N_le_bytes : forall n x, le_to_N (le_bytes n x) = x mod 256 ^ N.of_nat n.
Proof.
  induction n; intro x.
  - cbn [le_bytes le_to_N]. change (256 ^ N.of_nat 0) with 1. rewrite N.mod_1_r. reflexivity.
  - cbn [le_bytes le_to_N]. rewrite IHn.
    replace (N.of_nat (S n)) with (1 + N.of_nat n) by lia. rewrite N.pow_add_r. change (256 ^ 1) with 256.
    assert (P : 256 ^ N.of_nat n <> 0) by (apply N.pow_nonzero; lia).
    rewrite N.mod_mul_r by lia. lia.
Qed.
Lemma le_to_N_bound : forall l, bytes_ok l = true -> le_to_N l < 256 ^ N.of_nat (length l).
Proof.
  induction l as [|b l IH]; intro H.
  - cbn. lia.
  - rewrite bytes_ok_cons in H. apply andb_true_iff in H. destruct H as [Hb Hl]. apply IH in Hl.
    unfold byte_ok in Hb. apply N.ltb_lt in Hb. cbn [le_to_N length].
    replace (N.of_nat (S (length l))) with (1 + N.of_nat (length l)) by lia. rewrite N.pow_add_r.
    change (256 ^ 1) with 256. nia.
Qed.
Lemma le_bytes_le_to_N : forall l, bytes_ok l = true -> le_bytes (length l) (le_to_N l) = l.
Proof.
  induction l as [|b l IH]; intro H; [reflexivity|].
  rewrite bytes_ok_cons in H. apply andb_true_iff in H. destruct H as [Hb Hl].
  unfold byte_ok in Hb. apply N.ltb_lt in Hb. cbn [le_to_N length le_bytes].
  f_equal.
  - rewrite (N.mul_comm 256 (le_to_N l)), N.mod_add by lia. apply N.mod_small. exact Hb.
  - replace ((b + 256 * le_to_N l) / 256) with (le_to_N l); [apply IH; exact Hl|].
    rewrite (N.mul_comm 256 (le_to_N l)), N.div_add by lia. rewrite (N.div_small b) by exact Hb. lia.
Qed.

Lemma bytes_ok_rev : forall l, bytes_ok (rev l) = bytes_ok l.
Proof.
  induction l as [|b l IH]; [reflexivity|]. cbn [rev]. rewrite bytes_ok_app, IH, bytes_ok_cons.
  cbn [bytes_ok forallb]. rewrite andb_true_r. apply andb_comm.
Qed.
Lemma be_bytes_nlen : forall n x, nlen (be_bytes n x) = N.of_nat n.
Proof. intros. unfold be_bytes. rewrite nlen_spec, rev_length, le_bytes_len. reflexivity. Qed.
Lemma be_bytes_ok : forall n x, bytes_ok (be_bytes n x) = true.
Proof. intros. unfold be_bytes. rewrite bytes_ok_rev. apply le_bytes_ok. Qed.
Lemma be_to_N_be_bytes : forall n x, be_to_N (be_bytes n x) = x mod 256 ^ N.of_nat n.
Proof. intros. unfold be_to_N, be_bytes. rewrite rev_involutive. apply le_to_N_le_bytes. Qed.
Lemma be_bytes_be_to_N : forall l, bytes_ok l = true -> be_bytes (length l) (be_to_N l) = l.
Proof.
  intros l H. unfold be_bytes, be_to_N. rewrite <- (rev_length l).
  rewrite le_bytes_le_to_N by (rewrite bytes_ok_rev; exact H). apply rev_involutive.
Qed.
Lemma be_to_N_bound : forall l, bytes_ok l = true -> be_to_N l < 256 ^ N.of_nat (length l).
Proof. intros l H. unfold be_to_N. rewrite <- (rev_length l). apply le_to_N_bound. rewrite bytes_ok_rev. exact H. Qed.

Lemma nlen_length : forall A (l : list A) n, nlen l = N.of_nat n -> length l = n.
Proof. intros A l n H. rewrite nlen_spec in H. lia. Qed.

(* ------------------------------------------------------------------------------------------ *)
(* integers                                                                                    *)
Lemma enc_int_nlen : forall i z, nlen (enc_int i z) = ikind_bytes i.
Proof. intros. unfold enc_int. rewrite le_bytes_nlen. lia. Qed.
Lemma enc_int_ok : forall i z, bytes_ok (enc_int i z) = true.
Proof. intros. unfold enc_int. apply le_bytes_ok. Qed.

Definition ibits (i : ikind) : Z := Z.of_N (8 * ikind_bytes i).
Lemma ibits_facts : forall i,
  256 ^ N.of_nat (N.to_nat (ikind_bytes i)) = Z.to_N (2 ^ ibits i) /\
  (2 ^ ibits i = 2 * 2 ^ (ibits i - 1))%Z /\ (0 < 2 ^ (ibits i - 1))%Z.
Proof. intro i. destruct i; repeat split; reflexivity. Qed.

Lemma zmod_cases : forall z M, (0 < M)%Z -> (- M <= z < M)%Z ->
  (z mod M = if (z <? 0)%Z then z + M else z)%Z.
Proof.
  intros z M HM Hz. destruct (Z.ltb_spec z 0).
  - symmetry. apply (Z.mod_unique_pos z M (-1)); lia.
  - apply Z.mod_small. lia.
Qed.

Lemma dec_enc_int : forall i z, int_ok i z = true -> dec_int i (enc_int i z) = z.
Proof.
  intros i z H. unfold dec_int, enc_int. rewrite le_to_N_le_bytes.
  destruct (ibits_facts i) as [F1 [F2 F3]]. rewrite F1.
  unfold int_ok in H. cbv zeta in H. fold (ibits i) in *.
  set (M := (2 ^ ibits i)%Z) in *. set (Hh := (2 ^ (ibits i - 1))%Z) in *.
  assert (Hz : (- M <= z < M)%Z).
  { destruct (ikind_signed i); apply andb_true_iff in H; destruct H as [H1 H2];
      [apply Z.leb_le in H1|apply Z.leb_le in H1]; apply Z.ltb_lt in H2; lia. }
  assert (B : (0 <= z mod M < M)%Z) by (apply Z.mod_pos_bound; lia).
  rewrite N.mod_small by lia. rewrite Z2N.id by lia.
  rewrite (zmod_cases z M) in * by lia.
  destruct (ikind_signed i); cbn [andb]; apply andb_true_iff in H; destruct H as [H1 H2];
    apply Z.leb_le in H1; apply Z.ltb_lt in H2.
  - destruct (Z.ltb_spec z 0); match goal with |- context [(?a <=? ?b)%Z] => destruct (Z.leb_spec a b) end; lia.
  - destruct (Z.ltb_spec z 0); lia.
Qed.

Lemma enc_dec_int : forall i l, nlen l = ikind_bytes i -> bytes_ok l = true ->
  int_ok i (dec_int i l) = true /\ enc_int i (dec_int i l) = l.
Proof.
  intros i l Hl Hok.
  assert (B := le_to_N_bound l Hok).
  assert (R := le_bytes_le_to_N l Hok).
  assert (Hlen : length l = N.to_nat (ikind_bytes i)) by (rewrite nlen_spec in Hl; lia).
  destruct (ibits_facts i) as [F1 [F2 F3]].
  unfold dec_int, enc_int, int_ok. cbv zeta. fold (ibits i). rewrite <- Hlen. rewrite Hlen, F1 in B.
  set (u := le_to_N l) in *. set (M := (2 ^ ibits i)%Z) in *. set (Hh := (2 ^ (ibits i - 1))%Z) in *.
  assert (Bz : (0 <= Z.of_N u < M)%Z) by lia.
  assert (E : forall z, (z mod M = Z.of_N u)%Z -> le_bytes (length l) (Z.to_N (z mod M)) = l).
  { intros z Ez. rewrite Ez, N2Z.id. exact R. }
  destruct (ikind_signed i); cbn [andb].
  - destruct (Z.leb_spec Hh (Z.of_N u)).
    + split; [apply andb_true_iff; split; [apply Z.leb_le|apply Z.ltb_lt]; lia|].
      apply E. rewrite (zmod_cases (Z.of_N u - M) M) by lia.
      destruct (Z.ltb_spec (Z.of_N u - M) 0); lia.
    + split; [apply andb_true_iff; split; [apply Z.leb_le|apply Z.ltb_lt]; lia|].
      apply E. apply Z.mod_small. lia.
  - split; [apply andb_true_iff; split; [apply Z.leb_le|apply Z.ltb_lt]; lia|].
    apply E. apply Z.mod_small. lia.
Qed.

(* ------------------------------------------------------------------------------------------ *)
(* value kinds                                                                                 *)
Lemma ikind_eqb_eq : forall a b, ikind_eqb a b = true <-> a = b.
Proof. intros a b. destruct a, b; cbv; split; intro H; try reflexivity; discriminate. Qed.
Lemma ckind_eqb_eq : forall a b, ckind_eqb a b = true <-> a = b.
Proof. intros a b. destruct a, b; cbv; split; intro H; try reflexivity; discriminate. Qed.
Lemma kind_eqb_eq : forall a b, kind_eqb a b = true <-> a = b.
Proof.
  intros a b. destruct a as [|i| | | | | |c], b as [|j| | | | | |e]; cbn [kind_eqb];
    try (split; intro H; try reflexivity; discriminate).
  - rewrite ikind_eqb_eq. split; intro H; [subst|inversion H]; reflexivity.
  - rewrite ckind_eqb_eq. split; intro H; [subst|inversion H]; reflexivity.
Qed.
Lemma kind_eqb_refl : forall a, kind_eqb a a = true.
Proof. intro a. apply kind_eqb_eq. reflexivity. Qed.

Lemma kind_from_u8_as : forall fl k, kind_ok fl k = true -> kind_from_u8 fl (kind_u8 k) = Some k.
Proof. intros fl k H. destruct fl, k as [|i| | | | | |c]; try destruct i; try destruct c; try reflexivity; discriminate. Qed.

Ltac eqb_chain H :=
  repeat match type of H with
  | (if ?b =? ?c then _ else _) = _ =>
    let E := fresh "E" in destruct (b =? c) eqn:E;
    [apply N.eqb_eq in E; subst; inversion H; subst; split; reflexivity|]
  end.
Lemma kind_from_u8_some : forall fl b k, kind_from_u8 fl b = Some k -> kind_u8 k = b /\ kind_ok fl k = true.
Proof.
  intros fl b k H. unfold kind_from_u8 in H. eqb_chain H.
  destruct (128 <=? b); [|discriminate].
  destruct (ckind_from_u8 fl b) as [c|] eqn:C; cbn [option_map] in H; [|discriminate].
  inversion H; subst k. clear H. destruct fl; cbn [ckind_from_u8] in C; [discriminate| |]; eqb_chain C; discriminate.
Qed.
Lemma kind_u8_byte : forall k, kind_u8 k < 256.
Proof. intro k. destruct k as [|i| | | | | |c]; try destruct i; try destruct c; reflexivity. Qed.

Lemma read_value_kind_as : forall fl k rest, kind_ok fl k = true ->
  read_value_kind fl (kind_u8 k :: rest) = Ok (k, rest).
Proof. intros. unfold read_value_kind. cbn [read_byte bind]. rewrite kind_from_u8_as by assumption. reflexivity. Qed.
Lemma read_value_kind_ok : forall fl st k rest, read_value_kind fl st = Ok (k, rest) ->
  st = kind_u8 k :: rest /\ kind_ok fl k = true.
Proof.
  intros fl st k rest H. unfold read_value_kind in H. destruct st as [|b st']; cbn [read_byte bind] in H; [discriminate|].
  destruct (kind_from_u8 fl b) as [k'|] eqn:K; [|discriminate]. inversion H; subst.
  apply kind_from_u8_some in K. destruct K as [K1 K2]. subst b. split; [reflexivity|exact K2].
Qed.

(* ------------------------------------------------------------------------------------------ *)
(* custom values                                                                               *)
Lemma fixed_ok_inv : forall n b, fixed_ok n b = true -> nlen b = n /\ bytes_ok b = true.
Proof. intros n b H. unfold fixed_ok in H. apply andb_true_iff in H. destruct H as [H1 H2]. apply N.eqb_eq in H1. split; assumption. Qed.
Lemma fixed_ok_intro : forall n b, nlen b = n -> bytes_ok b = true -> fixed_ok n b = true.
Proof. intros n b H1 H2. unfold fixed_ok. rewrite H1, N.eqb_refl, H2. reflexivity. Qed.

Lemma bytes_ok_split : forall a b, bytes_ok (a ++ b) = true -> bytes_ok a = true /\ bytes_ok b = true.
Proof. intros a b H. rewrite bytes_ok_app in H. apply andb_true_iff in H. exact H. Qed.

Lemma read_slice_fixed : forall n b rest, nlen b = n -> read_slice n (b ++ rest) = Ok (b, rest).
Proof. intros n b rest H. subst n. apply read_slice_app. Qed.

Opaque le_bytes be_bytes le_to_N be_to_N.
Lemma dec_enc_nfid : forall id bs rest, nfid_wf id = true -> nfid_valid id = true ->
  enc_nfid id = Ok bs -> dec_nfid (bs ++ rest) = Ok (id, rest).
Proof.
  intros id bs rest Hwf Hv E. destruct id as [s|n|b|b]; cbn [enc_nfid] in E.
  - destruct (write_size (nlen s)) as [sz| | |] eqn:W; cbn [bind] in E; try discriminate. inversion E; subst bs. clear E.
    unfold dec_nfid. cbn [app read_byte bind]. rewrite N.eqb_refl. rewrite <- app_assoc.
    rewrite (write_size_read _ _ _ W). cbn [bind]. rewrite read_slice_app. cbn [bind].
    cbn [nfid_wf] in Hwf. apply andb_true_iff in Hwf. destruct Hwf as [_ U]. rewrite U, Hv. reflexivity.
  - inversion E; subst bs. clear E. unfold dec_nfid. cbn [app read_byte bind].
    replace (1 =? 0) with false by reflexivity. rewrite N.eqb_refl.
    rewrite read_slice_fixed by apply be_bytes_nlen. cbn [bind]. rewrite be_to_N_be_bytes.
    cbn [nfid_wf] in Hwf. apply N.ltb_lt in Hwf. change (256 ^ N.of_nat 8) with 18446744073709551616.
    rewrite N.mod_small by exact Hwf. reflexivity.
  - destruct (write_size (nlen b)) as [sz| | |] eqn:W; cbn [bind] in E; try discriminate. inversion E; subst bs. clear E.
    unfold dec_nfid. cbn [app read_byte bind]. replace (2 =? 0) with false by reflexivity.
    replace (2 =? 1) with false by reflexivity. rewrite N.eqb_refl. rewrite <- app_assoc.
    rewrite (write_size_read _ _ _ W). cbn [bind]. rewrite read_slice_app. cbn [bind]. rewrite Hv. reflexivity.
  - inversion E; subst bs. clear E. unfold dec_nfid. cbn [app read_byte bind].
    replace (3 =? 0) with false by reflexivity. replace (3 =? 1) with false by reflexivity.
    replace (3 =? 2) with false by reflexivity. rewrite N.eqb_refl.
    cbn [nfid_wf] in Hwf. apply fixed_ok_inv in Hwf. destruct Hwf as [L _].
    rewrite read_slice_fixed by exact L. reflexivity.
Qed.

Lemma enc_dec_nfid : forall st id rest, bytes_ok st = true -> dec_nfid st = Ok (id, rest) ->
  nfid_wf id = true /\ nfid_valid id = true /\ exists bs, st = bs ++ rest /\ enc_nfid id = Ok bs /\ bs <> [].
Proof.
  intros st id rest Hok D. unfold dec_nfid in D.
  destruct st as [|d st']; cbn [read_byte bind] in D; [discriminate|].
  rewrite bytes_ok_cons in Hok. apply andb_true_iff in Hok. destruct Hok as [_ Hok].
  destruct (d =? 0) eqn:D0; [apply N.eqb_eq in D0; subst d|].
  { destruct (read_size st') as [[n st2]| | |] eqn:R; cbn [bind] in D; try discriminate.
    destruct (read_slice n st2) as [[s st3]| | |] eqn:S; cbn [bind] in D; try discriminate.
    destruct (utf8_valid s && nfid_valid (NfString s)) eqn:V; [|discriminate]. inversion D; subst id rest. clear D.
    apply andb_true_iff in V. destruct V as [V1 V2].
    apply read_size_write in R; [|exact Hok]. destruct R as [sz [E1 [W _]]]. subst st'.
    apply read_slice_ok in S. destruct S as [E2 L]. subst st2 n.
    apply bytes_ok_split in Hok. destruct Hok as [_ Hok]. apply bytes_ok_split in Hok. destruct Hok as [Hs _].
    split; [cbn [nfid_wf]; rewrite Hs, V1; reflexivity|]. split; [exact V2|].
    exists (0 :: sz ++ s). split; [cbn [app]; rewrite <- app_assoc; reflexivity|]. split; [|discriminate].
    cbn [enc_nfid]. rewrite W. reflexivity. }
  destruct (d =? 1) eqn:D1; [apply N.eqb_eq in D1; subst d|].
  { destruct (read_slice 8 st') as [[s st3]| | |] eqn:S; cbn [bind] in D; try discriminate.
    inversion D; subst id rest. clear D. apply read_slice_ok in S. destruct S as [E2 L]. subst st'.
    apply bytes_ok_split in Hok. destruct Hok as [Hs _].
    assert (Len : length s = 8%nat) by (apply nlen_length; exact L).
    assert (B := be_to_N_bound s Hs). rewrite Len in B. change (256 ^ N.of_nat 8) with 18446744073709551616 in B.
    split; [cbn [nfid_wf]; apply N.ltb_lt; exact B|]. split; [reflexivity|].
    exists (1 :: s). split; [reflexivity|]. split; [|discriminate]. cbn [enc_nfid].
    rewrite <- Len. rewrite be_bytes_be_to_N by exact Hs. reflexivity. }
  destruct (d =? 2) eqn:D2; [apply N.eqb_eq in D2; subst d|].
  { destruct (read_size st') as [[n st2]| | |] eqn:R; cbn [bind] in D; try discriminate.
    destruct (read_slice n st2) as [[s st3]| | |] eqn:S; cbn [bind] in D; try discriminate.
    destruct (nfid_valid (NfBytes s)) eqn:V; [|discriminate]. inversion D; subst id rest. clear D.
    apply read_size_write in R; [|exact Hok]. destruct R as [sz [E1 [W _]]]. subst st'.
    apply read_slice_ok in S. destruct S as [E2 L]. subst st2 n.
    apply bytes_ok_split in Hok. destruct Hok as [_ Hok]. apply bytes_ok_split in Hok. destruct Hok as [Hs _].
    split; [exact Hs|]. split; [exact V|].
    exists (2 :: sz ++ s). split; [cbn [app]; rewrite <- app_assoc; reflexivity|]. split; [|discriminate].
    cbn [enc_nfid]. rewrite W. reflexivity. }
  destruct (d =? 3) eqn:D3; [apply N.eqb_eq in D3; subst d|discriminate].
  destruct (read_slice 32 st') as [[s st3]| | |] eqn:S; cbn [bind] in D; try discriminate.
  inversion D; subst id rest. clear D. apply read_slice_ok in S. destruct S as [E2 L]. subst st'.
  apply bytes_ok_split in Hok. destruct Hok as [Hs _].
  split; [cbn [nfid_wf]; apply fixed_ok_intro; assumption|]. split; [reflexivity|].
  exists (3 :: s). split; [reflexivity|]. split; [reflexivity|discriminate].
Qed.

Lemma le4_small : forall n, u32_ok n = true -> le_to_N (le_bytes 4 n) = n.
Proof.
  intros n H. rewrite le_to_N_le_bytes. unfold u32_ok in H. apply N.ltb_lt in H.
  change (256 ^ N.of_nat 4) with 4294967296. apply N.mod_small. exact H.
Qed.

Lemma dec_enc_custom : forall c bs rest, cvalue_wf c = true -> cvalue_valid c = true ->
  enc_custom c = Ok bs -> dec_custom (cvalue_kind c) (bs ++ rest) = Ok (c, rest).
Proof.
  intros c bs rest Hwf Hv E.
  destruct c; cbn [enc_custom cvalue_kind cvalue_wf] in *;
    try (inversion E; subst bs; clear E; apply fixed_ok_inv in Hwf; destruct Hwf as [L _];
         cbn [dec_custom]; rewrite read_slice_fixed by exact L; reflexivity).
  - (* SNonFungibleLocalId *)
    apply andb_true_iff in Hwf. destruct Hwf as [W1 W2]. cbn [dec_custom].
    rewrite (dec_enc_nfid id bs rest W1 W2 E). reflexivity.
  - (* MAddressStatic *)
    inversion E; subst bs; clear E. apply fixed_ok_inv in Hwf. destruct Hwf as [L _].
    cbn [dec_custom app read_byte bind]. rewrite N.eqb_refl. rewrite read_slice_fixed by exact L. cbn [bind].
    rewrite Hv. reflexivity.
  - (* MAddressNamed *)
    inversion E; subst bs; clear E. cbn [dec_custom app read_byte bind].
    replace (1 =? 0) with false by reflexivity. rewrite N.eqb_refl.
    rewrite read_slice_fixed by apply le_bytes_nlen. cbn [bind]. rewrite le4_small by exact Hwf. reflexivity.
  - inversion E; subst bs; clear E. cbn [dec_custom]. rewrite read_slice_fixed by apply le_bytes_nlen.
    cbn [bind]. rewrite le4_small by exact Hwf. reflexivity.
  - inversion E; subst bs; clear E. cbn [dec_custom]. rewrite read_slice_fixed by apply le_bytes_nlen.
    cbn [bind]. rewrite le4_small by exact Hwf. reflexivity.
  - (* MExpression *)
    inversion E; subst bs; clear E. cbn [dec_custom]. rewrite read_slice_fixed by reflexivity. destruct auth_zone; reflexivity.
  - (* MNonFungibleLocalId *)
    cbn [dec_custom]. cbn [cvalue_valid] in Hv. rewrite (dec_enc_nfid id bs rest Hwf Hv E). reflexivity.
  - inversion E; subst bs; clear E. cbn [dec_custom]. rewrite read_slice_fixed by apply le_bytes_nlen.
    cbn [bind]. rewrite le4_small by exact Hwf. reflexivity.
Qed.

Ltac fixed_case D Hok n ctor :=
  match type of D with
  | context [read_slice n ?st] =>
    let s := fresh "s" in let st3 := fresh "st3" in let S := fresh "S" in
    destruct (read_slice n st) as [[s st3]| | |] eqn:S; cbn [bind] in D; try discriminate;
    inversion D; subst; clear D; apply read_slice_ok in S; destruct S as [E2 L]; subst;
    apply bytes_ok_split in Hok; destruct Hok as [Hs _]
  end.

Lemma le4_back : forall s, nlen s = 4 -> bytes_ok s = true -> u32_ok (le_to_N s) = true /\ le_bytes 4 (le_to_N s) = s.
Proof.
  intros s L Hs. assert (Len : length s = 4%nat) by (apply nlen_length; exact L).
  assert (B := le_to_N_bound s Hs). rewrite Len in B. change (256 ^ N.of_nat 4) with 4294967296 in B.
  split; [unfold u32_ok; apply N.ltb_lt; exact B|]. rewrite <- Len. apply le_bytes_le_to_N. exact Hs.
Qed.

Lemma enc_dec_custom : forall ck st c rest, bytes_ok st = true -> dec_custom ck st = Ok (c, rest) ->
  cvalue_kind c = ck /\ cvalue_wf c = true /\ cvalue_valid c = true /\
  exists bs, st = bs ++ rest /\ enc_custom c = Ok bs /\ bs <> [].
Proof.
  intros ck st c rest Hok D.
  assert (NE : forall n (s : bytes), nlen s = n -> n <> 0 -> s <> []).
  { intros n s L Hn C. subst s. rewrite nlen_nil in L. lia. }
  destruct ck; cbn [dec_custom] in D.
  - fixed_case D Hok 30 SReference. repeat split; try reflexivity. { apply fixed_ok_intro; assumption. }
    eexists; repeat split; try reflexivity. eapply NE; [reflexivity|lia].
  - fixed_case D Hok 30 SOwn. repeat split; try reflexivity. { apply fixed_ok_intro; assumption. }
    eexists; repeat split; try reflexivity. eapply NE; [reflexivity|lia].
  - fixed_case D Hok 24 SDecimal. repeat split; try reflexivity. { apply fixed_ok_intro; assumption. }
    eexists; repeat split; try reflexivity. eapply NE; [reflexivity|lia].
  - fixed_case D Hok 32 SPreciseDecimal. repeat split; try reflexivity. { apply fixed_ok_intro; assumption. }
    eexists; repeat split; try reflexivity. eapply NE; [reflexivity|lia].
  - destruct (dec_nfid st) as [[id st3]| | |] eqn:N; cbn [bind] in D; try discriminate. inversion D; subst; clear D.
    apply enc_dec_nfid in N; [|exact Hok]. destruct N as [W [V [bs [E1 [E2 E3]]]]].
    repeat split; try reflexivity. { cbn [cvalue_wf]. rewrite W, V. reflexivity. }
    exists bs. repeat split; assumption.
  - (* CMAddress *)
    destruct st as [|d st']; cbn [read_byte bind] in D; [discriminate|].
    rewrite bytes_ok_cons in Hok. apply andb_true_iff in Hok. destruct Hok as [_ Hok].
    destruct (d =? 0) eqn:D0; [apply N.eqb_eq in D0; subst d|].
    { destruct (read_slice 30 st') as [[s st3]| | |] eqn:S; cbn [bind] in D; try discriminate.
      destruct (cvalue_valid (MAddressStatic s)) eqn:V; [|discriminate]. inversion D; subst; clear D.
      apply read_slice_ok in S. destruct S as [E2 L]. subst. apply bytes_ok_split in Hok. destruct Hok as [Hs _].
      repeat split; try reflexivity; try assumption. { apply fixed_ok_intro; assumption. }
      exists (0 :: s). repeat split; try reflexivity. discriminate. }
    destruct (d =? 1) eqn:D1; [apply N.eqb_eq in D1; subst d|discriminate].
    destruct (read_slice 4 st') as [[s st3]| | |] eqn:S; cbn [bind] in D; try discriminate.
    inversion D; subst; clear D. apply read_slice_ok in S. destruct S as [E2 L]. subst.
    apply bytes_ok_split in Hok. destruct Hok as [Hs _]. destruct (le4_back s L Hs) as [U R].
    repeat split; try reflexivity; try assumption.
    exists (1 :: s). repeat split; try reflexivity; [|discriminate]. cbn [enc_custom]. rewrite R. reflexivity.
  - fixed_case D Hok 4 MBucket. destruct (le4_back s L Hs) as [U R]. repeat split; try reflexivity; try assumption.
    exists s. repeat split; try reflexivity. { cbn [enc_custom]. rewrite R. reflexivity. } eapply NE; [exact L|lia].
  - fixed_case D Hok 4 MProof. destruct (le4_back s L Hs) as [U R]. repeat split; try reflexivity; try assumption.
    exists s. repeat split; try reflexivity. { cbn [enc_custom]. rewrite R. reflexivity. } eapply NE; [exact L|lia].
  - (* CMExpression *)
    destruct (read_slice 1 st) as [[s st3]| | |] eqn:S; cbn [bind] in D; try discriminate.
    apply read_slice_ok in S. destruct S as [E2 L]. subst.
    destruct s as [|b [|b2 s]]; try discriminate.
    destruct (b =? 0) eqn:B0; [apply N.eqb_eq in B0; subst b; inversion D; subst; clear D|].
    { repeat split; try reflexivity. exists [0]. repeat split; try reflexivity. discriminate. }
    destruct (b =? 1) eqn:B1; [apply N.eqb_eq in B1; subst b; inversion D; subst; clear D|discriminate].
    repeat split; try reflexivity. exists [1]. repeat split; try reflexivity. discriminate.
  - fixed_case D Hok 32 MBlob. repeat split; try reflexivity. { apply fixed_ok_intro; assumption. }
    eexists; repeat split; try reflexivity. eapply NE; [reflexivity|lia].
  - fixed_case D Hok 24 MDecimal. repeat split; try reflexivity. { apply fixed_ok_intro; assumption. }
    eexists; repeat split; try reflexivity. eapply NE; [reflexivity|lia].
  - fixed_case D Hok 32 MPreciseDecimal. repeat split; try reflexivity. { apply fixed_ok_intro; assumption. }
    eexists; repeat split; try reflexivity. eapply NE; [reflexivity|lia].
  - destruct (dec_nfid st) as [[id st3]| | |] eqn:N; cbn [bind] in D; try discriminate. inversion D; subst; clear D.
    apply enc_dec_nfid in N; [|exact Hok]. destruct N as [W [V [bs [E1 [E2 E3]]]]].
    repeat split; try reflexivity; try assumption. exists bs. repeat split; assumption.
  - fixed_case D Hok 4 MAddressReservation. destruct (le4_back s L Hs) as [U R]. repeat split; try reflexivity; try assumption.
    exists s. repeat split; try reflexivity. { cbn [enc_custom]. rewrite R. reflexivity. } eapply NE; [exact L|lia].
Qed.

Transparent le_bytes be_bytes le_to_N be_to_N.
(* totality of the leaf decoders *)
Lemma read_slice_total : forall n st, read_slice n st <> OutOfFuel /\ read_slice n st <> Panic.
Proof. intros. unfold read_slice. destruct (take n st); split; discriminate. Qed.
Lemma read_byte_total : forall st, read_byte st <> OutOfFuel /\ read_byte st <> Panic.
Proof. intros. destruct st; split; discriminate. Qed.
