(* C22 — proofs about the value-level validation model (Model/C22_Schema.v):
   `validates` decides the declarative typing relation `HasType`; the Any type accepts everything. *)
From Coq Require Import List NArith ZArith Bool Lia.
Import ListNotations.
Require Import RV.Model.C20_Sbor RV.Model.C22_Types RV.Model.C22_Schema RV.Proof.C20_Sbor.
Open Scope N_scope.

Arguments N.add : simpl never. Arguments N.sub : simpl never. Arguments N.mul : simpl never.
Arguments N.eqb : simpl never. Arguments N.ltb : simpl never. Arguments N.leb : simpl never.

Lemma ikind_eqb_eq : forall i j, ikind_eqb i j = true <-> i = j.
Proof. destruct i, j; vm_compute; split; intro H; try reflexivity; try discriminate. Qed.
Lemma ikind_eqb_refl : forall i, ikind_eqb i i = true.
Proof. intro i. apply ikind_eqb_eq. reflexivity. Qed.

Lemma len_ok_spec : forall b n, len_ok b n = true <-> LenOk b n.
Proof. intros b n. unfold len_ok, LenOk. rewrite andb_true_iff, !N.leb_le. tauto. Qed.
Lemma num_ok_spec : forall i b z, num_ok i b z = true <-> NumOk i b z.
Proof. intros i b z. unfold num_ok, NumOk. rewrite andb_true_iff, !Z.leb_le. tauto. Qed.

Lemma container_val_ok_spec : forall tv v, container_val_ok tv v = true <-> ContainerValOk tv v.
Proof.
  intros tv v; split.
  - destruct tv; cbn; intro H; try discriminate; [constructor| |];
      destruct v; try discriminate; constructor; apply len_ok_spec; exact H.
  - intro H; destruct H; cbn; [reflexivity| |]; apply len_ok_spec; assumption.
Qed.

Lemma leaf_val_ok_spec : forall tv v, is_leaf v = true -> (leaf_val_ok tv v = true <-> LeafValOk tv v).
Proof.
  intros tv v L; split.
  - destruct v; try discriminate L; destruct tv; cbn; intro H; try discriminate; try constructor.
    + apply andb_true_iff in H. destruct H as [E H]. apply ikind_eqb_eq in E. subst i0.
      constructor. apply num_ok_spec. exact H.
    + apply len_ok_spec. exact H.
    + destruct c; try discriminate. constructor. exact H.
    + destruct c; try discriminate. constructor. exact H.
  - intro H; destruct H; cbn.
    + destruct v; try discriminate L; reflexivity.
    + rewrite ikind_eqb_refl. apply num_ok_spec. assumption.
    + apply len_ok_spec. assumption.
    + assumption.
    + assumption.
Qed.

Lemma forallb_Forall_iff : forall A (f : A -> bool) (P : A -> Prop) l,
  Forall (fun x => f x = true <-> P x) l -> (forallb f l = true <-> Forall P l).
Proof.
  intros A f P l H. induction H as [|x l Hx _ IH]; cbn.
  - split; intro; [constructor|reflexivity].
  - rewrite andb_true_iff, IH, Hx. split.
    + intros [a b]. constructor; assumption.
    + intro F. inversion F. tauto.
Qed.

Lemma forall2b_Forall2_iff : forall A B (f : A -> B -> bool) (P : A -> B -> Prop) l2,
  Forall (fun y => forall x, f x y = true <-> P x y) l2 ->
  forall l1, forall2b f l1 l2 = true <-> Forall2 P l1 l2.
Proof.
  intros A B f P l2 H. induction H as [|y l2 Hy _ IH]; intros [|x l1]; cbn.
  - split; intro; [constructor|reflexivity].
  - split; intro H; [discriminate|inversion H].
  - split; intro H; [discriminate|inversion H].
  - rewrite andb_true_iff, IH, Hy. split.
    + intros [a b]. constructor; assumption.
    + intro F. inversion F. tauto.
Qed.

(* the map-entry loops of `validates`, named *)
Definition val_entries (s : schema) (tk tvl : tid) := fix go (l : list (value * value)) : bool :=
  match l with
  | [] => true
  | (a, b) :: r => validates s tk a && validates s tvl b && go r
  end.

Lemma val_entries_iff : forall s tk tvl es,
  Forall (fun p => (forall t, validates s t (fst p) = true <-> HasType s t (fst p)) /\
                   (forall t, validates s t (snd p) = true <-> HasType s t (snd p))) es ->
  (val_entries s tk tvl es = true <->
   Forall (fun p => HasType s tk (fst p) /\ HasType s tvl (snd p)) es).
Proof.
  intros s tk tvl es H. induction H as [|[a b] l [Ha Hb] _ IH]; cbn.
  - split; intro; [constructor|reflexivity].
  - cbn in Ha, Hb. rewrite !andb_true_iff, IH, Ha, Hb. split.
    + intros [[x y] z]. constructor; [split|]; assumption.
    + intro F. inversion F as [|? ? [x y] z]. tauto.
Qed.

Lemma validates_tuple_eq : forall s t fs,
  validates s t (VTuple fs) =
  match resolve_kind s t, resolve_val s t with
  | Some k, Some tv =>
    container_val_ok tv (VTuple fs) &&
    match k with
    | TAny => forallb (validates s any_tid) fs
    | TTuple fts => forall2b (fun ft x => validates s ft x) fts fs
    | _ => false
    end
  | _, _ => false
  end.
Proof. reflexivity. Qed.
Lemma validates_enum_eq : forall s t d fs,
  validates s t (VEnum d fs) =
  match resolve_kind s t, resolve_val s t with
  | Some k, Some tv =>
    container_val_ok tv (VEnum d fs) &&
    match k with
    | TAny => forallb (validates s any_tid) fs
    | TEnum vs =>
      match find_variant d vs with
      | Some fts => forall2b (fun ft x => validates s ft x) fts fs
      | None => false
      end
    | _ => false
    end
  | _, _ => false
  end.
Proof. reflexivity. Qed.
Lemma validates_array_eq : forall s t ek es,
  validates s t (VArray ek es) =
  match resolve_kind s t, resolve_val s t with
  | Some k, Some tv =>
    container_val_ok tv (VArray ek es) &&
    match k with
    | TAny => forallb (validates s any_tid) es
    | TArray e =>
      match resolve_kind s e with
      | Some ke => kind_matches ek ke && forallb (validates s e) es
      | None => false
      end
    | _ => false
    end
  | _, _ => false
  end.
Proof. reflexivity. Qed.
Lemma validates_map_eq : forall s t kk vk es,
  validates s t (VMap kk vk es) =
  match resolve_kind s t, resolve_val s t with
  | Some k, Some tv =>
    container_val_ok tv (VMap kk vk es) &&
    match k with
    | TAny => val_entries s any_tid any_tid es
    | TMap tk tvl =>
      match resolve_kind s tk, resolve_kind s tvl with
      | Some kk', Some vk' =>
        kind_matches kk kk' && kind_matches vk vk' && val_entries s tk tvl es
      | _, _ => false
      end
    | _ => false
    end
  | _, _ => false
  end.
Proof. reflexivity. Qed.
Lemma validates_leaf_eq : forall s t v, is_leaf v = true ->
  validates s t v =
  match resolve_kind s t, resolve_val s t with
  | Some k, Some tv => kind_matches (value_kind v) k && leaf_val_ok tv v
  | _, _ => false
  end.
Proof. intros s t v L. destruct v; try discriminate L; reflexivity. Qed.

Lemma validates_leaf_iff : forall s t v, is_leaf v = true ->
  (validates s t v = true <-> HasType s t v).
Proof.
  intros s t v L. rewrite (validates_leaf_eq s t v L). split.
  - destruct (resolve_kind s t) as [k|] eqn:Ek; [|discriminate].
    destruct (resolve_val s t) as [tv|] eqn:Ev; [|discriminate].
    intro H. apply andb_true_iff in H. destruct H as [H1 H2].
    eapply HT_leaf; eauto. apply leaf_val_ok_spec; assumption.
  - intro H. inversion H; subst; try discriminate L.
    match goal with
    | Hk : resolve_kind s t = Some _, Hv : resolve_val s t = Some _ |- _ => rewrite Hk, Hv
    end.
    apply andb_true_iff. split; [assumption|]. apply leaf_val_ok_spec; assumption.
Qed.

Theorem validates_spec : forall s v t, validates s t v = true <-> HasType s t v.
Proof.
  intros s v. induction v using value_ind'; intro t;
    try (apply validates_leaf_iff; reflexivity).
  - (* enum *)
    rewrite validates_enum_eq. split.
    + destruct (resolve_kind s t) as [k|] eqn:Ek; [|discriminate].
      destruct (resolve_val s t) as [tv|] eqn:Ev; [|discriminate].
      intro X. apply andb_true_iff in X. destruct X as [C X]. apply container_val_ok_spec in C.
      destruct k; try discriminate.
      * eapply HT_enum_any; eauto.
        apply (forallb_Forall_iff _ (validates s any_tid) (HasType s any_tid)); [|exact X].
        eapply Forall_impl; [|exact H]. intros a Ha. apply Ha.
      * destruct (find_variant d variants) as [fts|] eqn:Ef; [|discriminate].
        eapply HT_enum; eauto.
        apply (forall2b_Forall2_iff _ _ (fun ft x => validates s ft x) (HasType s) fs); [|exact X].
        eapply Forall_impl; [|exact H]. intros a Ha x. apply Ha.
    + intro X. inversion X; subst; try discriminate.
      * match goal with Hk : resolve_kind s t = Some _, Hv : resolve_val s t = Some _ |- _ => rewrite Hk, Hv end.
        apply andb_true_iff. split; [apply container_val_ok_spec; assumption|].
        match goal with Hf : find_variant _ _ = Some _ |- _ => rewrite Hf end.
        apply (forall2b_Forall2_iff _ _ (fun ft x => validates s ft x) (HasType s) fs); [|assumption].
        eapply Forall_impl; [|exact H]. intros a Ha x. apply Ha.
      * match goal with Hk : resolve_kind s t = Some _, Hv : resolve_val s t = Some _ |- _ => rewrite Hk, Hv end.
        apply andb_true_iff. split; [apply container_val_ok_spec; assumption|].
        apply (forallb_Forall_iff _ (validates s any_tid) (HasType s any_tid)); [|assumption].
        eapply Forall_impl; [|exact H]. intros a Ha. apply Ha.
  - (* array *)
    rewrite validates_array_eq. split.
    + destruct (resolve_kind s t) as [k|] eqn:Ek; [|discriminate].
      destruct (resolve_val s t) as [tv|] eqn:Ev; [|discriminate].
      intro X. apply andb_true_iff in X. destruct X as [C X]. apply container_val_ok_spec in C.
      destruct k; try discriminate.
      * eapply HT_array_any; eauto.
        apply (forallb_Forall_iff _ (validates s any_tid) (HasType s any_tid)); [|exact X].
        eapply Forall_impl; [|exact H]. intros a Ha. apply Ha.
      * destruct (resolve_kind s elem) as [ke|] eqn:Ee; [|discriminate].
        apply andb_true_iff in X. destruct X as [M X].
        eapply HT_array; eauto.
        apply (forallb_Forall_iff _ (validates s elem) (HasType s elem)); [|exact X].
        eapply Forall_impl; [|exact H]. intros a Ha. apply Ha.
    + intro X. inversion X; subst; try discriminate.
      * match goal with Hk : resolve_kind s t = Some _, Hv : resolve_val s t = Some _ |- _ => rewrite Hk, Hv end.
        apply andb_true_iff. split; [apply container_val_ok_spec; assumption|].
        match goal with He : resolve_kind s e = Some _ |- _ => rewrite He end.
        apply andb_true_iff. split; [assumption|].
        apply (forallb_Forall_iff _ (validates s e) (HasType s e)); [|assumption].
        eapply Forall_impl; [|exact H]. intros a Ha. apply Ha.
      * match goal with Hk : resolve_kind s t = Some _, Hv : resolve_val s t = Some _ |- _ => rewrite Hk, Hv end.
        apply andb_true_iff. split; [apply container_val_ok_spec; assumption|].
        apply (forallb_Forall_iff _ (validates s any_tid) (HasType s any_tid)); [|assumption].
        eapply Forall_impl; [|exact H]. intros a Ha. apply Ha.
  - (* tuple *)
    rewrite validates_tuple_eq. split.
    + destruct (resolve_kind s t) as [k|] eqn:Ek; [|discriminate].
      destruct (resolve_val s t) as [tv|] eqn:Ev; [|discriminate].
      intro X. apply andb_true_iff in X. destruct X as [C X]. apply container_val_ok_spec in C.
      destruct k; try discriminate.
      * eapply HT_tuple_any; eauto.
        apply (forallb_Forall_iff _ (validates s any_tid) (HasType s any_tid)); [|exact X].
        eapply Forall_impl; [|exact H]. intros a Ha. apply Ha.
      * eapply HT_tuple; eauto.
        apply (forall2b_Forall2_iff _ _ (fun ft x => validates s ft x) (HasType s) fs); [|exact X].
        eapply Forall_impl; [|exact H]. intros a Ha x. apply Ha.
    + intro X. inversion X; subst; try discriminate.
      * match goal with Hk : resolve_kind s t = Some _, Hv : resolve_val s t = Some _ |- _ => rewrite Hk, Hv end.
        apply andb_true_iff. split; [apply container_val_ok_spec; assumption|].
        apply (forall2b_Forall2_iff _ _ (fun ft x => validates s ft x) (HasType s) fs); [|assumption].
        eapply Forall_impl; [|exact H]. intros a Ha x. apply Ha.
      * match goal with Hk : resolve_kind s t = Some _, Hv : resolve_val s t = Some _ |- _ => rewrite Hk, Hv end.
        apply andb_true_iff. split; [apply container_val_ok_spec; assumption|].
        apply (forallb_Forall_iff _ (validates s any_tid) (HasType s any_tid)); [|assumption].
        eapply Forall_impl; [|exact H]. intros a Ha. apply Ha.
  - (* map *)
    rewrite validates_map_eq. split.
    + destruct (resolve_kind s t) as [k|] eqn:Ek; [|discriminate].
      destruct (resolve_val s t) as [tv|] eqn:Ev; [|discriminate].
      intro X. apply andb_true_iff in X. destruct X as [C X]. apply container_val_ok_spec in C.
      destruct k; try discriminate.
      * eapply HT_map_any; eauto. apply val_entries_iff; assumption.
      * destruct (resolve_kind s key) as [kk'|] eqn:E1; [|discriminate].
        destruct (resolve_kind s val) as [vk'|] eqn:E2; [|discriminate].
        apply andb_true_iff in X. destruct X as [X X3]. apply andb_true_iff in X. destruct X as [X1 X2].
        eapply HT_map; eauto. apply val_entries_iff; assumption.
    + intro X. inversion X; subst; try discriminate.
      * match goal with Hk : resolve_kind s t = Some _, Hv : resolve_val s t = Some _ |- _ => rewrite Hk, Hv end.
        apply andb_true_iff. split; [apply container_val_ok_spec; assumption|].
        repeat match goal with He : resolve_kind s _ = Some _ |- _ => rewrite He; clear He end.
        rewrite !andb_true_iff. repeat split; try assumption. apply val_entries_iff; assumption.
      * match goal with Hk : resolve_kind s t = Some _, Hv : resolve_val s t = Some _ |- _ => rewrite Hk, Hv end.
        apply andb_true_iff. split; [apply container_val_ok_spec; assumption|].
        apply val_entries_iff; assumption.
Qed.

(* ------------------------------------------------------------------------------------------ *)
(* Any accepts everything                                                                      *)
Lemma any_resolves : forall s, resolve_kind s any_tid = Some TAny /\ resolve_val s any_tid = Some VNone.
Proof. intro s. split; vm_compute; reflexivity. Qed.

Theorem any_accepts_all : forall s v, validates s any_tid v = true.
Proof.
  intros s v. destruct (any_resolves s) as [Ek Ev].
  induction v using value_ind'.
  1-3, 8: (rewrite validates_leaf_eq by reflexivity; rewrite Ek, Ev; reflexivity).
  - rewrite validates_enum_eq, Ek, Ev. cbn [container_val_ok andb]. apply forallb_forall.
    intros x Hx. rewrite Forall_forall in H. apply H; assumption.
  - rewrite validates_array_eq, Ek, Ev. cbn [container_val_ok andb]. apply forallb_forall.
    intros x Hx. rewrite Forall_forall in H. apply H; assumption.
  - rewrite validates_tuple_eq, Ek, Ev. cbn [container_val_ok andb]. apply forallb_forall.
    intros x Hx. rewrite Forall_forall in H. apply H; assumption.
  - rewrite validates_map_eq, Ek, Ev. cbn [container_val_ok andb].
    induction H as [|[a b] l [Ha Hb] _ IH]; cbn; [reflexivity|].
    cbn in Ha, Hb. rewrite Ha, Hb, IH. reflexivity.
Qed.

(* payload level: at the Any type, the value-level acceptance is exactly decodability *)
Theorem any_accepts_decodable : forall s md p,
  validates_payload s any_tid md p = true <-> exists v, decode_payload Scrypto md p = Ok v.
Proof.
  intros s md p. unfold validates_payload.
  destruct (decode_payload Scrypto md p) as [v| | |]; split; intro H;
    try discriminate; try (destruct H as [v' H]; discriminate).
  - exists v; reflexivity.
  - apply any_accepts_all.
Qed.

(* a type id that does not resolve accepts nothing *)
Theorem unresolved_rejects_all : forall s t v, resolve_kind s t = None -> validates s t v = false.
Proof. intros s t v H. destruct v; cbn; rewrite H; reflexivity. Qed.
