(* C23 — from the executable comparison (Model/C23_SchemaCmp.v) to the semantic simulation
   (Proof/C23_Sim.v): an empty error list means the cache of compared pairs is a relation closed
   under ShallowSim, hence (sim_sound) every value of a base root type has the compared root type.
   Under the equality structure/validation settings the inverse relation is closed as well. *)
From Coq Require Import List NArith ZArith Bool Lia.
Import ListNotations.
Require Import RV.Model.C20_Sbor RV.Model.C22_Types RV.Gen.C22_wellknown RV.Model.C22_Schema
               RV.Model.C23_SchemaCmp RV.Proof.C20_Base RV.Proof.C20_Sbor RV.Proof.C22_Schema
               RV.Proof.C23_Sim RV.Proof.C22_Stream.
Open Scope N_scope.

(* ------------------------------------------------------------------------------------------ *)
(* boolean equalities                                                                          *)
Lemma bytes_eq_eq : forall a b, bytes_eq a b = true -> a = b.
Proof.
  induction a as [|x a IH]; destruct b as [|y b]; cbn; intro H; try discriminate; [reflexivity|].
  apply andb_true_iff in H. destruct H as [E H]. apply N.eqb_eq in E. subst. f_equal. auto.
Qed.
Lemma tid_eqb_eq : forall a b, tid_eqb a b = true <-> a = b.
Proof.
  destruct a, b; cbn; split; intro H; try discriminate; try (apply N.eqb_eq in H; subst; reflexivity);
    inversion H; subst; apply N.eqb_refl.
Qed.
Lemma pmem_In : forall p l, pmem p l = true <-> In p l.
Proof.
  intros p l. unfold pmem. rewrite existsb_exists. split.
  - intros [q [Hq E]]. unfold pair_eqb in E. apply andb_true_iff in E. destruct E as [E1 E2].
    apply tid_eqb_eq in E1. apply tid_eqb_eq in E2. destruct p, q; cbn in *; subst; exact Hq.
  - intro H. exists p. split; [exact H|]. unfold pair_eqb. apply andb_true_iff.
    split; apply tid_eqb_eq; reflexivity.
Qed.
Lemma pmem_false : forall p l, pmem p l = false -> ~ In p l.
Proof. intros p l H Hin. apply pmem_In in Hin. congruence. Qed.

Lemma refval_eqb_eq : forall a b, refval_eqb a b = true -> a = b.
Proof. destruct a, b; cbn; intro H; try discriminate; try reflexivity; apply bytes_eq_eq in H; subst; reflexivity. Qed.
Lemma ownval_eqb_eq : forall a b, ownval_eqb a b = true -> a = b.
Proof. destruct a, b; cbn; intro H; try discriminate; try reflexivity; apply bytes_eq_eq in H; subst; reflexivity. Qed.
Lemma sckind_eqb_eq : forall a b, sckind_eqb a b = true -> a = b.
Proof. destruct a, b; cbn; intro H; try discriminate; reflexivity. Qed.
Lemma leaf_kind_eqb_eq : forall a b, leaf_kind_eqb a b = true -> a = b /\ leaf_kind a = true.
Proof.
  destruct a, b; cbn; intro H; try discriminate; try (split; reflexivity).
  - apply ikind_eqb_eq in H. subst. split; reflexivity.
  - apply sckind_eqb_eq in H. subst. split; reflexivity.
Qed.

(* ------------------------------------------------------------------------------------------ *)
(* validation comparison                                                                       *)
Lemma bounds_compare_weak : forall bmin bmax cmin cmax,
  bounds_compare bmin bmax cmin cmax = Unchanged \/ bounds_compare bmin bmax cmin cmax = Weakened ->
  (cmin <= bmin)%Z /\ (bmax <= cmax)%Z.
Proof.
  intros bmin bmax cmin cmax. unfold bounds_compare.
  destruct (Z.compare_spec cmin bmin); destruct (Z.compare_spec cmax bmax); cbn;
    intros [X|X]; try discriminate; lia.
Qed.
Lemma bounds_compare_unchanged : forall bmin bmax cmin cmax,
  bounds_compare bmin bmax cmin cmax = Unchanged -> cmin = bmin /\ cmax = bmax.
Proof.
  intros bmin bmax cmin cmax. unfold bounds_compare.
  destruct (Z.compare_spec cmin bmin); destruct (Z.compare_spec cmax bmax); cbn;
    intro X; try discriminate; auto.
Qed.

(* entity-byte predicates: the specific ones imply is_global (generated table) *)
Lemma flags_imply :
  forallb (fun m => implb (N.testbit m 2) (N.testbit m 0) && implb (N.testbit m 3) (N.testbit m 0) &&
                    implb (N.testbit m 4) (N.testbit m 0)) entity_flags = true.
Proof. vm_compute. reflexivity. Qed.
Lemma nth_N_In : forall A (l : list A) i x, nth_N l i = Some x -> In x l.
Proof.
  induction l as [|y l IH]; cbn; intros i x H; [discriminate|].
  destruct (i =? 0); [inversion H; left; reflexivity|right; eauto].
Qed.
Lemma specific_global : forall node bit, (bit = 2 \/ bit = 3 \/ bit = 4) ->
  eflag node bit = true -> eflag node 0 = true.
Proof.
  intros node bit Hb H. unfold eflag in *. destruct node as [|b t]; [discriminate|].
  destruct (nth_N entity_flags b) as [m|] eqn:E; [|discriminate].
  apply nth_N_In in E. pose proof flags_imply as F. rewrite forallb_forall in F. specialize (F m E).
  apply andb_true_iff in F. destruct F as [F F4]. apply andb_true_iff in F. destruct F as [F2 F3].
  destruct Hb as [ Hb | [ Hb | Hb ] ]; subst bit; rewrite H in *; cbn in *; assumption.
Qed.

Lemma ref_weak_sound : forall b c node,
  ref_compare b c = Unchanged \/ ref_compare b c = Weakened ->
  ref_ok b node = true -> ref_ok c node = true.
Proof.
  intros b c node H Ok. unfold ref_compare in H.
  destruct (refval_eqb b c) eqn:E; [apply refval_eqb_eq in E; subst; exact Ok|].
  destruct b, c; cbn in *; destruct H as [H|H]; try discriminate; try exact Ok;
    unfold is_global_package, is_global_component, is_global_resource_manager, is_global in *;
    try (eapply specific_global; [|exact Ok]; auto).
Qed.
Lemma ref_unchanged_eq : forall b c, ref_compare b c = Unchanged -> b = c.
Proof.
  intros b c H. unfold ref_compare in H. destruct (refval_eqb b c) eqn:E; [apply refval_eqb_eq; exact E|].
  destruct b, c; cbn in H; discriminate.
Qed.
Lemma own_unchanged_eq : forall b c,
  own_compare b c = Unchanged \/ own_compare b c = Weakened -> b = c.
Proof.
  intros b c H. unfold own_compare in H. destruct (ownval_eqb b c) eqn:E; [apply ownval_eqb_eq; exact E|].
  destruct H; discriminate.
Qed.

Lemma len_weak : forall b c n,
  len_compare b c = Unchanged \/ len_compare b c = Weakened -> LenOk b n -> LenOk c n.
Proof.
  intros b c n H [L1 L2]. apply bounds_compare_weak in H. unfold lmin, lmax in H. unfold LenOk. lia.
Qed.
Lemma len_unchanged : forall b c n, len_compare b c = Unchanged -> LenOk c n -> LenOk b n.
Proof.
  intros b c n H [L1 L2]. apply bounds_compare_unchanged in H. unfold lmin, lmax in H. unfold LenOk. lia.
Qed.

Definition weak_or_same (x : vchange) : Prop := x = Unchanged \/ x = Weakened.

Lemma val_change_imp : forall va vb, weak_or_same (val_change va vb) -> ValImp va vb.
Proof.
  intros va vb H. unfold weak_or_same in H. split; intros v Hv.
  - (* containers *)
    destruct Hv; destruct vb; cbn in H; try (destruct H; discriminate); try constructor.
    + eapply len_weak; eauto.
    + eapply len_weak; eauto.
  - (* leaves *)
    destruct Hv; destruct vb; cbn in H; try (destruct H; discriminate); try constructor.
    + destruct (ikind_eqb i i0) eqn:E; [|destruct H; discriminate].
      apply ikind_eqb_eq in E. subst i0. constructor.
      apply bounds_compare_weak in H. unfold NumOk in *. lia.
    + eapply len_weak; eauto.
    + eapply ref_weak_sound; eauto.
    + apply own_unchanged_eq in H. subst. assumption.
Qed.

Lemma val_change_unchanged_rev : forall va vb, val_change va vb = Unchanged -> ValImp vb va.
Proof.
  intros va vb H. split; intros v Hv.
  - destruct Hv; destruct va; cbn in H; try discriminate; try constructor.
    + eapply len_unchanged; eauto.
    + eapply len_unchanged; eauto.
  - destruct Hv; destruct va; cbn in H; try discriminate; try constructor.
    + destruct (ikind_eqb i0 i) eqn:E; [|discriminate].
      apply ikind_eqb_eq in E. subst i0. constructor.
      apply bounds_compare_unchanged in H. unfold NumOk in *. destruct H as [H1 H2]. lia.
    + eapply len_unchanged; eauto.
    + apply ref_unchanged_eq in H. subst. assumption.
    + assert (o0 = o) by (apply own_unchanged_eq; left; exact H). subst. assumption.
Qed.

Lemma val_compare_nil : forall st va vb, val_compare st va vb = [] -> weak_or_same (val_change va vb).
Proof.
  intros st va vb H. unfold val_compare in H. unfold weak_or_same.
  destruct (val_change va vb); try discriminate; auto.
Qed.
Lemma val_compare_nil_strict : forall st va vb,
  allow_validation_weakening st = false -> val_compare st va vb = [] -> val_change va vb = Unchanged.
Proof.
  intros st va vb W H. unfold val_compare in H. rewrite W in H.
  destruct (val_change va vb); try discriminate; reflexivity.
Qed.

(* ------------------------------------------------------------------------------------------ *)
(* kind comparison                                                                             *)
Lemma Forall2_mono : forall A B (P Q : A -> B -> Prop) l1 l2,
  (forall x y, P x y -> Q x y) -> Forall2 P l1 l2 -> Forall2 Q l1 l2.
Proof. intros A B P Q l1 l2 H F. induction F; constructor; auto. Qed.
Lemma Forall2_swap : forall A B (P : A -> B -> Prop) l1 l2,
  Forall2 P l1 l2 -> Forall2 (fun y x => P x y) l2 l1.
Proof. intros A B P l1 l2 F. induction F; constructor; auto. Qed.

Section KindCmp.
Variable st : settings.

Lemma KindSim_mono : forall (R R' : tid -> tid -> Prop) ka kb,
  (forall a b, R a b -> R' a b) -> KindSim R ka kb -> KindSim R' ka kb.
Proof.
  intros R R' ka kb Hsub KS. destruct KS.
  - apply KS_any. auto.
  - apply KS_leaf. assumption.
  - apply KS_array. auto.
  - apply KS_tuple. eapply Forall2_mono; eauto.
  - apply KS_enum. intros d fts F. destruct (H d fts F) as (fts' & F' & HR).
    exists fts'. split; [assumption|]. eapply Forall2_mono; eauto.
  - apply KS_map; auto.
Qed.

Lemma nlen_length : forall A B (a : list A) (b : list B), nlen a = nlen b -> length a = length b.
Proof. intros A B a b H. rewrite !nlen_spec in H. lia. Qed.

Lemma forall2_combine : forall (a b : list tid), length a = length b ->
  Forall2 (fun x y => In (x, y) (combine a b)) a b.
Proof.
  induction a as [|x a IH]; destruct b as [|y b]; cbn; intro H; try discriminate; constructor.
  - left. reflexivity.
  - eapply Forall2_mono; [|apply IH; lia]. intros u v Hin. right. exact Hin.
Qed.

Lemma has_key_find : forall d vs, has_key d vs = true -> exists fts, find_variant d vs = Some fts.
Proof.
  intros d vs H. unfold has_key in H. apply existsb_exists in H. destruct H as [p [Hin E]].
  unfold find_variant. destruct (find (fun p => fst p =? d) vs) as [q|] eqn:F; [eexists; reflexivity|].
  exfalso. eapply find_none in F; eauto. congruence.
Qed.
Lemma find_has_key : forall d vs fts, find_variant d vs = Some fts -> has_key d vs = true.
Proof.
  intros d vs fts H. apply find_variant_in in H. unfold has_key. apply existsb_exists.
  exists (d, fts). split; [exact H|apply N.eqb_refl].
Qed.
Lemma filter_nil : forall A (f : A -> bool) l, is_nil (filter f l) = true -> forall x, In x l -> f x = false.
Proof.
  intros A f l H x Hin. destruct (f x) eqn:E; [|reflexivity].
  assert (In x (filter f l)) by (apply filter_In; split; assumption).
  destruct (filter f l); [contradiction|discriminate].
Qed.

(* the per-variant loop of enum_compare *)
Definition enum_go (cvs : list (N * list tid)) :=
  fix go (l : list (N * list tid)) (errs : list cerr) (ch : list (tid * tid)) :=
    match l with
    | [] => (errs, ch)
    | (d, bf) :: r =>
      match find_variant d cvs with
      | None => go r errs ch
      | Some cf =>
        if nlen bf =? nlen cf then go r errs (ch ++ combine bf cf)
        else go r (errs ++ [EEnumFieldCount]) ch
      end
    end.

Lemma enum_go_spec : forall cvs l errs ch errs' ch',
  enum_go cvs l errs ch = (errs', ch') -> errs' = [] ->
  errs = [] /\ incl ch ch' /\
  forall d bf cf, In (d, bf) l -> find_variant d cvs = Some cf ->
    nlen bf = nlen cf /\ incl (combine bf cf) ch'.
Proof.
  intros cvs. induction l as [|[d bf] r IH]; intros errs ch errs' ch' H E; cbn in H.
  - inversion H; subst. split; [reflexivity|]. split; [apply incl_refl|]. intros ? ? ? [].
  - destruct (find_variant d cvs) as [cf|] eqn:F.
    + destruct (nlen bf =? nlen cf) eqn:L.
      * destruct (IH _ _ _ _ H E) as (E1 & I1 & Hr). split; [exact E1|]. split.
        { intros x Hx. apply I1. apply in_or_app. left. exact Hx. }
        intros d0 bf0 cf0 [Heq|Hin] F0.
        { inversion Heq; subst. rewrite F in F0. inversion F0; subst. apply N.eqb_eq in L. split; [exact L|].
          intros x Hx. apply I1. apply in_or_app. right. exact Hx. }
        { eapply Hr; eauto. }
      * destruct (IH _ _ _ _ H E) as (E1 & _ & _). destruct errs; discriminate.
    + destruct (IH _ _ _ _ H E) as (E1 & I1 & Hr). split; [exact E1|]. split; [exact I1|].
      intros d0 bf0 cf0 [Heq|Hin] F0; [inversion Heq; subst; congruence|eapply Hr; eauto].
Qed.

Lemma enum_compare_eq : forall bvs cvs,
  enum_compare st bvs cvs =
  enum_go cvs bvs
    (if negb (is_nil (filter (fun p => negb (has_key (fst p) cvs)) bvs)) ||
        (negb (is_nil (filter (fun p => negb (has_key (fst p) bvs)) cvs)) && negb (allow_new_enum_variants st))
     then [EEnumVariants] else []) [].
Proof. reflexivity. Qed.

Lemma forall2_of_incl : forall (R : tid -> tid -> Prop) ch (a b : list tid),
  (forall x y, In (x, y) ch -> R x y) -> nlen a = nlen b -> incl (combine a b) ch -> Forall2 R a b.
Proof.
  intros R ch a b HR L I. eapply Forall2_mono; [|apply forall2_combine; apply nlen_length; exact L].
  intros x y Hin. apply HR. apply I. exact Hin.
Qed.

Lemma enum_compare_sim : forall bvs cvs ch,
  enum_compare st bvs cvs = ([], ch) -> KindSim (fun a b => In (a, b) ch) (TEnum bvs) (TEnum cvs).
Proof.
  intros bvs cvs ch H. rewrite enum_compare_eq in H.
  destruct (enum_go_spec _ _ _ _ _ _ H eq_refl) as (E0 & _ & Hr).
  apply KS_enum. intros d fts F.
  destruct (negb (is_nil (filter (fun p => negb (has_key (fst p) cvs)) bvs))) eqn:M; [cbn in E0; discriminate|].
  apply negb_false_iff in M.
  pose proof (filter_nil _ _ _ M (d, fts) (find_variant_in _ _ _ F)) as K. cbn in K.
  apply negb_false_iff in K. destruct (has_key_find _ _ K) as [fts' F'].
  exists fts'. split; [exact F'|].
  destruct (Hr d fts fts' (find_variant_in _ _ _ F) F') as [L I].
  eapply forall2_of_incl; eauto.
Qed.

Lemma enum_compare_sim_rev : forall bvs cvs ch,
  allow_new_enum_variants st = false ->
  enum_compare st bvs cvs = ([], ch) -> KindSim (fun b a => In (a, b) ch) (TEnum cvs) (TEnum bvs).
Proof.
  intros bvs cvs ch NV H. rewrite enum_compare_eq in H. rewrite NV in H.
  destruct (enum_go_spec _ _ _ _ _ _ H eq_refl) as (E0 & _ & Hr).
  apply KS_enum. intros d fts' F'.
  destruct (negb (is_nil (filter (fun p => negb (has_key (fst p) cvs)) bvs))) eqn:M; [cbn in E0; discriminate|].
  destruct (negb (is_nil (filter (fun p => negb (has_key (fst p) bvs)) cvs))) eqn:M2; [cbn in E0; discriminate|].
  apply negb_false_iff in M2.
  pose proof (filter_nil _ _ _ M2 (d, fts') (find_variant_in _ _ _ F')) as K. cbn in K.
  apply negb_false_iff in K. destruct (has_key_find _ _ K) as [fts F].
  exists fts. split; [exact F|].
  destruct (Hr d fts fts' (find_variant_in _ _ _ F) F') as [L I].
  apply Forall2_swap. eapply forall2_of_incl; eauto.
Qed.

Lemma is_any_true : forall k, is_any k = true -> k = TAny.
Proof. destruct k; cbn; intro H; try discriminate; reflexivity. Qed.

Lemma kind_compare_sim : forall bk ck ch,
  kind_compare st bk ck = ([], ch) -> KindSim (fun a b => In (a, b) ch) bk ck.
Proof.
  intros bk ck ch H. unfold kind_compare in H.
  destruct (is_any ck && negb (is_any bk) && allow_replacing_with_any st) eqn:A.
  - apply andb_true_iff in A. destruct A as [A _]. apply andb_true_iff in A. destruct A as [A _].
    apply is_any_true in A. subst ck. inversion H; subst. apply KS_any.
    intros c Hc. apply in_map_iff. exists c. split; [reflexivity|exact Hc].
  - destruct bk.
    1-4, 9: (destruct (leaf_kind_eqb _ ck) eqn:E; [|discriminate]; apply leaf_kind_eqb_eq in E;
             destruct E as [<- L]; inversion H; subst; apply KS_leaf; exact L).
    + destruct ck; try discriminate. inversion H; subst. apply KS_array. left. reflexivity.
    + destruct ck; try discriminate. destruct (nlen fields =? nlen fields0) eqn:L; [|discriminate].
      inversion H; subst. apply KS_tuple. apply forall2_combine. apply nlen_length. apply N.eqb_eq. exact L.
    + destruct ck; try discriminate. apply enum_compare_sim. exact H.
    + destruct ck; try discriminate. inversion H; subst. apply KS_map; [left|right; left]; reflexivity.
Qed.

Lemma kind_compare_sim_rev : forall bk ck ch,
  allow_new_enum_variants st = false -> allow_replacing_with_any st = false ->
  kind_compare st bk ck = ([], ch) -> KindSim (fun b a => In (a, b) ch) ck bk.
Proof.
  intros bk ck ch NV NA H. unfold kind_compare in H. rewrite NA, andb_false_r in H.
  destruct bk.
  1-4, 9: (destruct (leaf_kind_eqb _ ck) eqn:E; [|discriminate]; apply leaf_kind_eqb_eq in E;
           destruct E as [<- L]; inversion H; subst; apply KS_leaf; exact L).
  - destruct ck; try discriminate. inversion H; subst. apply KS_array. left. reflexivity.
  - destruct ck; try discriminate. destruct (nlen fields =? nlen fields0) eqn:L; [|discriminate].
    inversion H; subst. apply KS_tuple. apply Forall2_swap.
    apply forall2_combine. apply nlen_length. apply N.eqb_eq. exact L.
  - destruct ck; try discriminate. apply enum_compare_sim_rev; assumption.
  - destruct ck; try discriminate. inversion H; subst. apply KS_map; [left|right; left]; reflexivity.
Qed.
End KindCmp.

(* ------------------------------------------------------------------------------------------ *)
(* shallow comparison                                                                          *)
Section Shallow.
Variable st : settings.
Variables base compared : schema.

Lemma resolve_data_parts : forall s t k m v, resolve_data s t = Some (k, m, v) ->
  resolve_kind s t = Some k /\ resolve_val s t = Some v.
Proof.
  intros s t k m v H. unfold resolve_data in H.
  destruct (resolve_kind s t); [|discriminate]. destruct (resolve_meta s t); [|discriminate].
  destruct (resolve_val s t); [|discriminate]. inversion H; subst. split; reflexivity.
Qed.

Lemma is_nil_true : forall A (l : list A), is_nil l = true -> l = [].
Proof. destruct l; cbn; intro H; [reflexivity|discriminate]. Qed.

Lemma shallow_general_inv : forall a b ch,
  shallow_general st base compared a b = Some ([], ch) ->
  exists ka va kb vb,
    resolve_kind base a = Some ka /\ resolve_val base a = Some va /\
    resolve_kind compared b = Some kb /\ resolve_val compared b = Some vb /\
    kind_compare st ka kb = ([], ch) /\ val_compare st va vb = [].
Proof.
  intros a b ch H. unfold shallow_general in H.
  destruct (resolve_data base a) as [[[bk bm] bv]|] eqn:Da; [|discriminate].
  destruct (resolve_data compared b) as [[[ck cm] cv]|] eqn:Db; [|discriminate].
  destruct (kind_compare st bk ck) as [kerrs ch0] eqn:KC.
  destruct (negb (is_nil kerrs)) eqn:N.
  - injection H as Hm Hc. subst kerrs. cbn in N. discriminate.
  - apply negb_false_iff in N. apply is_nil_true in N. subst kerrs.
    destruct (meta_compare st bk bm cm) as [merrs|]; [|discriminate].
    injection H as Hm Hc. subst ch0. apply app_eq_nil in Hm. destruct Hm as [_ Hv].
    apply resolve_data_parts in Da. apply resolve_data_parts in Db.
    destruct Da as [Ka Va]. destruct Db as [Kb Vb].
    exists bk, bv, ck, cv. repeat split; assumption.
Qed.

Lemma shallow_cases : forall a b ch, shallow st base compared a b = Some ([], ch) ->
  (exists i, a = WK i /\ b = WK i) \/ shallow_general st base compared a b = Some ([], ch).
Proof.
  intros a b ch H. unfold shallow in H. destruct a as [i|i], b as [j|j]; try (right; exact H).
  destruct (i =? j) eqn:E; [|right; exact H]. apply N.eqb_eq in E. subst. left. eexists; split; reflexivity.
Qed.

Lemma shallow_sim : forall a b ch, shallow st base compared a b = Some ([], ch) ->
  ShallowSim base compared (fun x y => In (x, y) ch) a b.
Proof.
  intros a b ch H. destruct (shallow_cases a b ch H) as [W|G]; [left; exact W|].
  destruct (shallow_general_inv a b ch G) as (ka & va & kb & vb & Ka & Va & Kb & Vb & KC & VC).
  right. exists ka, va, kb, vb. repeat split; try assumption.
  - apply (kind_compare_sim st). exact KC.
  - apply val_change_imp. eapply val_compare_nil. exact VC.
  - apply val_change_imp. eapply val_compare_nil. exact VC.
Qed.

Lemma shallow_sim_rev : forall a b ch,
  allow_new_enum_variants st = false -> allow_replacing_with_any st = false ->
  allow_validation_weakening st = false ->
  shallow st base compared a b = Some ([], ch) ->
  ShallowSim compared base (fun y x => In (x, y) ch) b a.
Proof.
  intros a b ch NV NA NW H. destruct (shallow_cases a b ch H) as [[i [-> ->]]|G];
    [left; exists i; split; reflexivity|].
  destruct (shallow_general_inv a b ch G) as (ka & va & kb & vb & Ka & Va & Kb & Vb & KC & VC).
  right. exists kb, vb, ka, va. repeat split; try assumption.
  - apply (kind_compare_sim_rev st); assumption.
  - apply val_change_unchanged_rev. eapply val_compare_nil_strict; eauto.
  - apply val_change_unchanged_rev. eapply val_compare_nil_strict; eauto.
Qed.

(* ------------------------------------------------------------------------------------------ *)
(* the work list                                                                               *)
Definition Good (cs : cstate) : Prop :=
  c_errs cs = [] ->
  forall p, In p (c_cache cs) ->
    exists ch, shallow st base compared (fst p) (snd p) = Some ([], ch) /\
               forall c, In c ch -> In c (c_cache cs) \/ In c (c_work cs).

Lemma skip_cached_spec : forall cache work,
  exists pre, work = pre ++ skip_cached cache work /\ (forall p, In p pre -> In p cache) /\
              match skip_cached cache work with [] => True | q :: _ => ~ In q cache end.
Proof.
  intros cache. induction work as [|p r IH]; cbn.
  - exists []. repeat split. intros ? [].
  - destruct (pmem p cache) eqn:M.
    + destruct IH as (pre & E & Hp & Hq). exists (p :: pre). split; [cbn; f_equal; exact E|]. split; [|exact Hq].
      intros q [<-|Hin]; [apply pmem_In; exact M|auto].
    + exists []. repeat split; [intros ? []|]. apply pmem_false. exact M.
Qed.

Lemma drain_good : forall fuel cs cs', drain st base compared fuel cs = DDone cs' -> Good cs ->
  Good cs' /\ c_work cs' = [] /\
  (forall p, In p (c_cache cs) \/ In p (c_work cs) -> In p (c_cache cs')) /\
  (c_errs cs' = [] -> c_errs cs = []).
Proof.
  induction fuel as [|f IH]; intros cs cs' H G; cbn in H;
    destruct (skip_cached_spec (c_cache cs) (c_work cs)) as (pre & Ew & Hpre & Hq);
    destruct (skip_cached (c_cache cs) (c_work cs)) as [|[a b] rest] eqn:S.
  1, 3: (inversion H; subst; cbn; rewrite app_nil_r in Ew; repeat split; auto;
         [intros E p Hp; destruct (G E p Hp) as (ch & Hs & Hc); exists ch; split; [exact Hs|];
          intros c Hcin; destruct (Hc c Hcin) as [?|Hw]; [left; assumption|left; apply Hpre; rewrite <- Ew; exact Hw]
         |intros p [?|Hw]; [assumption|apply Hpre; rewrite <- Ew; exact Hw]]).
  - discriminate.
  - destruct (shallow st base compared a b) as [[errs ch]|] eqn:Sh; [|discriminate].
    set (cs1 := {| c_cache := (a, b) :: c_cache cs;
                   c_work := rev (filter (fun p => negb (pmem p (c_cache cs))) ch) ++ rest;
                   c_errs := c_errs cs ++ errs |}) in *.
    assert (G1 : Good cs1).
    { intros E p Hp. cbn in E. apply app_eq_nil in E. destruct E as [E0 E1]. subst errs.
      cbn in Hp. destruct Hp as [<-|Hp].
      - exists ch. split; [exact Sh|]. intros c Hc. cbn.
        destruct (pmem c (c_cache cs)) eqn:M.
        + left. right. apply pmem_In. exact M.
        + right. apply in_or_app. left. apply in_rev. rewrite rev_involutive.
          apply filter_In. split; [exact Hc|]. rewrite M. reflexivity.
      - destruct (G E0 p Hp) as (ch' & Hs & Hc). exists ch'. split; [exact Hs|].
        intros c Hcin. cbn. destruct (Hc c Hcin) as [?|Hw]; [left; right; assumption|].
        rewrite Ew in Hw. apply in_app_or in Hw. destruct Hw as [Hw|[<-|Hw]].
        + left. right. apply Hpre. exact Hw.
        + left. left. reflexivity.
        + right. apply in_or_app. right. exact Hw. }
    destruct (IH cs1 cs' H G1) as (G' & W' & Cov & Er). repeat split; try assumption.
    + intros p [Hp|Hw]; apply Cov; cbn.
      * left. right. exact Hp.
      * rewrite Ew in Hw. apply in_app_or in Hw. destruct Hw as [Hw|[<-|Hw]].
        { left. right. apply Hpre. exact Hw. }
        { left. left. reflexivity. }
        { right. apply in_or_app. right. exact Hw. }
    + intro E. specialize (Er E). cbn in Er. apply app_eq_nil in Er. tauto.
Qed.

(* kernel-state invariant *)
Definition KInv (k : kstate) : Prop := Good (k_cs k) /\ c_work (k_cs k) = [].
Definition KLe (k k' : kstate) : Prop :=
  (forall p, In p (c_cache (k_cs k)) -> In p (c_cache (k_cs k'))) /\
  (c_errs (k_cs k') = [] -> c_errs (k_cs k) = []).

Lemma KLe_refl : forall k, KLe k k.
Proof. intro k. split; auto. Qed.
Lemma KLe_trans : forall a b c, KLe a b -> KLe b c -> KLe a c.
Proof. intros a b c [A1 A2] [B1 B2]. split; auto. Qed.

Lemma mark_b_cs : forall k a k', mark_b base k a = KOk k' -> k_cs k' = k_cs k.
Proof.
  intros k a k' H. unfold mark_b in H. destruct (mark_reachable base (k_seen_b k) a) as [[s|]|]; try discriminate.
  inversion H; subst. reflexivity.
Qed.
Lemma mark_c_cs : forall k a k', mark_c compared k a = KOk k' -> k_cs k' = k_cs k.
Proof.
  intros k a k' H. unfold mark_c in H. destruct (mark_reachable compared (k_seen_c k) a) as [[s|]|]; try discriminate.
  inversion H; subst. reflexivity.
Qed.

Lemma root_step_ok : forall k a b k', root_step st base compared k a b = KOk k' -> KInv k ->
  KInv k' /\ KLe k k' /\ In (a, b) (c_cache (k_cs k')).
Proof.
  intros k a b k' H [G W]. unfold root_step, deep_compare in H.
  match type of H with match ?d with _ => _ end = _ => destruct d as [cs| |] eqn:D end; try discriminate.
  assert (G0 : Good {| c_cache := c_cache (k_cs k); c_work := (a, b) :: c_work (k_cs k); c_errs := c_errs (k_cs k) |}).
  { intros E p Hp. cbn in *. destruct (G E p Hp) as (ch & Hs & Hc). exists ch. split; [exact Hs|].
    intros c Hcin. destruct (Hc c Hcin); [left; assumption|right; right; assumption]. }
  destruct (drain_good _ _ _ D G0) as (G' & W' & Cov & Er). cbn in Cov, Er.
  unfold kbind in H.
  match type of H with match ?d with _ => _ end = _ => destruct d as [k1| |] eqn:M1 end; try discriminate.
  apply mark_b_cs in M1. cbn in M1. apply mark_c_cs in H. rewrite M1 in H.
  unfold KInv, KLe. rewrite H. split; [split; assumption|]. split; [split|].
  - intros p Hp. apply Cov. left. exact Hp.
  - exact Er.
  - apply Cov. right. left. reflexivity.
Qed.

Lemma add_err_ok : forall k e, KInv k -> KInv (add_err k e) /\ KLe k (add_err k e).
Proof.
  intros k e [G W]. unfold KInv, KLe, add_err. cbn. repeat split; auto.
  - intros E. apply app_eq_nil in E. destruct E as [_ E]. discriminate.
  - intros E. apply app_eq_nil in E. tauto.
Qed.

Lemma kbind_not_ok : forall A (f : kres -> A -> kres) (l : list A) r,
  (forall x a, (forall k, x <> KOk k) -> forall k, f x a <> KOk k) ->
  (forall k, r <> KOk k) -> forall k, fold_left f l r <> KOk k.
Proof.
  intros A f l. induction l as [|a l IH]; intros r Hf Hr k; cbn; [apply Hr|].
  apply IH; [exact Hf|]. intros k0. apply Hf. exact Hr.
Qed.

(* fixed roots *)
Lemma fixed_fold_ok : forall roots k0 kf,
  fold_left (fun r p => kbind r (fun k => root_step st base compared k (fst p) (snd p))) roots (KOk k0) = KOk kf ->
  KInv k0 -> KInv kf /\ KLe k0 kf /\ forall p, In p roots -> In p (c_cache (k_cs kf)).
Proof.
  induction roots as [|[a b] roots IH]; intros k0 kf H I; cbn in H.
  - inversion H; subst. repeat split; try apply I; auto. intros ? [].
  - destruct (root_step st base compared k0 a b) as [k1| |] eqn:S.
    + destruct (root_step_ok _ _ _ _ S I) as (I1 & L1 & In1).
      destruct (IH k1 kf H I1) as (If & Lf & Inf). split; [exact If|]. split; [eapply KLe_trans; eauto|].
      intros p [<-|Hp]; [apply Lf; exact In1|auto].
    + exfalso. eapply kbind_not_ok in H; eauto; try discriminate.
      intros x a0 Hx k. destruct x; cbn; try discriminate. exfalso. eapply Hx. reflexivity.
    + exfalso. eapply kbind_not_ok in H; eauto; try discriminate.
      intros x a0 Hx k. destruct x; cbn; try discriminate. exfalso. eapply Hx. reflexivity.
Qed.

Lemma k_init_inv : KInv k_init.
Proof. split; [|reflexivity]. intros _ p []. Qed.

Lemma closed_of_final : forall kf, KInv kf -> c_errs (k_cs kf) = [] ->
  forall a b, In (a, b) (c_cache (k_cs kf)) ->
  ShallowSim base compared (fun x y => In (x, y) (c_cache (k_cs kf))) a b.
Proof.
  intros kf [G W] E a b Hin. destruct (G E (a, b) Hin) as (ch & Hs & Hc). cbn in Hs.
  pose proof (shallow_sim a b ch Hs) as S.
  assert (Sub : forall x y, In (x, y) ch -> In (x, y) (c_cache (k_cs kf))).
  { intros x y Hxy. destruct (Hc _ Hxy) as [?|Hw]; [assumption|]. rewrite W in Hw. destruct Hw. }
  destruct S as [Wk|(ka & va & kb & vb & Ka & Va & Kb & Vb & KS & VI)]; [left; exact Wk|].
  right. exists ka, va, kb, vb. repeat split; try assumption; try apply VI.
  eapply KindSim_mono; [|exact KS]. exact Sub.
Qed.

Lemma closed_of_final_rev : forall kf,
  allow_new_enum_variants st = false -> allow_replacing_with_any st = false ->
  allow_validation_weakening st = false ->
  KInv kf -> c_errs (k_cs kf) = [] ->
  forall b a, In (a, b) (c_cache (k_cs kf)) ->
  ShallowSim compared base (fun y x => In (x, y) (c_cache (k_cs kf))) b a.
Proof.
  intros kf NV NA NW [G W] E b a Hin. destruct (G E (a, b) Hin) as (ch & Hs & Hc). cbn in Hs.
  pose proof (shallow_sim_rev a b ch NV NA NW Hs) as S.
  assert (Sub : forall y x, In (x, y) ch -> In (x, y) (c_cache (k_cs kf))).
  { intros y x Hxy. destruct (Hc _ Hxy) as [?|Hw]; [assumption|]. rewrite W in Hw. destruct Hw. }
  destruct S as [Wk|(ka & va & kb & vb & Ka & Va & Kb & Vb & KS & VI)]; [left; exact Wk|].
  right. exists ka, va, kb, vb. repeat split; try assumption; try apply VI.
  eapply KindSim_mono; [|exact KS]. exact Sub.
Qed.

Lemma finish_nil : forall r, finish st base compared r = CmpOk [] ->
  exists kf, r = KOk kf /\ c_errs (k_cs kf) = [].
Proof.
  intros r H. destruct r as [k| |]; cbn in H; try discriminate. injection H as E.
  apply app_eq_nil in E. destruct E as [E _]. exists k. split; [reflexivity|exact E].
Qed.

Theorem fixed_extension_sound : forall roots,
  compare_fixed st base compared roots = CmpOk [] ->
  forall a b, In (a, b) roots -> forall v, HasType base a v -> HasType compared b v.
Proof.
  intros roots H a b Hin v Hv. unfold compare_fixed in H.
  destruct (finish_nil _ H) as (kf & Hf & E).
  destruct (fixed_fold_ok roots k_init kf Hf k_init_inv) as (If & _ & Inf).
  eapply (sim_sound base compared (fun x y => In (x, y) (c_cache (k_cs kf)))); [|apply Inf; exact Hin|exact Hv].
  intros x y Hxy. apply closed_of_final; assumption.
Qed.

Theorem fixed_equality_sound : forall roots,
  allow_new_enum_variants st = false -> allow_replacing_with_any st = false ->
  allow_validation_weakening st = false ->
  compare_fixed st base compared roots = CmpOk [] ->
  forall a b, In (a, b) roots -> forall v, HasType base a v <-> HasType compared b v.
Proof.
  intros roots NV NA NW H a b Hin v. split; [eapply fixed_extension_sound; eauto|].
  intro Hv. unfold compare_fixed in H.
  destruct (finish_nil _ H) as (kf & Hf & E).
  destruct (fixed_fold_ok roots k_init kf Hf k_init_inv) as (If & _ & Inf).
  eapply (sim_sound compared base (fun y x => In (x, y) (c_cache (k_cs kf)))); [|apply Inf; exact Hin|exact Hv].
  intros y x Hxy. apply closed_of_final_rev; assumption.
Qed.

(* named roots *)
Definition named_step1 (croots : list (bytes * tid)) (r : kres) (p : bytes * tid) : kres :=
  kbind r (fun k =>
    match find_root (fst p) croots with
    | Some b => root_step st base compared k (snd p) b
    | None => mark_b base (add_err k ERootMissing) (snd p)
    end).
Definition named_step2 (broots : list (bytes * tid)) (r : kres) (p : bytes * tid) : kres :=
  kbind r (fun k =>
    match find_root (fst p) broots with
    | Some _ => KOk k
    | None => mark_c compared (if allow_compared_to_have_more_root_types st then k else add_err k ENewRoot) (snd p)
    end).

Lemma compare_named_eq : forall broots croots,
  compare_named st base compared broots croots =
  finish st base compared
    (fold_left (named_step2 broots) croots (fold_left (named_step1 croots) broots (KOk k_init))).
Proof. reflexivity. Qed.

Lemma named_fold1_ok : forall croots broots k0 kf,
  fold_left (named_step1 croots) broots (KOk k0) = KOk kf -> KInv k0 ->
  KInv kf /\ KLe k0 kf /\
  forall n a b, In (n, a) broots -> find_root n croots = Some b -> In (a, b) (c_cache (k_cs kf)).
Proof.
  intros croots. induction broots as [|[n a] broots IH]; intros k0 kf H I; cbn in H.
  - inversion H; subst. repeat split; try apply I; auto. intros ? ? ? [].
  - destruct (find_root n croots) as [b|] eqn:F.
    + destruct (root_step st base compared k0 a b) as [k1| |] eqn:S.
      * destruct (root_step_ok _ _ _ _ S I) as (I1 & L1 & In1).
        destruct (IH k1 kf H I1) as (If & Lf & Inf). split; [exact If|]. split; [eapply KLe_trans; eauto|].
        intros n0 a0 b0 [Heq|Hp] F0; [inversion Heq; subst; rewrite F in F0; inversion F0; subst; apply Lf; exact In1|eauto].
      * exfalso. eapply kbind_not_ok in H; eauto; try discriminate.
        intros x a0 Hx k. unfold named_step1. destruct x; cbn; try discriminate. exfalso. eapply Hx. reflexivity.
      * exfalso. eapply kbind_not_ok in H; eauto; try discriminate.
        intros x a0 Hx k. unfold named_step1. destruct x; cbn; try discriminate. exfalso. eapply Hx. reflexivity.
    + destruct (mark_b base (add_err k0 ERootMissing) a) as [k1| |] eqn:S.
      * destruct (add_err_ok k0 ERootMissing I) as [I1 L1].
        pose proof (mark_b_cs _ _ _ S) as Ecs.
        assert (I1' : KInv k1) by (unfold KInv in *; rewrite Ecs; exact I1).
        assert (L1' : KLe k0 k1) by (unfold KLe in *; rewrite Ecs; exact L1).
        destruct (IH k1 kf H I1') as (If & Lf & Inf). split; [exact If|]. split; [eapply KLe_trans; eauto|].
        intros n0 a0 b0 [Heq|Hp] F0; [inversion Heq; subst; congruence|eauto].
      * exfalso. eapply kbind_not_ok in H; eauto; try discriminate.
        intros x a0 Hx k. unfold named_step1. destruct x; cbn; try discriminate. exfalso. eapply Hx. reflexivity.
      * exfalso. eapply kbind_not_ok in H; eauto; try discriminate.
        intros x a0 Hx k. unfold named_step1. destruct x; cbn; try discriminate. exfalso. eapply Hx. reflexivity.
Qed.

Lemma named_fold2_ok : forall broots croots k0 kf,
  fold_left (named_step2 broots) croots (KOk k0) = KOk kf -> KInv k0 -> KInv kf /\ KLe k0 kf.
Proof.
  intros broots. induction croots as [|[n b] croots IH]; intros k0 kf H I; cbn in H.
  - inversion H; subst. split; [exact I|apply KLe_refl].
  - destruct (find_root n broots) as [a|] eqn:F.
    + apply IH; assumption.
    + set (k0' := if allow_compared_to_have_more_root_types st then k0 else add_err k0 ENewRoot) in *.
      assert (I0 : KInv k0' /\ KLe k0 k0').
      { unfold k0'. destruct (allow_compared_to_have_more_root_types st); [split; [exact I|apply KLe_refl]|apply add_err_ok; exact I]. }
      destruct I0 as [I0 L0].
      destruct (mark_c compared k0' b) as [k1| |] eqn:S.
      * pose proof (mark_c_cs _ _ _ S) as Ecs.
        assert (I1' : KInv k1) by (unfold KInv in *; rewrite Ecs; exact I0).
        assert (L1' : KLe k0 k1) by (unfold KLe in *; rewrite Ecs; exact L0).
        destruct (IH k1 kf H I1') as (If & Lf). split; [exact If|eapply KLe_trans; eauto].
      * exfalso. eapply kbind_not_ok in H; eauto; try discriminate.
        intros x a0 Hx k. unfold named_step2. destruct x; cbn; try discriminate. exfalso. eapply Hx. reflexivity.
      * exfalso. eapply kbind_not_ok in H; eauto; try discriminate.
        intros x a0 Hx k. unfold named_step2. destruct x; cbn; try discriminate. exfalso. eapply Hx. reflexivity.
Qed.

Lemma named_final : forall broots croots,
  compare_named st base compared broots croots = CmpOk [] ->
  exists kf, KInv kf /\ c_errs (k_cs kf) = [] /\
    forall n a b, In (n, a) broots -> find_root n croots = Some b -> In (a, b) (c_cache (k_cs kf)).
Proof.
  intros broots croots H. rewrite compare_named_eq in H.
  destruct (finish_nil _ H) as (kf & Hf & E).
  destruct (fold_left (named_step1 croots) broots (KOk k_init)) as [k1| |] eqn:F1.
  - destruct (named_fold1_ok _ _ _ _ F1 k_init_inv) as (I1 & _ & In1).
    destruct (named_fold2_ok _ _ _ _ Hf I1) as (If & [Lc _]).
    exists kf. split; [exact If|]. split; [exact E|]. intros n a b Hin F. apply Lc. eapply In1; eauto.
  - exfalso. eapply kbind_not_ok in Hf; eauto; try discriminate.
    intros x a0 Hx k. unfold named_step2. destruct x; cbn; try discriminate. exfalso. eapply Hx. reflexivity.
  - exfalso. eapply kbind_not_ok in Hf; eauto; try discriminate.
    intros x a0 Hx k. unfold named_step2. destruct x; cbn; try discriminate. exfalso. eapply Hx. reflexivity.
Qed.

Theorem named_extension_sound : forall broots croots,
  compare_named st base compared broots croots = CmpOk [] ->
  forall n a b, In (n, a) broots -> find_root n croots = Some b ->
  forall v, HasType base a v -> HasType compared b v.
Proof.
  intros broots croots H n a b Hin F v Hv.
  destruct (named_final _ _ H) as (kf & If & E & Inf).
  eapply (sim_sound base compared (fun x y => In (x, y) (c_cache (k_cs kf)))); [|eapply Inf; eauto|exact Hv].
  intros x y Hxy. apply closed_of_final; assumption.
Qed.

Theorem named_equality_sound : forall broots croots,
  allow_new_enum_variants st = false -> allow_replacing_with_any st = false ->
  allow_validation_weakening st = false ->
  compare_named st base compared broots croots = CmpOk [] ->
  forall n a b, In (n, a) broots -> find_root n croots = Some b ->
  forall v, HasType base a v <-> HasType compared b v.
Proof.
  intros broots croots NV NA NW H n a b Hin F v. split; [eapply named_extension_sound; eauto|].
  intro Hv. destruct (named_final _ _ H) as (kf & If & E & Inf).
  eapply (sim_sound compared base (fun y x => In (x, y) (c_cache (k_cs kf)))); [|eapply Inf; eauto|exact Hv].
  intros y x Hxy. apply closed_of_final_rev; assumption.
Qed.

(* every base root name is present in the compared roots when the verdict is Valid *)
End Shallow.

(* payload level (validate_payload_against_schema as decode + validates, Model/C22_Schema.v) *)
Theorem fixed_extension_sound_payload : forall st base compared roots,
  compare_fixed st base compared roots = CmpOk [] ->
  forall a b, In (a, b) roots -> forall md p,
  validates_payload base a md p = true -> validates_payload compared b md p = true.
Proof.
  intros st base compared roots H a b Hin md p. unfold validates_payload.
  destruct (decode_payload Scrypto md p) as [v| | |]; try discriminate.
  intro V. apply validates_spec. apply validates_spec in V.
  eapply fixed_extension_sound; eauto.
Qed.
Theorem fixed_equality_sound_payload : forall st base compared roots,
  allow_new_enum_variants st = false -> allow_replacing_with_any st = false ->
  allow_validation_weakening st = false ->
  compare_fixed st base compared roots = CmpOk [] ->
  forall a b, In (a, b) roots -> forall md p,
  validates_payload base a md p = validates_payload compared b md p.
Proof.
  intros st base compared roots NV NA NW H a b Hin md p. unfold validates_payload.
  destruct (decode_payload Scrypto md p) as [v| | |]; try reflexivity.
  pose proof (fixed_equality_sound st base compared roots NV NA NW H a b Hin v) as E.
  rewrite <- !validates_spec in E.
  destruct (validates base a v), (validates compared b v); try reflexivity; destruct E as [E1 E2];
    [discriminate (E1 eq_refl)|discriminate (E2 eq_refl)].
Qed.

(* the same for the streaming validator model (Model/C22_Typed.v), via C22's streaming_iff_validates *)
Theorem fixed_extension_sound_streaming : forall st base compared roots,
  compare_fixed st base compared roots = CmpOk [] ->
  forall a b, In (a, b) roots -> forall md p, 1 <= md ->
  RV.Model.C22_Typed.validate_payload base a md p = RV.Model.C22_Typed.POk ->
  RV.Model.C22_Typed.validate_payload compared b md p = RV.Model.C22_Typed.POk.
Proof.
  intros st base compared roots H a b Hin md p Hmd V.
  apply RV.Proof.C22_Stream.streaming_iff_validates; [exact Hmd|].
  apply RV.Proof.C22_Stream.streaming_iff_validates in V; [|exact Hmd].
  eapply fixed_extension_sound_payload; eassumption.
Qed.
Theorem fixed_equality_sound_streaming : forall st base compared roots,
  allow_new_enum_variants st = false -> allow_replacing_with_any st = false ->
  allow_validation_weakening st = false ->
  compare_fixed st base compared roots = CmpOk [] ->
  forall a b, In (a, b) roots -> forall md p, 1 <= md ->
  (RV.Model.C22_Typed.validate_payload base a md p = RV.Model.C22_Typed.POk <->
   RV.Model.C22_Typed.validate_payload compared b md p = RV.Model.C22_Typed.POk).
Proof.
  intros st base compared roots NV NA NW H a b Hin md p Hmd.
  rewrite !RV.Proof.C22_Stream.streaming_iff_validates by exact Hmd.
  rewrite (fixed_equality_sound_payload st base compared roots NV NA NW H a b Hin md p). tauto.
Qed.
