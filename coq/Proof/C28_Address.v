(* C28 — address decoding: network binding, entity/HRP binding, totality. *)
From Coq Require Import List NArith Bool Lia.
Import ListNotations.
Require Import RV.Gen.C28_entity_types RV.Model.C28_Bech32.
Open Scope N_scope.

Lemma bytes_eqb_eq : forall a b, bytes_eqb a b = true <-> a = b.
Proof.
  induction a as [|x a IH]; destruct b as [|y b]; cbn; split; intros H; try discriminate; try reflexivity.
  - apply andb_prop in H. destruct H as [H1 H2]. apply N.eqb_eq in H1. apply IH in H2. congruence.
  - inversion H. subst. rewrite N.eqb_refl. cbn. apply IH. reflexivity.
Qed.

Lemma bytes_eqb_neq : forall a b, bytes_eqb a b = false <-> a <> b.
Proof.
  intros a b. split.
  - intros H E. apply bytes_eqb_eq in E. congruence.
  - intros H. destruct (bytes_eqb a b) eqn:E; [|reflexivity]. apply bytes_eqb_eq in E. contradiction.
Qed.

(* what decode_address does after the network-independent part *)
Lemma decode_address_unfold : forall suffix s,
  decode_address suffix s =
  match validate_and_decode_ignore_hrp s with
  | Ok (hrp, b, data) =>
    match entity_hrp suffix b with
    | None => Panic
    | Some expected => if negb (bytes_eqb hrp expected) then Err DecInvalidHrp else Ok (b, data)
    end
  | Err e => Err e
  | Panic => Panic
  end.
Proof.
  intros. unfold decode_address, bind.
  destruct (validate_and_decode_ignore_hrp s) as [[[hrp b] data]| |]; reflexivity.
Qed.

Lemma ignore_hrp_entity : forall s hrp b data,
  validate_and_decode_ignore_hrp s = Ok (hrp, b, data) ->
  exists p tl, entity_prefix b = Some p /\ data = b :: tl.
Proof.
  intros s hrp b data H. unfold validate_and_decode_ignore_hrp in H.
  destruct (bech32_decode s) as [[[h d5] v]| |]; try discriminate.
  destruct (negb v); try discriminate.
  destruct (from_base32 d5) as [d| |]; try discriminate.
  destruct d as [|b0 tl]; try discriminate.
  destruct (entity_prefix b0) as [p|] eqn:P; try discriminate.
  inversion H. subst. exists p, tl. auto.
Qed.

(* accepted on network A  ==>  rejected with InvalidHrp on every network with another suffix *)
Theorem other_network_rejected : forall sufA sufB s r,
  decode_address sufA s = Ok r -> sufA <> sufB -> decode_address sufB s = Err DecInvalidHrp.
Proof.
  intros sufA sufB s r H N. rewrite decode_address_unfold in *.
  destruct (validate_and_decode_ignore_hrp s) as [[[hrp b] data]| |] eqn:V; try discriminate.
  destruct (ignore_hrp_entity _ _ _ _ V) as (p & tl & P & _).
  unfold entity_hrp in *. rewrite P in *.
  destruct (bytes_eqb hrp (p ++ sufA)) eqn:E; cbn [negb] in H; [|discriminate].
  apply bytes_eqb_eq in E. subst hrp.
  replace (bytes_eqb (p ++ sufA) (p ++ sufB)) with false; [reflexivity|].
  symmetry. apply bytes_eqb_neq. intros C. apply app_inv_head in C. contradiction.
Qed.

(* the HRP of an accepted string is exactly the HRP of the entity type of its first data byte on
   that network; any other HRP (with a valid checksum) is rejected with InvalidHrp *)
Theorem entity_mismatch_rejected : forall suffix s hrp b data,
  validate_and_decode_ignore_hrp s = Ok (hrp, b, data) ->
  (exists tl, data = b :: tl)
  /\ (entity_hrp suffix b = Some hrp -> decode_address suffix s = Ok (b, data))
  /\ (entity_hrp suffix b <> Some hrp -> decode_address suffix s = Err DecInvalidHrp).
Proof.
  intros suffix s hrp b data V.
  destruct (ignore_hrp_entity _ _ _ _ V) as (p & tl & P & D).
  split; [eauto|]. rewrite decode_address_unfold, V. unfold entity_hrp. rewrite P.
  split; intros H.
  - inversion H. subst hrp.
    replace (bytes_eqb (p ++ suffix) (p ++ suffix)) with true by (symmetry; apply bytes_eqb_eq; reflexivity).
    reflexivity.
  - replace (bytes_eqb hrp (p ++ suffix)) with false; [reflexivity|].
    symmetry. apply bytes_eqb_neq. intros C. subst. contradiction.
Qed.

(* ---------------------------------------------------------------------------------------------- *)
(* decoding never panics *)

Lemma check_hrp_loop_no_panic : forall l lo up, lo && up = false -> check_hrp_loop l lo up <> Panic.
Proof.
  induction l as [|b l IH]; intros lo up H; cbn [check_hrp_loop].
  - destruct up, lo; try discriminate.
  - destruct (negb ((33 <=? b) && (b <=? 126))); [discriminate|].
    set (lo' := if is_lower b then true else lo).
    set (up' := if is_lower b then up else if is_upper b then true else up).
    destruct (lo' && up') eqn:E; [discriminate|]. apply IH. exact E.
Qed.

Lemma check_hrp_no_panic : forall h, check_hrp h <> Panic.
Proof.
  intros h. unfold check_hrp. destruct (_ || _); [discriminate|].
  apply check_hrp_loop_no_panic. reflexivity.
Qed.

Lemma charset_rev_total : forall c, c < 128 -> exists v, nth_error CHARSET_REV (N.to_nat c) = Some v.
Proof.
  intros c H. destruct (nth_error CHARSET_REV (N.to_nat c)) eqn:E; [eauto|].
  apply nth_error_None in E. change (length CHARSET_REV) with 128%nat in E. lia.
Qed.

Lemma decode_chars_no_panic : forall l c, decode_chars l c <> Panic.
Proof.
  induction l as [|x l IH]; intros c; cbn [decode_chars]; [discriminate|].
  destruct (N.ltb_spec x 128) as [L|L]; cbn [negb]; [|discriminate].
  destruct (charset_rev_total x L) as (v & Hv). rewrite Hv.
  set (step := if is_lower x then _ else _).
  destruct step as [c'| |] eqn:S; cbn [bind]; [|discriminate|].
  - destruct (negb (v <=? 31)); [discriminate|].
    specialize (IH c'). destruct (decode_chars l c'); cbn [bind]; try discriminate. congruence.
  - exfalso. unfold step in S. destruct (is_lower x); [destruct c; discriminate|].
    destruct (is_upper x); [destruct c; discriminate|discriminate].
Qed.

Lemma from_base32_loop_no_panic : forall l acc bits, from_base32_loop l acc bits <> Panic.
Proof.
  induction l as [|v l IH]; intros acc bits; cbn [from_base32_loop].
  - destruct (_ || _); discriminate.
  - destruct (negb _); [discriminate|].
    destruct (drain 2 _ _) as [out b']. specialize (IH (N.lor (u32 (N.shiftl acc 5)) v) b').
    destruct (from_base32_loop l _ b'); cbn [bind]; try discriminate. congruence.
Qed.

Theorem decode_no_panic : forall suffix s, decode_address suffix s <> Panic.
Proof.
  intros suffix s. rewrite decode_address_unfold.
  destruct (validate_and_decode_ignore_hrp s) as [[[hrp b] data]| |] eqn:V; try discriminate.
  - destruct (ignore_hrp_entity _ _ _ _ V) as (p & tl & P & _). unfold entity_hrp. rewrite P.
    destruct (negb _); discriminate.
  - exfalso. unfold validate_and_decode_ignore_hrp in V.
    destruct (bech32_decode s) as [[[h d5] v]| |] eqn:B.
    + destruct (negb v); try discriminate.
      pose proof (from_base32_loop_no_panic d5 0 0) as F. unfold from_base32 in V.
      destruct (from_base32_loop d5 0 0) as [d| |]; try discriminate; try congruence.
      destruct d as [|b0 tl]; try discriminate. destruct (entity_prefix b0); discriminate.
    + discriminate.
    + unfold bech32_decode, split_and_decode in B.
      destruct (rfind SEP s) as [sep|]; [|discriminate].
      pose proof (check_hrp_no_panic (firstn sep s)) as C.
      destruct (check_hrp (firstn sep s)) as [c| |]; cbn [bind] in B; try discriminate; try congruence.
      pose proof (decode_chars_no_panic (skipn (S sep) s) c) as D.
      destruct (decode_chars (skipn (S sep) s) c) as [d| |]; cbn [bind] in B; try discriminate; try congruence.
      destruct (Nat.ltb _ _); try discriminate. destruct (verify_checksum _ _); discriminate.
Qed.
