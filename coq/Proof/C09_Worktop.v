(* C09 — proofs about the worktop / instruction model (Model/C09_Worktop.v). *)
From Coq Require Import List ZArith NArith Bool Lia.
Import ListNotations.
Require Import RV.Model.C10_ProofLock RV.Model.C09_Worktop.
Open Scope N_scope.

(* ---------------------------------------------------------------------------------------- *)
(* which parts of the state the helper functions touch                                       *)
(* ---------------------------------------------------------------------------------------- *)
(* "frame" = the name tables, worktop table and auth zone *)
Definition same_tables (s s' : st) : Prop :=
  worktop s' = worktop s /\ named s' = named s /\ pnamed s' = pnamed s /\ azone s' = azone s.

Lemma same_tables_refl : forall s, same_tables s s.
Proof. intros s. repeat split. Qed.
Lemma same_tables_trans : forall a b c, same_tables a b -> same_tables b c -> same_tables a c.
Proof. intros a b c (A1 & A2 & A3 & A4) (B1 & B2 & B3 & B4). repeat split; congruence. Qed.

Lemma put_cont_tables : forall s c v, same_tables s (put_cont s c v).
Proof.
  intros s [r|n] v; unfold put_cont; [repeat split|].
  destruct (afind n (buckets s)) as [[r _]|]; repeat split.
Qed.

Lemma drop_proof_tables : forall s p s', drop_proof s p = Ok s' -> same_tables s s'.
Proof.
  intros s [c a|c ids] s' H; unfold drop_proof in H;
    destruct (get_cont s c) as [[r [fc|nc]]|]; try discriminate.
  - destruct (f_unlock a fc); try discriminate. cbn [bind] in H. injection H as <-. apply put_cont_tables.
  - destruct (n_unlock ids nc); try discriminate. cbn [bind] in H. injection H as <-. apply put_cont_tables.
Qed.
Lemma drop_proofs_tables : forall ps s s', drop_proofs s ps = Ok s' -> same_tables s s'.
Proof.
  induction ps as [|p t IH]; intros s s' H; cbn [drop_proofs] in H.
  - injection H as <-. apply same_tables_refl.
  - destruct (drop_proof s p) as [s1| |] eqn:E; try discriminate. cbn [bind] in H.
    eapply same_tables_trans; [eapply drop_proof_tables, E|apply IH, H].
Qed.
Lemma drop_bucket_tables : forall s n s' x, drop_bucket s n = Ok (s', x) -> same_tables s s'.
Proof.
  intros s n s' x H. unfold drop_bucket in H. destruct (afind n (buckets s)) as [[r v]|]; [|discriminate].
  destruct (cont_is_locked v); [discriminate|]. injection H as <- _. repeat split.
Qed.
Lemma drop_empty_tables : forall s n s', drop_empty s n = Ok s' -> same_tables s s'.
Proof.
  intros s n s' H. unfold drop_empty in H. destruct (drop_bucket s n) as [[s1 [r v]]| |] eqn:E; try discriminate.
  cbn [bind] in H. destruct (cont_liquid_zero v); [|discriminate]. injection H as <-. eapply drop_bucket_tables, E.
Qed.
Lemma drop_empty_all_tables : forall ns s s', drop_empty_all s ns = Ok s' -> same_tables s s'.
Proof.
  induction ns as [|n t IH]; intros s s' H; cbn [drop_empty_all] in H.
  - injection H as <-. apply same_tables_refl.
  - destruct (drop_empty s n) as [s1| |] eqn:E; try discriminate. cbn [bind] in H.
    eapply same_tables_trans; [eapply drop_empty_tables, E|apply IH, H].
Qed.

(* ---------------------------------------------------------------------------------------- *)
(* a successful transaction ends with everything disposed of                                 *)
(* ---------------------------------------------------------------------------------------- *)
(* every bucket of the final state was dropped: finish demands an empty worktop table after
   drop_empty (zero liquid, no lock) of each worktop bucket, no proof left, and no bucket node at
   all left in the frame; with conservation (resources only live in vaults, buckets or the burned
   tally) everything taken was deposited, burned or returned-and-deposited *)
Lemma finish_disposed : forall s s', finish s = Ok s' ->
  buckets s' = [] /\ worktop s' = [] /\ pnamed s' = [] /\ azone s' = [].
Proof.
  intros s s' H. unfold finish in H.
  destruct (drop_empty_all (set_worktop s []) (map snd (worktop s))) as [s1| |] eqn:E1; try discriminate. cbn [bind] in H.
  destruct (drop_proofs (set_pnamed s1 []) (map snd (pnamed s1))) as [s2| |] eqn:E2; try discriminate. cbn [bind] in H.
  destruct (drop_proofs (set_azone s2 []) (azone s2)) as [s3| |] eqn:E3; try discriminate. cbn [bind] in H.
  destruct (buckets s3) eqn:Eb; [|discriminate]. injection H as <-.
  apply drop_empty_all_tables in E1. apply drop_proofs_tables in E2. apply drop_proofs_tables in E3.
  destruct E1 as (A1 & _). destruct E2 as (B1 & _ & B3 & _). destruct E3 as (C1 & _ & C3 & C4).
  cbn in *. repeat split; congruence.
Qed.

Lemma run_from_done : forall ops i s s', run_from i s ops = Done s' ->
  buckets s' = [] /\ worktop s' = [] /\ pnamed s' = [] /\ azone s' = [].
Proof.
  induction ops as [|o t IH]; intros i s s' H; cbn [run_from] in H.
  - destruct (finish s) as [s1| |] eqn:E; try discriminate. injection H as <-. apply finish_disposed with s, E.
  - destruct (step s o) as [s1| |]; try discriminate. eapply IH, H.
Qed.

(* leftovers make the end of the transaction fail *)
Lemma finish_worktop_nonempty_fails : forall s r n rest v,
  worktop s = (r, n) :: rest -> afind n (buckets s) = Some (r, v) ->
  (cont_is_locked v = true \/ cont_liquid_zero v = false) -> forall s', finish s <> Ok s'.
Proof.
  intros s r n rest v Hw Hb Hbad s' H. unfold finish in H. rewrite Hw in H. cbn [map snd drop_empty_all] in H.
  unfold drop_empty at 1 in H. unfold drop_bucket in H. cbn in H. rewrite Hb in H.
  destruct (cont_is_locked v) eqn:El; [discriminate|]. cbn [bind] in H.
  destruct Hbad as [|Hz]; [discriminate|]. rewrite Hz in H. discriminate.
Qed.
Lemma finish_leftover_bucket_fails : forall s s1 s2 s3,
  drop_empty_all (set_worktop s []) (map snd (worktop s)) = Ok s1 ->
  drop_proofs (set_pnamed s1 []) (map snd (pnamed s1)) = Ok s2 ->
  drop_proofs (set_azone s2 []) (azone s2) = Ok s3 ->
  buckets s3 <> [] -> finish s = Err EOrphan.
Proof.
  intros s s1 s2 s3 H1 H2 H3 Hb. unfold finish. rewrite H1. cbn [bind]. rewrite H2. cbn [bind]. rewrite H3. cbn [bind].
  destruct (buckets s3); [congruence|reflexivity].
Qed.

(* a consumed or unknown bucket / proof name makes the instruction fail *)
Lemma consumed_bucket_fails : forall s b, afind b (named s) = None ->
  step s (OReturnToWorktop b) = Err EBucketNotFound /\ step s (OBurnBucket b) = Err EBucketNotFound
  /\ step s (ODeposit b) = Err EBucketNotFound /\ (forall a, step s (OBucketProofAmount b a) = Err EBucketNotFound)
  /\ (forall ids, step s (OBucketProofNF b ids) = Err EBucketNotFound) /\ step s (OBucketProofAll b) = Err EBucketNotFound.
Proof. intros s b H. cbn [step]. unfold take_named, get_named. rewrite H. cbn [bind]. repeat split. Qed.
Lemma consumed_proof_fails : forall s p, afind p (pnamed s) = None ->
  step s (ODropProof p) = Err EProofNotFound /\ step s (OCloneProof p) = Err EProofNotFound
  /\ step s (OPushAuthZone p) = Err EProofNotFound.
Proof. intros s p H. cbn [step]. rewrite H. repeat split. Qed.

(* names: consuming a bucket removes its name; names are unique and fresh *)
Definition names_ok (s : st) : Prop :=
  NoDup (map fst (named s)) /\ forall b, In b (map fst (named s)) -> b < next_b s.

Lemma afind_notin : forall (l : list (N * N)) k, ~ In k (map fst l) -> afind k l = None.
Proof.
  induction l as [|[k' v] t IH]; intros k H; cbn [afind map fst In] in *; [reflexivity|].
  destruct (N.eqb_spec k' k); [tauto|]. apply IH. tauto.
Qed.
Lemma afind_aremove_same : forall (l : list (N * N)) k, NoDup (map fst l) -> afind k (aremove k l) = None.
Proof.
  induction l as [|[k' v] t IH]; intros k H; cbn [aremove afind map fst] in *; [reflexivity|].
  inversion H as [|? ? Hn Hd]; subst.
  destruct (N.eqb_spec k' k) as [->|Hne].
  - apply afind_notin, Hn.
  - cbn [afind]. destruct (N.eqb_spec k' k); [congruence|]. apply IH, Hd.
Qed.
Lemma take_named_consumes : forall s b s' n, names_ok s -> take_named s b = Ok (s', n) ->
  afind b (named s') = None.
Proof.
  intros s b s' n [Hnd _] H. unfold take_named in H. destruct (afind b (named s)); [|discriminate].
  injection H as <- _. cbn. apply afind_aremove_same, Hnd.
Qed.

(* ---------------------------------------------------------------------------------------- *)
(* taking from the worktop is bounded by what is there                                       *)
(* ---------------------------------------------------------------------------------------- *)
Lemma take_bounded : forall s r a s' n, worktop_take s r a = Ok (s', n) -> (a <> 0)%Z ->
  exists w rv v existing,
    afind r (worktop s) = Some w /\ afind w (buckets s) = Some (rv, v) /\
    cont_amount v = Ok existing /\ (a <= existing)%Z /\
    ((a = existing /\ n = w /\ buckets s' = buckets s /\ worktop s' = aremove r (worktop s))
     \/ ((a < existing)%Z /\ bucket_take s w a = Ok (s', n))).
Proof.
  intros s r a s' n H Ha. unfold worktop_take in H.
  destruct (Z.eqb_spec a 0); [contradiction|].
  destruct (afind r (worktop s)) as [w|] eqn:Ew; [|discriminate].
  destruct (afind w (buckets s)) as [[rv v]|] eqn:Eb; [|discriminate].
  destruct (cont_amount v) as [existing| |] eqn:Ea; try discriminate. cbn [bind] in H.
  destruct (Z.ltb_spec existing a) as [|Hge]; [discriminate|].
  exists w, rv, v, existing. repeat split; try assumption.
  destruct (Z.eqb_spec existing a) as [->|Hne].
  - left. injection H as <- <-. repeat split.
  - right. split; [lia|exact H].
Qed.
(* a fungible split gives a bucket of exactly `a` and leaves exactly `existing - a` *)
Lemma bucket_take_fungible : forall s w r c a s' n, afind w (buckets s) = Some (r, CF c) ->
  bucket_take s w a = Ok (s', n) ->
  exists c', f_take (div_of s r) a c = Ok (c', a) /\ n = next_node s /\
    buckets s' = aset w (r, CF c') (buckets s) ++ [(n, (r, CF (f_new a)))] /\ (fliq c' = fliq c - a)%Z /\ flocked c' = flocked c.
Proof.
  intros s w r c a s' n Hb H. unfold bucket_take in H. rewrite Hb in H.
  destruct (f_take (div_of s r) a c) as [[c' amt]| |] eqn:E; try discriminate. cbn [bind] in H.
  unfold new_bucket in H. injection H as <- <-. cbn.
  unfold f_take in E. destruct (negb (check_fungible_amount (div_of s r) a)); [discriminate|].
  unfold liq_take in E. destruct (fliq c <? a)%Z; [discriminate|]. unfold dsub in E.
  destruct (dec_ok (fliq c - a)); [|discriminate]. cbn [bind] in E. injection E as <- <-.
  eexists. split; [reflexivity|]. repeat split.
Qed.
Lemma take_ids_bounded : forall s r ids s' n, worktop_take_ids s r ids = Ok (s', n) -> ids <> [] ->
  exists w rv c, afind r (worktop s) = Some w /\ afind w (buckets s) = Some (rv, CN c) /\
    subset ids (n_ids c) = true.
Proof.
  intros s r ids s' n H Hne. unfold worktop_take_ids in H. destruct ids as [|i t]; [contradiction|].
  destruct (afind r (worktop s)) as [w|] eqn:Ew; [|discriminate].
  destruct (afind w (buckets s)) as [[rv [c|c]]|] eqn:Eb; try discriminate.
  destruct (subset (i :: t) (n_ids c)) eqn:Es; [|discriminate]. eauto 8.
Qed.

(* ---------------------------------------------------------------------------------------- *)
(* assertions pass exactly when the worktop holds what is asserted                            *)
(* ---------------------------------------------------------------------------------------- *)
Lemma assert_amount_exact : forall s r a amt, worktop_amount s r = Ok amt ->
  (step s (OAssertContains r a) = Ok s <-> (a <= amt)%Z) /\
  (step s (OAssertContains r a) = Err EAssertion <-> (amt < a)%Z).
Proof.
  intros s r a amt H. cbn [step]. rewrite H. cbn [bind].
  destruct (Z.ltb_spec amt a); split; split; intros; try discriminate; try lia; reflexivity.
Qed.
Lemma assert_any_exact : forall s r amt, worktop_amount s r = Ok amt ->
  (step s (OAssertContainsAny r) = Ok s <-> amt <> 0%Z).
Proof.
  intros s r amt H. cbn [step]. rewrite H. cbn [bind].
  destruct (Z.eqb_spec amt 0); split; intros; try discriminate; try congruence; reflexivity.
Qed.
Definition worktop_ids (s : st) (r : N) : list N :=
  match afind r (worktop s) with
  | Some n => match afind n (buckets s) with Some (_, CN c) => n_ids c | _ => [] end
  | None => [] end.
Lemma mem_In : forall x l, mem x l = true <-> In x l.
Proof.
  induction l as [|y t IH]; cbn [mem In]; [split; [discriminate|tauto]|].
  rewrite orb_true_iff, IH, N.eqb_eq. tauto.
Qed.
Lemma assert_ids_exact : forall s r ids,
  step s (OAssertContainsNF r ids) = Ok s <-> (forall i, In i ids -> In i (worktop_ids s r)).
Proof.
  intros s r ids. cbn [step]. fold (worktop_ids s r). unfold diff.
  destruct (filter (fun x => negb (mem x (worktop_ids s r))) ids) as [|x t] eqn:E.
  - split; [intros _ i Hi|reflexivity].
    destruct (mem i (worktop_ids s r)) eqn:Em; [apply mem_In, Em|].
    assert (Hin : In i (filter (fun x => negb (mem x (worktop_ids s r))) ids)) by (apply filter_In; rewrite Em; auto).
    rewrite E in Hin. destruct Hin.
  - split; [discriminate|]. intros H. exfalso.
    assert (Hin : In x (filter (fun x => negb (mem x (worktop_ids s r))) ids)) by (rewrite E; now left).
    apply filter_In in Hin. destruct Hin as [Hi Hm]. apply H in Hi. apply mem_In in Hi. rewrite Hi in Hm. discriminate.
Qed.
