(* Proof/C42_Index.v — index maintenance: after every operation sequence the consensus manager's
   index holds exactly the registered validators with non-zero stake, each under the prefix its
   current stake prescribes and with its current stake; the `.unwrap()` of UpdateStake never fails;
   conservation lifts to the second layer. *)
From Coq Require Import ZArith List Bool Lia.
Import ListNotations.
Require Import RV.Model.C42_Staking RV.Proof.C42_Staking RV.Proof.C42_System RV.Model.C42_Index.
Open Scope Z_scope.

(* ---------------------------------------------------------------------------------------------- *)
(* lists *)

Lemma set_nth_length {A} n (x : A) l : length (set_nth n x l) = length l.
Proof. revert n; induction l; intros [|n]; cbn; auto. Qed.
Lemma set_nth_same {A} n (x : A) l : (n < length l)%nat -> nth_error (set_nth n x l) n = Some x.
Proof. revert n; induction l; intros [|n] H; cbn in *; try lia; auto. apply IHl. lia. Qed.
Lemma set_nth_other {A} n m (x : A) l : n <> m -> nth_error (set_nth n x l) m = nth_error l m.
Proof. revert n m; induction l; intros [|n] [|m] H; cbn; auto; try congruence. Qed.

Lemma set_nth_beyond {A} (x : A) : forall l n, (length l <= n)%nat -> set_nth n x l = l.
Proof.
  induction l as [|a l IH]; intros n H; destruct n as [|n]; cbn [set_nth length] in *; auto; try lia.
  f_equal. apply IH. lia.
Qed.
Lemma upd_nth_frame {A} (f : A -> option A) : forall n l l',
  upd_nth n f l = Some l' ->
  length l' = length l /\ (forall m, m <> n -> nth_error l' m = nth_error l m) /\
  exists x y, nth_error l n = Some x /\ f x = Some y /\ nth_error l' n = Some y.
Proof.
  induction n as [|n IH]; intros l l' H; destruct l as [|x l]; cbn [upd_nth] in H; try discriminate.
  - destruct (f x) as [y|] eqn:E; cbn [obind] in H; [|discriminate].
    assert (l' = y :: l) by congruence. subst. split; [reflexivity|]. split.
    + intros [|m] Hm; [congruence|reflexivity].
    + exists x, y. auto.
  - destruct (upd_nth n f l) as [r|] eqn:E; cbn [obind] in H; [|discriminate].
    assert (l' = x :: r) by congruence. subst. destruct (IH l r E) as (L & F & x0 & y & H1 & H2 & H3).
    split; [cbn; lia|]. split.
    + intros [|m] Hm; [reflexivity|]. cbn. apply F. lia.
    + exists x0, y. auto.
Qed.

(* ---------------------------------------------------------------------------------------------- *)
(* what the index must be *)

Definition entry_of (k : option Z) (stake : Z) : option (Z * Z) :=
  match k with Some p => Some (p, stake) | None => None end.
(* validator at position i is consistently indexed *)
Definition cons_at (vals : list vst) (keys : list (option Z)) (idx : list (option (Z * Z))) (i : nat) : Prop :=
  match nth_error vals i with
  | Some v => exists k, to_sorted_key (sreg v) (sv v) = Some k /\ nth_error keys i = Some k /\
                        nth_error idx i = Some (entry_of k (sv v))
  | None => True
  end.
Definition iinv (s : ist) : Prop :=
  length (ikeys s) = length (svals (ibase s)) /\ length (iindex s) = length (svals (ibase s)) /\
  length (ireq s) = length (svals (ibase s)) /\
  forall i, cons_at (svals (ibase s)) (ikeys s) (iindex s) i.

(* the meaning of the invariant for the index content *)
Lemma to_sorted_key_some reg st k :
  to_sorted_key reg st = Some (Some k) -> reg = true /\ st <> 0 /\ sort_prefix st = Some k.
Proof.
  unfold to_sorted_key. destruct reg; cbn [negb orb]; [|discriminate].
  destruct (Z.eqb_spec st 0); [discriminate|]. destruct (sort_prefix st); [|discriminate].
  intros H. split; [auto|]. split; [auto|]. congruence.
Qed.
Lemma to_sorted_key_none reg st : to_sorted_key reg st = Some None -> reg = false \/ st = 0.
Proof.
  unfold to_sorted_key. destruct reg; cbn [negb orb]; [|auto].
  destruct (Z.eqb_spec st 0); [auto|]. destruct (sort_prefix st); discriminate.
Qed.

Theorem index_exact s i v :
  iinv s -> nth_error (svals (ibase s)) i = Some v ->
  match nth_error (iindex s) i with
  | Some (Some (p, st)) => sreg v = true /\ sv v <> 0 /\ st = sv v /\ sort_prefix (sv v) = Some p
  | Some None => sreg v = false \/ sv v = 0
  | None => False
  end.
Proof.
  intros (_ & _ & _ & H) Hv. specialize (H i). unfold cons_at in H. rewrite Hv in H.
  destruct H as (k & Hk & _ & He). rewrite He. destruct k as [p|]; cbn [entry_of].
  - apply to_sorted_key_some in Hk. tauto.
  - now apply to_sorted_key_none.
Qed.

(* ---------------------------------------------------------------------------------------------- *)
(* reindex *)

Lemma getk_nth {A} (l : list (option A)) i k : 0 <= i -> nth_error l (Z.to_nat i) = Some k -> getk l i = k.
Proof. intros _ H. unfold getk. now rewrite H. Qed.

(* reindexing validator i with (reg, stake): if the old key and entry were consistent with SOME
   (reg0, stake0), the result is consistent with (reg, stake), nothing else moves, no panic *)
Lemma reindex_ok s i reg stake reg0 stake0 k0 :
  0 <= i -> (Z.to_nat i < length (ikeys s))%nat -> length (iindex s) = length (ikeys s) ->
  to_sorted_key reg0 stake0 = Some k0 ->
  nth_error (ikeys s) (Z.to_nat i) = Some k0 ->
  nth_error (iindex s) (Z.to_nat i) = Some (entry_of k0 stake0) ->
  match reindex s i reg stake with
  | IOk s' =>
      ibase s' = ibase s /\ ireq s' = ireq s /\
      length (ikeys s') = length (ikeys s) /\ length (iindex s') = length (iindex s) /\
      (forall m, m <> Z.to_nat i -> nth_error (ikeys s') m = nth_error (ikeys s) m /\
                                    nth_error (iindex s') m = nth_error (iindex s) m) /\
      exists k, to_sorted_key reg stake = Some k /\ nth_error (ikeys s') (Z.to_nat i) = Some k /\
                nth_error (iindex s') (Z.to_nat i) = Some (entry_of k stake)
  | IErr => to_sorted_key reg stake = None
  | IPanic => False
  end.
Proof.
  intros Hi Hlen HL Hk0 Hkey Hidx. unfold reindex.
  destruct (to_sorted_key reg stake) as [newk|] eqn:Enew; [|reflexivity].
  rewrite (getk_nth _ _ _ Hi Hkey). unfold idx_apply.
  assert (Hg : getk (iindex s) i = entry_of k0 stake0) by (apply getk_nth; auto).
  assert (Hlen' : (Z.to_nat i < length (iindex s))%nat) by lia.
  destruct k0 as [po|], newk as [pn|]; cbn [entry_of] in *; rewrite ?Hg; cbn [ibase ireq ikeys iindex].
  - rewrite Z.eqb_refl. cbn [ibase ireq ikeys iindex]. repeat split; auto using set_nth_length.
    + apply set_nth_other; auto.
    + apply set_nth_other; auto.
    + exists (Some pn). rewrite !set_nth_same by lia. auto.
  - rewrite Z.eqb_refl. cbn [ibase ireq ikeys iindex]. repeat split; auto using set_nth_length.
    + apply set_nth_other; auto.
    + apply set_nth_other; auto.
    + exists None. rewrite !set_nth_same by lia. auto.
  - repeat split; auto using set_nth_length.
    + apply set_nth_other; auto.
    + apply set_nth_other; auto.
    + exists (Some pn). rewrite !set_nth_same by lia. auto.
  - repeat split; auto using set_nth_length.
    + apply set_nth_other; auto.
    + exists None. rewrite set_nth_same by lia. rewrite Hidx. auto.
Qed.

(* "consistent with its own earlier (reg0, stake0)": the weaker per-validator fact that survives a
   change of the base state *)
Definition stale_ok (keys : list (option Z)) (idx : list (option (Z * Z))) (i : nat) : Prop :=
  exists reg0 stake0 k0, to_sorted_key reg0 stake0 = Some k0 /\ nth_error keys i = Some k0 /\
                         nth_error idx i = Some (entry_of k0 stake0).

Lemma cons_at_stale vals keys idx i v :
  nth_error vals i = Some v -> cons_at vals keys idx i -> stale_ok keys idx i.
Proof. unfold cons_at. intros ->. intros (k & H1 & H2 & H3). exists (sreg v), (sv v), k. auto. Qed.

(* the working invariant during a step: lengths, every position stale_ok, and positions outside
   [dirty] fully consistent with the base state *)
Definition winv (s : ist) (dirty : nat -> Prop) : Prop :=
  length (ikeys s) = length (svals (ibase s)) /\ length (iindex s) = length (svals (ibase s)) /\
  length (ireq s) = length (svals (ibase s)) /\
  (forall i, (i < length (svals (ibase s)))%nat -> stale_ok (ikeys s) (iindex s) i) /\
  (forall i, ~ dirty i -> cons_at (svals (ibase s)) (ikeys s) (iindex s) i).

Lemma iinv_winv s : iinv s -> winv s (fun _ => False).
Proof.
  intros (L1 & L2 & L3 & H). repeat split; auto. intros i Hi.
  destruct (nth_error (svals (ibase s)) i) as [v|] eqn:E; [|apply nth_error_None in E; lia].
  eapply cons_at_stale; eauto.
Qed.
Lemma winv_iinv s (dirty : nat -> Prop) : winv s dirty -> (forall i, ~ dirty i) -> iinv s.
Proof. intros (L1 & L2 & L3 & _ & H) Hd. repeat split; auto. Qed.

Lemma reindex_cur_winv s i dirty :
  winv s dirty -> 0 <= i ->
  match reindex_cur s i with
  | IOk s' => ibase s' = ibase s /\ ireq s' = ireq s /\ winv s' (fun m => dirty m /\ m <> Z.to_nat i)
  | IErr => True
  | IPanic => False
  end.
Proof.
  intros (L1 & L2 & L3 & Hst & Hc) Hi. unfold reindex_cur, vreg, vstake.
  destruct (nth_error (svals (ibase s)) (Z.to_nat i)) as [v|] eqn:Ev.
  - assert (Hlt : (Z.to_nat i < length (svals (ibase s)))%nat) by (apply nth_error_Some; congruence).
    destruct (Hst _ Hlt) as (reg0 & st0 & k0 & H1 & H2 & H3).
    pose proof (reindex_ok s i (sreg v) (sv v) reg0 st0 k0 Hi ltac:(lia) ltac:(lia) H1 H2 H3) as Hr.
    destruct (reindex s i (sreg v) (sv v)) as [s'| |]; auto.
    destruct Hr as (Hb & Hq & Lk & Li & Hoth & k & Hk1 & Hk2 & Hk3).
    split; [auto|]. split; [auto|]. unfold winv. rewrite Hb. repeat split; try lia.
    + rewrite Hq. auto.
    + intros m Hm. destruct (Nat.eq_dec m (Z.to_nat i)) as [->|Hne].
      * exists (sreg v), (sv v), k. auto.
      * destruct (Hoth m Hne) as [E1 E2]. unfold stale_ok. rewrite E1, E2. apply Hst; auto.
    + intros m Hm. destruct (Nat.eq_dec m (Z.to_nat i)) as [->|Hne].
      * unfold cons_at. rewrite Ev. exists k. auto.
      * destruct (Hoth m Hne) as [E1 E2]. unfold cons_at. rewrite E1, E2. apply Hc. tauto.
  - (* no such validator: the code cannot be called on it; the model leaves keys of a non-existing
       position alone (getk = None, key None) *)
    assert (Hge : (length (svals (ibase s)) <= Z.to_nat i)%nat) by (apply nth_error_None; auto).
    unfold reindex, to_sorted_key. cbn [negb orb].
    assert (getk (ikeys s) i = None).
    { unfold getk. destruct (nth_error (ikeys s) (Z.to_nat i)) eqn:E; [|reflexivity].
      assert ((Z.to_nat i < length (ikeys s))%nat) by (apply nth_error_Some; congruence). lia. }
    rewrite H. cbn [idx_apply]. split; [reflexivity|]. split; [reflexivity|].
    assert (Hs : set_nth (Z.to_nat i) None (ikeys s) = ikeys s) by (apply set_nth_beyond; lia).
    cbn [ibase ikeys iindex ireq]. rewrite Hs. repeat split; auto.
    intros m Hm. destruct (Nat.eq_dec m (Z.to_nat i)) as [->|Hne].
    + unfold cons_at. cbn [ibase ikeys iindex]. rewrite Ev. exact I.
    + apply Hc. intros Hd. apply Hm. split; auto.
Qed.

Lemma reindex_list_winv ids : forall s dirty,
  winv s dirty -> Forall (fun i => 0 <= i) ids ->
  match reindex_list s ids with
  | IOk s' => ibase s' = ibase s /\ ireq s' = ireq s /\
              winv s' (fun m => dirty m /\ ~ In m (map Z.to_nat ids))
  | IErr => True
  | IPanic => False
  end.
Proof.
  induction ids as [|i ids IH]; intros s dirty Hw Hpos; cbn [reindex_list].
  - split; [auto|]. split; [auto|]. destruct Hw as (L1 & L2 & L3 & Hst & Hc). repeat split; auto.
    intros m Hm. apply Hc. cbn in Hm. tauto.
  - inversion Hpos; subst. pose proof (reindex_cur_winv s i dirty Hw ltac:(auto)) as H.
    destruct (reindex_cur s i) as [s1| |]; auto.
    destruct H as (Hb & Hq & Hw1). pose proof (IH s1 _ Hw1 ltac:(auto)) as HR.
    destruct (reindex_list s1 ids) as [s2| |]; auto.
    destruct HR as (Hb2 & Hq2 & Hw2). split; [congruence|]. split; [congruence|].
    destruct Hw2 as (L1 & L2 & L3 & Hst & Hc). repeat split; auto.
    intros m Hm. apply Hc. cbn [map In] in Hm. intros [[Hd Hne] Hnin]. apply Hm. split; [auto|]. intros [Heq|Hin]; auto.
Qed.

(* ---------------------------------------------------------------------------------------------- *)
(* which validators a first-layer step can change in (stake, registration) *)

Definition same_sr (l l' : list vst) (m : nat) : Prop :=
  match nth_error l m, nth_error l' m with
  | Some a, Some b => sv a = sv b /\ sreg a = sreg b
  | None, None => True
  | _, _ => False
  end.
Lemma same_sr_refl l m : same_sr l l m.
Proof. unfold same_sr. destruct (nth_error l m); auto. Qed.
Lemma same_sr_trans l1 l2 l3 m : same_sr l1 l2 m -> same_sr l2 l3 m -> same_sr l1 l3 m.
Proof.
  unfold same_sr. destruct (nth_error l1 m), (nth_error l2 m), (nth_error l3 m); try tauto.
  intros [? ?] [? ?]. split; congruence.
Qed.

Lemma upd_nth_same_sr (f : vst -> option vst) n l l' :
  upd_nth n f l = Some l' -> length l' = length l /\ forall m, m <> n -> same_sr l l' m.
Proof.
  intros H. destruct (upd_nth_frame f n l l' H) as (L & F & _). split; [auto|].
  intros m Hm. unfold same_sr. rewrite (F m Hm). destruct (nth_error l m); auto.
Qed.
Lemma upd_nth_keep_sr (f : vst -> option vst) n l l' :
  (forall x y, f x = Some y -> sv y = sv x /\ sreg y = sreg x) ->
  upd_nth n f l = Some l' -> length l' = length l /\ forall m, same_sr l l' m.
Proof.
  intros Hf H. destruct (upd_nth_frame f n l l' H) as (L & F & x & y & H1 & H2 & H3). split; [auto|].
  intros m. destruct (Nat.eq_dec m n) as [->|Hne].
  - unfold same_sr. rewrite H1, H3. destruct (Hf x y H2). auto.
  - unfold same_sr. rewrite (F m Hne). destruct (nth_error l m); auto.
Qed.

Lemma apply_list_same_sr (f : Z -> vst -> option vst) : forall l vs vs',
  apply_list f l vs = Some vs' ->
  length vs' = length vs /\ forall m, ~ In m (map (fun it : Z * Z => Z.to_nat (fst it)) l) -> same_sr vs vs' m.
Proof.
  induction l as [|[id a] l IH]; intros vs vs' H; cbn [apply_list] in H.
  - assert (vs' = vs) by congruence. subst. split; [auto|]. intros. apply same_sr_refl.
  - destruct (id <? 0); [discriminate|].
    destruct (upd_nth (Z.to_nat id) (f a) vs) as [vs1|] eqn:E; cbn [obind] in H; [|discriminate].
    destruct (upd_nth_same_sr _ _ _ _ E) as [L1 F1]. destruct (IH vs1 vs' H) as [L2 F2].
    split; [lia|]. intros m Hm. cbn [map In fst] in Hm.
    eapply same_sr_trans; [apply F1|apply F2]; intuition.
Qed.

(* the (stake, registration) frame of one first-layer step *)
Definition touched (o : sop) (es rs : list (Z * Z)) (m : nat) : Prop :=
  match o with
  | SStake i _ | SUnstake i _ _ | SSetReg i _ => m = Z.to_nat i
  | SEpoch _ _ _ => In m (map (fun it : Z * Z => Z.to_nat (fst it)) es) \/ In m (map (fun it : Z * Z => Z.to_nat (fst it)) rs)
  | _ => False
  end.

Lemma sstep_frame b o b' :
  sstep b o = Some b' ->
  length (svals b') = length (svals b) /\
  exists es rs,
    (match o with SEpoch te minrel active => emissions te minrel active = Some es /\ rewards minrel active (sprop b) (srv b) = Some rs | _ => True end) /\
    forall m, ~ touched o es rs m -> same_sr (svals b) (svals b') m.
Proof.
  intros H. destruct o as [i x|i n nue|i amt ce|leader p q|te minrel active|i ff|i b0]; cbn [sstep] in H.
  - unfold upd_val in H. destruct (i <? 0); [discriminate|].
    destruct (upd_nth _ _ _) as [vs|] eqn:E; cbn [obind] in H; [|discriminate].
    assert (b' = with_vals b vs x 0) by congruence. subst. cbn [with_vals svals].
    destruct (upd_nth_same_sr _ _ _ _ E). split; [auto|]. exists [], []. split; [auto|]. cbn [touched]. auto.
  - unfold upd_val in H. destruct (i <? 0); [discriminate|].
    destruct (upd_nth _ _ _) as [vs|] eqn:E; cbn [obind] in H; [|discriminate].
    assert (b' = with_vals b vs 0 0) by congruence. subst. cbn [with_vals svals].
    destruct (upd_nth_same_sr _ _ _ _ E). split; [auto|]. exists [], []. split; [auto|]. cbn [touched]. auto.
  - unfold upd_val in H. destruct (i <? 0); [discriminate|].
    destruct (upd_nth _ _ _) as [vs|] eqn:E; cbn [obind] in H; [|discriminate].
    assert (b' = with_vals b vs 0 amt) by congruence. subst. cbn [with_vals svals].
    assert (Hf : forall x y, v_claim amt ce (sepoch b) x = Some y -> sv y = sv x /\ sreg y = sreg x).
    { intros x y Hxy. unfold v_claim in Hxy. destruct (remove_claim _ _ _); cbn [obind] in Hxy; [|discriminate].
      destruct (_ <? ce); [discriminate|]. destruct (_ || _); [discriminate|]. inversion Hxy. cbn. auto. }
    destruct (upd_nth_keep_sr _ _ _ _ Hf E). split; [auto|]. exists [], []. split; [auto|]. intros; auto.
  - destruct (_ || _); [discriminate|]. inversion H. cbn [svals]. split; [auto|]. exists [], []. split; [auto|]. intros; apply same_sr_refl.
  - destruct (emissions te minrel active) as [es|] eqn:Ee; cbn [obind] in H; [|discriminate].
    destruct (rewards minrel active (sprop b) (srv b)) as [rs|] eqn:Er; cbn [obind] in H; [|discriminate].
    destruct (_ || _); [discriminate|].
    destruct (apply_list v_emit es (svals b)) as [vs1|] eqn:E1; cbn [obind] in H; [|discriminate].
    destruct (apply_list v_reward rs vs1) as [vs2|] eqn:E2; cbn [obind] in H; [|discriminate].
    inversion H. cbn [svals].
    destruct (apply_list_same_sr _ _ _ _ E1) as [L1 F1]. destruct (apply_list_same_sr _ _ _ _ E2) as [L2 F2].
    split; [lia|]. exists es, rs. split; [auto|]. intros m Hm. cbn [touched] in Hm.
    eapply same_sr_trans; [apply F1|apply F2]; tauto.
  - unfold upd_val in H. destruct (i <? 0); [discriminate|].
    destruct (upd_nth _ _ _) as [vs|] eqn:E; cbn [obind] in H; [|discriminate].
    assert (b' = with_vals b vs 0 0) by congruence. subst. cbn [with_vals svals].
    assert (Hf : forall x y, v_set_fee ff x = Some y -> sv y = sv x /\ sreg y = sreg x).
    { intros x y Hxy. unfold v_set_fee in Hxy. destruct (_ || _); [discriminate|]. inversion Hxy. cbn. auto. }
    destruct (upd_nth_keep_sr _ _ _ _ Hf E). split; [auto|]. exists [], []. split; [auto|]. intros; auto.
  - unfold upd_val in H. destruct (i <? 0); [discriminate|].
    destruct (upd_nth _ _ _) as [vs|] eqn:E; cbn [obind] in H; [|discriminate].
    assert (b' = with_vals b vs 0 0) by congruence. subst. cbn [with_vals svals].
    destruct (upd_nth_same_sr _ _ _ _ E). split; [auto|]. exists [], []. split; [auto|]. cbn [touched]. auto.
Qed.

Lemma base_steps_setfee_frame ops : forall b b',
  Forall (fun o => match o with SSetFee _ _ => True | _ => False end) ops ->
  base_steps b ops = Some b' ->
  length (svals b') = length (svals b) /\ (forall m, same_sr (svals b) (svals b') m) /\
  sprop b' = sprop b /\ srv b' = srv b /\ sepoch b' = sepoch b.
Proof.
  induction ops as [|o ops IH]; intros b b' Hall H; cbn [base_steps] in H.
  - assert (b' = b) by congruence. subst. repeat split; auto. intros; apply same_sr_refl.
  - inversion Hall as [|? ? Ho Hall']; subst. destruct o; try contradiction.
    destruct (sstep b (SSetFee i ff)) as [b1|] eqn:E; [|discriminate].
    destruct (sstep_frame _ _ _ E) as (L1 & es & rs & _ & F1).
    destruct (IH b1 b' Hall' H) as (L2 & F2 & P2 & R2 & E2).
    assert (sprop b1 = sprop b /\ srv b1 = srv b /\ sepoch b1 = sepoch b) as (P1 & R1 & E1).
    { cbn [sstep] in E. destruct (upd_val _ _ _); cbn [obind] in E; [|discriminate]. inversion E. cbn. auto. }
    repeat split; try congruence; try lia. intros m. eapply same_sr_trans; [apply F1; cbn; auto|apply F2].
Qed.

(* moving the invariant across a change of the base state *)
Lemma winv_rebase s b' (dirty : nat -> Prop) :
  winv s (fun _ => False) -> length (svals b') = length (svals (ibase s)) ->
  (forall m, ~ dirty m -> same_sr (svals (ibase s)) (svals b') m) ->
  winv (with_base s b') dirty.
Proof.
  intros (L1 & L2 & L3 & Hst & Hc) HL Hf. unfold winv, with_base. cbn [ibase ikeys iindex ireq].
  split; [lia|]. split; [lia|]. split; [lia|]. split.
  - intros i Hi. apply Hst. lia.
  - intros i Hd. specialize (Hf i Hd). specialize (Hc i ltac:(tauto)). unfold cons_at, same_sr in *.
    destruct (nth_error (svals (ibase s)) i) as [a|], (nth_error (svals b') i) as [b|]; try tauto.
    destruct Hf as [E1 E2]. rewrite <- E1, <- E2. exact Hc.
Qed.

(* ---------------------------------------------------------------------------------------------- *)
(* the second-layer step keeps the index exact and never hits the unwrap *)

Theorem istep_iinv s o :
  iinv s ->
  match istep s o with
  | IOk s' => iinv s'
  | IErr => True
  | IPanic => False
  end.
Proof.
  intros Hi. pose proof (iinv_winv s Hi) as Hw.
  destruct o as [i x|i n nue|i amt ce|l p q|te minrel active|i b0|i ff delay]; cbn [istep ibind lift].
  - (* stake *)
    destruct (sstep (ibase s) (SStake i x)) as [b'|] eqn:E; cbn [lift ibind]; [|exact I].
    destruct (sstep_frame _ _ _ E) as (L & es & rs & _ & F). cbn [touched] in F.
    assert (Hi0 : 0 <= i). { cbn [sstep] in E. unfold upd_val in E. destruct (Z.ltb_spec i 0); [discriminate|lia]. }
    pose proof (winv_rebase s b' (fun m => m = Z.to_nat i) Hw L F) as Hw'.
    pose proof (reindex_cur_winv _ i _ Hw' Hi0) as Hr.
    destruct (reindex_cur (with_base s b') i) as [s'| |]; auto.
    destruct Hr as (_ & _ & Hw2). eapply winv_iinv; [exact Hw2|]. intros m [H1 H2]. auto.
  - (* unstake *)
    destruct (epoch_after (sepoch (ibase s)) nue); cbn [lift ibind]; [|exact I].
    destruct (sstep (ibase s) (SUnstake i n nue)) as [b'|] eqn:E; cbn [lift ibind]; [|exact I].
    destruct (sstep_frame _ _ _ E) as (L & es & rs & _ & F). cbn [touched] in F.
    assert (Hi0 : 0 <= i). { cbn [sstep] in E. unfold upd_val in E. destruct (Z.ltb_spec i 0); [discriminate|lia]. }
    pose proof (winv_rebase s b' (fun m => m = Z.to_nat i) Hw L F) as Hw'.
    pose proof (reindex_cur_winv _ i _ Hw' Hi0) as Hr.
    destruct (reindex_cur (with_base s b') i) as [s'| |]; auto.
    destruct Hr as (_ & _ & Hw2). eapply winv_iinv; [exact Hw2|]. intros m [H1 H2]. auto.
  - (* claim *)
    destruct (sstep (ibase s) (SClaim i amt ce)) as [b'|] eqn:E; cbn [lift ibind]; [|exact I].
    destruct (sstep_frame _ _ _ E) as (L & es & rs & _ & F). cbn [touched] in F.
    eapply winv_iinv; [apply (winv_rebase s b' (fun _ => False) Hw L); intros; apply F; auto|auto].
  - (* fees *)
    destruct (sstep (ibase s) (SFee l p q)) as [b'|] eqn:E; cbn [lift ibind]; [|exact I].
    destruct (sstep_frame _ _ _ E) as (L & es & rs & _ & F). cbn [touched] in F.
    eapply winv_iinv; [apply (winv_rebase s b' (fun _ => False) Hw L); intros; apply F; auto|auto].
  - (* epoch change *)
    destruct (emissions te minrel active) as [es|] eqn:Ee; cbn [lift ibind]; [|exact I].
    destruct (rewards minrel active (sprop (ibase s)) (srv (ibase s))) as [rs|] eqn:Er; cbn [lift ibind]; [|exact I].
    set (ids := seqZ 0 (length (svals (ibase s)))).
    match goal with |- context [base_steps (ibase s) ?ops] => set (ops1 := ops) end.
    destruct (base_steps (ibase s) ops1) as [b1|] eqn:E1; cbn [lift ibind]; [|exact I].
    destruct (sstep b1 (SEpoch te minrel active)) as [b2|] eqn:E2; cbn [lift ibind]; [|exact I].
    match goal with |- context [base_steps b2 ?ops] => set (ops3 := ops) end.
    destruct (base_steps b2 ops3) as [b3|] eqn:E3; cbn [lift ibind]; [|exact I].
    assert (Hall : forall l, Forall (fun o => match o with SSetFee _ _ => True | _ => False end)
                                   (map (fun p : Z * Z => SSetFee (fst p) (snd p)) l)).
    { induction l; cbn; constructor; auto. }
    destruct (base_steps_setfee_frame _ _ _ (Hall _) E1) as (L1 & F1 & P1 & R1 & Ep1).
    destruct (sstep_frame _ _ _ E2) as (L2 & es' & rs' & [Hes Hrs] & F2).
    rewrite P1, R1 in Hrs. assert (es' = es) by congruence. assert (rs' = rs) by congruence. subst es' rs'.
    destruct (base_steps_setfee_frame _ _ _ (Hall _) E3) as (L3 & F3 & _).
    set (dirty := fun m => In m (map Z.to_nat (map fst es ++ map fst rs))).
    assert (Hw' : winv (with_base s b3) dirty).
    { apply (winv_rebase s b3 dirty Hw); [lia|]. intros m Hm.
      eapply same_sr_trans; [apply F1|]. eapply same_sr_trans; [|apply F3]. apply F2.
      cbn [touched]. unfold dirty in Hm. rewrite map_app, in_app_iff, !map_map in Hm. tauto. }
    assert (Hpos : Forall (fun i => 0 <= i) (map fst es ++ map fst rs)).
    { (* ids that were applied are non-negative: apply_list checks it *)
      cbn [sstep] in E2. rewrite Hes in E2. cbn [obind] in E2. rewrite P1, R1, Er in E2. cbn [obind] in E2.
      destruct (_ || _); [discriminate|].
      destruct (apply_list v_emit es (svals b1)) as [vs1|] eqn:A1; cbn [obind] in E2; [|discriminate].
      destruct (apply_list v_reward rs vs1) as [vs2|] eqn:A2; cbn [obind] in E2; [|discriminate].
      assert (Hnn : forall f l vs vs', apply_list f l vs = Some vs' -> Forall (fun i => 0 <= i) (map fst l)).
      { intros f l. induction l as [|[id a] l IH]; intros vs vs' Ha; cbn [apply_list] in Ha; [constructor|].
        destruct (Z.ltb_spec id 0); [discriminate|].
        destruct (upd_nth _ _ _) as [v1|]; cbn [obind] in Ha; [|discriminate]. constructor; [auto|eapply IH; eauto]. }
      apply Forall_app. split; eapply Hnn; eauto. }
    pose proof (reindex_list_winv _ _ _ Hw' Hpos) as Hr.
    destruct (reindex_list (with_base s b3) (map fst es ++ map fst rs)) as [s'| |]; auto.
    destruct Hr as (_ & _ & Hw2). eapply winv_iinv; [exact Hw2|]. unfold dirty. intros m [H1 H2]. auto.
  - (* register / unregister *)
    destruct (Z.ltb_spec i 0); cbn [orb]; [exact I|].
    destruct (Z.leb_spec (Z.of_nat (length (svals (ibase s)))) i); [exact I|].
    destruct (Bool.eqb _ b0); [exact Hi|].
    assert (Hlt : (Z.to_nat i < length (svals (ibase s)))%nat) by lia.
    destruct Hw as (L1 & L2 & L3 & Hst & Hc).
    destruct (Hst _ Hlt) as (reg0 & st0 & k0 & H1 & H2 & H3).
    pose proof (reindex_ok s i b0 (vstake (ibase s) i) reg0 st0 k0 ltac:(lia) ltac:(lia) ltac:(lia) H1 H2 H3) as Hr.
    destruct (reindex s i b0 (vstake (ibase s) i)) as [s1| |]; cbn [ibind]; auto.
    destruct Hr as (Hb & Hq & Lk & Li & Hoth & k & Hk1 & Hk2 & Hk3).
    destruct (sstep (ibase s) (SSetReg i b0)) as [b'|] eqn:E; cbn [lift ibind]; [|exact I].
    destruct (sstep_frame _ _ _ E) as (L & es & rs & _ & F). cbn [touched] in F.
    unfold with_base. repeat split; cbn [ibase ikeys iindex ireq]; try lia; try (rewrite Hq; lia).
    intros m. destruct (Nat.eq_dec m (Z.to_nat i)) as [->|Hne].
    + (* the validator itself: registration b0, same stake *)
      cbn [sstep] in E. unfold upd_val in E. destruct (i <? 0); [discriminate|].
      destruct (upd_nth (Z.to_nat i) (v_set_reg b0) (svals (ibase s))) as [vs|] eqn:Eu; cbn [obind] in E; [|discriminate].
      destruct (upd_nth_frame _ _ _ _ Eu) as (_ & _ & x & y & X1 & X2 & X3).
      assert (b' = with_vals (ibase s) vs 0 0) by congruence. subst b'. cbn [with_vals svals].
      unfold cons_at. rewrite X3. unfold v_set_reg in X2. inversion X2; subst y. cbn [sreg sv].
      unfold vstake in Hk1, Hk3. rewrite X1 in Hk1, Hk3. exists k. auto.
    + destruct (Hoth m Hne) as [E1 E2]. specialize (F m Hne). specialize (Hc m ltac:(tauto)).
      unfold cons_at, same_sr in *. rewrite E1, E2.
      destruct (nth_error (svals (ibase s)) m) as [a|], (nth_error (svals b') m) as [c|]; try tauto.
      destruct F as [F1 F2]. rewrite <- F1, <- F2. exact Hc.
  - (* update_fee *)
    destruct (Z.ltb_spec i 0); cbn [orb]; [exact I|].
    destruct (Z.leb_spec (Z.of_nat (length (svals (ibase s)))) i); [exact I|].
    destruct (_ || _); [exact I|].
    match goal with |- context [lift (if ?c then _ else _)] => destruct (if c then _ else _) as [ee|]; cbn [lift ibind]; [|exact I] end.
    match goal with |- context [sstep (ibase s) ?o] => destruct (sstep (ibase s) o) as [b'|] eqn:E; cbn [lift ibind]; [|exact I] end.
    destruct (sstep_frame _ _ _ E) as (L & es & rs & _ & F). cbn [touched] in F.
    destruct Hw as (L1 & L2 & L3 & Hst & Hc).
    repeat split; cbn [ibase ikeys iindex ireq]; try lia; [rewrite set_nth_length; lia|].
    intros m. specialize (F m ltac:(auto)). specialize (Hc m ltac:(tauto)).
    unfold cons_at, same_sr in *.
    destruct (nth_error (svals (ibase s)) m) as [a|], (nth_error (svals b') m) as [c|]; try tauto.
    destruct F as [F1 F2]. rewrite <- F1, <- F2. exact Hc.
Qed.

Theorem irun_iinv ops : forall s, iinv s -> iinv (irun s ops).
Proof.
  induction ops as [|o ops IH]; intros s Hi; cbn [irun]; [auto|].
  pose proof (istep_iinv s o Hi) as H. destruct (istep s o); apply IH; auto; contradiction.
Qed.
Theorem istep_no_panic s o : iinv s -> istep s o <> IPanic.
Proof. intros Hi. pose proof (istep_iinv s o Hi). destruct (istep s o); try discriminate. contradiction. Qed.

(* ---------------------------------------------------------------------------------------------- *)
(* conservation for the second layer *)

Lemma reindex_base s i reg st s' : reindex s i reg st = IOk s' -> ibase s' = ibase s.
Proof.
  unfold reindex. destruct (to_sorted_key reg st); [|discriminate].
  destruct (idx_apply _ _ _ _ _); try discriminate. intros H. inversion H. reflexivity.
Qed.
Lemma reindex_list_base ids : forall s s', reindex_list s ids = IOk s' -> ibase s' = ibase s.
Proof.
  induction ids as [|i ids IH]; intros s s' H; cbn [reindex_list] in H; [inversion H; reflexivity|].
  destruct (reindex_cur s i) as [s1| |] eqn:E; try discriminate.
  unfold reindex_cur in E. apply reindex_base in E. rewrite (IH _ _ H). exact E.
Qed.
Lemma base_steps_conservation ops : forall b b',
  base_steps b ops = Some b' -> sinv b ->
  sinv b' /\ balance b' = balance b /\ g_mint b <= g_mint b' /\ g_in b <= g_in b' /\ g_out b <= g_out b'.
Proof.
  induction ops as [|o ops IH]; intros b b' H Hs; cbn [base_steps] in H.
  - assert (b' = b) by congruence. subst. split; [auto|]. repeat split; lia.
  - destruct (sstep b o) as [b1|] eqn:E; [|discriminate].
    destruct (sstep_conservation b o b1 E Hs) as (H1 & H2 & H3 & H4 & H5).
    destruct (IH b1 b' H H1) as (K1 & K2 & K3 & K4 & K5). split; [auto|]. repeat split; lia.
Qed.

Theorem istep_conservation s o s' :
  istep s o = IOk s' -> sinv (ibase s) ->
  sinv (ibase s') /\ balance (ibase s') = balance (ibase s) /\
  g_mint (ibase s) <= g_mint (ibase s') /\ g_in (ibase s) <= g_in (ibase s') /\ g_out (ibase s) <= g_out (ibase s').
Proof.
  intros H Hs.
  (* every case is a sequence of first-layer steps followed by index updates *)
  assert (Hgen : exists ops, base_steps (ibase s) ops = Some (ibase s')).
  { destruct o as [i x|i n nue|i amt ce|l p q|te minrel active|i b0|i ff delay]; cbn [istep ibind lift] in H.
    - destruct (sstep (ibase s) (SStake i x)) as [b'|] eqn:E; cbn [lift ibind] in H; [|discriminate].
      unfold reindex_cur in H. apply reindex_base in H. exists [SStake i x]. cbn [base_steps]. rewrite E, H. reflexivity.
    - destruct (epoch_after _ _); cbn [lift ibind] in H; [|discriminate].
      destruct (sstep (ibase s) (SUnstake i n nue)) as [b'|] eqn:E; cbn [lift ibind] in H; [|discriminate].
      unfold reindex_cur in H. apply reindex_base in H. exists [SUnstake i n nue]. cbn [base_steps]. rewrite E, H. reflexivity.
    - destruct (sstep (ibase s) (SClaim i amt ce)) as [b'|] eqn:E; cbn [lift ibind] in H; [|discriminate].
      inversion H. exists [SClaim i amt ce]. cbn [base_steps with_base ibase]. rewrite E. reflexivity.
    - destruct (sstep (ibase s) (SFee l p q)) as [b'|] eqn:E; cbn [lift ibind] in H; [|discriminate].
      inversion H. exists [SFee l p q]. cbn [base_steps with_base ibase]. rewrite E. reflexivity.
    - destruct (emissions te minrel active) as [es|]; cbn [lift ibind] in H; [|discriminate].
      destruct (rewards _ _ _ _) as [rs|]; cbn [lift ibind] in H; [|discriminate].
      match type of H with context [base_steps (ibase s) ?ops] => set (ops1 := ops) in * end.
      destruct (base_steps (ibase s) ops1) as [b1|] eqn:E1; cbn [lift ibind] in H; [|discriminate].
      destruct (sstep b1 (SEpoch te minrel active)) as [b2|] eqn:E2; cbn [lift ibind] in H; [|discriminate].
      match type of H with context [base_steps b2 ?ops] => set (ops3 := ops) in * end.
      destruct (base_steps b2 ops3) as [b3|] eqn:E3; cbn [lift ibind] in H; [|discriminate].
      apply reindex_list_base in H. cbn [with_base ibase] in H.
      exists (ops1 ++ SEpoch te minrel active :: ops3).
      assert (Happ : forall o1 o2 x y z, base_steps x o1 = Some y -> base_steps y o2 = Some z -> base_steps x (o1 ++ o2) = Some z).
      { induction o1 as [|a o1 IHo]; intros o2 x y z A B; cbn [base_steps app] in *; [congruence|].
        destruct (sstep x a); [|discriminate]. eapply IHo; eauto. }
      eapply Happ; [exact E1|]. cbn [base_steps]. rewrite E2, H. exact E3.
    - destruct (_ || _); [discriminate|]. destruct (Bool.eqb _ b0); [inversion H; exists []; reflexivity|].
      destruct (reindex s i b0 (vstake (ibase s) i)) as [s1| |] eqn:Er; cbn [ibind] in H; try discriminate.
      destruct (sstep (ibase s) (SSetReg i b0)) as [b'|] eqn:E; cbn [lift ibind] in H; [|discriminate].
      inversion H. exists [SSetReg i b0]. cbn [base_steps with_base ibase]. rewrite E. reflexivity.
    - destruct (_ || _); [discriminate|]. destruct (_ || _); [discriminate|].
      match type of H with context [lift (if ?c then _ else _)] => destruct (if c then _ else _) as [ee|]; cbn [lift ibind] in H; [|discriminate] end.
      match type of H with context [sstep (ibase s) ?o] => destruct (sstep (ibase s) o) as [b'|] eqn:E; cbn [lift ibind] in H; [|discriminate]; exists [o] end.
      inversion H. cbn [base_steps ibase]. rewrite E. reflexivity. }
  destruct Hgen as [ops Hops]. eapply base_steps_conservation; eauto.
Qed.

Theorem irun_conservation ops : forall s,
  sinv (ibase s) ->
  sinv (ibase (irun s ops)) /\ balance (ibase (irun s ops)) = balance (ibase s).
Proof.
  induction ops as [|o ops IH]; intros s Hs; cbn [irun]; [auto|].
  destruct (istep s o) as [s1| |] eqn:E; try (apply IH; exact Hs).
  destruct (istep_conservation s o s1 E Hs) as (H1 & H2 & _). destruct (IH s1 H1) as [K1 K2].
  split; [auto|lia].
Qed.

(* fee-factor changes as written *)
Theorem update_fee_effective_epoch s i ff delay s' :
  iinv s -> istep s (IUpdateFee i ff delay) = IOk s' ->
  0 <= ff <= DD /\
  exists stored ee,
    getk (ireq s') i = Some (ee, ff) /\ vff (ibase s') i = stored /\
    stored = effective_ff (vff (ibase s) i) (getk (ireq s) i) (sepoch (ibase s)) /\
    (if stored <? ff then ee = sepoch (ibase s) + delay else ee = sepoch (ibase s) + 1) /\ ee <= U64_MAX.
Proof.
  cbn [istep]. intros (_ & _ & L3 & _) H.
  destruct (Z.ltb_spec i 0); cbn [orb] in H; [discriminate|].
  destruct (Z.leb_spec (Z.of_nat (length (svals (ibase s)))) i); [discriminate|].
  destruct (Z.ltb_spec ff 0); cbn [orb] in H; [discriminate|]. destruct (Z.ltb_spec DD ff); [discriminate|].
  split; [lia|].
  set (stored := match getk (ireq s) i with Some (ee, nf) => if ee <=? sepoch (ibase s) then nf else vff (ibase s) i | None => vff (ibase s) i end) in *.
  destruct (if stored <? ff then epoch_after (sepoch (ibase s)) delay else epoch_after (sepoch (ibase s)) 1) as [ee|] eqn:Ee; cbn [lift ibind] in H; [|discriminate].
  destruct (sstep (ibase s) (SSetFee i stored)) as [b'|] eqn:E; cbn [lift ibind] in H; [|discriminate].
  inversion H; subst s'. cbn [ibase ireq]. exists stored, ee.
  assert (Hlt : (Z.to_nat i < length (svals (ibase s)))%nat) by lia.
  split; [|split; [|split; [|split]]].
  - unfold getk. rewrite set_nth_same by lia. reflexivity.
  - cbn [sstep] in E. unfold upd_val in E. destruct (i <? 0); [discriminate|].
    destruct (upd_nth _ _ _) as [vs|] eqn:Eu; cbn [obind] in E; [|discriminate].
    destruct (upd_nth_frame _ _ _ _ Eu) as (_ & _ & x & y & X1 & X2 & X3).
    assert (b' = with_vals (ibase s) vs 0 0) by congruence. subst b'. unfold vff. cbn [with_vals svals]. rewrite X3.
    unfold v_set_fee in X2. destruct (_ || _); [discriminate|]. inversion X2. reflexivity.
  - unfold stored, effective_ff. destruct (getk (ireq s) i) as [[e0 nf]|]; reflexivity.
  - destruct (stored <? ff); unfold epoch_after in Ee; destruct (_ <=? U64_MAX); inversion Ee; reflexivity.
  - destruct (stored <? ff); unfold epoch_after in Ee; destruct (Z.leb_spec (sepoch (ibase s) + delay) U64_MAX); destruct (Z.leb_spec (sepoch (ibase s) + 1) U64_MAX); inversion Ee; lia.
Qed.
