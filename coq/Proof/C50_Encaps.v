(* C50 — proofs about the encapsulation checks (Model/C50_Encaps.v). *)
From Coq Require Import List NArith Bool Lia.
Import ListNotations.
Require Import RV.Model.C50_Encaps.
Open Scope N_scope.
Arguments N.eqb : simpl never.
Arguments N.add : simpl never.

Lemma bp_eqb_eq : forall a b, bp_eqb a b = true <-> a = b.
Proof.
  intros [p1 n1] [p2 n2]. unfold bp_eqb. cbn. rewrite andb_true_iff, !N.eqb_eq.
  split; [intros [-> ->]; reflexivity|intro H; inversion H; auto].
Qed.
Lemma opt_bp_eqb_eq : forall a b, opt_bp_eqb a b = true <-> a = Some b.
Proof.
  intros [x|] b; cbn; [rewrite bp_eqb_eq; split; [intros ->; reflexivity|intro H; inversion H; reflexivity]|].
  split; discriminate.
Qed.
Lemma opt_N_eqb_eq : forall a b, opt_N_eqb a b = true <-> a = Some b.
Proof.
  intros [x|] b; cbn; [rewrite N.eqb_eq; split; [intros ->; reflexivity|intro H; inversion H; reflexivity]|].
  split; discriminate.
Qed.

Lemma get_object_info_inr : forall h n i, get_object_info h n = inr i <-> lookup h n = Some (TObject i).
Proof.
  intros h n i. unfold get_object_info. destruct (lookup h n) as [[j| | |]|]; split; intro H;
    try discriminate; inversion H; reflexivity.
Qed.

(* ---------------------------------------------------------------------------------------------- *)
(* drop                                                                                            *)
(* ---------------------------------------------------------------------------------------------- *)
(* who the actor must be for the drop of object `info` to be admitted *)
Definition DropRight (a : actor) (info : oinfo) : Prop :=
  (* a proof, or an object without outer object: only code of the object's own blueprint *)
  ((is_proof (oi_bp info) = true \/ oi_outer info = ONone) /\ actor_bp a = Some (oi_bp info))
  \/
  (* an inner object (not a proof): only a main/direct method running on the outer object itself
     or on another inner object of the same outer object *)
  (is_proof (oi_bp info) = false /\ exists o, oi_outer info = OSome o /\
     exists t x xi, a = AMethod t x xi /\ (t = MMain \/ t = MDirect) /\
       ((oi_global xi = true /\ x = o) \/ (oi_global xi = false /\ oi_outer xi = OSome o))).

Lemma instance_context_inv : forall a o, instance_context a = Some o ->
  exists t x xi, a = AMethod t x xi /\ (t = MMain \/ t = MDirect) /\
    ((oi_global xi = true /\ x = o) \/ (oi_global xi = false /\ oi_outer xi = OSome o)).
Proof.
  intros a o H. destruct a as [|t x xi|b|b r]; try discriminate.
  assert (Hc : (if oi_global xi then Some x
                else match oi_outer xi with OSome y => Some y | ONone => None end) = Some o ->
               (oi_global xi = true /\ x = o) \/ (oi_global xi = false /\ oi_outer xi = OSome o)).
  { intro Hx. destruct (oi_global xi) eqn:G; [inversion Hx; subst; left; auto|].
    destruct (oi_outer xi) as [y|] eqn:O; [inversion Hx; subst; right; auto|discriminate]. }
  destruct t as [| |m]; try discriminate; cbn in H.
  - exists MMain, x, xi. split; [reflexivity|]. split; [left; reflexivity|apply Hc; exact H].
  - exists MDirect, x, xi. split; [reflexivity|]. split; [right; reflexivity|apply Hc; exact H].
Qed.

Theorem drop_only_own : forall h a n,
  drop_check h a n = Granted ->
  exists info, lookup h n = Some (TObject info) /\ DropRight a info.
Proof.
  intros h a n H. unfold drop_check in H.
  destruct (get_object_info h n) as [e|info] eqn:G.
  - unfold get_object_info in G. destruct (lookup h n) as [[j| | |]|]; inversion G; subst; discriminate.
  - apply get_object_info_inr in G. exists info. split; [exact G|].
    destruct (is_proof (oi_bp info)) eqn:P.
    + left. destruct (opt_bp_eqb (actor_bp a) (oi_bp info)) eqn:E; [|discriminate].
      apply opt_bp_eqb_eq in E. split; [left; exact P|exact E].
    + destruct (oi_outer info) as [o|] eqn:O.
      * right. destruct (opt_N_eqb (instance_context a) o) eqn:E; [|discriminate].
        apply opt_N_eqb_eq in E. split; [exact P|]. exists o. split; [exact O|].
        apply instance_context_inv. exact E.
      * left. destruct (opt_bp_eqb (actor_bp a) (oi_bp info)) eqn:E; [|discriminate].
        apply opt_bp_eqb_eq in E. split; [right; exact O|exact E].
Qed.

(* a denied drop is exactly InvalidDropAccess when the node is an object *)
Theorem drop_denied_is_invalid_drop_access : forall h a n info,
  lookup h n = Some (TObject info) ->
  drop_check h a n = Granted \/ drop_check h a n = EInvalidDropAccess.
Proof.
  intros h a n info L. unfold drop_check, get_object_info. rewrite L.
  destruct (is_proof (oi_bp info)); [destruct (opt_bp_eqb _ _); auto|].
  destruct (oi_outer info); [destruct (opt_N_eqb _ _); auto|destruct (opt_bp_eqb _ _); auto].
Qed.

(* ---------------------------------------------------------------------------------------------- *)
(* globalize                                                                                       *)
(* ---------------------------------------------------------------------------------------------- *)
Theorem globalize_only_own : forall h a n r m,
  globalize_check h a n r m = Granted ->
  exists addr reserved info,
    lookup h r = Some (TReservation addr) /\ lookup h addr = Some (TPhantom reserved) /\
    lookup h n = Some (TObject info) /\ oi_global info = false /\
    oi_bp info = reserved /\ actor_pkg a = Some (bp_pkg (oi_bp info)) /\ m = true.
Proof.
  intros h a n r m H. unfold globalize_check in H.
  destruct (lookup h r) as [[j| |addr|b]|] eqn:R; try discriminate.
  destruct (lookup h addr) as [[j| |x|reserved]|] eqn:P; try discriminate.
  destruct (opt_N_eqb (actor_pkg a) (bp_pkg reserved)) eqn:E; cbn in H; [|discriminate].
  destruct m; cbn in H; [|discriminate].
  destruct (get_object_info h n) as [e|info] eqn:G.
  - unfold get_object_info in G. destruct (lookup h n) as [[j| | |]|]; inversion G; subst; discriminate.
  - destruct (oi_global info) eqn:Gl; [discriminate|].
    destruct (bp_eqb (oi_bp info) reserved) eqn:B; cbn in H; [|discriminate].
    apply bp_eqb_eq in B. apply opt_N_eqb_eq in E. apply get_object_info_inr in G.
    exists addr, reserved, info. subst reserved. repeat split; assumption.
Qed.

(* ---------------------------------------------------------------------------------------------- *)
(* new_object                                                                                      *)
(* ---------------------------------------------------------------------------------------------- *)
Theorem new_object_own_package : forall h defs a ident i,
  new_object_check h defs a ident = inr i ->
  actor_pkg a = Some (bp_pkg (oi_bp i)) /\ bp_name (oi_bp i) = ident /\ oi_global i = false /\
  match defs (oi_bp i) with
  | Some BOuter => oi_outer i = ONone
  | Some (BInner outer_name) =>
      exists o oi, oi_outer i = OSome o /\ instance_context a = Some o /\
                   lookup h o = Some (TObject oi) /\ bp_name (oi_bp oi) = outer_name
  | None => False
  end.
Proof.
  intros h defs a ident i H. unfold new_object_check in H. unfold actor_pkg.
  destruct (actor_bp a) as [ab|] eqn:A; [|discriminate]. cbn [option_map].
  destruct (defs (mkBp (bp_pkg ab) ident)) as [[|outer_name]|] eqn:D; [| |discriminate].
  - inversion H; subst; cbn. rewrite D. repeat split; reflexivity.
  - destruct (instance_context a) as [o|] eqn:I; [|discriminate].
    destruct (get_object_info h o) as [e|oi] eqn:G; [discriminate|].
    destruct (bp_name (oi_bp oi) =? outer_name) eqn:E; [|discriminate].
    apply N.eqb_eq in E. apply get_object_info_inr in G.
    inversion H; subst; cbn. rewrite D. repeat split; try reflexivity.
    exists o, oi. repeat split; auto.
Qed.

(* ---------------------------------------------------------------------------------------------- *)
(* state handles                                                                                   *)
(* ---------------------------------------------------------------------------------------------- *)
Theorem state_only_self_or_outer : forall h a handle n m,
  resolve_state_handle h a handle = inr (n, m) ->
  exists self sm, get_object_id a = Some (self, sm) /\
    ((handle = ACTOR_STATE_SELF /\ n = self /\ m = sm) \/
     (handle = ACTOR_STATE_OUTER_OBJECT /\ sm = None /\ m = None /\
      exists i, lookup h self = Some (TObject i) /\ oi_outer i = OSome n)).
Proof.
  intros h a handle n m H. unfold resolve_state_handle in H.
  destruct ((handle =? ACTOR_STATE_SELF) || (handle =? ACTOR_STATE_OUTER_OBJECT)) eqn:Hh;
    cbn in H; [|discriminate].
  destruct (get_object_id a) as [[self sm]|] eqn:G; [|discriminate].
  exists self, sm. split; [reflexivity|].
  destruct (handle =? ACTOR_STATE_SELF) eqn:Hs.
  - apply N.eqb_eq in Hs. inversion H; subst. left. auto.
  - cbn in Hh. apply N.eqb_eq in Hh. destruct sm as [x|]; [discriminate|].
    destruct (get_object_info h self) as [e|i] eqn:Gi; [discriminate|].
    destruct (oi_outer i) as [o|] eqn:O; [|discriminate].
    inversion H; subst. right. repeat split; auto.
    exists i. split; [apply get_object_info_inr; exact Gi|exact O].
Qed.

(* there is no third handle *)
Theorem state_handle_other_refused : forall h a handle,
  handle <> ACTOR_STATE_SELF -> handle <> ACTOR_STATE_OUTER_OBJECT ->
  resolve_state_handle h a handle = inl EInvalidActorStateHandle.
Proof.
  intros h a handle H1 H2. unfold resolve_state_handle.
  apply N.eqb_neq in H1. apply N.eqb_neq in H2. rewrite H1, H2. reflexivity.
Qed.

(* ---------------------------------------------------------------------------------------------- *)
(* histories: an inner object always lives in the package of its (global) outer object              *)
(* ---------------------------------------------------------------------------------------------- *)
Definition Inv (h : heap) : Prop :=
  forall n i o, lookup h n = Some (TObject i) -> oi_outer i = OSome o ->
    exists io, lookup h o = Some (TObject io) /\ oi_global io = true /\
               bp_pkg (oi_bp io) = bp_pkg (oi_bp i).

Lemma lookup_remove : forall h k x,
  lookup (remove h k) x = if k =? x then None else lookup h x.
Proof.
  induction h as [|[k0 v] h IH]; intros k x; cbn [remove lookup].
  - destruct (k =? x); reflexivity.
  - destruct (k0 =? k) eqn:E.
    + apply N.eqb_eq in E. subst k0. rewrite IH. destruct (k =? x); reflexivity.
    + cbn [lookup]. rewrite IH. destruct (k0 =? x) eqn:E2; [|reflexivity].
      apply N.eqb_eq in E2. subst k0. rewrite N.eqb_sym, E. reflexivity.
Qed.

Lemma oinfo_eta : forall i j, oi_bp i = oi_bp j -> oi_outer i = oi_outer j -> oi_global i = oi_global j -> i = j.
Proof. intros [a b c] [a' b' c']; cbn; intros; subst; reflexivity. Qed.

Lemma actor_consistent_method : forall h t n i,
  actor_consistent h (AMethod t n i) = true -> lookup h n = Some (TObject i).
Proof.
  intros h t n i H. cbn in H. destruct (lookup h n) as [[j| | |]|]; try discriminate.
  apply andb_true_iff in H. destruct H as [H Ho]. apply andb_true_iff in H. destruct H as [Hb Hg].
  apply bp_eqb_eq in Hb. apply Bool.eqb_prop in Hg.
  assert (oi_outer i = oi_outer j).
  { destruct (oi_outer i), (oi_outer j); try discriminate; [apply N.eqb_eq in Ho; subst|]; reflexivity. }
  f_equal. f_equal. symmetry. apply oinfo_eta; auto.
Qed.

(* the instance context of a consistent actor is a global object of the actor's package *)
Lemma instance_context_global : forall h a o,
  Inv h -> actor_consistent h a = true -> instance_context a = Some o ->
  exists io, lookup h o = Some (TObject io) /\ oi_global io = true /\
             Some (bp_pkg (oi_bp io)) = actor_pkg a.
Proof.
  intros h a o HI Hc Hi. destruct (instance_context_inv a o Hi) as (t & x & xi & -> & Ht & Hcase).
  pose proof (actor_consistent_method _ _ _ _ Hc) as Hx.
  assert (Hpkg : actor_pkg (AMethod t x xi) = Some (bp_pkg (oi_bp xi))).
  { destruct Ht; subst t; reflexivity. }
  destruct Hcase as [[Hg ->]|[Hg Ho]].
  - exists xi. rewrite Hpkg. auto.
  - destruct (HI _ _ _ Hx Ho) as (io & Hl & Hgl & Hp). exists io. rewrite Hpkg, Hp. auto.
Qed.

Lemma inv_add_nonobject : forall h k v,
  Inv h -> lookup h k = None -> (forall i, v <> TObject i) -> Inv ((k, v) :: h).
Proof.
  intros h k v HI Hk Hv n i o Hn Ho. cbn [lookup] in *.
  destruct (k =? n) eqn:E; [inversion Hn; subst; exfalso; eapply Hv; reflexivity|].
  destruct (HI _ _ _ Hn Ho) as (io & Hl & Hg & Hp). exists io.
  destruct (k =? o) eqn:E2; [apply N.eqb_eq in E2; subst; congruence|auto].
Qed.

Theorem sys_step_inv : forall defs h o, Inv h -> Inv (sys_step defs h o).
Proof.
  intros defs h o HI. destruct o as [a ident fresh|a n r|a n|b addr r]; cbn [sys_step].
  - (* new_object *)
    destruct (actor_consistent h a) eqn:Hc; cbn [negb]; [|exact HI].
    destruct (lookup h fresh) eqn:Hf; [exact HI|].
    destruct (new_object_check h defs a ident) as [e|i'] eqn:Hn; [exact HI|].
    pose proof (new_object_own_package _ _ _ _ _ Hn) as (Hpkg & _ & _ & Hdef).
    intros x j o Hx Ho. cbn [lookup] in *.
    destruct (fresh =? x) eqn:E.
    + inversion Hx; subst j. clear Hx.
      destruct (defs (oi_bp i')) as [[|outer_name]|]; [congruence| |contradiction].
      destruct Hdef as (o' & oi & Ho' & Hic & Hl & _). rewrite Ho' in Ho. inversion Ho; subst o'.
      destruct (instance_context_global _ _ _ HI Hc Hic) as (io & Hlo & Hg & Hp).
      exists io. destruct (fresh =? o) eqn:E2; [apply N.eqb_eq in E2; subst; congruence|].
      repeat split; auto. rewrite Hpkg in Hp. inversion Hp. reflexivity.
    + destruct (HI _ _ _ Hx Ho) as (io & Hl & Hg & Hp). exists io.
      destruct (fresh =? o) eqn:E2; [apply N.eqb_eq in E2; subst; congruence|auto].
  - (* globalize *)
    destruct (actor_consistent h a) eqn:Hc; cbn [negb]; [|exact HI].
    destruct (globalize_check h a n r true) eqn:Hg; try exact HI.
    destruct (lookup h r) as [[?| |addr|?]|] eqn:Hr; try exact HI.
    destruct (get_object_info h n) as [e|i] eqn:Hi; [exact HI|].
    destruct (globalize_only_own _ _ _ _ _ Hg) as (addr' & reserved & info & Hr' & Hph & Hn & Hng & _).
    rewrite Hr in Hr'. inversion Hr'; subst addr'. clear Hr'.
    apply get_object_info_inr in Hi. rewrite Hn in Hi. inversion Hi; subst info. clear Hi.
    (* a global object of the old table survives the three removals *)
    assert (Hkeep : forall o io, lookup h o = Some (TObject io) -> oi_global io = true ->
              lookup ((addr, TObject (mkOI (oi_bp i) (oi_outer i) true))
                        :: remove (remove (remove h addr) n) r) o = Some (TObject io)).
    { intros o io Hl Hgl. cbn [lookup].
      destruct (addr =? o) eqn:E1; [apply N.eqb_eq in E1; subst; congruence|].
      rewrite !lookup_remove, E1.
      destruct (r =? o) eqn:E2; [apply N.eqb_eq in E2; subst; congruence|].
      destruct (n =? o) eqn:E3; [apply N.eqb_eq in E3; subst; congruence|]. exact Hl. }
    intros x j o Hx Ho. cbn [lookup] in Hx.
    destruct (addr =? x) eqn:E.
    + inversion Hx; subst j. cbn in Ho.
      destruct (HI _ _ _ Hn Ho) as (io & Hl & Hgl & Hp). exists io.
      split; [apply Hkeep; assumption|cbn; auto].
    + rewrite !lookup_remove, E in Hx.
      destruct (r =? x); [discriminate|]. destruct (n =? x); [discriminate|].
      destruct (HI _ _ _ Hx Ho) as (io & Hl & Hgl & Hp). exists io.
      split; [apply Hkeep; assumption|auto].
  - (* drop *)
    destruct (actor_consistent h a) eqn:Hc; cbn [negb]; [|exact HI].
    destruct (drop_check h a n) eqn:Hd; try exact HI.
    destruct (get_object_info h n) as [e|i] eqn:Hi; [exact HI|].
    destruct (oi_global i) eqn:Hg; [exact HI|].
    apply get_object_info_inr in Hi.
    intros x j o Hx Ho. rewrite lookup_remove in Hx.
    destruct (n =? x) eqn:E; [discriminate|].
    destruct (HI _ _ _ Hx Ho) as (io & Hl & Hgl & Hp). exists io.
    rewrite lookup_remove. destruct (n =? o) eqn:E2; [apply N.eqb_eq in E2; subst; congruence|auto].
  - (* allocate_global_address *)
    destruct (lookup h addr) eqn:Ha; [exact HI|].
    destruct (lookup h r) eqn:Hr; [exact HI|].
    destruct (addr =? r) eqn:E; [exact HI|].
    apply inv_add_nonobject; [apply inv_add_nonobject; auto; intros; discriminate| |intros; discriminate].
    cbn [lookup]. rewrite E. exact Hr.
Qed.

Fixpoint sys_run (defs : bp -> option bptype) (h : heap) (ops : list sysop) : heap :=
  match ops with [] => h | o :: r => sys_run defs (sys_step defs h o) r end.
Theorem sys_run_inv : forall defs ops h, Inv h -> Inv (sys_run defs h ops).
Proof. induction ops as [|o r IH]; intros h HI; [exact HI|]. apply IH. apply sys_step_inv. exact HI. Qed.

(* in a table satisfying Inv, whoever is admitted to drop an object runs code of the object's
   own package *)
Theorem drop_same_package : forall h a n,
  Inv h -> actor_consistent h a = true -> drop_check h a n = Granted ->
  exists info, lookup h n = Some (TObject info) /\ actor_pkg a = Some (bp_pkg (oi_bp info)).
Proof.
  intros h a n HI Hc Hd. destruct (drop_only_own _ _ _ Hd) as (info & Hl & Hr).
  exists info. split; [exact Hl|].
  destruct Hr as [[_ Hbp]|(_ & o & Ho & _)].
  - unfold actor_pkg. rewrite Hbp. reflexivity.
  - (* inner object: the actor's instance context is o *)
    unfold drop_check in Hd. rewrite (proj2 (get_object_info_inr _ _ _) Hl) in Hd.
    destruct (is_proof (oi_bp info)).
    + destruct (opt_bp_eqb (actor_bp a) (oi_bp info)) eqn:E; [|discriminate].
      apply opt_bp_eqb_eq in E. unfold actor_pkg. rewrite E. reflexivity.
    + rewrite Ho in Hd. destruct (opt_N_eqb (instance_context a) o) eqn:E; [|discriminate].
      apply opt_N_eqb_eq in E.
      destruct (instance_context_global _ _ _ HI Hc E) as (io & Hlo & _ & Hp).
      destruct (HI _ _ _ Hl Ho) as (io' & Hlo' & _ & Hp'). rewrite Hlo in Hlo'. inversion Hlo'; subst io'.
      rewrite <- Hp, Hp'. reflexivity.
Qed.

(* key-value stores: access is decided by the node's type alone, whoever the actor is *)
Theorem kv_open_actor_irrelevant : forall h a b n, kv_open_check h a n = kv_open_check h b n.
Proof. reflexivity. Qed.
Theorem kv_open_granted_iff : forall h a n, kv_open_check h a n = Granted <-> lookup h n = Some TKVStore.
Proof.
  intros h a n. unfold kv_open_check. destruct (lookup h n) as [[i| |x|b]|]; split; intro H;
    try discriminate; try reflexivity; inversion H.
Qed.
