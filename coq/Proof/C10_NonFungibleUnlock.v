(* C10 — non-fungible lock bookkeeping: the lock table represents the multiset of ids of the live
   proofs; unlock through a live proof never panics; when all proofs are dropped every id is liquid
   again.  (Model/C10_ProofLock.v: n_lock, n_unlock, n_take_ids, n_put.) *)
From Coq Require Import List NArith Bool Lia.
Import ListNotations.
Require Import RV.Model.C10_ProofLock RV.Proof.C10_NonFungible.
Open Scope N_scope.

Definition cnt (i : N) (l : list N) : nat := count_occ N.eq_dec l i.
Definition enc (n : nat) : option N := match n with O => None | S _ => Some (N.of_nat n) end.

(* the lock table represents the count function f *)
Definition RepN (l : list (N * N)) (f : N -> nat) : Prop :=
  NoDup (nkeys l) /\ forall i, ncnt_find i l = enc (f i).

Lemma repn_in_keys : forall l f i, RepN l f -> (In i (nkeys l) <-> (f i > 0)%nat).
Proof.
  intros l f i [_ H]. specialize (H i). split.
  - intros Hin. destruct (f i); [|lia]. cbn in H. apply ncnt_find_none in H. contradiction.
  - intros Hf. destruct (in_dec N.eq_dec i (nkeys l)) as [|Hn]; [assumption|].
    apply ncnt_find_none in Hn. rewrite Hn in H. destruct (f i); [lia|discriminate].
Qed.
Lemma repn_zero_nil : forall l f, RepN l f -> (forall i, f i = O) -> l = [].
Proof.
  intros [|[k n] t] f [_ H] Hz; [reflexivity|]. specialize (H k). rewrite Hz in H. cbn in H. rewrite N.eqb_refl in H. discriminate.
Qed.

(* --- table operations --- *)
Lemma ncnt_find_incr : forall l a b,
  ncnt_find b (ncnt_incr a l) =
  if b =? a then Some (match ncnt_find a l with Some n => n + 1 | None => 1 end) else ncnt_find b l.
Proof.
  induction l as [|[k n] t IH]; intros a b; cbn [ncnt_incr ncnt_find].
  - rewrite (N.eqb_sym a b). reflexivity.
  - destruct (N.eqb_spec k a) as [->|Hka]; cbn [ncnt_find].
    + destruct (N.eqb_spec a b) as [->|Hab]; [rewrite N.eqb_refl; reflexivity|].
      destruct (N.eqb_spec b a); [congruence|reflexivity].
    + rewrite IH. destruct (N.eqb_spec k b) as [->|Hkb]; [|reflexivity].
      destruct (N.eqb_spec b a); [congruence|reflexivity].
Qed.
Lemma nkeys_incr_nodup : forall l a, NoDup (nkeys l) -> NoDup (nkeys (ncnt_incr a l)).
Proof.
  induction l as [|[k n] t IH]; intros a H; cbn [ncnt_incr nkeys map fst].
  - constructor; [easy|constructor].
  - inversion H as [|? ? Hnin Hnd]; subst.
    destruct (N.eqb_spec k a) as [->|Hka]; cbn [nkeys map fst]; fold (nkeys t) in *; fold (nkeys (ncnt_incr a t)).
    + constructor; assumption.
    + constructor; [|apply IH; assumption]. rewrite nkeys_incr_in. intros [->|Hin]; tauto.
Qed.
Definition bump (f : N -> nat) (a : N) : N -> nat := fun i => if N.eq_dec i a then S (f i) else f i.
Lemma repn_incr : forall l f a, RepN l f -> RepN (ncnt_incr a l) (bump f a).
Proof.
  intros l f a [Hnd H]. split; [apply nkeys_incr_nodup, Hnd|].
  intros b. rewrite ncnt_find_incr. unfold bump.
  destruct (N.eqb_spec b a) as [->|Hne].
  - destruct (N.eq_dec a a); [|congruence]. rewrite H. destruct (f a) as [|m]; cbn [enc]; [reflexivity|]. f_equal. lia.
  - destruct (N.eq_dec b a); [congruence|]. apply H.
Qed.
Lemma repn_ext : forall l f g, RepN l f -> (forall i, f i = g i) -> RepN l g.
Proof. intros l f g [Hnd H] E. split; [assumption|]. intros i. rewrite <- E. apply H. Qed.

Lemma repn_fold_incr : forall ids l f, RepN l f ->
  RepN (fold_left (fun m i => ncnt_incr i m) ids l) (fun i => (f i + cnt i ids)%nat).
Proof.
  induction ids as [|a t IH]; intros l f H; cbn [fold_left].
  - eapply repn_ext; [exact H|]. intros i. unfold cnt. cbn. lia.
  - eapply repn_ext; [apply IH, repn_incr, H|]. intros i. unfold bump, cnt. cbn [count_occ].
    destruct (N.eq_dec i a) as [E|Hne].
    + subst i. destruct (N.eq_dec a a); [lia|congruence].
    + destruct (N.eq_dec a i); [congruence|lia].
Qed.

Lemma ncnt_find_remove : forall l a b, NoDup (nkeys l) ->
  ncnt_find b (ncnt_remove a l) = if b =? a then None else ncnt_find b l.
Proof.
  induction l as [|[k n] t IH]; intros a b Hnd; cbn [ncnt_remove ncnt_find nkeys map fst] in *.
  - destruct (b =? a); reflexivity.
  - inversion Hnd as [|? ? Hnin Hnd']; subst. fold (nkeys t) in *.
    destruct (N.eqb_spec k a) as [->|Hka].
    + destruct (N.eqb_spec a b) as [->|Hab].
      * rewrite N.eqb_refl. apply ncnt_find_none, Hnin.
      * destruct (N.eqb_spec b a); [congruence|reflexivity].
    + cbn [ncnt_find]. rewrite IH by assumption.
      destruct (N.eqb_spec k b) as [->|Hkb]; [|reflexivity].
      destruct (N.eqb_spec b a); [congruence|reflexivity].
Qed.
Lemma nkeys_remove_in : forall l a b, NoDup (nkeys l) -> (In b (nkeys (ncnt_remove a l)) <-> b <> a /\ In b (nkeys l)).
Proof.
  intros l a b Hnd. pose proof (ncnt_find_remove l a b Hnd) as H. split.
  - intros Hin. destruct (N.eqb_spec b a) as [->|Hne].
    + apply ncnt_find_none in H. tauto.
    + split; [assumption|]. destruct (in_dec N.eq_dec b (nkeys l)) as [|Hn]; [assumption|].
      apply ncnt_find_none in Hn. rewrite Hn in H. apply ncnt_find_none in H. tauto.
  - intros [Hne Hin]. destruct (N.eqb_spec b a); [congruence|].
    destruct (in_dec N.eq_dec b (nkeys (ncnt_remove a l))) as [|Hn]; [assumption|].
    apply ncnt_find_none in Hn. rewrite Hn in H. symmetry in H. apply ncnt_find_none in H. tauto.
Qed.
Lemma nkeys_remove_nodup : forall l a, NoDup (nkeys l) -> NoDup (nkeys (ncnt_remove a l)).
Proof.
  induction l as [|[k n] t IH]; intros a H; cbn [ncnt_remove nkeys map fst]; [constructor|].
  inversion H as [|? ? Hnin Hnd]; subst. fold (nkeys t) in *.
  destruct (N.eqb_spec k a); [assumption|]. cbn [nkeys map fst]. fold (nkeys (ncnt_remove a t)).
  constructor; [|apply IH; assumption]. rewrite nkeys_remove_in by assumption. tauto.
Qed.
Lemma ncnt_find_app : forall l1 l2 b, ncnt_find b (l1 ++ l2) = match ncnt_find b l1 with Some n => Some n | None => ncnt_find b l2 end.
Proof. induction l1 as [|[k n] t IH]; intros l2 b; cbn [app ncnt_find]; [reflexivity|]. destruct (k =? b); [reflexivity|apply IH]. Qed.
Lemma nodup_snocN : forall (l : list N) a, NoDup l -> ~ In a l -> NoDup (l ++ [a]).
Proof.
  induction l as [|b t IH]; intros a Hnd Hn; cbn [app]; [constructor; [easy|constructor]|].
  inversion Hnd as [|? ? Hb Ht]; subst. constructor.
  - rewrite in_app_iff. cbn [In]. intros [H|[H|[]]]; [tauto|]. subst. apply Hn. now left.
  - apply IH; [assumption|]. intros H. apply Hn. now right.
Qed.

Definition drop1 (f : N -> nat) (a : N) : N -> nat := fun i => if N.eq_dec i a then pred (f i) else f i.
(* one decrement as performed inside the unlock loop *)
Lemma repn_decr : forall l f a c, RepN l f -> ncnt_find a l = Some c ->
  RepN (if 1 <? c then ncnt_remove a l ++ [(a, c - 1)] else ncnt_remove a l) (drop1 f a)
  /\ c = N.of_nat (f a) /\ (f a > 0)%nat.
Proof.
  intros l f a c [Hnd H] Hf. pose proof (H a) as Ha. rewrite Hf in Ha.
  destruct (f a) as [|m] eqn:Efa; cbn [enc] in Ha; [discriminate|].
  assert (Hc : c = N.of_nat (S m)) by congruence. clear Ha.
  split; [|split; [exact Hc|lia]]. split.
  - destruct (N.ltb_spec 1 c) as [Hlt|Hle]; [|apply nkeys_remove_nodup, Hnd].
    unfold nkeys. rewrite map_app. cbn [map fst]. fold (nkeys (ncnt_remove a l)).
    apply nodup_snocN; [apply nkeys_remove_nodup, Hnd|]. rewrite nkeys_remove_in by assumption. tauto.
  - intros b. unfold drop1. destruct (N.ltb_spec 1 c) as [Hlt|Hle].
    + rewrite ncnt_find_app, ncnt_find_remove by assumption. cbn [ncnt_find].
      destruct (N.eqb_spec b a) as [->|Hne].
      * rewrite N.eqb_refl. destruct (N.eq_dec a a); [|congruence]. rewrite Efa. cbn [pred].
        destruct m as [|m']; [lia|]. cbn [enc]. f_equal. lia.
      * destruct (N.eq_dec b a); [congruence|]. rewrite H.
        destruct (enc (f b)); [reflexivity|]. destruct (N.eqb_spec a b); [congruence|reflexivity].
    + rewrite ncnt_find_remove by assumption.
      destruct (N.eqb_spec b a) as [->|Hne].
      * destruct (N.eq_dec a a); [|congruence]. rewrite Efa. cbn [pred]. destruct m; [reflexivity|lia].
      * destruct (N.eq_dec b a); [congruence|]. apply H.
Qed.

(* --- the unlock loop --- *)
(* if the table holds at least as many locks of every id as `ids` releases, the loop succeeds; the
   table then represents f minus the released ids, and `freed` gains exactly the ids whose count
   reached zero *)
Lemma unlock_loop_spec : forall ids l freed f, RepN l f -> (forall i, (cnt i ids <= f i)%nat) ->
  exists l' freed', n_unlock_loop ids l freed = Some (l', freed') /\
    RepN l' (fun i => (f i - cnt i ids)%nat) /\
    (forall y, In y freed' <-> In y freed \/ (In y ids /\ f y = cnt y ids)) /\
    (NoDup freed -> NoDup freed').
Proof.
  induction ids as [|a t IH]; intros l freed f HR Hle; cbn [n_unlock_loop].
  - exists l, freed. split; [reflexivity|]. split; [eapply repn_ext; [exact HR|intros i; unfold cnt; cbn; lia]|].
    split; [intros y; cbn [In]; tauto|auto].
  - assert (Hfa : (f a > 0)%nat) by (specialize (Hle a); unfold cnt in Hle; cbn [count_occ] in Hle; destruct (N.eq_dec a a); [lia|congruence]).
    destruct HR as [Hnd HRf]. pose proof (HRf a) as Ha. destruct (f a) as [|m] eqn:Efa; [lia|]. cbn [enc] in Ha. rewrite Ha.
    destruct (repn_decr l f a _ (conj Hnd HRf) Ha) as (HR1 & _ & _).
    set (l1 := if 1 <? N.of_nat (S m) then ncnt_remove a l ++ [(a, N.of_nat (S m) - 1)] else ncnt_remove a l) in *.
    assert (Hle1 : forall i, (cnt i t <= drop1 f a i)%nat).
    { intros i. specialize (Hle i). unfold cnt, drop1 in *. cbn [count_occ] in Hle.
      destruct (N.eq_dec i a) as [->|Hne]; destruct (N.eq_dec a a); try congruence; [lia|].
      destruct (N.eq_dec a i); [congruence|lia]. }
    assert (Hfin : forall i, (drop1 f a i - cnt i t = f i - cnt i (a :: t))%nat).
    { intros i. unfold cnt, drop1. cbn [count_occ]. destruct (N.eq_dec i a) as [->|Hne].
      - destruct (N.eq_dec a a); [|congruence]. lia.
      - destruct (N.eq_dec a i); [congruence|lia]. }
    destruct (N.ltb_spec 1 (N.of_nat (S m))) as [Hlt|Hge].
    + (* count stays positive: nothing freed *)
      destruct (IH l1 freed _ HR1 Hle1) as (l' & freed' & Hrun & HR' & Hfr & Hndf).
      exists l', freed'. split; [exact Hrun|]. split; [eapply repn_ext; [exact HR'|exact Hfin]|]. split; [|exact Hndf].
      intros y. rewrite Hfr. cbn [In]. unfold drop1, cnt. cbn [count_occ]. split.
      * intros [H|[Hy He]]; [now left|]. right. split; [now right|].
        destruct (N.eq_dec y a) as [->|Hne]; [destruct (N.eq_dec a a); [|congruence]; rewrite Efa in He; cbn [pred] in He; rewrite Efa; lia|].
        destruct (N.eq_dec a y); [congruence|exact He].
      * intros [H|[[<-|Hy] He]]; [now left| |].
        -- destruct (N.eq_dec a a); [|congruence]. rewrite Efa in He.
           (* f a = S m with m >= 1 and equals 1 + count in t *)
           right. split.
           ++ destruct (in_dec N.eq_dec a t) as [|Hn]; [assumption|]. apply (count_occ_not_In N.eq_dec) in Hn. lia.
           ++ destruct (N.eq_dec a a); [|congruence]. rewrite Efa. cbn [pred]. lia.
        -- right. split; [assumption|]. destruct (N.eq_dec y a) as [->|Hne].
           ++ destruct (N.eq_dec a a); [|congruence]. rewrite Efa in *. cbn [pred]. lia.
           ++ destruct (N.eq_dec a y); [congruence|exact He].
    + (* last lock of a released: a becomes free *)
      assert (Hm : m = O) by lia. subst m.
      set (freed1 := if mem a freed then freed else freed ++ [a]).
      destruct (IH l1 freed1 _ HR1 Hle1) as (l' & freed' & Hrun & HR' & Hfr & Hndf).
      exists l', freed'. split; [exact Hrun|]. split; [eapply repn_ext; [exact HR'|exact Hfin]|].
      assert (Hin1 : forall y, In y freed1 <-> In y freed \/ y = a).
      { intros y. unfold freed1. destruct (mem a freed) eqn:Em.
        - apply mem_iff in Em. split; [tauto|]. intros [H| ->]; assumption.
        - rewrite in_app_iff. cbn [In]. intuition. }
      assert (Hat : ~ In a t).
      { intros Hin. apply (count_occ_In N.eq_dec) in Hin. specialize (Hle a). unfold cnt in Hle. cbn [count_occ] in Hle.
        destruct (N.eq_dec a a); [|congruence]. rewrite Efa in Hle. lia. }
      split.
      * intros y. rewrite Hfr, Hin1. cbn [In]. unfold drop1, cnt. cbn [count_occ]. split.
        -- intros [[H| ->]|[Hy He]]; [now left| |].
           ++ right. split; [now left|]. destruct (N.eq_dec a a); [|congruence]. apply (count_occ_not_In N.eq_dec) in Hat. rewrite Efa. lia.
           ++ right. split; [now right|]. destruct (N.eq_dec y a) as [->|Hne]; [contradiction|]. destruct (N.eq_dec a y); [congruence|exact He].
        -- intros [H|[[<-|Hy] He]]; [left; now left|left; now right|].
           right. split; [assumption|]. destruct (N.eq_dec y a) as [->|Hne]; [contradiction|]. destruct (N.eq_dec a y); [congruence|exact He].
      * intros Hndfr. apply Hndf. unfold freed1. destruct (mem a freed) eqn:Em; [assumption|].
        apply nodup_snocN; [assumption|]. apply mem_false, Em.
Qed.

(* liq_extend *)
Lemma liq_extend_in : forall ids l y, In y (liq_extend l ids) <-> In y l \/ In y ids.
Proof.
  induction ids as [|i t IH]; intros l y; cbn [liq_extend In]; [tauto|].
  rewrite IH. destruct (mem i l) eqn:Em.
  - apply mem_iff in Em. split; [tauto|]. intros [H|[<-|H]]; tauto.
  - rewrite in_app_iff. cbn [In]. tauto.
Qed.
Lemma liq_extend_nodup : forall ids l, NoDup l -> NoDup (liq_extend l ids).
Proof.
  induction ids as [|i t IH]; intros l H; cbn [liq_extend]; [assumption|].
  apply IH. destruct (mem i l) eqn:Em; [assumption|]. apply nodup_snocN; [assumption|apply mem_false, Em].
Qed.

(* ---------------------------------------------------------------------------------------- *)
(* container invariant with the ghost list of live proofs                                     *)
(* ---------------------------------------------------------------------------------------- *)
Definition flat (ps : list (list N)) : list N := concat ps.
Definition NGood (c : ncont) (ps : list (list N)) : Prop :=
  NWf c /\ RepN (nlocked c) (fun i => cnt i (flat ps)).

Fixpoint remove_proof (ids : list N) (ps : list (list N)) : list (list N) :=
  match ps with [] => [] | p :: t => if list_eq_dec N.eq_dec p ids then t else p :: remove_proof ids t end.

Lemma cnt_app : forall i a b, cnt i (a ++ b) = (cnt i a + cnt i b)%nat.
Proof. intros. unfold cnt. apply count_occ_app. Qed.
Lemma cnt_remove_proof : forall ps ids i, In ids ps ->
  (cnt i (flat (remove_proof ids ps)) = cnt i (flat ps) - cnt i ids)%nat /\ (cnt i ids <= cnt i (flat ps))%nat.
Proof.
  unfold flat. induction ps as [|p t IH]; intros ids i Hin; [destruct Hin|]. cbn [remove_proof].
  destruct (list_eq_dec N.eq_dec p ids) as [->|Hne].
  - cbn [concat]. rewrite cnt_app. lia.
  - destruct Hin as [->|Hin]; [congruence|]. cbn [concat].
    rewrite !cnt_app. destruct (IH ids i Hin). lia.
Qed.

Lemma ngood_lock : forall ids c c' ps, NGood c ps -> n_lock ids c = Ok c' -> NGood c' (ids :: ps).
Proof.
  intros ids c c' ps [Hwf HR] H. destruct (n_lock_spec _ _ _ Hwf H) as (Hwf' & _). split; [exact Hwf'|].
  unfold n_lock in H. destruct (liq_take_ids _ (nliq c)) as [l| |]; try discriminate. cbn [bind] in H. injection H as <-.
  cbn [nlocked]. eapply repn_ext; [apply repn_fold_incr, HR|]. intros i. unfold flat. cbn [concat]. rewrite cnt_app. lia.
Qed.

(* unlock through a live proof: succeeds (no panic), keeps the set of ids held, and represents the
   remaining proofs *)
Lemma ngood_unlock : forall ids c ps, NGood c ps -> In ids ps ->
  exists c', n_unlock ids c = Ok c' /\ NGood c' (remove_proof ids ps) /\ (forall y, holds c' y <-> holds c y).
Proof.
  intros ids c ps [[Hnd Hdis] HR] Hin. unfold n_unlock.
  assert (Hle : forall i, (cnt i ids <= cnt i (flat ps))%nat) by (intros i; apply (cnt_remove_proof ps ids i Hin)).
  destruct (unlock_loop_spec ids (nlocked c) [] _ HR Hle) as (l' & freed' & Hrun & HR' & Hfr & Hndf).
  rewrite Hrun. eexists. split; [reflexivity|].
  assert (Hkeys' : forall y, In y (nkeys l') <-> (cnt y (flat ps) - cnt y ids > 0)%nat) by (intros y; apply (repn_in_keys _ _ y HR')).
  assert (Hkeys : forall y, In y (nkeys (nlocked c)) <-> (cnt y (flat ps) > 0)%nat) by (intros y; apply (repn_in_keys _ _ y HR)).
  assert (Hfreed : forall y, In y freed' <-> In y ids /\ cnt y (flat ps) = cnt y ids).
  { intros y. rewrite Hfr. cbn [In]. tauto. }
  assert (Hidspos : forall y, In y ids -> (cnt y ids > 0)%nat) by (intros y Hy; apply (count_occ_In N.eq_dec), Hy).
  split; [split; [split|]|].
  - cbn [nliq]. apply liq_extend_nodup, Hnd.
  - cbn [nliq nlocked]. intros y Hy. apply liq_extend_in in Hy. rewrite Hkeys'. destruct Hy as [Hy|Hy].
    + pose proof (Hdis _ Hy) as Hn. rewrite Hkeys in Hn. lia.
    + apply Hfreed in Hy. lia.
  - cbn [nlocked]. eapply repn_ext; [exact HR'|]. intros i. symmetry. apply (cnt_remove_proof ps ids i Hin).
  - intros y. unfold holds. cbn [nliq nlocked]. rewrite liq_extend_in, Hkeys', Hkeys, Hfreed. split.
    + intros [[H|[Hy He]]|H]; [now left| |right; lia]. right. specialize (Hidspos _ Hy). lia.
    + intros [H|H]; [left; now left|].
      destruct (PeanoNat.Nat.eq_dec (cnt y (flat ps)) (cnt y ids)) as [He|Hne]; [|right; specialize (Hle y); lia].
      left. right. split; [|exact He]. apply (count_occ_In N.eq_dec). unfold cnt in *. lia.
Qed.

Lemma ngood_take : forall ids c c' out ps, NGood c ps -> n_take_ids ids c = Ok (c', out) -> NGood c' ps.
Proof.
  intros ids c c' out ps [Hwf HR] H. destruct (n_take_wf _ _ _ _ Hwf H) as (Hwf' & _ & Hl & _). split; [exact Hwf'|]. rewrite Hl. exact HR.
Qed.
(* deposit of ids the container does not hold yet (ids are unique ledger-wide) *)
Lemma ngood_put : forall ids c ps, NGood c ps -> (forall y, In y ids -> ~ holds c y) -> NGood (n_put ids c) ps.
Proof.
  intros ids c ps [[Hnd Hdis] HR] Hnew. split; [split|exact HR]; cbn [n_put nliq nlocked].
  - apply liq_extend_nodup, Hnd.
  - intros y Hy. apply liq_extend_in in Hy. destruct Hy as [Hy|Hy]; [apply Hdis, Hy|]. intros Hk. apply (Hnew _ Hy). now right.
Qed.

(* ---------------------------------------------------------------------------------------- *)
(* histories                                                                                   *)
(* ---------------------------------------------------------------------------------------- *)
Inductive nhop := NLock (ids : list N) | NDrop (ids : list N) | NTake (ids : list N) | NPut (ids : list N).

Definition fresh_for (c : ncont) (ids : list N) : bool :=
  forallb (fun y => negb (mem y (nliq c)) && negb (mem y (nkeys (nlocked c)))) ids.

(* one step of the real container code with the ghost list of live proofs (their id lists);
   None = not a run through proofs (the operation failed, a drop of a proof that is not alive, or a
   deposit of ids the container already holds) *)
Definition nhstep (cp : ncont * list (list N)) (o : nhop) : option (ncont * list (list N)) :=
  let (c, ps) := cp in
  match o with
  | NLock ids => match n_create_proof ids c with Ok c' => Some (c', ids :: ps) | _ => None end
  | NDrop ids => if in_dec (list_eq_dec N.eq_dec) ids ps
                 then match n_unlock ids c with Ok c' => Some (c', remove_proof ids ps) | _ => None end
                 else None
  | NTake ids => match n_take_ids ids c with Ok (c', _) => Some (c', ps) | _ => None end
  | NPut ids => if fresh_for c ids then Some (n_put ids c, ps) else None
  end.
Fixpoint nhrun (cp : ncont * list (list N)) (ops : list nhop) : option (ncont * list (list N)) :=
  match ops with
  | [] => Some cp
  | o :: t => match nhstep cp o with Some cp' => nhrun cp' t | None => None end
  end.

Lemma fresh_for_spec : forall c ids, fresh_for c ids = true -> forall y, In y ids -> ~ holds c y.
Proof.
  intros c ids H y Hy. unfold fresh_for in H. rewrite forallb_forall in H. specialize (H _ Hy).
  apply andb_prop in H. destruct H as [H1 H2]. apply negb_true_iff in H1, H2. apply mem_false in H1, H2.
  intros [Hh|Hh]; contradiction.
Qed.

Lemma nhstep_good : forall c ps o c' ps', NGood c ps -> nhstep (c, ps) o = Some (c', ps') -> NGood c' ps'.
Proof.
  intros c ps o c' ps' HG H. destruct o as [ids|ids|ids|ids]; cbn [nhstep] in H.
  - unfold n_create_proof in H. destruct (n_lock ids c) as [c1| |] eqn:E; try discriminate. cbn [bind] in H.
    destruct ids; [discriminate|]. injection H as <- <-. eapply ngood_lock; eassumption.
  - destruct (in_dec (list_eq_dec N.eq_dec) ids ps) as [Hin|]; [|discriminate].
    destruct (ngood_unlock _ _ _ HG Hin) as (c1 & E & Hg & _). rewrite E in H. injection H as <- <-. exact Hg.
  - destruct (n_take_ids ids c) as [[c1 out]| |] eqn:E; try discriminate. injection H as <- <-. eapply ngood_take; eassumption.
  - destruct (fresh_for c ids) eqn:E; [|discriminate]. injection H as <- <-. apply ngood_put; [assumption|apply fresh_for_spec, E].
Qed.
Lemma nhrun_good : forall ops c ps c' ps', NGood c ps -> nhrun (c, ps) ops = Some (c', ps') -> NGood c' ps'.
Proof.
  induction ops as [|o t IH]; intros c ps c' ps' HG H; cbn [nhrun] in H.
  - injection H as <- <-. assumption.
  - destruct (nhstep (c, ps) o) as [[c1 ps1]|] eqn:E; [|discriminate]. eapply IH; [eapply nhstep_good; eassumption|exact H].
Qed.

Lemma ngood_new : forall ids, NGood (n_new ids) [].
Proof.
  intros ids. split; [split|split]; cbn [n_new nliq nlocked nkeys map flat concat].
  - apply liq_extend_nodup. constructor.
  - intros y _ [].
  - constructor.
  - intros i. reflexivity.
Qed.

(* dropping a live proof never panics, in any state reached through proofs *)
Theorem nf_no_panic : forall ids0 ops c ps ids, nhrun (n_new ids0, []) ops = Some (c, ps) -> In ids ps ->
  exists c', n_unlock ids c = Ok c'.
Proof.
  intros ids0 ops c ps ids H Hin. destruct (ngood_unlock _ _ _ (nhrun_good _ _ _ _ _ (ngood_new ids0) H) Hin) as (c' & E & _). eauto.
Qed.
(* when all proofs are dropped the lock table is empty: every id the container holds is liquid
   (hence withdrawable: C10_nf_withdraw_iff) *)
Theorem nf_all_dropped_restores : forall ids0 ops c, nhrun (n_new ids0, []) ops = Some (c, []) ->
  nlocked c = [] /\ forall y, holds c y <-> In y (nliq c).
Proof.
  intros ids0 ops c H. destruct (nhrun_good _ _ _ _ _ (ngood_new ids0) H) as [_ HR].
  assert (E : nlocked c = []) by (eapply repn_zero_nil; [exact HR|intros i; reflexivity]).
  split; [exact E|]. intros y. unfold holds. rewrite E. cbn. tauto.
Qed.
(* in every reachable state: an id is in the lock table iff some live proof proves it; such ids are
   not liquid and cannot be withdrawn *)
Theorem nf_locked_iff_proven : forall ids0 ops c ps y, nhrun (n_new ids0, []) ops = Some (c, ps) ->
  (In y (nkeys (nlocked c)) <-> exists p, In p ps /\ In y p) /\ NWf c.
Proof.
  intros ids0 ops c ps y H. destruct (nhrun_good _ _ _ _ _ (ngood_new ids0) H) as [Hwf HR]. split; [|exact Hwf].
  rewrite (repn_in_keys _ _ y HR). unfold cnt, flat. rewrite <- (count_occ_In N.eq_dec). rewrite in_concat. firstorder.
Qed.
(* proofs, clones and drops never change the set of ids held *)
Theorem nf_lock_unlock_keep_ids : forall c ps ids,  NGood c ps ->
  (forall c', n_lock ids c = Ok c' -> forall y, holds c' y <-> holds c y) /\
  (In ids ps -> exists c', n_unlock ids c = Ok c' /\ forall y, holds c' y <-> holds c y).
Proof.
  intros c ps ids HG. split.
  - intros c' H. destruct HG as [Hwf _]. apply (n_lock_spec _ _ _ Hwf H).
  - intros Hin. destruct (ngood_unlock _ _ _ HG Hin) as (c' & E & _ & Hh). eauto.
Qed.
