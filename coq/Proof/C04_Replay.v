(* C04 — event replay, supply side: what an observer computes from the Mint / Burn events of a whole
   history (model function [replay]) equals the sum of all vaults, for every resource, tracked or not. *)
From Coq Require Import List ZArith NArith Bool Lia.
Import ListNotations.
Require Import RV.Model.C03_Ledger RV.Proof.C03_Ledger RV.Proof.C03_NF RV.Proof.C04_Inv.
Open Scope Z_scope.

Lemma zget_aset_same : forall l k v, zget k (aset k v l) = v.
Proof. intros. unfold zget. rewrite aget_aset_same. reflexivity. Qed.
Lemma zget_aset_other : forall l k k' v, N.eqb k k' = false -> zget k (aset k' v l) = zget k l.
Proof. intros. unfold zget. rewrite aget_aset_other by assumption. reflexivity. Qed.

Lemma replay1_supply : forall st e r,
  zget r (rp_supply (replay1 st e)) = zget r (rp_supply st) + minted r [e] - burned r [e].
Proof.
  intros st e r. destruct e; cbn [replay1 minted burned rp_supply rp_add_s rp_add_v rp_set_ids]; try lia;
  (destruct (N.eqb r r0) eqn:E; [apply N.eqb_eq in E; subst; rewrite zget_aset_same; lia|rewrite zget_aset_other by assumption; lia]).
Qed.

Lemma replay_supply : forall evs st r,
  zget r (rp_supply (replay st evs)) = zget r (rp_supply st) + minted r evs - burned r evs.
Proof.
  unfold replay. induction evs as [|e t IH]; intros st r; cbn [fold_left].
  - cbn. lia.
  - rewrite IH, replay1_supply. change (e :: t) with ([e] ++ t). rewrite minted_app, burned_app. lia.
Qed.

(* totals along op lists and histories *)
Lemma run_total_full : forall ops s s' evs r,
  Inv s -> run s ops = Ok (s', evs) -> Forall op_ok ops ->
  total r s' = total r s + minted r evs - burned r evs.
Proof.
  induction ops as [|o t IH]; intros s s' evs r I H OK; cbn in H.
  - inversion H; subst. cbn. lia.
  - unfold bind in H. destruct (step s o) as [[s1 e1]| |] eqn:S1; try discriminate.
    destruct (run s1 t) as [[s2 e2]| |] eqn:S2; try discriminate. inversion H; subst; clear H.
    inversion OK; subst. rewrite (IH _ _ _ r (step_Inv _ _ _ _ I S1 H1) S2 H2).
    rewrite (step_total_full _ _ _ _ r (inv_nf _ I) S1 H1), minted_app, burned_app. lia.
Qed.

(* a history together with the events it emits *)
Fixpoint run_history_ev (s : state) (txs : list (list op)) : option (state * list event) :=
  match txs with
  | [] => Some (s, [])
  | ops :: t => match run s ops with
                | Ok (s1, e1) => match run_history_ev s1 t with Some (s2, e2) => Some (s2, e1 ++ e2) | None => None end
                | _ => None
                end
  end.

Theorem history_event_replay_supply : forall txs s s' evs st,
  Inv s -> Forall (Forall op_ok) txs -> run_history_ev s txs = Some (s', evs) ->
  (forall r, zget r (rp_supply st) = total r s) ->
  forall r, zget r (rp_supply (replay st evs)) = total r s'.
Proof.
  induction txs as [|ops t IH]; intros s s' evs st I OK H A r; cbn in H.
  - inversion H; subst. cbn. apply A.
  - destruct (run s ops) as [[s1 e1]| |] eqn:R1; try discriminate.
    destruct (run_history_ev s1 t) as [[s2 e2]|] eqn:R2; [|discriminate]. inversion H; subst; clear H.
    inversion OK; subst.
    assert (Q : replay st (e1 ++ e2) = replay (replay st e1) e2) by (unfold replay; apply fold_left_app).
    rewrite Q. eapply IH; [eapply run_Inv; eauto|assumption|exact R2|].
    intros r'. rewrite replay_supply, A. symmetry. eapply run_total_full; eauto.
Qed.

(* from genesis: replaying the events of the whole history gives, per resource, exactly the sum of
   all vaults at the final transaction boundary *)
Corollary genesis_event_replay_supply : forall txs s' evs,
  Forall (Forall op_ok) txs -> run_history_ev genesis txs = Some (s', evs) -> at_rest s' = true ->
  forall r, zget r (rp_supply (replay rp_empty evs)) = vault_sum r s'.
Proof.
  intros txs s' evs OK H R r. rewrite <- (at_rest_total_full r s' R).
  eapply history_event_replay_supply; [exact Inv_genesis|exact OK|exact H|].
  intros r'. unfold total, genesis, cnt. cbn. destruct (N.eqb r' XRD); reflexivity.
Qed.
