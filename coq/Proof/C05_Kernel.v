From Coq Require Import List NArith Bool Lia.
Import ListNotations.
Require Import RV.Model.C05_Kernel.
Open Scope N_scope.

(* well-formed store: keys unique, every owner is an OLDER stored node (hence no cycles, no
   self-ownership), roots have no owner *)
Fixpoint wf_store (s : list (N * option N)) : Prop :=
  match s with
  | [] => True
  | (n, p) :: t => wf_store t /\ stored n t = false /\ match p with None => True | Some q => stored q t = true end
  end.
Definition wf (s : kst) : Prop :=
  wf_store (k_store s) /\ NoDup (k_heap s) /\ (forall n, memn n (k_heap s) = true -> stored n (k_store s) = false).

Lemma memn_In : forall x l, memn x l = true <-> In x l.
Proof.
  induction l as [|y t IH]; cbn; [split; [discriminate|contradiction]|].
  rewrite orb_true_iff, IH, N.eqb_eq. split; intros [H|H]; auto.
Qed.
Lemma remn_In : forall x y l, In y (remn x l) -> In y l.
Proof.
  induction l as [|z t IH]; cbn; [auto|]. destruct (N.eqb x z); cbn; intros H; auto. destruct H; auto.
Qed.
Lemma remn_NoDup : forall x l, NoDup l -> NoDup (remn x l) /\ ~ In x (remn x l).
Proof.
  induction l as [|z t IH]; cbn; intros H; [split; [constructor|auto]|].
  inversion H; subst. destruct (N.eqb x z) eqn:E.
  - apply N.eqb_eq in E; subst. auto.
  - destruct (IH H3) as [A B]. split.
    + constructor; [|exact A]. intro Q. apply remn_In in Q. auto.
    + cbn. intros [Q|Q]; [subst; rewrite N.eqb_refl in E; discriminate|auto].
Qed.

Lemma kstep_wf : forall s o s', wf s -> kstep s o = KOk s' -> wf s'.
Proof.
  intros s o s' [W [ND DJ]] H. destruct o; cbn in H.
  - destruct (memn n (k_heap s) || stored n (k_store s)) eqn:E; [discriminate|].
    apply orb_false_iff in E. destruct E as [E1 E2]. inversion H; subst; clear H. repeat split; cbn.
    + exact W.
    + constructor; [|exact ND]. intro Q. apply memn_In in Q. congruence.
    + intros m Hm. apply orb_true_iff in Hm. destruct Hm as [Hm|Hm]; [apply N.eqb_eq in Hm; subst; exact E2|auto].
  - destruct (memn n (k_heap s)) eqn:E; [|discriminate]. inversion H; subst; clear H.
    destruct (remn_NoDup n _ ND) as [A B]. repeat split; cbn; auto.
    intros m Hm. apply memn_In in Hm. destruct (N.eqb m n) eqn:Q.
    + apply N.eqb_eq in Q; subst. contradiction.
    + cbn. apply DJ. apply memn_In. eapply remn_In; eauto.
  - destruct (memn n (k_heap s)) eqn:E; cbn in H; [|discriminate].
    destruct (stored p (k_store s)) eqn:P; cbn in H; [|discriminate]. inversion H; subst; clear H.
    destruct (remn_NoDup n _ ND) as [A B]. repeat split; cbn; auto.
    intros m Hm. apply memn_In in Hm. destruct (N.eqb m n) eqn:Q.
    + apply N.eqb_eq in Q; subst. contradiction.
    + cbn. apply DJ. apply memn_In. eapply remn_In; eauto.
  - destruct (memn n (k_heap s)) eqn:E; [|discriminate]. inversion H; subst; clear H.
    destruct (remn_NoDup n _ ND) as [A B]. repeat split; cbn; auto.
    intros m Hm. apply DJ. apply memn_In. apply memn_In in Hm. eapply remn_In; eauto.
Qed.

Lemma krun_wf : forall ops s, wf s -> wf (krun s ops).
Proof.
  induction ops as [|o t IH]; intros s W; cbn; [exact W|].
  destruct (kstep s o) eqn:E; [apply IH; eapply kstep_wf; eauto|apply IH; exact W].
Qed.
Lemma wf_empty : wf k_empty.
Proof. split; [exact I|]. split; [constructor|]. cbn. discriminate. Qed.

(* consequences of wf_store *)
Lemma owners_unique : forall s x, wf_store s -> stored x s = true -> exists p, owners_of x s = [p].
Proof.
  induction s as [|[y p] t IH]; cbn; intros x W H; [discriminate|].
  destruct W as [Wt [F P]]. destruct (N.eqb x y) eqn:E.
  - apply N.eqb_eq in E; subst. exists p. cbn. f_equal.
    clear - F. induction t as [|[z q] t IH]; cbn in *; [reflexivity|].
    apply orb_false_iff in F. destruct F as [F1 F2]. rewrite F1. cbn. auto.
  - cbn in H. cbn. apply IH; assumption.
Qed.
Lemma stored_root : forall s x, wf_store s -> stored x s = true ->
  exists g, root_of x s = Some g /\ In (g, None) s.
Proof.
  induction s as [|[y p] t IH]; cbn; intros x W H; [discriminate|].
  destruct W as [Wt [F P]]. destruct (N.eqb x y) eqn:E.
  - destruct p as [q|].
    + destruct (IH q Wt P) as [g [R I]]. exists g. auto.
    + exists y. auto.
  - cbn in H. destruct (IH x Wt H) as [g [R I]]. exists g. auto.
Qed.
Lemma no_self_owner : forall s x, wf_store s -> In (x, Some x) s -> False.
Proof.
  induction s as [|[y p] t IH]; cbn; intros x W H; [auto|].
  destruct W as [Wt [F P]]. destruct H as [H|H]; [|eauto].
  inversion H; subst. congruence.
Qed.
