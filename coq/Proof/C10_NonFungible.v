(* C10 — proofs about the non-fungible container model (Model/C10_ProofLock.v): ids under a live
   proof are not liquid, locking never changes the set of ids held, and a take succeeds exactly
   when every requested id is liquid. *)
From Coq Require Import List NArith Bool Lia.
Import ListNotations.
Require Import RV.Model.C10_ProofLock.
Open Scope N_scope.

Lemma mem_iff : forall x l, mem x l = true <-> In x l.
Proof.
  induction l as [|y t IH]; cbn [mem In]; [split; [discriminate|tauto]|].
  rewrite orb_true_iff, IH, N.eqb_eq. tauto.
Qed.
Lemma mem_false : forall x l, mem x l = false <-> ~ In x l.
Proof. intros x l. rewrite <- mem_iff. destruct (mem x l); split; congruence. Qed.

(* replace_first *)
Lemma replace_first_in : forall x y l z, NoDup l ->
  (In z (replace_first x y l) <-> (In z l /\ z <> x) \/ (z = y /\ In x l)).
Proof.
  induction l as [|a t IH]; intros z Hnd; cbn [replace_first In]; [tauto|].
  inversion Hnd as [|? ? Ha Ht]; subst.
  destruct (N.eqb_spec a x) as [->|Hne]; cbn [In].
  - split.
    + intros [<-|H]; [right; auto|]. left. split; [auto|]. intros ->. contradiction.
    + intros [[[<-|H] Hz]|[-> _]]; [congruence|now right|now left].
  - rewrite (IH z Ht). split.
    + intros [<-|[[H Hz]|[-> H]]]; [left; split; [now left|congruence]|left; split; [now right|assumption]|right; auto].
    + intros [[[<-|H] Hz]|[-> [<-|H]]]; [now left|right; left; auto|congruence|right; right; auto].
Qed.
Lemma replace_first_nodup : forall x y l, NoDup l -> ~ In y l -> NoDup (replace_first x y l).
Proof.
  induction l as [|a t IH]; intros Hnd Hy; cbn [replace_first]; [constructor|].
  inversion Hnd as [|? ? Ha Ht]; subst. cbn [In] in Hy.
  destruct (N.eqb_spec a x) as [->|Hne].
  - constructor; [tauto|assumption].
  - constructor; [|apply IH; tauto]. rewrite replace_first_in by assumption. intros [[H _]|[-> _]]; tauto.
Qed.

Lemma swap_remove_spec : forall x l l', NoDup l -> swap_remove x l = Some l' ->
  In x l /\ NoDup l' /\ forall y, In y l' <-> In y l /\ y <> x.
Proof.
  intros x l l' Hnd H. unfold swap_remove in H. destruct (mem x l) eqn:Em; [|discriminate].
  apply mem_iff in Em. split; [exact Em|].
  destruct (rev l) as [|last rinit] eqn:Er; [discriminate|].
  assert (El : l = rev rinit ++ [last]) by (rewrite <- (rev_involutive l), Er; reflexivity).
  assert (Hnd' : NoDup (rev rinit ++ [last])) by (rewrite <- El; exact Hnd).
  apply NoDup_remove in Hnd'. rewrite app_nil_r in Hnd'. destruct Hnd' as [Hni Hnl].
  destruct (N.eqb_spec last x) as [->|Hne]; injection H as <-.
  - split; [exact Hni|]. intros y. rewrite El, in_app_iff. cbn [In]. split.
    + intros Hy. split; [now left|]. intros ->. contradiction.
    + intros [[Hy|[<-|[]]] Hyx]; [assumption|congruence].
  - assert (Hx : In x (rev rinit)).
    { rewrite El in Em. apply in_app_or in Em. destruct Em as [|[<-|[]]]; [assumption|congruence]. }
    split; [apply replace_first_nodup; assumption|].
    intros y. rewrite replace_first_in by assumption. rewrite El, in_app_iff. cbn [In]. split.
    + intros [[Hy Hyx]|[-> _]]; [split; [now left|assumption]|split; [right; now left|congruence]].
    + intros [[Hy|[<-|[]]] Hyx]; [left; auto|right; auto].
Qed.
Lemma swap_remove_none : forall x l, swap_remove x l = None <-> ~ In x l.
Proof.
  intros x l. unfold swap_remove. destruct (mem x l) eqn:Em.
  - apply mem_iff in Em. destruct (rev l) as [|a t] eqn:Er.
    + apply (f_equal (@rev N)) in Er. rewrite rev_involutive in Er. subst. destruct Em.
    + destruct (a =? x); split; try discriminate; tauto.
  - apply mem_false in Em. tauto.
Qed.

(* take_by_ids *)
Lemma liq_take_ids_spec : forall ids l l', NoDup l -> liq_take_ids ids l = Ok l' ->
  NoDup ids /\ (forall y, In y ids -> In y l) /\ NoDup l' /\ (forall y, In y l' <-> In y l /\ ~ In y ids).
Proof.
  induction ids as [|i t IH]; intros l l' Hnd H; cbn [liq_take_ids] in H.
  - injection H as <-. split; [constructor|]. split; [intros y []|]. split; [assumption|]. intros y. cbn [In]. tauto.
  - destruct (swap_remove i l) as [l1|] eqn:Es; [|discriminate].
    destruct (swap_remove_spec _ _ _ Hnd Es) as (Hi & Hnd1 & Hin1).
    destruct (IH _ _ Hnd1 H) as (Hndt & Hsub & Hnd' & Hin').
    split; [|split; [|split; [assumption|]]].
    + constructor; [|assumption]. intros Hit. apply Hsub, Hin1 in Hit. tauto.
    + intros y [<-|Hy]; [assumption|]. apply Hsub, Hin1 in Hy. tauto.
    + intros y. split.
      * intros Hy. apply Hin' in Hy. destruct Hy as [Hy1 Hy2]. apply Hin1 in Hy1. cbn [In]. split; [tauto|]. intros [<-|]; tauto.
      * intros [Hy1 Hy2]. cbn [In] in Hy2. apply Hin'. split; [apply Hin1; split; [assumption|]|]; intuition congruence.
Qed.
Lemma liq_take_ids_complete : forall ids l, NoDup l -> NoDup ids -> (forall y, In y ids -> In y l) ->
  exists l', liq_take_ids ids l = Ok l'.
Proof.
  induction ids as [|i t IH]; intros l Hnd Hndi Hsub; cbn [liq_take_ids]; [eauto|].
  inversion Hndi as [|? ? Hit Hndt]; subst.
  destruct (swap_remove i l) as [l1|] eqn:Es.
  - destruct (swap_remove_spec _ _ _ Hnd Es) as (Hi & Hnd1 & Hin1).
    apply IH; try assumption. intros y Hy. apply Hin1. split; [apply Hsub; now right|]. intros ->. contradiction.
  - apply swap_remove_none in Es. exfalso. apply Es, Hsub. now left.
Qed.

(* the lock table's keys after lock_non_fungibles *)
Lemma nkeys_incr_in : forall l a b, In b (nkeys (ncnt_incr a l)) <-> b = a \/ In b (nkeys l).
Proof.
  induction l as [|[k n] t IH]; intros a b; cbn [ncnt_incr nkeys map In fst]; [intuition|].
  destruct (N.eqb_spec k a) as [->|Hka]; cbn [nkeys map In fst]; fold (nkeys t); fold (nkeys (ncnt_incr a t)); [intuition|].
  rewrite IH. intuition.
Qed.
Lemma nkeys_fold_incr : forall ids l b, In b (nkeys (fold_left (fun m i => ncnt_incr i m) ids l)) <-> In b ids \/ In b (nkeys l).
Proof.
  induction ids as [|i t IH]; intros l b; cbn [fold_left In]; [tauto|].
  rewrite IH, nkeys_incr_in. intuition.
Qed.
Lemma ncnt_find_none : forall l a, ncnt_find a l = None <-> ~ In a (nkeys l).
Proof.
  induction l as [|[k n] t IH]; intros a; cbn [ncnt_find nkeys map In fst]; [tauto|].
  destruct (N.eqb_spec k a) as [->|Hne]; [split; [discriminate|tauto]|]. fold (nkeys t). rewrite IH. tauto.
Qed.

(* well-formed container: liquid ids are distinct and none of them is in the lock table *)
Definition NWf (c : ncont) : Prop :=
  NoDup (nliq c) /\ forall y, In y (nliq c) -> ~ In y (nkeys (nlocked c)).
Definition holds (c : ncont) (y : N) : Prop := In y (nliq c) \/ In y (nkeys (nlocked c)).

(* lock_non_fungibles (create proof / clone): succeeds only for ids the container holds, keeps the
   set of ids held, and afterwards every proven id is in the lock table and not liquid *)
Lemma n_lock_spec : forall ids c c', NWf c -> n_lock ids c = Ok c' ->
  NWf c' /\ (forall y, holds c' y <-> holds c y) /\ (forall y, In y ids -> holds c y) /\
  (forall y, In y ids -> In y (nkeys (nlocked c')) /\ ~ In y (nliq c')) /\
  (forall y, In y (nkeys (nlocked c)) -> In y (nkeys (nlocked c'))).
Proof.
  intros ids c c' [Hnd Hdis] H. unfold n_lock in H.
  set (delta := filter (fun i => match ncnt_find i (nlocked c) with None => true | Some _ => false end) ids) in *.
  destruct (liq_take_ids delta (nliq c)) as [l| |] eqn:Et; try discriminate. cbn [bind] in H. injection H as <-.
  destruct (liq_take_ids_spec _ _ _ Hnd Et) as (_ & Hsub & Hndl & Hinl).
  assert (Hdelta : forall y, In y delta <-> In y ids /\ ~ In y (nkeys (nlocked c))).
  { intros y. unfold delta. rewrite filter_In. destruct (ncnt_find y (nlocked c)) eqn:E.
    - assert (In y (nkeys (nlocked c))) by (destruct (in_dec N.eq_dec y (nkeys (nlocked c))) as [|Hn]; [assumption|apply ncnt_find_none in Hn; congruence]).
      split; [intros [_ ?]; discriminate|tauto].
    - apply ncnt_find_none in E. tauto. }
  unfold NWf, holds. cbn [nliq nlocked].
  split; [split|split; [|split; [|split]]].
  - exact Hndl.
  - intros y Hy. apply Hinl in Hy. destruct Hy as [Hy1 Hy2]. rewrite nkeys_fold_incr. intros [Hi|Hk].
    + apply Hy2, Hdelta. split; [assumption|apply Hdis, Hy1].
    + exact (Hdis _ Hy1 Hk).
  - intros y. rewrite nkeys_fold_incr, Hinl. split.
    + intros [[Hy _]|[Hi|Hk]]; [now left| |now right].
      destruct (in_dec N.eq_dec y (nkeys (nlocked c))) as [|Hn]; [now right|]. left. apply Hsub, Hdelta. tauto.
    + intros [Hy|Hk]; [|tauto].
      destruct (in_dec N.eq_dec y delta) as [Hd|Hd]; [right; left; apply Hdelta, Hd|left; tauto].
  - intros y Hy. destruct (in_dec N.eq_dec y (nkeys (nlocked c))) as [|Hn]; [now right|]. left. apply Hsub, Hdelta. tauto.
  - intros y Hy. split.
    + apply nkeys_fold_incr. now left.
    + intros Hl. apply Hinl in Hl. destruct Hl as [Hl1 Hl2]. apply Hl2, Hdelta. split; [assumption|apply Hdis, Hl1].
  - intros y Hy. apply nkeys_fold_incr. now right.
Qed.

(* take_non_fungibles / recall / burn of ids: succeeds iff the ids are distinct and all liquid *)
Lemma n_take_iff : forall ids c, NWf c ->
  ((exists c', n_take_ids ids c = Ok (c', ids)) <-> NoDup ids /\ forall y, In y ids -> In y (nliq c)).
Proof.
  intros ids c [Hnd _]. unfold n_take_ids. split.
  - intros [c' H]. destruct (liq_take_ids ids (nliq c)) as [l| |] eqn:E; try discriminate.
    destruct (liq_take_ids_spec _ _ _ Hnd E) as (H1 & H2 & _). auto.
  - intros [H1 H2]. destruct (liq_take_ids_complete _ _ Hnd H1 H2) as [l ->]. cbn [bind]. eauto.
Qed.
Lemma n_take_wf : forall ids c c' out, NWf c -> n_take_ids ids c = Ok (c', out) ->
  NWf c' /\ out = ids /\ nlocked c' = nlocked c /\ (forall y, In y (nliq c') <-> In y (nliq c) /\ ~ In y ids).
Proof.
  intros ids c c' out [Hnd Hdis] H. unfold n_take_ids in H.
  destruct (liq_take_ids ids (nliq c)) as [l| |] eqn:E; try discriminate. cbn [bind] in H. injection H as <- <-.
  destruct (liq_take_ids_spec _ _ _ Hnd E) as (_ & _ & Hndl & Hinl). unfold NWf. cbn [nliq nlocked].
  split; [split; [assumption|intros y Hy; apply Hdis, Hinl, Hy]|]. split; [reflexivity|]. split; [reflexivity|exact Hinl].
Qed.

(* the safety statement: once ids are proven, and as long as the lock table keeps them (no unlock),
   no withdrawal / burn / recall that touches one of them can succeed *)
Theorem locked_ids_not_withdrawable : forall ids c c1, NWf c -> n_lock ids c = Ok c1 ->
  forall ids' y, In y ids -> In y ids' -> forall r, n_take_ids ids' c1 <> Ok r.
Proof.
  intros ids c c1 Hwf Hl ids' y Hy Hy' [c2 out] Ht.
  destruct (n_lock_spec _ _ _ Hwf Hl) as (Hwf1 & _ & _ & Hlocked & _).
  destruct (n_take_wf _ _ _ _ Hwf1 Ht) as (_ & -> & _ & _).
  assert (Hex : exists c', n_take_ids ids' c1 = Ok (c', ids')) by eauto.
  apply (n_take_iff _ _ Hwf1) in Hex. destruct Hex as [_ Hsub]. destruct (Hlocked _ Hy) as [_ Hn]. apply Hn, Hsub, Hy'.
Qed.
(* more generally: in a well-formed container no id of the lock table can be taken *)
Theorem lock_table_ids_not_withdrawable : forall c ids' y r, NWf c ->
  In y (nkeys (nlocked c)) -> In y ids' -> n_take_ids ids' c <> Ok r.
Proof.
  intros c ids' y [c2 out] Hwf Hk Hy' Ht.
  destruct (n_take_wf _ _ _ _ Hwf Ht) as (_ & -> & _ & _).
  assert (Hex : exists c', n_take_ids ids' c = Ok (c', ids')) by eauto.
  apply (n_take_iff _ _ Hwf) in Hex. destruct Hex as [_ Hsub]. destruct Hwf as [_ Hdis]. exact (Hdis _ (Hsub _ Hy') Hk).
Qed.
