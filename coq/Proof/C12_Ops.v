(* C12 — create_node, force_write, delete_partition, scans and drain: effect on the invariant. *)
From Coq Require Import List NArith Bool Lia.
Import ListNotations.
Require Import RV.Model.C12_Track RV.Model.C12_View RV.Proof.C12_Maps RV.Proof.C12_Track.
Open Scope N_scope.

(* ---------- a whole partition of the track and of the view change together ---------- *)
Lemma inv_put_subs : forall db t s n p sb rr view',
  Inv db t s ->
  sorted sb ->
  (forall k tv, al_get k sb = Some tv -> tsv_ok tv (al_get k (db n p))) ->
  (forall k, tlookup (t_nodes t) n p k <> None -> al_get k sb <> None) ->
  (forall n' p', sorted (view' n' p')) ->
  (forall k, al_get k (view' n p) = match al_get k sb with Some tv => tsv_get tv | None => al_get k (db n p) end) ->
  (forall n' p', (n' =? n) && (p' =? p) = false -> view' n' p' = v_view s n' p') ->
  Inv db (set_nodes t (put_part (t_nodes t) n p (mk_tpart sb rr))) (mk_vstate view' (v_new s) (v_fw s) (v_del s)).
Proof.
  intros db t s n p sb rr view' I Hsb Hok Hgrow Hs Hv Hother. destruct I as [Iwf Isorted Iview Ivsorted Inew Ifresh Iok Ifwwf Ifwsorted Ifwget Ifwin Idel].
  constructor; simpl; auto.
  - apply nodes_wf_put_part; assumption.
  - apply subs_sorted_put_part; assumption.
  - intros n' p' k'. unfold tview; simpl. rewrite tlookup_put_part.
    destruct ((n' =? n) && (p' =? p)) eqn:E; simpl.
    + apply andb_true_iff in E. destruct E as [E1 E2]. apply N.eqb_eq in E1, E2. subst. apply Hv.
    + rewrite Hother by assumption. apply Iview.
  - intros n'. rewrite node_is_new_put_part. apply Inew.
  - intros n' p' k' tv'. rewrite tlookup_put_part. destruct ((n' =? n) && (p' =? p)) eqn:E; simpl.
    + apply andb_true_iff in E. destruct E as [E1 E2]. apply N.eqb_eq in E1, E2. subst. apply Hok.
    + apply Iok.
  - intros n' p' k' tv' H. destruct (Ifwin _ _ _ _ H) as [H1 [H2 H3]]. split; [assumption|split; [|assumption]].
    rewrite tlookup_put_part. destruct ((n' =? n) && (p' =? p)) eqn:E; simpl; [|assumption].
    apply andb_true_iff in E. destruct E as [E1 E2]. apply N.eqb_eq in E1, E2. subst. apply Hgrow. assumption.
Qed.

(* ---------- delete_partition / info ---------- *)
Lemma step_delete_partition : forall db t s n p,
  Inv db t s -> Inv db (delete_partition t n p) (spec_next db s (ODeletePartition n p) RUnit).
Proof.
  intros db t s n p I. destruct I as [Iwf Isorted Iview Ivsorted Inew Ifresh Iok Ifwwf Ifwsorted Ifwget Ifwin Idel]. constructor; simpl; auto. rewrite Idel. reflexivity.
Qed.

(* ---------- force_write ---------- *)
Lemma force_write_panics_iff : forall t n p k,
  force_write t n p k = None <-> tlookup (t_nodes t) n p k = None.
Proof.
  intros. unfold force_write. rewrite al_get_cur_part. destruct (tlookup (t_nodes t) n p k); split; intros; congruence.
Qed.

Lemma fw_get_cons : forall fw n p k x n' p' k',
  fw_get ((n, p, k, x) :: fw) n' p' k' = if same3 n p k n' p' k' then Some x else fw_get fw n' p' k'.
Proof. intros. reflexivity. Qed.

Lemma step_force_write : forall db t s n p k t',
  Inv db t s -> v_new s n = false -> force_write t n p k = Some t' ->
  Inv db t' (spec_next db s (OForceWrite n p k) RUnit).
Proof.
  intros db t s n p k t' I Hnew G. unfold force_write in G. rewrite al_get_cur_part in G.
  destruct (tlookup (t_nodes t) n p k) as [tv|] eqn:L; [|discriminate]. inversion G; subst; clear G.
  pose proof (inv_touch _ _ _ n p I) as I1.
  destruct I1 as [Jwf Jsorted Jview Jvsorted Jnew Jfresh Jok Jfwwf Jfwsorted Jfwget Jfwin Jdel].
  destruct I as [Iwf Isorted Iview Ivsorted Inew Ifresh Iok Ifwwf Ifwsorted Ifwget Ifwin Idel].
  simpl in *.
  constructor; simpl; auto.
  - apply nodes_wf_upd_sub; assumption.
  - apply subs_sorted_upd_sub; assumption.
  - intros n' p' k'. fold (same3 n p k n' p' k'). fold (upd_sub (t_fw t) n p k tv). rewrite tlookup_upd_sub.
    destruct (same3 n p k n' p' k') eqn:E; [|apply Ifwget].
    apply same3_true in E. destruct E as [-> [-> ->]]. simpl. rewrite Iview. unfold tview. rewrite L. reflexivity.
  - intros n' p' k' tv'. fold (upd_sub (t_fw t) n p k tv). rewrite tlookup_upd_sub.
    destruct (same3 n p k n' p' k') eqn:E; [|apply Jfwin].
    apply same3_true in E. destruct E as [-> [-> ->]]. intros X; inversion X; subst.
    split; [assumption|]. rewrite tlookup_touch, L. split; [discriminate|]. eapply Iok; eauto.
Qed.

(* ---------- create_node ---------- *)
Lemma cn_subs_spec : forall n p l (acc : list (key * tsv)),
  NoDup (map fst l) -> (forall k, In k (map fst l) -> al_get k acc = None) -> sorted acc ->
  exists s evs, cn_subs n p l acc = Some (s, evs) /\ sorted s /\
    forall k, al_get k s = match al_get k l with Some v => Some (TNew v) | None => al_get k acc end.
Proof.
  induction l as [|[k0 v0] r IH]; simpl; intros acc Hn Hacc Hs.
  - exists acc, []. auto.
  - inversion Hn; subst. rewrite (Hacc k0) by (left; reflexivity).
    destruct (IH (sm_put k0 (TNew v0) acc)) as [s [evs [E [S1 S2]]]]; auto.
    + intros k Hin. rewrite al_get_sm_put. destruct (k =? k0) eqn:Ek.
      * apply N.eqb_eq in Ek; subst. contradiction.
      * apply Hacc. right; assumption.
    + apply sm_put_sorted; assumption.
    + rewrite E. eexists _, _. split; [reflexivity|]. split; [assumption|].
      intros k. rewrite S2, al_get_sm_put. destruct (k =? k0) eqn:Ek.
      * apply N.eqb_eq in Ek; subst. apply al_get_none_notin in H1. rewrite H1. reflexivity.
      * reflexivity.
Qed.

Lemma cn_parts_spec : forall n l acc,
  NoDup (map fst l) -> (forall p subs, In (p, subs) l -> NoDup (map fst subs)) ->
  NoDup (map fst acc) ->
  exists ps evs, cn_parts n l acc = Some (ps, evs) /\ NoDup (map fst ps) /\
    forall p, match al_get p l with
              | Some subs => exists sb, al_get p ps = Some (mk_tpart sb 0) /\ sorted sb /\
                                        forall k, al_get k sb = option_map TNew (al_get k subs)
              | None => al_get p ps = al_get p acc
              end.
Proof.
  induction l as [|[p0 subs0] r IH]; simpl; intros acc Hn Hsub Hacc.
  - exists acc, []. auto.
  - inversion Hn; subst.
    destruct (cn_subs_spec n p0 subs0 []) as [s [evs [E [S1 S2]]]]; simpl; auto.
    { eapply Hsub. left; reflexivity. }
    rewrite E.
    destruct (IH (im_set p0 (mk_tpart s 0) acc)) as [ps [evs' [E' [N' P']]]];
      [assumption|intros; eapply Hsub; right; eassumption|apply im_set_nodup; assumption|].
    rewrite E'. eexists _, _. split; [reflexivity|]. split; [assumption|].
    intros p. specialize (P' p). destruct (p =? p0) eqn:Ep.
    + apply N.eqb_eq in Ep; subst. apply al_get_none_notin in H1. rewrite H1 in P'.
      rewrite al_get_im_set, N.eqb_refl in P'. exists s. split; [assumption|]. split; [assumption|].
      intros k. rewrite S2. simpl. destruct (al_get k subs0); reflexivity.
    + destruct (al_get p r); [assumption|]. rewrite P', al_get_im_set, Ep. reflexivity.
Qed.

Lemma sm_of_list_spec_gen : forall (l acc : list (key * value)),
  NoDup (map fst l) -> sorted acc ->
  sorted (fold_left (fun acc e => sm_put (fst e) (snd e) acc) l acc) /\
  forall k, al_get k (fold_left (fun acc e => sm_put (fst e) (snd e) acc) l acc) =
            match al_get k l with Some v => Some v | None => al_get k acc end.
Proof.
  induction l as [|[k0 v0] r IH]; simpl; intros acc Hn Hs.
  - auto.
  - inversion Hn; subst. destruct (IH (sm_put k0 v0 acc) H2 (sm_put_sorted _ _ _ _ Hs)) as [S1 S2].
    split; [assumption|]. intros k. rewrite S2, al_get_sm_put. destruct (k =? k0) eqn:Ek.
    + apply N.eqb_eq in Ek; subst. apply al_get_none_notin in H1. rewrite H1. reflexivity.
    + reflexivity.
Qed.
Lemma sm_of_list_spec : forall l, NoDup (map fst l) ->
  sorted (sm_of_list l) /\ forall k, al_get k (sm_of_list l) = al_get k l.
Proof.
  intros l H. destruct (sm_of_list_spec_gen l [] H I) as [S1 S2]. split; [assumption|].
  intros k. unfold sm_of_list. rewrite S2. destruct (al_get k l); reflexivity.
Qed.

Lemma fw_none_of_get : forall tvo : option tsv, option_map tsv_get tvo = None -> tvo = None.
Proof. destruct tvo; simpl; [discriminate|reflexivity]. Qed.

Lemma step_create_node : forall db t s n l,
  Inv db t s -> adm db t s (OCreateNode n l) ->
  exists t' evs, create_node t n l = Some (t', evs) /\ Inv db t' (spec_next db s (OCreateNode n l) RUnit).
Proof.
  intros db t s n l I [Hdb [Hn [Hsub Hfw]]].
  destruct (cn_parts_spec n l [] Hn Hsub) as [ps [evs [E [Nps P]]]]; [constructor|].
  unfold create_node. rewrite E. eexists _, _. split; [reflexivity|].
  assert (FP : forall n' p', find_part (im_set n (mk_tnode ps true) (t_nodes t)) n' p' =
                             if n' =? n then al_get p' ps else find_part (t_nodes t) n' p').
  { intros. unfold find_part. rewrite al_get_im_set. destruct (n' =? n); reflexivity. }
  assert (TL : forall n' p' k', tlookup (im_set n (mk_tnode ps true) (t_nodes t)) n' p' k' =
                 if n' =? n then match al_get p' l with Some subs => option_map TNew (al_get k' subs) | None => None end
                 else tlookup (t_nodes t) n' p' k').
  { intros. unfold tlookup. rewrite FP. destruct (n' =? n); [|reflexivity].
    specialize (P p'). destruct (al_get p' l).
    - destruct P as [sb [P1 [P2 P3]]]. rewrite P1. simpl. apply P3.
    - rewrite P. reflexivity. }
  destruct I as [Iwf Isorted Iview Ivsorted Inew Ifresh Iok Ifwwf Ifwsorted Ifwget Ifwin Idel]. constructor; simpl; auto.
  - destruct Iwf as [W1 W2]. split; [apply im_set_nodup; assumption|].
    intros n' nd. rewrite al_get_im_set. destruct (n' =? n); [intros X; inversion X; subst; assumption|apply W2].
  - intros n' p' ps'. rewrite FP. destruct (n' =? n); [|apply Isorted].
    specialize (P p'). destruct (al_get p' l).
    + destruct P as [sb [P1 [P2 P3]]]. rewrite P1. intros X; inversion X; subst. assumption.
    + rewrite P. discriminate.
  - intros n' p' k'. unfold tview; simpl. rewrite TL. destruct (n' =? n) eqn:En; [|apply Iview].
    apply N.eqb_eq in En; subst. rewrite Hdb. simpl.
    destruct (al_get p' l) as [subs|] eqn:G.
    + destruct (sm_of_list_spec subs) as [S1 S2]; [eapply Hsub; eapply al_get_in; eauto|].
      rewrite S2. destruct (al_get k' subs); reflexivity.
    + reflexivity.
  - intros n' p'. destruct (n' =? n); [|apply Ivsorted].
    destruct (al_get p' l) as [subs|] eqn:G; [|simpl; trivial].
    apply sm_of_list_spec. eapply Hsub; eapply al_get_in; eauto.
  - intros n'. unfold node_is_new. rewrite al_get_im_set. destruct (n' =? n); [reflexivity|apply Inew].
  - intros n'. destruct (n' =? n) eqn:En; [apply N.eqb_eq in En; subst; intros _; assumption|apply Ifresh].
  - intros n' p' k' tv. rewrite TL. destruct (n' =? n) eqn:En; [|apply Iok].
    apply N.eqb_eq in En; subst. rewrite Hdb. destruct (al_get p' l); [|discriminate].
    destruct (al_get k' l0); simpl; [|discriminate]. intros X; inversion X; subst. reflexivity.
  - intros n' p' k' tv H. destruct (Ifwin _ _ _ _ H) as [H1 [H2 H3]].
    destruct (n' =? n) eqn:En.
    + apply N.eqb_eq in En; subst. specialize (Hfw p' k'). rewrite Ifwget, H in Hfw. discriminate.
    + split; [assumption|split; [|assumption]]. rewrite TL, En. assumption.
Qed.

(* ---------- scan_keys: state ---------- *)
Lemma step_scan_keys_state : forall db t s n p limit t' r evs,
  Inv db t s -> scan_keys db t n p limit = (t', r, evs) -> Inv db t' s.
Proof.
  intros db t s n p limit t' r evs I G. unfold scan_keys in G.
  destruct (scan_tracked limit _) as [ks rem].
  destruct ((rem =? 0) || node_is_new (t_nodes t) n).
  - inversion G; subst. assumption.
  - destruct (db_collect n p rem _ (db n p)) as [[l it] ev]. inversion G; subst. apply inv_put_rr. assumption.
Qed.

(* ---------- scan_sorted: state ---------- *)
Lemma cur_part_put_part : forall ns n p ps, cur_part (put_part ns n p ps) n p = ps.
Proof. intros. rewrite cur_part_find, find_part_put_part, !N.eqb_refl. reflexivity. Qed.

Lemma step_scan_sorted_state : forall db t s n p limit t' r evs,
  Inv db t s -> scan_sorted db t n p limit = (t', r, evs) -> Inv db t' s.
Proof.
  intros db t s n p limit t' r evs I G. unfold scan_sorted in G.
  destruct (ov_merge _ limit false _) as [items c]. inversion G; subst; clear G.
  pose proof (inv_touch _ _ _ n p I) as I1.
  pose proof (inv_put_rr _ _ _ n p (N.max (ps_rr (cur_part (t_nodes t) n p)) c) I1) as I2.
  simpl in I2. rewrite cur_part_put_part in I2. exact I2.
Qed.
