(* C29 — proofs about the calendar model. *)
From Coq Require Import List ZArith Bool Lia.
Import ListNotations.
Require Import RV.Model.C29_Calendar RV.Proof.C29_Sweep.
Open Scope Z_scope.

Ltac zdm := Z.div_mod_to_equations.

(* ---------------------------------------------------------------------------------------------- *)
(* A. truncating division with the sign fix = floor division *)

Lemma quot_rem_fix_spec : forall a b, 0 < b -> quot_rem_fix a b = (a / b, a mod b).
Proof.
  intros a b Hb. unfold quot_rem_fix.
  pose proof (Z.quot_rem' a b) as E.
  assert (- b < Z.rem a b < b) as R.
  { destruct (Z_lt_le_dec a 0).
    - pose proof (Z.rem_bound_pos_neg a b Hb ltac:(lia)). lia.
    - pose proof (Z.rem_bound_pos_pos a b Hb ltac:(lia)). lia. }
  destruct (Z.ltb_spec (Z.rem a b) 0) as [L|L].
  - assert (Z.quot a b - 1 = a / b) as Q
      by (apply (Z.div_unique_pos a b _ (Z.rem a b + b)); lia).
    assert (Z.rem a b + b = a mod b) as M
      by (apply (Z.mod_unique_pos a b (Z.quot a b - 1)); lia).
    now rewrite Q, M.
  - assert (Z.quot a b = a / b) as Q
      by (apply (Z.div_unique_pos a b _ (Z.rem a b)); lia).
    assert (Z.rem a b = a mod b) as M
      by (apply (Z.mod_unique_pos a b (Z.quot a b)); lia).
    now rewrite Q, M.
Qed.

(* ---------------------------------------------------------------------------------------------- *)
(* B. the specification: structure of the proleptic Gregorian day count *)

Lemma greg_leap_alt : forall y, is_leap_year y = greg_leap y.
Proof. reflexivity. Qed.

Lemma dby_one : days_before_year 1 = 0.
Proof. reflexivity. Qed.

Lemma dby_step : forall y, days_before_year (y + 1) = days_before_year y + year_len y.
Proof.
  intros y. unfold days_before_year, year_len, greg_leap.
  replace (y + 1 - 1) with y by lia.
  destruct (Z.eqb_spec (y mod 4) 0) as [H4|H4];
  destruct (Z.eqb_spec (y mod 100) 0) as [H100|H100];
  destruct (Z.eqb_spec (y mod 400) 0) as [H400|H400]; cbn [andb orb negb];
  zdm; lia.
Qed.

Lemma greg_leap_period : forall y c, greg_leap (y + 400 * c) = greg_leap y.
Proof.
  intros y c. unfold greg_leap.
  replace ((y + 400 * c) mod 4) with (y mod 4) by (zdm; lia).
  replace ((y + 400 * c) mod 100) with (y mod 100) by (zdm; lia).
  replace ((y + 400 * c) mod 400) with (y mod 400) by (zdm; lia).
  reflexivity.
Qed.

Lemma dby_period : forall y c, days_before_year (y + 400 * c) = days_before_year y + 146097 * c.
Proof. intros y c. unfold days_before_year. zdm. lia. Qed.

Lemma dfc_period : forall y c m d,
  days_from_civil (y + 400 * c) m d = days_from_civil y m d + 146097 * c.
Proof. intros. unfold days_from_civil. rewrite greg_leap_period, dby_period. lia. Qed.

Lemma dby_mono : forall y1 y2, y1 <= y2 -> days_before_year y1 <= days_before_year y2.
Proof. intros y1 y2 H. unfold days_before_year. zdm. lia. Qed.

Lemma year_len_pos : forall y, 365 <= year_len y <= 366.
Proof. intros y. unfold year_len. destruct (greg_leap y); lia. Qed.

(* days_before_month as a table *)
Lemma dbm_table : forall l m, 1 <= m <= 12 ->
  days_before_month l m =
  match m with
  | 1 => 0 | 2 => 31 | 3 => if l then 60 else 59 | 4 => if l then 91 else 90
  | 5 => if l then 121 else 120 | 6 => if l then 152 else 151 | 7 => if l then 182 else 181
  | 8 => if l then 213 else 212 | 9 => if l then 244 else 243 | 10 => if l then 274 else 273
  | 11 => if l then 305 else 304 | 12 => if l then 335 else 334 | _ => 0
  end.
Proof.
  intros l m H.
  assert (m = 1 \/ m = 2 \/ m = 3 \/ m = 4 \/ m = 5 \/ m = 6 \/ m = 7 \/ m = 8 \/ m = 9 \/ m = 10
          \/ m = 11 \/ m = 12) as C by lia.
  destruct l; repeat (destruct C as [C|C]; [subst m; reflexivity|]); subst m; reflexivity.
Qed.

Lemma dbm_step : forall l m, 1 <= m <= 11 ->
  days_before_month l (m + 1) = days_before_month l m + month_len l m.
Proof.
  intros l m H.
  assert (m = 1 \/ m = 2 \/ m = 3 \/ m = 4 \/ m = 5 \/ m = 6 \/ m = 7 \/ m = 8 \/ m = 9 \/ m = 10
          \/ m = 11) as C by lia.
  destruct l; repeat (destruct C as [C|C]; [subst m; reflexivity|]); subst m; reflexivity.
Qed.

Lemma dbm_year : forall l, days_before_month l 12 + month_len l 12 = if l then 366 else 365.
Proof. destruct l; reflexivity. Qed.

Lemma month_len_bounds : forall l m, 1 <= m <= 12 -> 28 <= month_len l m <= 31.
Proof.
  intros l m H.
  assert (m = 1 \/ m = 2 \/ m = 3 \/ m = 4 \/ m = 5 \/ m = 6 \/ m = 7 \/ m = 8 \/ m = 9 \/ m = 10
          \/ m = 11 \/ m = 12) as C by lia.
  destruct l; repeat (destruct C as [C|C]; [subst m; cbn; lia|]); subst m; cbn; lia.
Qed.

(* dbm l m + month_len l m <= dbm l m' when m < m' *)
Lemma dbm_mono : forall l m m', 1 <= m -> m < m' -> m' <= 12 ->
  days_before_month l m + month_len l m <= days_before_month l m'.
Proof.
  intros l m m' H1 H2 H3.
  assert (forall k, (0 <= k)%nat -> forall m, 1 <= m -> m + Z.of_nat k + 1 <= 12 ->
          days_before_month l m + month_len l m <= days_before_month l (m + Z.of_nat k + 1)) as G.
  { induction k as [|k IH]; intros _ m0 Hm0 Hk.
    - rewrite Z.add_0_r, dbm_step by lia. lia.
    - replace (m0 + Z.of_nat (S k) + 1) with ((m0 + Z.of_nat k + 1) + 1) by lia.
      rewrite dbm_step by lia. specialize (IH ltac:(lia) m0 Hm0 ltac:(lia)).
      pose proof (month_len_bounds l (m0 + Z.of_nat k + 1) ltac:(lia)). lia. }
  specialize (G (Z.to_nat (m' - m - 1)) ltac:(lia) m H1).
  replace (m + Z.of_nat (Z.to_nat (m' - m - 1)) + 1) with m' in G by lia. apply G. lia.
Qed.

Lemma dfc_bounds : forall y m d, 1 <= m <= 12 -> 1 <= d <= month_len (greg_leap y) m ->
  days_before_year y - DAYS_0001_TO_1970 <= days_from_civil y m d
  /\ days_from_civil y m d < days_before_year (y + 1) - DAYS_0001_TO_1970.
Proof.
  intros y m d Hm Hd. unfold days_from_civil. rewrite dby_step. unfold year_len.
  assert (0 <= days_before_month (greg_leap y) m) as L.
  { rewrite dbm_table by lia.
    assert (m = 1 \/ m = 2 \/ m = 3 \/ m = 4 \/ m = 5 \/ m = 6 \/ m = 7 \/ m = 8 \/ m = 9 \/ m = 10
          \/ m = 11 \/ m = 12) as C by lia.
    destruct (greg_leap y); repeat (destruct C as [C|C]; [subst m; lia|]); subst m; lia. }
  assert (days_before_month (greg_leap y) m + month_len (greg_leap y) m <= if greg_leap y then 366 else 365) as U.
  { destruct (Z.eq_dec m 12) as [->|N].
    - rewrite dbm_year. lia.
    - pose proof (dbm_mono (greg_leap y) m 12 ltac:(lia) ltac:(lia) ltac:(lia)).
      pose proof (dbm_year (greg_leap y)). pose proof (month_len_bounds (greg_leap y) 12 ltac:(lia)).
      destruct (greg_leap y); lia. }
  destruct (greg_leap y); lia.
Qed.

(* the specification advances by exactly one day at the calendar successor: together with
   days_from_civil 1970 1 1 = 0 this characterises it as THE proleptic Gregorian day count *)
Lemma dfc_epoch : days_from_civil 1970 1 1 = 0.
Proof. reflexivity. Qed.

Lemma dfc_next : forall y m d, 1 <= m <= 12 -> 1 <= d <= month_len (greg_leap y) m ->
  let '(y', m', d') := next_date y m d in
  days_from_civil y' m' d' = days_from_civil y m d + 1
  /\ 1 <= m' <= 12 /\ 1 <= d' <= month_len (greg_leap y') m'.
Proof.
  intros y m d Hm Hd. unfold next_date.
  destruct (Z.ltb_spec d (month_len (greg_leap y) m)) as [L|L].
  - unfold days_from_civil. lia.
  - assert (d = month_len (greg_leap y) m) as -> by lia.
    destruct (Z.ltb_spec m 12) as [M|M].
    + unfold days_from_civil. rewrite dbm_step by lia.
      pose proof (month_len_bounds (greg_leap y) (m + 1) ltac:(lia)). lia.
    + assert (m = 12) as -> by lia. unfold days_from_civil. rewrite dby_step. unfold year_len.
      pose proof (dbm_year (greg_leap y)).
      replace (days_before_month (greg_leap (y + 1)) 1) with 0 by (destruct (greg_leap (y + 1)); reflexivity).
      replace (month_len (greg_leap (y + 1)) 1) with 31 by (destruct (greg_leap (y + 1)); reflexivity).
      destruct (greg_leap y); lia.
Qed.

(* ---------------------------------------------------------------------------------------------- *)
(* C. from_instant: the part of the computation that depends only on the day within the 400-year
   cycle, swept over one cycle *)

(* the rest of from_instant, given the cycle number c and the second of the day rs *)
Definition finish (c rs : Z) (p : option (Z * Z * Z)) : res dt_error dt :=
  match p with
  | None => Panic
  | Some (yo0, month, remaining_days) =>
    year <- i64 (yo0 + 400 * c + 2000) ;;
    let month := month + 2 in
    let '(month, year) := if 12 <=? month then (month - 12, year + 1) else (month, year) in
    let month := month + 1 in
    let day_of_month := remaining_days + 1 in
    let hour := Z.quot rs SECONDS_IN_AN_HOUR in
    let minute := Z.rem (Z.quot rs SECONDS_IN_A_MINUTE) SECONDS_IN_A_MINUTE in
    let second := Z.rem rs SECONDS_IN_A_MINUTE in
    y <- u32 year ;; mo <- u8 month ;; d <- u8 day_of_month ;;
    h <- u8 hour ;; mi <- u8 minute ;; s <- u8 second ;;
    Ok (mkdt y mo d h mi s)
  end.

Definition in_range (t : Z) : Prop := MIN_SUPPORTED_TIMESTAMP <= t <= MAX_SUPPORTED_TIMESTAMP.

Lemma from_instant_cycle : forall t, in_range t ->
  let s := t - SHIFT_FROM_UNIX_TIME_TO_MARCH_Y2K in
  from_instant t = finish ((s / 86400) / 146097) (s mod 86400) (cycle_part0 ((s / 86400) mod 146097)).
Proof.
  intros t [Hlo Hhi] s. unfold from_instant.
  replace ((t <? MIN_SUPPORTED_TIMESTAMP) || (MAX_SUPPORTED_TIMESTAMP <? t)) with false
    by (symmetry; apply orb_false_iff; split; apply Z.ltb_ge; lia).
  fold s. unfold i64 at 1.
  replace (in_i64 s) with true.
  2:{ symmetry. unfold in_i64, s, I64_MIN, I64_MAX, SHIFT_FROM_UNIX_TIME_TO_MARCH_Y2K,
        MIN_SUPPORTED_TIMESTAMP, MAX_SUPPORTED_TIMESTAMP in *.
      apply andb_true_iff; split; apply Z.leb_le; lia. }
  cbn [bind].
  rewrite (quot_rem_fix_spec s SECONDS_IN_A_DAY) by reflexivity.
  change SECONDS_IN_A_DAY with 86400.
  rewrite (quot_rem_fix_spec (s / 86400) DAYS_PER_400Y) by reflexivity.
  change DAYS_PER_400Y with 146097.
  unfold cycle_part0, finish.
  set (rd := (s / 86400) mod 146097).
  set (ML := month_loop _ _ _).
  set (Y := _ + 400 * (s / 86400 / 146097) + 2000).
  destruct ML as [[mm rr]|]; [reflexivity|].
  unfold i64. destruct (in_i64 Y); reflexivity.
Qed.

Lemma dby_min : days_before_year 1 - DAYS_0001_TO_1970 = -719162.
Proof. reflexivity. Qed.
Lemma dby_max : days_before_year (U32_MAX + 1) - DAYS_0001_TO_1970 = 1568703873082.
Proof. reflexivity. Qed.

Theorem from_instant_spec : forall t, in_range t ->
  exists d, from_instant t = Ok d /\ valid_dt d /\ greg_seconds d = t.
Proof.
  intros t Hr. rewrite (from_instant_cycle t Hr).
  destruct Hr as [Hlo Hhi].
  unfold MIN_SUPPORTED_TIMESTAMP, MAX_SUPPORTED_TIMESTAMP, SHIFT_FROM_UNIX_TIME_TO_MARCH_Y2K in *.
  cbv zeta.
  set (s := t - (946684800 + 86400 * (31 + 29))).
  set (days := s / 86400). set (rs := s mod 86400).
  set (c := days / 146097). set (rd := days mod 146097).
  assert (0 <= rs < 86400) as Hrs by (apply Z.mod_pos_bound; lia).
  assert (0 <= rd < 146097) as Hrd by (apply Z.mod_pos_bound; lia).
  assert (s = 86400 * days + rs) as Es by (apply Z.div_mod; lia).
  assert (days = 146097 * c + rd) as Ed by (apply Z.div_mod; lia).
  pose proof (cycle_ok_all rd Hrd) as K. unfold cycle_ok in K.
  destruct (cycle_part0 rd) as [[[yo0 mraw] d0]|]; [|discriminate].
  set (m := if 12 <=? mraw + 2 then mraw + 2 - 12 + 1 else mraw + 2 + 1) in K.
  set (yo := if 12 <=? mraw + 2 then yo0 + 1 else yo0) in K.
  repeat (apply andb_prop in K; destruct K as [K ?]).
  repeat match goal with H : (_ <=? _) = true |- _ => apply Z.leb_le in H end.
  match goal with H : (_ =? _) = true |- _ => apply Z.eqb_eq in H; rename H into Hdfc end.
  unfold DAYS_1970_TO_MARCH_Y2K in Hdfc.
  assert (1 <= m <= 12) as Hm by (unfold m; destruct (Z.leb_spec 12 (mraw + 2)); lia).
  assert (yo0 <= yo <= yo0 + 1) as Hyo by (unfold yo; destruct (12 <=? mraw + 2); lia).
  set (Y := 2000 + yo + 400 * c).
  assert (days_from_civil Y m (d0 + 1) = days + 11017) as HY
    by (unfold Y; rewrite dfc_period; lia).
  assert (greg_leap Y = greg_leap (2000 + yo)) as HL by (unfold Y; apply greg_leap_period).
  pose proof (dfc_bounds Y m (d0 + 1) Hm ltac:(rewrite HL; lia)) as [B1 B2].
  assert (1 <= Y <= U32_MAX) as HYr.
  { split.
    - destruct (Z_lt_le_dec Y 1) as [L|L]; [|lia].
      pose proof (dby_mono (Y + 1) 1 ltac:(lia)). pose proof dby_min. unfold s in *. lia.
    - destruct (Z_lt_le_dec U32_MAX Y) as [L|L]; [|lia].
      pose proof (dby_mono (U32_MAX + 1) Y ltac:(lia)). pose proof dby_max. unfold s in *. lia. }
  pose proof (month_len_bounds (greg_leap (2000 + yo)) m Hm) as ML.
  exists (mkdt Y m (d0 + 1) (rs / 3600) ((rs / 60) mod 60) (rs mod 60)).
  split; [|split].
  - unfold finish. unfold i64.
    replace (in_i64 (yo0 + 400 * c + 2000)) with true.
    2:{ symmetry. unfold in_i64, I64_MIN, I64_MAX, U32_MAX in *.
        apply andb_true_iff; split; apply Z.leb_le; lia. }
    cbn [bind].
    assert ((if 12 <=? mraw + 2 then (mraw + 2 - 12, yo0 + 400 * c + 2000 + 1)
             else (mraw + 2, yo0 + 400 * c + 2000)) = (m - 1, Y)) as ->.
    { unfold m, yo, Y, yo. destruct (12 <=? mraw + 2); f_equal; lia. }
    replace (m - 1 + 1) with m by lia.
    unfold SECONDS_IN_AN_HOUR, SECONDS_IN_A_MINUTE.
    rewrite (Z.quot_div_nonneg rs 3600), (Z.quot_div_nonneg rs 60) by lia.
    assert (0 <= rs / 60) by (apply Z.div_pos; lia).
    rewrite (Z.rem_mod_nonneg (rs / 60) 60), (Z.rem_mod_nonneg rs 60) by lia.
    assert (0 <= rs / 3600 <= 23) by (zdm; lia).
    assert (0 <= (rs / 60) mod 60 <= 59) by (zdm; lia).
    assert (0 <= rs mod 60 <= 59) by (zdm; lia).
    unfold u32, u8, in_u32, in_u8, U8_MAX.
    repeat match goal with
    | |- context [(?a <=? ?b) && (?c <=? ?d)] =>
      replace ((a <=? b) && (c <=? d)) with true
        by (symmetry; apply andb_true_iff; split; apply Z.leb_le; lia); cbn [bind]
    end.
    reflexivity.
  - unfold valid_dt; cbn [year month day hour minute second]. rewrite HL.
    repeat split; try lia; zdm; lia.
  - unfold greg_seconds; cbn [year month day hour minute second]. rewrite HY.
    unfold s in *. zdm. lia.
Qed.
