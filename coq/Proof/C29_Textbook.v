(* C29 — the textbook civil-from-days algorithm computes the inverse of the Gregorian day count
   (second sweep over one 400-year era), hence from_instant agrees with it. *)
From Coq Require Import List ZArith Bool Lia.
Import ListNotations.
Require Import RV.Model.C29_Calendar RV.Proof.C29_Sweep RV.Proof.C29_Calendar RV.Proof.C29_ToInstant
  RV.Proof.C29_Order.
Open Scope Z_scope.

(* civil_from_days on the day-of-era, era 0 *)
Definition cfd_part (doe : Z) : Z * Z * Z :=
  let yoe := (doe - doe / 1460 + doe / 36524 - doe / 146096) / 365 in
  let doy := doe - (365 * yoe + yoe / 4 - yoe / 100) in
  let mp := (5 * doy + 2) / 153 in
  let d := doy - (153 * mp + 2) / 5 + 1 in
  let m := if mp <? 10 then mp + 3 else mp - 9 in
  (if m <=? 2 then yoe + 1 else yoe, m, d).

Definition cfd_ok (doe : Z) : bool :=
  let '(y, m, d) := cfd_part doe in
  (1 <=? m) && (m <=? 12) && (1 <=? d) && (d <=? month_len (greg_leap y) m)
  && (days_from_civil y m d =? doe - 719468).

Lemma cfd_sweep : forall_range cfd_ok 0 (N.to_nat 146097) = true.
Proof. vm_compute. reflexivity. Qed.

Lemma civil_from_days_era : forall z,
  let era := (z + 719468) / 146097 in
  let doe := (z + 719468) mod 146097 in
  civil_from_days z = (let '(y, m, d) := cfd_part doe in (y + 400 * era, m, d)).
Proof.
  intros z era doe. unfold civil_from_days, cfd_part.
  replace (z + 719468 - (z + 719468) / 146097 * 146097) with doe
    by (unfold doe; rewrite Z.mod_eq by lia; lia).
  fold era.
  match goal with |- context [if ?c <=? 2 then _ else _] => destruct (c <=? 2) end; f_equal; f_equal; lia.
Qed.

Theorem civil_from_days_spec : forall z,
  let '(y, m, d) := civil_from_days z in
  1 <= m <= 12 /\ 1 <= d <= month_len (greg_leap y) m /\ days_from_civil y m d = z.
Proof.
  intros z. rewrite civil_from_days_era.
  set (era := (z + 719468) / 146097). set (doe := (z + 719468) mod 146097).
  assert (0 <= doe < 146097) as Hd by (apply Z.mod_pos_bound; lia).
  assert (z + 719468 = 146097 * era + doe) as Ez by (apply Z.div_mod; lia).
  pose proof (forall_range_spec cfd_ok (N.to_nat 146097) 0 cfd_sweep doe) as K.
  rewrite N_nat_Z in K. specialize (K ltac:(lia)). unfold cfd_ok in K.
  destruct (cfd_part doe) as [[y m] d].
  repeat (apply andb_prop in K; destruct K as [K ?]).
  repeat match goal with H : (_ <=? _) = true |- _ => apply Z.leb_le in H end.
  match goal with H : (_ =? _) = true |- _ => apply Z.eqb_eq in H; rename H into Hdfc end.
  rewrite greg_leap_period, dfc_period. lia.
Qed.

(* from_instant = the textbook algorithm on floor(t / 86400), time of day from t mod 86400 *)
Theorem from_instant_textbook : forall t, in_range t ->
  exists d, from_instant t = Ok d
    /\ (year d, month d, day d) = civil_from_days (t / 86400)
    /\ hour d = (t mod 86400) / 3600 /\ minute d = (t mod 86400) / 60 mod 60
    /\ second d = t mod 60.
Proof.
  intros t R. destruct (from_instant_spec t R) as (d & F & V & G).
  exists d. split; [exact F|].
  pose proof (sod_bounds d V) as S.
  pose proof V as (Hy & Hm & Hd & Hh & Hmi & Hs).
  unfold greg_seconds in G.
  set (D := days_from_civil (year d) (month d) (day d)) in *.
  set (sod := hour d * 3600 + minute d * 60 + second d) in *.
  assert (t / 86400 = D) as ED by (symmetry; apply (Z.div_unique_pos t 86400 D sod); lia).
  assert (t mod 86400 = sod) as ES by (symmetry; apply (Z.mod_unique_pos t 86400 D sod); lia).
  rewrite ED, ES.
  split.
  - pose proof (civil_from_days_spec D) as C.
    destruct (civil_from_days D) as [[y' m'] d'] eqn:E. destruct C as (Cm & Cd & Cf).
    (* same day number, both valid dates: equal (order lemma on date-times at 00:00:00) *)
    assert (1 <= y' <= U32_MAX) as Hy'.
    { pose proof (dfc_bounds y' m' d' Cm Cd) as [B1 B2].
      pose proof (dfc_bounds _ _ _ Hm Hd) as [A1 A2]. fold D in A1, A2.
      split.
      - destruct (Z_lt_le_dec y' 1) as [L|L]; [|lia].
        pose proof (dby_mono (y' + 1) 1 ltac:(lia)). pose proof (dby_mono 1 (year d) ltac:(lia)). lia.
      - destruct (Z_lt_le_dec U32_MAX y') as [L|L]; [|lia].
        pose proof (dby_mono (U32_MAX + 1) y' ltac:(lia)).
        pose proof (dby_mono (year d + 1) (U32_MAX + 1) ltac:(lia)). lia. }
    assert (mkdt y' m' d' 0 0 0 = mkdt (year d) (month d) (day d) 0 0 0) as EQ.
    { apply greg_inj.
      - unfold valid_dt; cbn. lia.
      - unfold valid_dt; cbn. lia.
      - unfold greg_seconds; cbn. fold D. lia. }
    inversion EQ. reflexivity.
  - unfold sod. repeat split; Z.div_mod_to_equations; lia.
Qed.
