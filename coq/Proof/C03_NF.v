(* C03 — non-fungible half: the global id-disjointness invariant and the id-set conservation law. *)
From Coq Require Import List ZArith NArith Bool Lia.
Import ListNotations.
Require Import RV.Model.C03_Ledger RV.Proof.C03_Ledger.
Open Scope Z_scope.

(* ---------- occurrence counting ---------- *)
Fixpoint occ (x : N) (l : list N) : Z :=
  match l with [] => 0 | y :: t => (if N.eqb x y then 1 else 0) + occ x t end.

Lemma occ_app : forall x a b, occ x (a ++ b) = occ x a + occ x b.
Proof. induction a as [|y t IH]; intros; cbn; [lia|]. rewrite IH. lia. Qed.
Lemma occ_nonneg : forall x l, 0 <= occ x l.
Proof. induction l as [|y t IH]; cbn; [lia|]. destruct (N.eqb x y); lia. Qed.
Lemma mem_occ_true : forall x l, mem x l = true -> 1 <= occ x l.
Proof.
  induction l as [|y t IH]; cbn; [discriminate|]. pose proof (occ_nonneg x t).
  destruct (N.eqb x y); cbn; [lia|]. intros H'. apply IH in H'. lia.
Qed.
Lemma mem_occ_false : forall x l, mem x l = false -> occ x l = 0.
Proof.
  induction l as [|y t IH]; cbn; [reflexivity|].
  destruct (N.eqb x y); cbn; [discriminate|]. intros H'. apply IH in H'. lia.
Qed.
Lemma occ_In : forall x l, In x l <-> 1 <= occ x l.
Proof.
  induction l as [|y t IH]; cbn; [split; [contradiction|lia]|]. pose proof (occ_nonneg x t).
  destruct (N.eqb x y) eqn:E.
  - apply N.eqb_eq in E; subst. split; [lia|auto].
  - apply N.eqb_neq in E. rewrite IH. split; [intros [Q|Q]; [congruence|lia]|intros; right; lia].
Qed.
Lemma occ_NoDup : forall l, (forall x, occ x l <= 1) -> NoDup l.
Proof.
  induction l as [|y t IH]; intros H; [constructor|]. constructor.
  - intro Q. apply occ_In in Q. specialize (H y). cbn in H. rewrite N.eqb_refl in H. lia.
  - apply IH. intros x. specialize (H x). cbn in H. destruct (N.eqb x y); lia.
Qed.
Lemma occ_remove1 : forall x y l, mem y l = true ->
  occ x (remove1 y l) = occ x l - (if N.eqb x y then 1 else 0).
Proof.
  induction l as [|z t IH]; cbn; [discriminate|]. intros M.
  destruct (N.eqb y z) eqn:E.
  - apply N.eqb_eq in E; subst. lia.
  - cbn in M. cbn. rewrite (IH M). lia.
Qed.
Lemma take_ids_occ : forall ids have rest x, take_ids have ids = Some rest -> occ x have = occ x ids + occ x rest.
Proof.
  induction ids as [|y t IH]; intros have rest x H; cbn in H.
  - inversion H; subst. cbn. lia.
  - destruct (mem y have) eqn:M; [|discriminate]. pose proof (IH _ _ x H) as Q. rewrite (occ_remove1 x y have M) in Q. cbn. lia.
Qed.
Lemma take_ids_cnt : forall ids have rest, take_ids have ids = Some rest -> cnt have = cnt ids + cnt rest.
Proof.
  induction ids as [|y t IH]; intros have rest H; cbn in H.
  - inversion H; subst. rewrite cnt_nil. lia.
  - destruct (mem y have) eqn:M; [|discriminate]. apply IH in H.
    assert (cnt have = ONE + cnt (remove1 y have)).
    { clear - M. induction have as [|z h IH]; cbn in *; [discriminate|].
      destruct (N.eqb y z) eqn:Q; cbn.
      - unfold cnt. cbn [length]. rewrite Nat2Z.inj_succ. lia.
      - cbn in M. apply IH in M. unfold cnt in *. cbn [length]. rewrite !Nat2Z.inj_succ in *. lia. }
    unfold cnt in *. cbn [length]. rewrite Nat2Z.inj_succ. lia.
Qed.
Lemma put_ids_spec : forall ids have, (forall x, occ x have + occ x ids <= 1) ->
  (forall x, occ x (put_ids have ids) = occ x have + occ x ids) /\ cnt (put_ids have ids) = cnt have + cnt ids.
Proof.
  induction ids as [|y t IH]; intros have H; cbn.
  - split; [intros; lia|rewrite cnt_nil; lia].
  - assert (M : mem y have = false).
    { destruct (mem y have) eqn:M; [|reflexivity]. apply mem_occ_true in M. specialize (H y). cbn in H.
      rewrite N.eqb_refl in H. pose proof (occ_nonneg y t). lia. }
    rewrite M.
    assert (H' : forall x, occ x (have ++ [y]) + occ x t <= 1).
    { intros x. rewrite occ_app. cbn. specialize (H x). cbn in H. lia. }
    destruct (IH _ H') as [A B]. split.
    + intros x. rewrite A, occ_app. cbn. lia.
    + rewrite B, cnt_app. unfold cnt. cbn [length]. rewrite !Nat2Z.inj_succ. cbn. lia.
Qed.
Lemma occ_firstn_skipn : forall x n l, occ x l = occ x (firstn n l) + occ x (skipn n l).
Proof. intros. rewrite <- occ_app, firstn_skipn. reflexivity. Qed.
Lemma cnt_firstn_skipn : forall n l, (n <= length l)%nat -> cnt (firstn n l) = Z.of_nat n * ONE /\ cnt (skipn n l) = cnt l - Z.of_nat n * ONE.
Proof.
  intros n l L. unfold cnt. rewrite firstn_length, skipn_length. rewrite Nat.min_l by assumption.
  split; [reflexivity|]. rewrite Nat2Z.inj_sub by assumption. lia.
Qed.

(* ---------- container maps ---------- *)
Lemma vocc_aset : forall l v r0 a ids a' ids' r x,
  aget v l = Some (r0, (a, ids)) ->
  occ x (vids r (aset v (r0, (a', ids')) l)) = occ x (vids r l) + ind r r0 (occ x ids' - occ x ids).
Proof.
  induction l as [| [k' [r' [x' i']]] t IH]; intros v r0 a ids a' ids' r x H; cbn in *; [discriminate|].
  destruct (N.eqb v k') eqn:E.
  - inversion H; subst. cbn. rewrite !occ_app. unfold ind. destruct (N.eqb r r0); cbn; lia.
  - cbn. rewrite !occ_app, (IH _ _ _ _ a' ids' r x H). lia.
Qed.
Lemma bocc_aset : forall l b r0 ids ids' r x,
  aget b l = Some (r0, ids) ->
  occ x (bids r (aset b (r0, ids') l)) = occ x (bids r l) + ind r r0 (occ x ids' - occ x ids).
Proof.
  induction l as [| [k' [r' i']] t IH]; intros b r0 ids ids' r x H; cbn in *; [discriminate|].
  destruct (N.eqb b k') eqn:E.
  - inversion H; subst. cbn. rewrite !occ_app. unfold ind. destruct (N.eqb r r0); cbn; lia.
  - cbn. rewrite !occ_app, (IH _ _ _ ids' r x H). lia.
Qed.
Lemma bocc_adel : forall l b r0 ids r x,
  aget b l = Some (r0, ids) -> occ x (bids r (adel b l)) = occ x (bids r l) - ind r r0 (occ x ids).
Proof.
  induction l as [| [k' [r' i']] t IH]; intros b r0 ids r x H; cbn in *; [discriminate|].
  destruct (N.eqb b k') eqn:E.
  - inversion H; subst. rewrite occ_app. unfold ind. destruct (N.eqb r r0); cbn; lia.
  - cbn. rewrite !occ_app, (IH _ _ _ r x H). lia.
Qed.
Lemma vocc_ge : forall l v r0 a ids x, aget v l = Some (r0, (a, ids)) -> occ x ids <= occ x (vids r0 l).
Proof.
  induction l as [| [k' [r' [x' i']]] t IH]; intros v r0 a ids x H; cbn in *; [discriminate|].
  rewrite occ_app. destruct (N.eqb v k') eqn:E.
  - inversion H; subst. rewrite N.eqb_refl. pose proof (occ_nonneg x (vids r0 t)). lia.
  - apply IH with (x := x) in H. pose proof (occ_nonneg x (if N.eqb r0 r' then i' else [])). lia.
Qed.
Lemma bocc_ge : forall l b r0 ids x, aget b l = Some (r0, ids) -> occ x ids <= occ x (bids r0 l).
Proof.
  induction l as [| [k' [r' i']] t IH]; intros b r0 ids x H; cbn in *; [discriminate|].
  rewrite occ_app. destruct (N.eqb b k') eqn:E.
  - inversion H; subst. rewrite N.eqb_refl. pose proof (occ_nonneg x (bids r0 t)). lia.
  - apply IH with (x := x) in H. pose proof (occ_nonneg x (if N.eqb r0 r' then i' else [])). lia.
Qed.

(* ---------- data store ---------- *)
Lemma dget_dset : forall d r i b r' i',
  dget r' i' (dset r i b d) = if N.eqb r' r && N.eqb i' i then Some b else dget r' i' d.
Proof.
  induction d as [| [[r0 i0] b0] t IH]; intros; cbn.
  - reflexivity.
  - destruct (N.eqb r r0 && N.eqb i i0) eqn:E; cbn.
    + destruct (N.eqb r' r && N.eqb i' i) eqn:E'; [reflexivity|].
      apply andb_true_iff in E. destruct E as [E1 E2]. apply N.eqb_eq in E1. apply N.eqb_eq in E2. subst.
      rewrite E'. reflexivity.
    + rewrite IH. destruct (N.eqb r' r0 && N.eqb i' i0) eqn:Q; [|reflexivity].
      destruct (N.eqb r' r && N.eqb i' i) eqn:E'; [|reflexivity].
      apply andb_true_iff in Q. destruct Q as [Q1 Q2]. apply N.eqb_eq in Q1. apply N.eqb_eq in Q2. subst.
      apply andb_true_iff in E'. destruct E' as [E1 E2]. apply N.eqb_eq in E1. apply N.eqb_eq in E2. subst.
      rewrite !N.eqb_refl in E. discriminate.
Qed.

Lemma data_mint_spec : forall ids r d d',
  data_mint r ids d = Ok d' ->
  (forall x, 1 <= occ x ids -> dget r x d = None) /\ (forall x, occ x ids <= 1)
  /\ (forall r' x, dget r' x d' = if N.eqb r' r && (1 <=? occ x ids) then Some true else dget r' x d).
Proof.
  induction ids as [|y t IH]; intros r d d' H; cbn in H.
  - inversion H; subst. repeat split; cbn; intros; try lia. rewrite andb_false_r. reflexivity.
  - destruct (dget r y d) as [[|]|] eqn:G; try discriminate.
    destruct (IH _ _ _ H) as [A [B C]].
    assert (Y : occ y t = 0).
    { pose proof (occ_nonneg y t). destruct (Z.eq_dec (occ y t) 0); [assumption|].
      assert (1 <= occ y t) by lia. apply A in H1. rewrite dget_dset, !N.eqb_refl in H1. discriminate. }
    repeat split.
    + intros x Hx. cbn in Hx. destruct (N.eqb x y) eqn:E.
      * apply N.eqb_eq in E; subst. exact G.
      * assert (1 <= occ x t) by lia. apply A in H0. rewrite dget_dset, E, andb_false_r in H0. exact H0.
    + intros x. cbn. destruct (N.eqb x y) eqn:E; [apply N.eqb_eq in E; subst; lia|apply B].
    + intros r' x. rewrite C, dget_dset. cbn [occ]. pose proof (occ_nonneg x t).
      destruct (N.eqb r' r) eqn:R; cbn; [|reflexivity].
      destruct (N.eqb x y) eqn:E.
      * apply N.eqb_eq in E; subst. rewrite Y. cbn. reflexivity.
      * replace (0 + occ x t) with (occ x t) by lia. reflexivity.
Qed.

Lemma data_burn_spec : forall ids r d r' x,
  dget r' x (data_burn r ids d) = if N.eqb r' r && (1 <=? occ x ids) then Some false else dget r' x d.
Proof.
  induction ids as [|y t IH]; intros r d r' x; cbn.
  - rewrite andb_false_r. reflexivity.
  - rewrite IH, dget_dset. pose proof (occ_nonneg x t).
    destruct (N.eqb r' r) eqn:R; cbn; [|reflexivity].
    destruct (N.eqb x y) eqn:E.
    + destruct (1 <=? occ x t) eqn:L1; destruct (1 <=? 1 + occ x t) eqn:L2; try reflexivity.
      all: apply Z.leb_gt in L2; lia.
    + replace (0 + occ x t) with (occ x t) by lia. reflexivity.
Qed.

(* ---------- the invariant ---------- *)
Definition cnt_ok (e : N * (N * (Z * list N))) : Prop := fst (snd (snd e)) = cnt (snd (snd (snd e))).
Record NFInv (s : state) : Prop := mkNFInv {
  nf_uniq : forall r x, occ x (all_ids r s) <= 1;                                    (* no id in two containers *)
  nf_live : forall r x, 1 <= occ x (all_ids r s) -> dget r x (s_data s) = Some true; (* held ids have a live data entry *)
  nf_cnt : Forall cnt_ok (s_nv s) }.                                                 (* vault amount field = |ids| *)

Lemma Forall_aget : forall {V} (P : N * V -> Prop) l k v, Forall P l -> aget k l = Some v -> P (k, v).
Proof.
  induction l as [|[k0 v0] t IH]; intros k v F G; cbn in G; [discriminate|]. inversion F; subst.
  destruct (N.eqb k k0) eqn:E; [apply N.eqb_eq in E; inversion G; subst; assumption|eauto].
Qed.
Lemma Forall_aset : forall {V} (P : N * V -> Prop) l k v, Forall P l -> P (k, v) -> Forall P (aset k v l).
Proof.
  induction l as [|[k0 v0] t IH]; intros k v F G; cbn; [constructor; auto|]. inversion F; subst.
  destruct (N.eqb k k0); constructor; auto.
Qed.

Definition step_facts (s s' : state) (evs : list event) : Prop :=
  (forall r x, occ x (all_ids r s') = occ x (all_ids r s) + occ x (minted_ids r evs) - occ x (burned_ids r evs))
  /\ (forall r x, 1 <= occ x (minted_ids r evs) -> dget r x (s_data s) = None)
  /\ (forall r x, occ x (minted_ids r evs) <= 1)
  /\ (forall r x, dget r x (s_data s') =
        if 1 <=? occ x (minted_ids r evs) then Some true
        else if 1 <=? occ x (burned_ids r evs) then Some false else dget r x (s_data s))
  /\ Forall cnt_ok (s_nv s').

Lemma facts_quiet : forall s s' evs,
  s_nv s' = s_nv s -> s_nb s' = s_nb s -> s_data s' = s_data s ->
  (forall r, minted_ids r evs = []) -> (forall r, burned_ids r evs = []) ->
  Forall cnt_ok (s_nv s) -> step_facts s s' evs.
Proof.
  intros s s' evs A B C M Bn F. unfold step_facts, all_ids. rewrite A, B, C.
  repeat split; intros; rewrite ?M, ?Bn in *; cbn in *; try lia; try reflexivity; auto.
Qed.

Lemma minted_ids_app : forall r a b, minted_ids r (a ++ b) = minted_ids r a ++ minted_ids r b.
Proof. induction a as [|e t IH]; intros; cbn; [reflexivity|]. destruct e; cbn; rewrite ?IH, ?app_assoc; reflexivity. Qed.
Lemma burned_ids_app : forall r a b, burned_ids r (a ++ b) = burned_ids r a ++ burned_ids r b.
Proof. induction a as [|e t IH]; intros; cbn; [reflexivity|]. destruct e; cbn; rewrite ?IH, ?app_assoc; reflexivity. Qed.
Lemma quiet_ids : forall r evs,
  Forall (fun e => match e with EvDeposit _ _ | EvPayFee _ _ => True | _ => False end) evs ->
  minted_ids r evs = [] /\ burned_ids r evs = [].
Proof. induction 1 as [| e t HE HT IH]; cbn; [auto|]. destruct e; try contradiction; exact IH. Qed.

Lemma finalize_nf : forall p s s' evs,
  finalize_fees p s = Ok (s', evs) ->
  s_nv s' = s_nv s /\ s_nb s' = s_nb s /\ s_data s' = s_data s
  /\ (forall r, minted_ids r evs = []) /\ (forall r, burned_ids r evs = []).
Proof.
  unfold finalize_fees, bind. intros p s s' evs H.
  destruct (pay_royalties (fp_royalties p) (s_fv s)) as [[fv1 ev1]| |] eqn:P1; try discriminate.
  destruct (pay_fees (fp_success p) (rev (s_fees s)) fv1 (fp_total_cost p) 0) as [[[[fv2 ev2] required] collected]| |] eqn:P2; try discriminate.
  destruct (cadd collected _) as [col|]; [|discriminate].
  destruct (csub required _) as [req|]; [|discriminate].
  destruct (negb (req =? 0)); [discriminate|].
  destruct (csub col _); [|discriminate]. destruct (cadd (fp_to_rewards p) _); [|discriminate].
  destruct (negb _); [discriminate|].
  pose proof (pay_royalties_quiet _ _ _ _ P1) as Q1. pose proof (pay_fees_quiet _ _ _ _ _ _ _ _ _ P2) as Q2.
  destruct (negb (fp_to_rewards p =? 0)).
  - destruct (col <? fp_to_rewards p); [discriminate|].
    destruct (f_put fv2 _ XRD _); try discriminate. inversion H; subst. cbn. repeat split; intros r;
    rewrite ?minted_ids_app, ?burned_ids_app; destruct (quiet_ids r _ Q1) as [A B]; destruct (quiet_ids r _ Q2) as [C D];
    rewrite ?A, ?B, ?C, ?D; destruct (0 <? fp_to_burn p); reflexivity.
  - inversion H; subst. cbn. repeat split; intros r;
    rewrite ?minted_ids_app, ?burned_ids_app; destruct (quiet_ids r _ Q1) as [A B]; destruct (quiet_ids r _ Q2) as [C D];
    rewrite ?A, ?B, ?C, ?D; destruct (0 <? fp_to_burn p); reflexivity.
Qed.

Lemma supply_add_nf : forall s r d s', supply_add s r d = Ok s' ->
  s_nv s' = s_nv s /\ s_nb s' = s_nb s /\ s_data s' = s_data s.
Proof. intros s r d s' H. apply supply_add_spec in H. destruct H as (_ & A & _ & B & C & _). auto. Qed.

Ltac quiet H :=
  inversion H; subst; clear H;
  repeat match goal with Q : supply_add _ _ _ = Ok _ |- _ => apply supply_add_nf in Q; destruct Q as (? & ? & ?) end;
  apply facts_quiet; cbn [s_nv s_nb s_data set_res set_fv set_nv set_fb set_nb set_data set_fees]; try congruence; auto;
  intros; reflexivity.

Ltac nfsimp := unfold step_facts, all_ids;
  cbn [s_nv s_nb s_data set_res set_fv set_nv set_fb set_nb set_data set_fees minted_ids burned_ids vids bids];
  rewrite ?app_nil_r.

Lemma ind_cases : forall r r0 (P : Z -> Prop) x, (r = r0 -> P x) -> (N.eqb r r0 = false -> P 0) -> P (ind r r0 x).
Proof. intros. unfold ind. destruct (N.eqb r r0) eqn:E; [apply N.eqb_eq in E; auto|auto]. Qed.

Lemma step_nf : forall s o s' evs, NFInv s -> step s o = Ok (s', evs) -> step_facts s s' evs.
Proof.
  intros s o s' evs [I1 I2 I3] H. destruct o; cbn [step] in H.
  - (* OCreateF *) ok_inv H. destruct initial as [[a b]|]; ok_inv H; quiet H.
  - (* OCreateN *) ok_inv H. destruct initial as [[ids b]|]; [|quiet H].
    ok_inv H. inversion H; subst; clear H. destruct (data_mint_spec _ _ _ _ E1) as [DA [DB DC]].
    nfsimp. repeat split.
    + intros r' x. rewrite !occ_app. destruct (N.eqb r' r); cbn; rewrite ?app_nil_r; cbn; lia.
    + intros r' x. destruct (N.eqb r' r) eqn:Q; cbn; rewrite ?app_nil_r; [apply N.eqb_eq in Q; subst; apply DA|cbn; lia].
    + intros r' x. destruct (N.eqb r' r); cbn; rewrite ?app_nil_r; [apply DB|cbn; lia].
    + intros r' x. rewrite DC. destruct (N.eqb r' r); cbn; rewrite ?app_nil_r; reflexivity.
    + exact I3.
  - (* OMintF *) ok_inv H. quiet H.
  - (* OMintN *) ok_inv H. inversion H; subst; clear H. apply supply_add_nf in E2. destruct E2 as (A & B & C).
    rewrite C in E3. destruct (data_mint_spec _ _ _ _ E3) as [DA [DB DC]].
    nfsimp. rewrite A, B. repeat split.
    + intros r' x. rewrite !occ_app. destruct (N.eqb r' r); cbn; rewrite ?app_nil_r; cbn; lia.
    + intros r' x. destruct (N.eqb r' r) eqn:Q; cbn; rewrite ?app_nil_r; [apply N.eqb_eq in Q; subst; apply DA|cbn; lia].
    + intros r' x. destruct (N.eqb r' r); cbn; rewrite ?app_nil_r; [apply DB|cbn; lia].
    + intros r' x. rewrite DC. destruct (N.eqb r' r); cbn; rewrite ?app_nil_r; reflexivity.
    + exact I3.
  - (* OBurn *) destruct (aget b (s_fb s)) as [[r0 a]|] eqn:G1.
    + ok_inv H. quiet H.
    + destruct (aget b (s_nb s)) as [[r0 ids]|] eqn:G2; [|discriminate].
      ok_inv H. inversion H; subst; clear H. apply supply_add_nf in E. destruct E as (A & B & C).
      cbn [s_nv s_nb s_data set_nb] in A, B, C.
      nfsimp. rewrite A, B, C. repeat split.
      * intros r' x. rewrite !occ_app, (bocc_adel _ _ _ _ r' x G2). unfold ind. destruct (N.eqb r' r0); cbn; rewrite ?app_nil_r; cbn; lia.
      * intros r' x Q. cbn in Q. lia.
      * intros r' x. cbn. lia.
      * intros r' x. rewrite data_burn_spec. destruct (N.eqb r' r0); cbn; rewrite ?app_nil_r; reflexivity.
      * exact I3.
  - (* OCreateVault *) ok_inv H. match type of H with context [r_nf ?ri] => destruct (r_nf ri) end; [|quiet H]. inversion H; subst; clear H.
    nfsimp. repeat split; intros; cbn in *; try lia; try reflexivity.
    all: try (match goal with |- context [if ?c then _ else _] => destruct c end; cbn; lia).
    constructor; [reflexivity|exact I3].
  - (* OCreateBucket *) ok_inv H. match type of H with context [r_nf ?ri] => destruct (r_nf ri) end; [|quiet H]. inversion H; subst; clear H.
    nfsimp. repeat split; intros; cbn in *; try lia; try reflexivity; try exact I3.
    rewrite !occ_app. match goal with |- context [if ?c then _ else _] => destruct c end; cbn; lia.
  - (* ODropEmpty *) destruct (aget b (s_fb s)) as [[r0 a]|] eqn:G1.
    + destruct (a =? 0); [|discriminate]. quiet H.
    + destruct (aget b (s_nb s)) as [[r0 ids]|] eqn:G2; [|discriminate].
      destruct ids; [|discriminate]. inversion H; subst; clear H.
      nfsimp. repeat split; intros; cbn in *; try lia; try reflexivity; try exact I3.
      rewrite !occ_app, (bocc_adel _ _ _ _ r x G2). unfold ind. destruct (N.eqb r r0); cbn; lia.
  - (* OVaultTake *) ok_inv H. quiet H.
  - (* OVaultTakeN *) ok_inv H. inversion H; subst; clear H.
    match goal with G : aget _ (s_nv s) = Some (?r0, (?amt, ?ids)), C : csub ?amt _ = Some _, L1 : (?n <? 0) = false, L2 : (?amt <? _) = false |- _ =>
      apply csub_some in C; subst; apply Z.ltb_ge in L1; apply Z.ltb_ge in L2;
      pose proof (Forall_aget _ _ _ _ I3 G) as CK; unfold cnt_ok in CK; cbn in CK;
      assert (LZ : n <= Z.of_nat (length ids)) by (rewrite CK in L2; unfold cnt in L2; pose proof ONE_pos; nia);
      assert (LN : (Z.to_nat n <= length ids)%nat) by lia;
      destruct (cnt_firstn_skipn _ _ LN) as [CF CS]; rewrite Z2Nat.id in CF, CS by assumption;
      nfsimp; repeat split;
      [ intros r' x; rewrite !occ_app, (vocc_aset _ _ _ _ _ _ _ r' x G); pose proof (occ_firstn_skipn x (Z.to_nat n) ids); unfold ind; destruct (N.eqb r' r0); cbn; lia
      | intros r' x Q; cbn in Q; lia
      | intros r' x; cbn; lia
      | apply Forall_aset; [exact I3| unfold cnt_ok; cbn; lia] ]
    end.
  - (* OVaultTakeIds *) ok_inv H. inversion H; subst; clear H.
    match goal with G : aget _ (s_nv s) = Some (?r0, (?amt, ?have)), T : take_ids ?have ?ids = Some ?rest, C : csub ?amt _ = Some _ |- _ =>
      apply csub_some in C; subst;
      pose proof (Forall_aget _ _ _ _ I3 G) as CK; unfold cnt_ok in CK; cbn in CK;
      pose proof (take_ids_cnt _ _ _ T) as TC;
      nfsimp; repeat split;
      [ intros r' x; rewrite !occ_app, (vocc_aset _ _ _ _ _ _ _ r' x G); pose proof (take_ids_occ _ _ _ x T); unfold ind; destruct (N.eqb r' r0); cbn; lia
      | intros r' x Q; cbn in Q; lia
      | intros r' x; cbn; lia
      | apply Forall_aset; [exact I3| unfold cnt_ok; cbn; lia] ]
    end.
  - (* OVaultPut *) destruct (aget b (s_fb s)) as [[r0 a]|] eqn:G1.
    + ok_inv H. destruct (a =? 0); [quiet H|]. ok_inv H. quiet H.
    + destruct (aget b (s_nb s)) as [[r0 ids]|] eqn:G2; [|discriminate].
      ok_inv H.
      match goal with G : aget _ (s_nv s) = Some (?r1, (?amt, ?have)), Q : N.eqb r0 ?r1 = true |- _ =>
        apply N.eqb_eq in Q; subst r1;
        pose proof (Forall_aget _ _ _ _ I3 G) as CK; unfold cnt_ok in CK; cbn in CK;
        destruct ids as [|i ids0];
        [ inversion H; subst; clear H; nfsimp; repeat split; intros; cbn in *; try lia; try reflexivity; try exact I3;
          rewrite !occ_app, (bocc_adel _ _ _ _ r x G2); unfold ind; destruct (N.eqb r r0); cbn; lia
        | ok_inv H; inversion H; subst; clear H;
          match goal with C : cadd _ _ = Some _ |- _ => apply cadd_some in C; subst end;
          change (put_ids (if mem i have then have else have ++ [i]) ids0) with (put_ids have (i :: ids0));
          assert (DJ : forall x, occ x have + occ x (i :: ids0) <= 1)
            by (intros x; pose proof (vocc_ge _ _ _ _ _ x G); pose proof (bocc_ge _ _ _ _ x G2);
                pose proof (I1 r0 x) as U; unfold all_ids in U; rewrite occ_app in U; lia);
          destruct (put_ids_spec _ _ DJ) as [PA PC];
          nfsimp; repeat split;
          [ intros r' x; rewrite !occ_app, (vocc_aset _ _ _ _ _ _ _ r' x G), (bocc_adel _ _ _ _ r' x G2), PA; unfold ind; destruct (N.eqb r' r0); cbn; lia
          | intros r' x Q; cbn in Q; lia
          | intros r' x; cbn; lia
              | apply Forall_aset; [exact I3| unfold cnt_ok; cbn [fst snd]; lia] ] ]
      end.
  - (* OVaultRecall *) ok_inv H. quiet H.
  - (* OVaultRecallIds *) ok_inv H. inversion H; subst; clear H.
    match goal with G : aget _ (s_nv s) = Some (?r0, (?amt, ?have)), T : take_ids ?have ?ids = Some ?rest, C : csub ?amt _ = Some _ |- _ =>
      apply csub_some in C; subst;
      pose proof (Forall_aget _ _ _ _ I3 G) as CK; unfold cnt_ok in CK; cbn in CK;
      pose proof (take_ids_cnt _ _ _ T) as TC;
      nfsimp; repeat split;
      [ intros r' x; rewrite !occ_app, (vocc_aset _ _ _ _ _ _ _ r' x G); pose proof (take_ids_occ _ _ _ x T); unfold ind; destruct (N.eqb r' r0); cbn; lia
      | intros r' x Q; cbn in Q; lia
      | intros r' x; cbn; lia
      | apply Forall_aset; [exact I3| unfold cnt_ok; cbn; lia] ]
    end.
  - (* OBucketTake *) ok_inv H. quiet H.
  - (* OBucketTakeIds *) ok_inv H. inversion H; subst; clear H.
    match goal with G : aget _ (s_nb s) = Some (?r0, ?have), T : take_ids ?have ?ids = Some ?rest |- _ =>
      nfsimp; repeat split;
      [ intros r' x; rewrite !occ_app, (bocc_aset _ _ _ _ _ r' x G); pose proof (take_ids_occ _ _ _ x T); unfold ind; destruct (N.eqb r' r0); cbn; lia
      | intros r' x Q; cbn in Q; lia
      | intros r' x; cbn; lia
      | exact I3 ]
    end.
  - (* OBucketPut *) destruct (N.eqb b b') eqn:NE; [discriminate|].
    destruct (aget b' (s_fb s)) as [[r0 a]|] eqn:G1.
    + ok_inv H. quiet H.
    + destruct (aget b' (s_nb s)) as [[r0 ids]|] eqn:G2; [|discriminate].
      ok_inv H. inversion H; subst; clear H.
      match goal with G : aget b (adel b' (s_nb s)) = Some (?r1, ?have), Q : N.eqb r0 ?r1 = true |- _ =>
        apply N.eqb_eq in Q; subst r1;
        assert (DJ : forall x, occ x have + occ x ids <= 1)
          by (intros x; pose proof (bocc_ge _ _ _ _ x G) as B1; rewrite (bocc_adel _ _ _ _ r0 x G2) in B1; unfold ind in B1;
              rewrite N.eqb_refl in B1; pose proof (I1 r0 x) as U; unfold all_ids in U; rewrite occ_app in U;
              pose proof (occ_nonneg x (vids r0 (s_nv s))); lia);
        destruct (put_ids_spec _ _ DJ) as [PA PC];
        nfsimp; repeat split;
        [ intros r' x; rewrite !occ_app, (bocc_aset _ _ _ _ _ r' x G), (bocc_adel _ _ _ _ r' x G2), PA; unfold ind; destruct (N.eqb r' r0); cbn; lia
        | intros r' x Q; cbn in Q; lia
        | intros r' x; cbn; lia
          | exact I3 ]
      end.
  - (* OLockFee *) ok_inv H. quiet H.
  - (* OPayFee *) destruct (finalize_nf _ _ _ _ H) as (A & B & C & M & Bn). apply facts_quiet; auto.
Qed.

(* ---------- the invariant is preserved by every accepted operation ---------- *)
Lemma step_NFInv : forall s o s' evs, NFInv s -> step s o = Ok (s', evs) -> NFInv s'.
Proof.
  intros s o s' evs I H. destruct (step_nf _ _ _ _ I H) as (A & B & C & D & E). destruct I as [I1 I2 I3].
  constructor; [| |exact E].
  - intros r x. rewrite A. pose proof (occ_nonneg x (burned_ids r evs)). pose proof (I1 r x).
    destruct (Z_lt_le_dec (occ x (minted_ids r evs)) 1) as [L|L].
    + pose proof (occ_nonneg x (minted_ids r evs)). lia.
    + pose proof (B r x L) as N0. pose proof (C r x).
      assert (occ x (all_ids r s) = 0).
      { pose proof (occ_nonneg x (all_ids r s)). destruct (Z_lt_le_dec (occ x (all_ids r s)) 1); [lia|].
        rewrite (I2 r x) in N0 by assumption. discriminate. }
      lia.
  - intros r x L. rewrite D. rewrite A in L.
    destruct (1 <=? occ x (minted_ids r evs)) eqn:M; [reflexivity|]. apply Z.leb_gt in M.
    pose proof (occ_nonneg x (minted_ids r evs)). pose proof (I1 r x).
    destruct (1 <=? occ x (burned_ids r evs)) eqn:Bn.
    + apply Z.leb_le in Bn. lia.
    + apply Z.leb_gt in Bn. pose proof (occ_nonneg x (burned_ids r evs)). apply I2. lia.
Qed.

(* ---------- op lists ---------- *)
Definition known (r x : N) (s : state) : Prop := dget r x (s_data s) <> None.

Lemma run_nf : forall ops s s' evs, NFInv s -> run s ops = Ok (s', evs) ->
  NFInv s'
  /\ (forall r x, occ x (all_ids r s') = occ x (all_ids r s) + occ x (minted_ids r evs) - occ x (burned_ids r evs))
  /\ (forall r x, 1 <= occ x (minted_ids r evs) -> dget r x (s_data s) = None)
  /\ (forall r x, occ x (minted_ids r evs) <= 1)
  /\ (forall r x, known r x s -> known r x s')
  /\ (forall r x, 1 <= occ x (minted_ids r evs) -> known r x s').
Proof.
  induction ops as [|o t IH]; intros s s' evs I H; cbn in H.
  - inversion H; subst. split; [exact I|]. repeat split; intros; cbn in *; try lia; auto.
  - unfold bind in H. destruct (step s o) as [[s1 e1]| |] eqn:S1; try discriminate.
    destruct (run s1 t) as [[s2 e2]| |] eqn:S2; try discriminate. inversion H; subst; clear H.
    destruct (step_nf _ _ _ _ I S1) as (A1 & B1 & C1 & D1 & E1).
    pose proof (step_NFInv _ _ _ _ I S1) as I'.
    destruct (IH _ _ _ I' S2) as (J & A2 & B2 & C2 & K2 & M2).
    assert (K1 : forall r x, known r x s -> known r x s1).
    { unfold known. intros r x Q. rewrite D1. destruct (1 <=? _); [discriminate|]. destruct (1 <=? _); [discriminate|exact Q]. }
    assert (M1 : forall r x, 1 <= occ x (minted_ids r e1) -> known r x s1).
    { unfold known. intros r x Q. rewrite D1. apply Z.leb_le in Q. rewrite Q. discriminate. }
    split; [exact J|]. repeat split.
    + intros r x. rewrite A2, A1, minted_ids_app, burned_ids_app, !occ_app. lia.
    + intros r x Q. rewrite minted_ids_app, occ_app in Q.
      pose proof (occ_nonneg x (minted_ids r e1)). pose proof (occ_nonneg x (minted_ids r e2)).
      destruct (Z_lt_le_dec (occ x (minted_ids r e1)) 1) as [L|L]; [|apply B1; exact L].
      assert (Q2 : 1 <= occ x (minted_ids r e2)) by lia. pose proof (B2 r x Q2) as N1.
      destruct (dget r x (s_data s)) eqn:G; [|reflexivity]. exfalso.
      assert (Kn : known r x s) by (unfold known; congruence). apply K1 in Kn. apply Kn. exact N1.
    + intros r x. rewrite minted_ids_app, occ_app. pose proof (C1 r x). pose proof (C2 r x).
      pose proof (occ_nonneg x (minted_ids r e1)). pose proof (occ_nonneg x (minted_ids r e2)).
      destruct (Z_lt_le_dec (occ x (minted_ids r e1)) 1) as [L|L]; [lia|].
      destruct (Z_lt_le_dec (occ x (minted_ids r e2)) 1) as [L2|L2]; [lia|]. exfalso.
      pose proof (M1 r x L) as Kn. apply Kn. apply B2. exact L2.
    + intros r x Q. apply K2, K1, Q.
    + intros r x Q. rewrite minted_ids_app, occ_app in Q.
      pose proof (occ_nonneg x (minted_ids r e1)). pose proof (occ_nonneg x (minted_ids r e2)).
      destruct (Z_lt_le_dec (occ x (minted_ids r e1)) 1) as [L|L]; [apply M2; lia|apply K2, M1, L].
Qed.

(* ---------- C03, non-fungible half ---------- *)
Definition vault_ids (r : N) (s : state) : list N := vids r (s_nv s).

Lemma at_rest_all_ids : forall r s, at_rest s = true -> all_ids r s = vault_ids r s.
Proof.
  unfold at_rest, all_ids, vault_ids. intros r s H. destruct (s_fb s); [|discriminate].
  destruct (s_nb s); [|discriminate]. cbn. apply app_nil_r.
Qed.

Theorem tx_conservation_nf : forall ops s s' evs,
  NFInv s -> run s ops = Ok (s', evs) -> at_rest s = true -> at_rest s' = true ->
  forall r,
    let before := vault_ids r s in let after := vault_ids r s' in
    let m := minted_ids r evs in let b := burned_ids r evs in
    (forall x, In x after <-> (In x before \/ In x m) /\ ~ In x b)
    /\ (forall x, In x m -> ~ In x before)
    /\ NoDup m /\ NoDup after
    /\ (forall x, occ x after = occ x before + occ x m - occ x b)
    /\ NFInv s'.
Proof.
  intros ops s s' evs I H R0 R1 r. cbn zeta.
  destruct (run_nf _ _ _ _ I H) as (J & A & B & C & K & M).
  rewrite <- (at_rest_all_ids r s R0), <- (at_rest_all_ids r s' R1).
  destruct I as [I1 I2 I3]. destruct J as [J1 J2 J3].
  assert (F2 : forall x, 1 <= occ x (minted_ids r evs) -> occ x (all_ids r s) = 0).
  { intros x Q. pose proof (B r x Q) as N0. pose proof (occ_nonneg x (all_ids r s)).
    destruct (Z_lt_le_dec (occ x (all_ids r s)) 1); [lia|]. rewrite (I2 r x) in N0 by assumption. discriminate. }
  assert (T : forall x, In x (all_ids r s') <-> (In x (all_ids r s) \/ In x (minted_ids r evs)) /\ ~ In x (burned_ids r evs)).
  { intros x. rewrite !occ_In. pose proof (A r x). pose proof (J1 r x). pose proof (I1 r x). pose proof (C r x).
    pose proof (occ_nonneg x (all_ids r s)). pose proof (occ_nonneg x (minted_ids r evs)).
    pose proof (occ_nonneg x (burned_ids r evs)). pose proof (occ_nonneg x (all_ids r s')).
    split.
    - intros Q. split; [lia|]. intros Nb.
      destruct (Z_lt_le_dec (occ x (minted_ids r evs)) 1) as [L|L]; [lia|]. pose proof (F2 x L). lia.
    - intros [[Q|Q] Nb]; lia. }
  split; [exact T|]. split.
  { intros x Q Q'. rewrite !occ_In in *. pose proof (F2 x Q). lia. }
  split; [apply occ_NoDup; intros x; apply C|].
  split; [apply occ_NoDup; intros x; apply J1|].
  split; [intros x; apply A|].
  constructor; assumption.
Qed.

(* the invariant holds initially and a freshly scanned consistent store satisfies it *)
Lemma NFInv_empty : NFInv empty.
Proof. constructor; cbn; intros; try lia; constructor. Qed.
