(* C46 — the metered-block algorithm (Model/C46_Meter.v): what it charges vs the cost of the executed path. *)
From Coq Require Import List ZArith Bool Lia Arith Wf_nat.
Import ListNotations.
Require Import RV.Model.C46_MiniWasm RV.Model.C46_Meter RV.Proof.C46_MiniWasm.
Open Scope Z_scope.

(* ---------------------------------------------------------------------------------------------- *)
(* induction on instructions through their bodies                                                  *)
(* ---------------------------------------------------------------------------------------------- *)
Definition is_ctrl (i : instr) : bool :=
  match i with Block _ | Loop _ | If _ _ => true | _ => false end.
Lemma instr_ind' (P : instr -> Prop) :
  (forall i, is_ctrl i = false -> P i) ->
  (forall b, Forall P b -> P (Block b)) ->
  (forall b, Forall P b -> P (Loop b)) ->
  (forall t e, Forall P t -> Forall P e -> P (If t e)) ->
  forall i, P i.
Proof.
  intros Hs Hb Hl Hi.
  fix IH 1. intro i.
  assert (HF : forall l, Forall P l).
  { fix IHl 1. intro l. destruct l as [|x l]; [constructor|constructor; [apply IH|apply IHl]]. }
  destruct i; try (apply Hs; reflexivity).
  - apply Hb. apply HF.
  - apply Hl. apply HF.
  - apply Hi; apply HF.
Qed.

Section Cost.
Variable cost : instr -> Z.
Variable per_local : Z.
Variable extra : nat.
Hypothesis cost_nonneg : forall i, 0 <= cost i.
Hypothesis per_local_nonneg : 0 <= per_local.

Notation mi := (meter_i cost).
Notation ml := (meter_list cost).


Lemma meter_i_nonneg : forall i ctx h r, 0 <= h -> 0 <= fst (mi ctx i (h, r)).
Proof.
  induction i using instr_ind'; intros ctx h r Hh.
  - pose proof (cost_nonneg i). destruct i; try discriminate; cbn; lia.
  - cbn [meter_i].
    assert (Hb : forall ctx', 0 <= fst (fold_right (mi ctx') (0, []) b)).
    { intro ctx'. induction H as [|x l Hx Hl IHl]; [cbn; lia|].
      cbn [fold_right]. destruct (fold_right (mi ctx') (0, []) l) as [h0 r0]. apply Hx. exact IHl. }
    specialize (Hb (false :: ctx)). destruct (fold_right (mi (false :: ctx)) (0, []) b) as [hb b'].
    pose proof (cost_nonneg (Block b)). cbn in Hb. destruct (escapes ctx (Block b)); cbn; lia.
  - cbn [meter_i]. pose proof (cost_nonneg (Loop b)). destruct (escapes ctx (Loop b)); cbn; lia.
  - cbn [meter_i]. pose proof (cost_nonneg (If t e)). destruct (escapes ctx (If t e)); cbn; lia.
Qed.
Lemma meter_list_nonneg : forall ctx is, 0 <= fst (ml ctx is).
Proof.
  intros ctx is. unfold meter_list. induction is as [|i is IH]; [cbn; lia|].
  cbn [fold_right]. destruct (fold_right (mi ctx) (0, []) is) as [h r]. apply meter_i_nonneg. exact IH.
Qed.

(* ---------------------------------------------------------------------------------------------- *)
(* the credit: what has been charged and not yet spent                                             *)
(* ---------------------------------------------------------------------------------------------- *)
Definition D (s : state) : Z := charged s - spent s.

Definition rel (ex : bool) (a b : Z) : Prop := if ex then a = b else a >= b.
Lemma rel_refl : forall ex a, rel ex a a.
Proof. destruct ex; cbn; lia. Qed.
Lemma rel_trans : forall ex a b c, rel ex a b -> rel ex b c -> rel ex a c.
Proof. destruct ex; cbn; lia. Qed.
Lemma rel_sub : forall ex a b k, rel ex a b -> rel ex (a - k) (b - k).
Proof. destruct ex; cbn; lia. Qed.
Lemma rel_le : forall ex a b k, rel ex a b -> ex = false -> 0 <= k -> rel ex a (b - k).
Proof. intros ex a b k H -> Hk. cbn in *. lia. Qed.

Definition post (ex : bool) (is : list instr) (d0 : Z) (r : outcome) : Prop :=
  match r with
  | Normal s' => rel ex (D s') d0
  | Branch n s' => rel ex (D s') d0 /\ In n (exits_list is)
  | Ret s' => rel ex (D s') d0 /\ has_ret_list is = true
  | _ => True
  end.
Lemma post_mono : forall ex is d1 d0 r, rel ex d1 d0 -> post ex is d1 r -> post ex is d0 r.
Proof.
  intros ex is d1 d0 r Hr Hp. destruct r; cbn in *; try exact I;
    try (destruct Hp as [Hp Hx]; split; [|exact Hx]); eapply rel_trans; eauto.
Qed.
Lemma post_cons : forall ex i is d r, post ex is d r -> post ex (i :: is) d r.
Proof.
  intros ex i is d r Hp. destruct r; cbn in *; try exact Hp; destruct Hp as [Hp Hx]; (split; [exact Hp|]).
  - unfold exits_list in *. cbn [flat_map]. apply in_or_app. right. exact Hx.
  - unfold has_ret_list in *. cbn [existsb]. rewrite Hx. apply orb_true_r.
Qed.

Definition simple_plain (i : instr) : bool :=
  match i with
  | Block _ | Loop _ | If _ _ | Br _ | BrIf _ | Return | Call _ | Charge _ | Tick _ => false
  | _ => true
  end.
Lemma step_simple_D : forall i s o, simple_plain i = true -> step_simple i s = Some o ->
  match o with Normal s' => D s' = D s | Trap => True | _ => False end.
Proof.
  intros i s o Hi H. destruct i; try discriminate; cbn in H; inversion H; subst; clear H;
    repeat match goal with
           | |- context[match ?x with _ => _ end] =>
               lazymatch x with
               | context[match _ with _ => _ end] => fail
               | _ => destruct x
               end
           end; cbn; try exact I; reflexivity.
Qed.
Lemma step_simple_some : forall i s, simple_plain i = true -> step_simple i s <> None.
Proof. intros i s Hi. destruct i; try discriminate; cbn; discriminate. Qed.

Lemma in_preds : forall l n, In (S n) l -> In n (preds l).
Proof.
  intros l n H. unfold preds. apply in_flat_map. exists (S n). split; [exact H|left; reflexivity].
Qed.

(* ---------------------------------------------------------------------------------------------- *)
(* shape of meter_i                                                                                *)
(* ---------------------------------------------------------------------------------------------- *)
Definition tail_of (esc : bool) (hr : Z * list instr) : list instr :=
  if esc then charge_then hr else snd hr.
Definition head_of (esc : bool) (hr : Z * list instr) : Z := if esc then 0 else fst hr.

Lemma mi_block : forall ctx b hr,
  mi ctx (Block b) hr =
  (cost (Block b) + fst (ml (false :: ctx) b) + head_of (escapes ctx (Block b)) hr,
   Tick (cost (Block b)) :: Block (snd (ml (false :: ctx) b)) :: tail_of (escapes ctx (Block b)) hr).
Proof.
  intros ctx b [h r]. cbn [meter_i]. unfold meter_list, tail_of, head_of.
  destruct (fold_right (mi (false :: ctx)) (0, []) b) as [hb b'].
  destruct (escapes ctx (Block b)); cbn [fst snd]; f_equal; lia.
Qed.
Lemma mi_loop : forall ctx b hr,
  mi ctx (Loop b) hr =
  (cost (Loop b) + head_of (escapes ctx (Loop b)) hr,
   Tick (cost (Loop b)) :: Loop (charge_then (ml (true :: ctx) b)) :: tail_of (escapes ctx (Loop b)) hr).
Proof.
  intros ctx b [h r]. cbn [meter_i]. unfold meter_list, tail_of, head_of.
  destruct (escapes ctx (Loop b)); cbn [fst snd]; f_equal; lia.
Qed.
Lemma mi_if : forall ctx t e hr,
  mi ctx (If t e) hr =
  (cost (If t e) + head_of (escapes ctx (If t e)) hr,
   Tick (cost (If t e)) :: If (charge_then (ml (false :: ctx) t)) (charge_then (ml (false :: ctx) e))
     :: tail_of (escapes ctx (If t e)) hr).
Proof.
  intros ctx t e [h r]. cbn [meter_i]. unfold meter_list, tail_of, head_of.
  destruct (escapes ctx (If t e)); cbn [fst snd]; f_equal; lia.
Qed.
Lemma ml_cons : forall ctx i is, ml ctx (i :: is) = mi ctx i (ml ctx is).
Proof. reflexivity. Qed.

Lemma exec_tick : forall n q s c X,
  exec (S n) q s (Tick c :: X) =
  exec n q (mkSt (stack s) (locals s) (globals s) (mem s) (gas s) (charged s) (spent s + c)) X.
Proof. reflexivity. Qed.
Lemma exec_charge : forall n q s c X,
  exec (S n) q s (Charge c :: X) =
  if gas s <? c then OutOfGas
  else exec n q (mkSt (stack s) (locals s) (globals s) (mem s) (gas s - c) (charged s + c) (spent s)) X.
Proof. intros. cbn [exec step_simple]. destruct (gas s <? c); reflexivity. Qed.

(* ---------------------------------------------------------------------------------------------- *)
(* the main invariant                                                                              *)
(* ---------------------------------------------------------------------------------------------- *)
Variable p : prog.
Variable ex : bool.
Hypothesis p_plain : plain_prog p = true.
Hypothesis p_nc : ex = true -> nc_prog p = true.
Notation P' := (meter_prog cost per_local extra p).

Definition okl (ctx : list bool) (is : list instr) : Prop :=
  forallb plain_i is = true /\ (ex = true -> nc_list ctx is = true).

Lemma okl_cons : forall ctx i is, okl ctx (i :: is) ->
  plain_i i = true /\ (ex = true -> nc_i ctx i = true) /\ okl ctx is.
Proof.
  intros ctx i is [Hp Hn]. cbn [forallb] in Hp. apply andb_true_iff in Hp. destruct Hp as [Hp1 Hp2].
  split; [exact Hp1|]. split.
  - intro He. specialize (Hn He). unfold nc_list in Hn. cbn [forallb] in Hn.
    apply andb_true_iff in Hn. tauto.
  - split; [exact Hp2|]. intro He. specialize (Hn He). unfold nc_list in *. cbn [forallb] in Hn.
    apply andb_true_iff in Hn. tauto.
Qed.

Definition A (n : nat) : Prop := forall ctx is s r, okl ctx is ->
  exec n P' s (snd (ml ctx is)) = r -> post ex is (D s - fst (ml ctx is)) r.
Definition CT (n : nat) : Prop := forall ctx is s r, okl ctx is ->
  exec n P' s (charge_then (ml ctx is)) = r -> post ex is (D s) r.
Definition TL (n : nat) : Prop := forall ctx is esc s r, okl ctx is ->
  exec n P' s (tail_of esc (ml ctx is)) = r -> post ex is (D s - head_of esc (ml ctx is)) r.

Lemma A_CT : forall n, (forall m, (m <= n)%nat -> A m) -> CT n.
Proof.
  intros n HA ctx is s r Hok H. unfold charge_then in H.
  pose proof (meter_list_nonneg ctx is) as Hnn.
  destruct (0 <? fst (ml ctx is)) eqn:E.
  - destruct n as [|n1]; [cbn in H; subst; exact I|].
    rewrite exec_charge in H. destruct (gas s <? fst (ml ctx is)); [subst; exact I|].
    apply (HA n1) in H; [|lia|exact Hok].
    eapply post_mono; [|exact H]. unfold D. cbn. destruct ex; cbn; lia.
  - apply Z.ltb_ge in E. apply (HA n) in H; [|lia|exact Hok].
    eapply post_mono; [|exact H]. destruct ex; cbn; lia.
Qed.
Lemma A_TL : forall n, (forall m, (m <= n)%nat -> A m) -> TL n.
Proof.
  intros n HA ctx is esc s r Hok H. unfold tail_of, head_of in *. destruct esc.
  - apply (A_CT n HA) in H; [|exact Hok]. eapply post_mono; [|exact H]. destruct ex; cbn; lia.
  - apply (HA n) in H; [exact H|lia|exact Hok].
Qed.

(* leaving a nested construct i by a branch / a return *)
Lemma child_branch : forall ctx i rest m s2 dbase hr,
  (ex = true -> forallb (fun k => negb (is_loop ctx k)) (exits_i i) = true) ->
  In m (exits_i i) -> rel ex (D s2) dbase -> 0 <= fst hr ->
  post ex (i :: rest) (dbase - head_of (escapes ctx i) hr) (Branch m s2).
Proof.
  intros ctx i rest m s2 dbase hr Hnc Hin Hrel Hh. cbn [post]. split.
  - unfold head_of. destruct (escapes ctx i) eqn:Ee.
    + eapply rel_trans; [exact Hrel|]. destruct ex; cbn; lia.
    + destruct ex eqn:Eex.
      * exfalso. specialize (Hnc eq_refl). rewrite forallb_forall in Hnc. specialize (Hnc _ Hin).
        unfold escapes in Ee. apply orb_false_iff in Ee. destruct Ee as [_ Ee].
        assert (existsb (fun k => negb (is_loop ctx k)) (exits_i i) = true)
          by (apply existsb_exists; exists m; split; assumption).
        congruence.
      * cbn in *. lia.
  - unfold exits_list. cbn [flat_map]. apply in_or_app. left. exact Hin.
Qed.
Lemma child_ret : forall ctx i rest s2 dbase hr,
  has_ret_i i = true -> rel ex (D s2) dbase ->
  post ex (i :: rest) (dbase - head_of (escapes ctx i) hr) (Ret s2).
Proof.
  intros ctx i rest s2 dbase hr Hret Hrel. cbn [post]. split.
  - unfold head_of, escapes. rewrite Hret. cbn [orb]. eapply rel_trans; [exact Hrel|].
    destruct ex; cbn; lia.
  - unfold has_ret_list. cbn [existsb]. rewrite Hret. reflexivity.
Qed.

Lemma after_child : forall n ctx i rest s2 dbase r,
  TL n -> okl ctx rest -> rel ex (D s2) dbase ->
  exec n P' s2 (tail_of (escapes ctx i) (ml ctx rest)) = r ->
  post ex (i :: rest) (dbase - head_of (escapes ctx i) (ml ctx rest)) r.
Proof.
  intros n ctx i rest s2 dbase r HT Hok Hrel H.
  apply HT in H; [|exact Hok]. apply post_cons. eapply post_mono; [|exact H].
  apply rel_sub. exact Hrel.
Qed.

Definition B (n : nat) : Prop := forall ctx b rest s r, okl ctx (Loop b :: rest) ->
  exec n P' s (Loop (charge_then (ml (true :: ctx) b)) :: tail_of (escapes ctx (Loop b)) (ml ctx rest)) = r ->
  post ex (Loop b :: rest) (D s - head_of (escapes ctx (Loop b)) (ml ctx rest)) r.

Lemma exits_block : forall b m, In (S m) (exits_list b) -> In m (exits_i (Block b)).
Proof. intros. cbn [exits_i]. apply in_preds. exact H. Qed.
Lemma exits_loop : forall b m, In (S m) (exits_list b) -> In m (exits_i (Loop b)).
Proof. intros. cbn [exits_i]. apply in_preds. exact H. Qed.
Lemma exits_if_t : forall t e m, In (S m) (exits_list t) -> In m (exits_i (If t e)).
Proof. intros. cbn [exits_i]. apply in_preds. apply in_or_app. left. exact H. Qed.
Lemma exits_if_e : forall t e m, In (S m) (exits_list e) -> In m (exits_i (If t e)).
Proof. intros. cbn [exits_i]. apply in_preds. apply in_or_app. right. exact H. Qed.

Lemma D_set_stack : forall s k, D (set_stack s k) = D s.
Proof. reflexivity. Qed.

Lemma loop_B : forall n, (forall m, (m < n)%nat -> A m /\ B m) -> B n.
Proof.
  intros n IH ctx b rest s r Hok H.
  destruct (okl_cons _ _ _ Hok) as (Hpl & Hnc & Hokr).
  destruct n as [|n1]; [cbn in H; subst; exact I|].
  assert (HA : forall m, (m <= n1)%nat -> A m) by (intros m Hm; apply IH; lia).
  pose proof (A_CT n1 HA) as HCT. pose proof (A_TL n1 HA) as HTL.
  rewrite exec_S in H. cbn [step_simple] in H.
  assert (Hokb : okl (true :: ctx) b).
  { split; [cbn [plain_i] in Hpl; exact Hpl|]. intro He. specialize (Hnc He). cbn [nc_i] in Hnc.
    apply andb_true_iff in Hnc. tauto. }
  assert (Hncx : ex = true -> forallb (fun k => negb (is_loop ctx k)) (exits_i (Loop b)) = true).
  { intro He. specialize (Hnc He). cbn [nc_i] in Hnc. apply andb_true_iff in Hnc. tauto. }
  destruct (exec n1 P' s (charge_then (ml (true :: ctx) b))) as [s2|m s2|s2| | |] eqn:Eb;
    pose proof (HCT _ _ _ _ Hokb Eb) as Hb; cbn [post] in Hb; try (subst; exact I).
  - eapply after_child; eauto.
  - destruct Hb as [Hb Hin]. destruct m as [|m].
    + (* continue: the loop is re-entered *)
      destruct (IH n1 ltac:(lia)) as [_ HB].
      apply HB in H; [|exact Hok]. eapply post_mono; [|exact H].
      apply rel_sub. rewrite D_set_stack. exact Hb.
    + subst r. apply child_branch; auto; [apply exits_loop; exact Hin|apply meter_list_nonneg].
  - destruct Hb as [Hb Hret]. subst r. apply child_ret; auto.
Qed.

Definition seq_like (i : instr) : bool :=
  match i with Block _ | Loop _ | If _ _ | Br _ | BrIf _ | Return => false | _ => true end.
Lemma mi_seq : forall ctx i hr, seq_like i = true ->
  mi ctx i hr = (cost i + fst hr, Tick (cost i) :: i :: snd hr).
Proof. intros ctx i [h r] Hi. destruct i; try discriminate; reflexivity. Qed.
Lemma mi_brlike : forall ctx i hr, (match i with Br _ | BrIf _ | Return => true | _ => false end) = true ->
  mi ctx i hr = (cost i, Tick (cost i) :: i :: charge_then hr).
Proof. intros ctx i [h r] Hi. destruct i; try discriminate; reflexivity. Qed.

Lemma locals_cost_nonneg : forall fn, 0 <= locals_cost per_local extra fn.
Proof. intro fn. unfold locals_cost. apply Z.mul_nonneg_nonneg; [exact per_local_nonneg|lia]. Qed.

Lemma okl_func : forall fn, In fn p -> okl [false] (f_body fn).
Proof.
  intros fn Hin. split.
  - unfold plain_prog in p_plain. rewrite forallb_forall in p_plain. apply p_plain. exact Hin.
  - intro He. specialize (p_nc He). unfold nc_prog in p_nc. rewrite forallb_forall in p_nc.
    apply p_nc. exact Hin.
Qed.

Definition keeps (s : state) (rb : outcome) : Prop :=
  match rb with Normal s' | Branch _ s' | Ret s' => rel ex (D s') (D s) | _ => True end.

Lemma func_body : forall n, (forall m, (m <= n)%nat -> A m) -> forall fn s rb, In fn p ->
  exec n P' s (f_body (meter_func cost per_local extra fn)) = rb -> keeps s rb.
Proof.
  intros n HA fn s rb Hin H. unfold meter_func in H.
  pose proof (meter_list_nonneg [false] (f_body fn)) as Hnn.
  pose proof (locals_cost_nonneg fn) as Hlc.
  pose proof (okl_func fn Hin) as Hok.
  assert (Hpost : forall m s1 r1, (m <= n)%nat -> exec m P' s1 (snd (ml [false] (f_body fn))) = r1 ->
            forall d, rel ex (D s1 - fst (ml [false] (f_body fn))) d ->
            match r1 with Normal s' | Branch _ s' | Ret s' => rel ex (D s') d | _ => True end).
  { intros m s1 r1 Hm H1 d Hd. apply (HA m Hm) in H1; [|exact Hok].
    destruct r1; cbn [post] in H1; try exact I; try destruct H1 as [H1 _];
      eapply rel_trans; eauto. }
  destruct (ml [false] (f_body fn)) as [hb b'] eqn:Eml. cbn [f_body fst snd] in *.
  unfold charge_then in H. cbn [fst snd] in H.
  destruct (0 <? locals_cost per_local extra fn + hb) eqn:E.
  - destruct n as [|n1]; [cbn in H; subst; exact I|].
    rewrite exec_charge in H. destruct (gas s <? _); [subst; exact I|].
    destruct n1 as [|n2]; [cbn in H; subst; exact I|].
    rewrite exec_tick in H. unfold keeps.
    eapply (Hpost n2 _ rb ltac:(lia) H). unfold D. cbn. destruct ex; cbn; lia.
  - apply Z.ltb_ge in E.
    destruct n as [|n1]; [cbn in H; subst; exact I|].
    rewrite exec_tick in H. unfold keeps.
    eapply (Hpost n1 _ rb ltac:(lia) H). unfold D. cbn. destruct ex; cbn; lia.
Qed.

(* a call leaves the credit unchanged and continues with the rest *)
Lemma call_step : forall n, (forall m, (m < n)%nat -> A m) -> forall s g X r,
  exec n P' s (Call g :: X) = r ->
  (match r with Normal _ | Branch _ _ | Ret _ => False | _ => True end) \/
  exists s2 m, (m < n)%nat /\ rel ex (D s2) (D s) /\ exec m P' s2 X = r.
Proof.
  intros n HA s g X r H. destruct n as [|n1]; [cbn in H; subst; left; exact I|].
  rewrite exec_S in H. cbn [step_simple] in H.
  unfold meter_prog in H. rewrite nth_error_map in H.
  destruct (nth_error p g) as [fn|] eqn:Eg; cbn [option_map] in H; [|subst; left; exact I].
  assert (Hin : In fn p) by (eapply nth_error_In; eauto).
  assert (Hpar : f_params (meter_func cost per_local extra fn) = f_params fn)
    by (unfold meter_func; destruct (meter_list cost [false] (f_body fn)); reflexivity).
  assert (Hres : f_result (meter_func cost per_local extra fn) = f_result fn)
    by (unfold meter_func; destruct (meter_list cost [false] (f_body fn)); reflexivity).
  assert (Hloc : f_locals (meter_func cost per_local extra fn) = f_locals fn)
    by (unfold meter_func; destruct (meter_list cost [false] (f_body fn)); reflexivity).
  rewrite Hpar, Hres, Hloc in H.
  destruct (take_args (f_params fn) (stack s) []) as [[args k]|]; [|subst; left; exact I].
  cbv zeta in H.
  match type of H with context[exec n1 _ ?c (f_body _)] => set (callee := c) in * end.
  assert (HA' : forall m, (m <= n1)%nat -> A m) by (intros; apply HA; lia).
  destruct (exec n1 (map (meter_func cost per_local extra) p) callee
              (f_body (meter_func cost per_local extra fn))) as [s'|l s'|s'| | |] eqn:Eb;
    pose proof (func_body n1 HA' fn callee _ Hin Eb) as Hk; cbn [keeps] in Hk;
    try (subst; left; exact I);
    (destruct (f_result fn);
     [destruct (stack s') as [|v ?]; [subst; left; exact I|]|];
     right; eexists; exists n1; (split; [lia|]); (split; [|exact H]); exact Hk).
Qed.

Lemma step_A : forall n, (forall m, (m < n)%nat -> A m /\ B m) -> A n.
Proof.
  intros n IH ctx is s r Hok H.
  assert (HAlt : forall m, (m < n)%nat -> A m) by (intros m Hm; apply IH; exact Hm).
  destruct is as [|i rest].
  { cbn in H. destruct n; cbn in H; subst; cbn; [exact I|]. destruct ex; cbn; lia. }
  destruct (okl_cons _ _ _ Hok) as (Hpl & Hnc & Hokr).
  rewrite ml_cons in *.
  pose proof (meter_list_nonneg ctx rest) as Hnn.
  destruct (seq_like i) eqn:Eseq.
  - (* straight-line instructions and calls *)
    rewrite (mi_seq ctx i _ Eseq) in *. cbn [fst snd] in *.
    destruct n as [|n1]; [cbn in H; subst; exact I|]. rewrite exec_tick in H.
    match type of H with exec n1 _ ?st _ = _ => set (s1 := st) in * end.
    assert (Hd1 : D s1 = D s - cost i) by (unfold D, s1; cbn; lia).
    destruct (simple_plain i) eqn:Esp.
    + destruct n1 as [|n2]; [cbn in H; subst; exact I|].
      rewrite exec_S in H.
      destruct (step_simple i s1) as [o|] eqn:Est; [|exfalso; eapply step_simple_some; eauto].
      pose proof (step_simple_D i s1 o Esp Est) as Ho.
      destruct o; try contradiction; [|subst; exact I].
      apply (HAlt n2 ltac:(lia)) in H; [|exact Hokr]. apply post_cons.
      eapply post_mono; [|exact H]. rewrite Ho, Hd1. destruct ex; cbn; lia.
    + (* Call (Charge / Tick are excluded by plain_i) *)
      destruct i; try discriminate.
      assert (Hcs := call_step n1 (fun m Hm => HAlt m ltac:(lia)) s1 f (snd (ml ctx rest)) r H).
      destruct Hcs as [Hbad|(s2 & m & Hm & Hrel & Hx)].
      * destruct r; try contradiction; exact I.
      * apply (HAlt m ltac:(lia)) in Hx; [|exact Hokr]. apply post_cons.
        eapply post_mono; [|exact Hx]. apply rel_sub with (k := fst (ml ctx rest)) in Hrel.
        eapply rel_trans; [exact Hrel|]. rewrite Hd1. destruct ex; cbn; lia.
  - destruct n as [|n1]; [destruct (mi ctx i (ml ctx rest)); cbn in H; subst; exact I|].
    assert (HA1 : forall m, (m <= n1)%nat -> A m) by (intros m Hm; apply HAlt; lia).
    destruct i; try discriminate.
    + (* Block *)
      rewrite mi_block in *. cbn [fst snd] in *. rewrite exec_tick in H.
      match type of H with exec n1 _ ?st _ = _ => set (s1 := st) in * end.
      assert (Hd1 : D s1 = D s - cost (Block body)) by (unfold D, s1; cbn; lia).
      destruct n1 as [|n2]; [cbn in H; subst; exact I|].
      assert (HA2 : forall m, (m <= n2)%nat -> A m) by (intros m Hm; apply HAlt; lia).
      pose proof (A_TL n2 HA2) as HTL.
      rewrite exec_S in H. cbn [step_simple] in H.
      assert (Hokb : okl (false :: ctx) body).
      { split; [cbn [plain_i] in Hpl; exact Hpl|]. intro He. specialize (Hnc He). cbn [nc_i] in Hnc.
        apply andb_true_iff in Hnc. tauto. }
      assert (Hncx : ex = true -> forallb (fun k => negb (is_loop ctx k)) (exits_i (Block body)) = true).
      { intro He. specialize (Hnc He). cbn [nc_i] in Hnc. apply andb_true_iff in Hnc. tauto. }
      set (hb := fst (ml (false :: ctx) body)) in *.
      set (hd := head_of (escapes ctx (Block body)) (ml ctx rest)) in *.
      assert (Hgoal : D s - (cost (Block body) + hb + hd) = (D s1 - hb) - hd) by lia.
      rewrite Hgoal.
      destruct (exec n2 P' s1 (snd (ml (false :: ctx) body))) as [s2|m s2|s2| | |] eqn:Eb;
        pose proof (HA2 n2 (le_n _) _ _ _ _ Hokb Eb) as Hb; cbn [post] in Hb; try (subst; exact I).
      * eapply after_child; eauto.
      * destruct Hb as [Hb Hin]. destruct m as [|m].
        -- eapply (after_child n2 ctx (Block body) rest (set_stack s2 (stack s1))); eauto.
        -- subst r. apply child_branch; auto. apply exits_block. exact Hin.
      * destruct Hb as [Hb Hret]. subst r. apply child_ret; auto.
    + (* Loop *)
      rewrite mi_loop in *. cbn [fst snd] in *. rewrite exec_tick in H.
      match type of H with exec n1 _ ?st _ = _ => set (s1 := st) in * end.
      assert (Hd1 : D s1 = D s - cost (Loop body)) by (unfold D, s1; cbn; lia).
      destruct (IH n1 ltac:(lia)) as [_ HB].
      apply HB in H; [|exact Hok]. eapply post_mono; [|exact H]. rewrite Hd1.
      destruct ex; cbn; lia.
    + (* If *)
      rewrite mi_if in *. cbn [fst snd] in *. rewrite exec_tick in H.
      match type of H with exec n1 _ ?st _ = _ => set (s1 := st) in * end.
      assert (Hd1 : D s1 = D s - cost (If thn els)) by (unfold D, s1; cbn; lia).
      destruct n1 as [|n2]; [cbn in H; subst; exact I|].
      assert (HA2 : forall m, (m <= n2)%nat -> A m) by (intros m Hm; apply HAlt; lia).
      pose proof (A_TL n2 HA2) as HTL. pose proof (A_CT n2 HA2) as HCT.
      rewrite exec_S in H. cbn [step_simple] in H.
      assert (Hokt : okl (false :: ctx) thn).
      { split; [cbn [plain_i] in Hpl; apply andb_true_iff in Hpl; tauto|]. intro He. specialize (Hnc He).
        cbn [nc_i] in Hnc. apply andb_true_iff in Hnc. destruct Hnc as [Hnc _].
        apply andb_true_iff in Hnc. tauto. }
      assert (Hoke : okl (false :: ctx) els).
      { split; [cbn [plain_i] in Hpl; apply andb_true_iff in Hpl; tauto|]. intro He. specialize (Hnc He).
        cbn [nc_i] in Hnc. apply andb_true_iff in Hnc. tauto. }
      assert (Hncx : ex = true -> forallb (fun k => negb (is_loop ctx k)) (exits_i (If thn els)) = true).
      { intro He. specialize (Hnc He). cbn [nc_i] in Hnc. apply andb_true_iff in Hnc.
        destruct Hnc as [Hnc _]. apply andb_true_iff in Hnc. tauto. }
      set (hd := head_of (escapes ctx (If thn els)) (ml ctx rest)) in *.
      assert (Hgoal : D s - (cost (If thn els) + hd) = D s1 - hd) by lia.
      rewrite Hgoal.
      destruct (stack s1) as [|c0 k] eqn:Ek; [subst; exact I|]. cbv zeta in H.
      assert (Hd0 : D (set_stack s1 k) = D s1) by reflexivity.
      destruct (c0 =? 0).
      * destruct (exec n2 P' (set_stack s1 k) (charge_then (ml (false :: ctx) els))) as [s2|m s2|s2| | |] eqn:Eb;
          pose proof (HCT _ _ _ _ Hoke Eb) as Hb; rewrite Hd0 in Hb; cbn [post] in Hb; try (subst; exact I).
        -- eapply after_child; eauto.
        -- destruct Hb as [Hb Hin]. destruct m as [|m].
           ++ eapply (after_child n2 ctx (If thn els) rest (set_stack s2 k)); eauto.
           ++ subst r. apply child_branch; auto. eapply exits_if_e. exact Hin.
        -- destruct Hb as [Hb Hret]. subst r. apply child_ret; auto.
           cbn [has_ret_i]. unfold has_ret_list in Hret. rewrite Hret. apply orb_true_r.
      * destruct (exec n2 P' (set_stack s1 k) (charge_then (ml (false :: ctx) thn))) as [s2|m s2|s2| | |] eqn:Eb;
          pose proof (HCT _ _ _ _ Hokt Eb) as Hb; rewrite Hd0 in Hb; cbn [post] in Hb; try (subst; exact I).
        -- eapply after_child; eauto.
        -- destruct Hb as [Hb Hin]. destruct m as [|m].
           ++ eapply (after_child n2 ctx (If thn els) rest (set_stack s2 k)); eauto.
           ++ subst r. apply child_branch; auto. eapply exits_if_t. exact Hin.
        -- destruct Hb as [Hb Hret]. subst r. apply child_ret; auto.
           cbn [has_ret_i]. unfold has_ret_list in Hret. rewrite Hret. reflexivity.
    + (* Br *)
      rewrite mi_brlike in * by reflexivity. cbn [fst snd] in *. rewrite exec_tick in H.
      destruct n1 as [|n2]; [cbn in H; subst; exact I|].
      rewrite exec_S in H. cbn [step_simple] in H. subst r. cbn [post]. split.
      * unfold D. cbn. destruct ex; cbn; lia.
      * unfold exits_list. cbn. left. reflexivity.
    + (* BrIf *)
      rewrite mi_brlike in * by reflexivity. cbn [fst snd] in *. rewrite exec_tick in H.
      match type of H with exec n1 _ ?st _ = _ => set (s1 := st) in * end.
      assert (Hd1 : D s1 = D s - cost (BrIf n)) by (unfold D, s1; cbn; lia).
      destruct n1 as [|n2]; [cbn in H; subst; exact I|].
      assert (HA2 : forall m, (m <= n2)%nat -> A m) by (intros m Hm; apply HAlt; lia).
      pose proof (A_CT n2 HA2) as HCT.
      rewrite exec_S in H. cbn [step_simple] in H.
      destruct (stack s1) as [|c0 k] eqn:Ek; [subst; exact I|].
      destruct (c0 =? 0).
      * apply HCT in H; [|exact Hokr]. apply post_cons. eapply post_mono; [|exact H].
        rewrite D_set_stack, Hd1. apply rel_refl.
      * subst r. cbn [post]. split.
        -- rewrite D_set_stack, Hd1. apply rel_refl.
        -- unfold exits_list. cbn. left. reflexivity.
    + (* Return *)
      rewrite mi_brlike in * by reflexivity. cbn [fst snd] in *. rewrite exec_tick in H.
      destruct n1 as [|n2]; [cbn in H; subst; exact I|].
      rewrite exec_S in H. cbn [step_simple] in H. subst r. cbn [post]. split.
      * unfold D. cbn. destruct ex; cbn; lia.
      * reflexivity.
Qed.

Lemma all_AB : forall n, A n /\ B n.
Proof.
  intro n. induction n as [n IH] using lt_wf_ind. split; [apply step_A|apply loop_B]; exact IH.
Qed.

(* calling a function of the metered program from outside *)
Lemma run_credit : forall n s g r, exec n P' s [Call g] = r ->
  match r with Normal s' | Branch _ s' | Ret s' => rel ex (D s') (D s) | _ => True end.
Proof.
  intros n s g r H.
  destruct (call_step n (fun m _ => proj1 (all_AB m)) s g [] r H) as [Hbad|(s2 & m & Hm & Hrel & Hx)].
  - destruct r; try contradiction; exact I.
  - destruct m; cbn in Hx; rewrite <- Hx; [exact I|exact Hrel].
Qed.

End Cost.

(* ---------------------------------------------------------------------------------------------- *)
(* closed statements                                                                               *)
(* ---------------------------------------------------------------------------------------------- *)
Theorem cost_covers_path : forall cost per_local extra,
  (forall i, 0 <= cost i) -> 0 <= per_local ->
  forall p, plain_prog p = true ->
  forall n s g s', exec n (meter_prog cost per_local extra p) s [Call g] = Normal s' ->
  charged s' - spent s' >= charged s - spent s.
Proof.
  intros cost per_local extra Hc Hp p Hpl n s g s' H.
  pose proof (run_credit cost per_local extra Hc Hp p false Hpl (fun E => False_ind _ (Bool.diff_false_true E)) n s g _ H) as Hr.
  exact Hr.
Qed.

Theorem cost_is_path_cost_when_nc : forall cost per_local extra,
  (forall i, 0 <= cost i) -> 0 <= per_local ->
  forall p, plain_prog p = true -> nc_prog p = true ->
  forall n s g s', exec n (meter_prog cost per_local extra p) s [Call g] = Normal s' ->
  charged s' - spent s' = charged s - spent s.
Proof.
  intros cost per_local extra Hc Hp p Hpl Hnc n s g s' H.
  pose proof (run_credit cost per_local extra Hc Hp p true Hpl (fun _ => Hnc) n s g _ H) as Hr.
  exact Hr.
Qed.

(* the metered program is the original program plus Charge / Tick instructions *)
Lemma erase_charge_then : forall hr, erase (charge_then hr) = erase (snd hr).
Proof. intros [h r]. unfold charge_then. cbn [fst snd]. destruct (0 <? h); reflexivity. Qed.

Lemma erase_meter_i : forall cost i ctx hr, plain_i i = true ->
  erase (snd (meter_i cost ctx i hr)) = i :: erase (snd hr).
Proof.
  intros cost. induction i using instr_ind'; intros ctx [h r] Hp.
  - destruct i; try discriminate; cbn [meter_i snd]; unfold erase; cbn [flat_map erase_i app];
      try reflexivity; fold (erase (charge_then (h, r))); rewrite erase_charge_then; reflexivity.
  - assert (Hb : forall ctx', erase (snd (fold_right (meter_i cost ctx') (0, []) b)) = b).
    { intro ctx'. cbn [plain_i] in Hp. induction H as [|x l Hx Hl IHl]; [reflexivity|].
      cbn [forallb] in Hp. apply andb_true_iff in Hp. destruct Hp as [Hp1 Hp2].
      cbn [fold_right]. rewrite Hx by exact Hp1. rewrite IHl by exact Hp2. reflexivity. }
    cbn [meter_i]. specialize (Hb (false :: ctx)).
    destruct (fold_right (meter_i cost (false :: ctx)) (0, []) b) as [hb b']. cbn [snd] in Hb.
    destruct (escapes ctx (Block b)); cbn [snd]; unfold erase; cbn [flat_map erase_i app];
      fold (erase b'); rewrite Hb; try reflexivity.
    fold (erase (charge_then (h, r))). rewrite erase_charge_then. reflexivity.
  - assert (Hb : forall ctx', erase (snd (fold_right (meter_i cost ctx') (0, []) b)) = b).
    { intro ctx'. cbn [plain_i] in Hp. induction H as [|x l Hx Hl IHl]; [reflexivity|].
      cbn [forallb] in Hp. apply andb_true_iff in Hp. destruct Hp as [Hp1 Hp2].
      cbn [fold_right]. rewrite Hx by exact Hp1. rewrite IHl by exact Hp2. reflexivity. }
    cbn [meter_i]. specialize (Hb (true :: ctx)).
    destruct (escapes ctx (Loop b)); cbn [snd]; unfold erase; cbn [flat_map erase_i app];
      fold (erase (charge_then (fold_right (meter_i cost (true :: ctx)) (0, []) b)));
      rewrite erase_charge_then, Hb; try reflexivity.
    fold (erase (charge_then (h, r))). rewrite erase_charge_then. reflexivity.
  - assert (Hb : forall l, Forall (fun i => forall ctx hr, plain_i i = true ->
                erase (snd (meter_i cost ctx i hr)) = i :: erase (snd hr)) l ->
              forallb plain_i l = true ->
              forall ctx', erase (snd (fold_right (meter_i cost ctx') (0, []) l)) = l).
    { intros l HF Hpl ctx'. induction HF as [|x l Hx Hl IHl]; [reflexivity|].
      cbn [forallb] in Hpl. apply andb_true_iff in Hpl. destruct Hpl as [Hp1 Hp2].
      cbn [fold_right]. rewrite Hx by exact Hp1. rewrite IHl by exact Hp2. reflexivity. }
    cbn [plain_i] in Hp. apply andb_true_iff in Hp. destruct Hp as [Hpt Hpe].
    pose proof (Hb t H Hpt (false :: ctx)) as Ht. pose proof (Hb e H0 Hpe (false :: ctx)) as He.
    cbn [meter_i].
    destruct (escapes ctx (If t e)); cbn [snd]; unfold erase; cbn [flat_map erase_i app];
      fold (erase (charge_then (fold_right (meter_i cost (false :: ctx)) (0, []) t)));
      fold (erase (charge_then (fold_right (meter_i cost (false :: ctx)) (0, []) e)));
      rewrite !erase_charge_then, Ht, He; try reflexivity.
Qed.

Lemma erase_meter_list : forall cost ctx is, forallb plain_i is = true ->
  erase (snd (meter_list cost ctx is)) = is.
Proof.
  intros cost ctx is. unfold meter_list. induction is as [|i is IH]; intro Hp; [reflexivity|].
  cbn [forallb] in Hp. apply andb_true_iff in Hp. destruct Hp as [Hp1 Hp2].
  cbn [fold_right]. rewrite erase_meter_i by exact Hp1. rewrite IH by exact Hp2. reflexivity.
Qed.

Theorem erase_meter_prog : forall cost per_local extra p, plain_prog p = true ->
  erase_prog (meter_prog cost per_local extra p) = p.
Proof.
  intros cost per_local extra p. unfold erase_prog, meter_prog, plain_prog.
  induction p as [|f p IH]; intro Hp; [reflexivity|].
  cbn [forallb] in Hp. apply andb_true_iff in Hp. destruct Hp as [Hp1 Hp2].
  cbn [map]. rewrite IH by exact Hp2. f_equal.
  unfold meter_func, erase_func.
  pose proof (erase_meter_list cost [false] (f_body f) Hp1) as He.
  destruct (meter_list cost [false] (f_body f)) as [h b']. cbn [snd] in He.
  cbn [f_params f_locals f_result f_body]. rewrite erase_charge_then. cbn [snd].
  unfold erase. cbn [flat_map erase_i app]. fold (erase b'). rewrite He. destruct f; reflexivity.
Qed.
