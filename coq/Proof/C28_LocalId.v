(* C28 — NonFungibleLocalId text form: totality and canonical integers. *)
From Coq Require Import List NArith Arith Bool Lia.
Import ListNotations.
Require Import RV.Model.C28_Bech32 RV.Model.C28_LocalId.
Open Scope N_scope.

Lemma valid_head_not_cont : forall b tl, utf8_valid (b :: tl) = true -> is_cont b = false.
Proof.
  intros b tl H. unfold is_cont. cbn [utf8_valid] in H.
  destruct (N.ltb_spec b 128) as [L|L].
  - destruct (N.leb_spec 128 b); [lia|reflexivity].
  - destruct (N.ltb_spec b 192) as [L2|L2]; [|apply andb_false_r].
    exfalso.
    destruct (N.leb_spec 0xC2 b); cbn [andb] in H; [lia|].
    destruct (N.leb_spec 0xE0 b); cbn [andb] in H; [lia|].
    destruct (N.leb_spec 0xF0 b); cbn [andb] in H; [lia|discriminate].
Qed.

Lemma rev_last_nth : forall (s : list N) x r, rev s = x :: r ->
  nth_error s (length s - 1) = Some x /\ (length s >= 1)%nat.
Proof.
  intros s x r H. assert (s = rev r ++ [x]) as -> by (rewrite <- (rev_involutive s), H; reflexivity).
  rewrite app_length. cbn [length]. split; [|lia].
  rewrite nth_error_app2 by lia. replace (length (rev r) + 1 - 1 - length (rev r))%nat with 0%nat by lia.
  reflexivity.
Qed.

Lemma inner_ok : forall E s c1 c2, utf8_valid s = true ->
  starts_with s c1 = true -> ends_with s c2 = true -> c1 < 128 -> c2 < 128 ->
  (2 <= length s)%nat ->
  @inner E s = Ok (firstn (length s - 1 - 1) (skipn 1 s)).
Proof.
  intros E s c1 c2 V S1 S2 A1 A2 L. unfold inner, slice.
  destruct s as [|a [|b tl]]; cbn [length] in L; try lia.
  cbn [starts_with] in S1. apply N.eqb_eq in S1. subst a.
  assert (is_char_boundary (c1 :: b :: tl) 1 = true) as B1.
  { cbn. cbn [utf8_valid] in V. destruct (N.ltb_spec c1 128); [|lia].
    now rewrite (valid_head_not_cont b tl V). }
  assert (is_char_boundary (c1 :: b :: tl) (length (c1 :: b :: tl) - 1) = true) as B2.
  { unfold ends_with in S2. destruct (rev (c1 :: b :: tl)) as [|x r] eqn:R; [discriminate|].
    apply N.eqb_eq in S2. subst x. destruct (rev_last_nth _ _ _ R) as [N _].
    unfold is_char_boundary. cbn [length] in *.
    replace (S (S (length tl)) - 1)%nat with (S (length tl)) in * by lia.
    rewrite N. unfold is_cont. destruct (N.leb_spec 128 c2); [lia|reflexivity]. }
  rewrite B1, B2.
  replace (Nat.leb 1 (length (c1 :: b :: tl) - 1)) with true
    by (symmetry; apply Nat.leb_le; cbn [length]; lia).
  replace (Nat.leb (length (c1 :: b :: tl) - 1) (length (c1 :: b :: tl))) with true
    by (symmetry; apply Nat.leb_le; lia).
  reflexivity.
Qed.

Lemma two_long : forall s c1 c2, starts_with s c1 = true -> ends_with s c2 = true -> c1 <> c2 ->
  (2 <= length s)%nat.
Proof.
  intros s c1 c2 S1 S2 N. destruct s as [|a [|b tl]]; cbn [length]; try lia; try discriminate.
  cbn in S1, S2. apply N.eqb_eq in S1. apply N.eqb_eq in S2. congruence.
Qed.

Lemma hex_pairs_length : forall n l b, (length l <= n)%nat -> hex_decode_pairs l = Some b ->
  length l = (2 * length b)%nat.
Proof.
  induction n as [|n IH]; intros l b L H.
  - destruct l; [|cbn in L; lia]. cbn in H. inversion H. reflexivity.
  - destruct l as [|x [|y tl]]; cbn [hex_decode_pairs] in H.
    + inversion H. reflexivity.
    + discriminate.
    + destruct (hex_val x), (hex_val y); try discriminate.
      destruct (hex_decode_pairs tl) as [r|] eqn:R; [|discriminate].
      inversion H. subst. cbn [length] in *. rewrite (IH tl r ltac:(lia) R). lia.
Qed.

Theorem localid_parse_total : forall s, utf8_valid s = true -> from_str s <> Panic.
Proof.
  intros s V. unfold from_str.
  destruct (starts_with s 60 && ends_with s 62) eqn:C1.
  { apply andb_prop in C1. destruct C1 as [S1 S2].
    rewrite (inner_ok _ s 60 62 V S1 S2 ltac:(reflexivity) ltac:(reflexivity)
               (two_long s 60 62 S1 S2 ltac:(discriminate))).
    cbn [bind]. destruct (validate_string _); discriminate. }
  destruct (Nat.ltb 1 (length s) && starts_with s 35 && ends_with s 35) eqn:C2.
  { apply andb_prop in C2. destruct C2 as [C2 S2]. apply andb_prop in C2. destruct C2 as [L S1].
    apply Nat.ltb_lt in L.
    rewrite (inner_ok _ s 35 35 V S1 S2 ltac:(reflexivity) ltac:(reflexivity) ltac:(lia)).
    cbn [bind]. destruct (negb _); [discriminate|]. destruct (parse_u64 _); discriminate. }
  destruct (starts_with s 91 && ends_with s 93) eqn:C3.
  { apply andb_prop in C3. destruct C3 as [S1 S2].
    rewrite (inner_ok _ s 91 93 V S1 S2 ltac:(reflexivity) ltac:(reflexivity)
               (two_long s 91 93 S1 S2 ltac:(discriminate))).
    cbn [bind]. destruct (hex_decode _); [|discriminate]. destruct (validate_bytes _); discriminate. }
  destruct (starts_with s 123 && ends_with s 125) eqn:C4; [|discriminate].
  apply andb_prop in C4. destruct C4 as [S1 S2].
  rewrite (inner_ok _ s 123 125 V S1 S2 ltac:(reflexivity) ltac:(reflexivity)
             (two_long s 123 125 S1 S2 ltac:(discriminate))).
  cbn [bind].
  match goal with |- context [if ?c then _ else Err InvalidRUID] => destruct c end; [|discriminate].
  match goal with |- context [Nat.eqb (length ?l) 64] => destruct (Nat.eqb (length l) 64) eqn:L64; [|discriminate];
    destruct (hex_decode l) as [b|] eqn:H; [|discriminate] end.
  apply Nat.eqb_eq in L64. unfold hex_decode in H.
  destruct (Nat.eqb _ 0); [|discriminate].
  apply (hex_pairs_length _ _ _ (Nat.le_refl _)) in H.
  replace (Nat.eqb (length b) 32) with true; [discriminate|].
  symmetry. apply Nat.eqb_eq. lia.
Qed.

(* ---------------------------------------------------------------------------------------------- *)
(* canonical integers *)

Definition val_from (acc : N) (l : list N) : N := fold_left (fun a c => a * 10 + (c - 48)) l acc.

Lemma parse_digits_val : forall max l acc v, parse_digits max acc l = Some v ->
  forallb is_digit l = true /\ v = val_from acc l.
Proof.
  induction l as [|c l IH]; intros acc v H; cbn [parse_digits] in H.
  - inversion H. split; reflexivity.
  - destruct (is_digit c) eqn:D; [|discriminate].
    destruct (max <? acc * 10 + (c - 48)); [discriminate|].
    destruct (IH _ _ H) as [A B]. cbn [forallb]. rewrite D, A. split; [reflexivity|exact B].
Qed.

Lemma parse_digits_le : forall max l acc v, acc <= max -> parse_digits max acc l = Some v -> v <= max.
Proof.
  induction l as [|c l IH]; intros acc v Hacc H; cbn [parse_digits] in H.
  - inversion H. subst. exact Hacc.
  - destruct (is_digit c); [|discriminate].
    destruct (N.ltb_spec max (acc * 10 + (c - 48))); [discriminate|].
    eapply IH; [|exact H]. assumption.
Qed.

Lemma val_from_ge : forall l acc, acc * 10 ^ N.of_nat (length l) <= val_from acc l.
Proof.
  induction l as [|c l IH]; intros acc; cbn [length val_from fold_left].
  - cbn. lia.
  - fold (val_from (acc * 10 + (c - 48)) l). specialize (IH (acc * 10 + (c - 48))).
    rewrite Nat2N.inj_succ, N.pow_succ_r'.
    eapply N.le_trans; [|exact IH].
    assert (0 < 10 ^ N.of_nat (length l)) by (apply N.neq_0_lt_0, N.pow_nonzero; discriminate). nia.
Qed.

Lemma val_from_snoc : forall l acc d, val_from acc (l ++ [d]) = val_from acc l * 10 + (d - 48).
Proof. intros. unfold val_from. rewrite fold_left_app. reflexivity. Qed.

Lemma digits_rev_val : forall l, l <> [] -> forallb is_digit l = true ->
  (match l with c :: _ => 49 <= c | [] => True end) ->
  forall f, (length l <= f)%nat -> digits_rev f (val_from 0 l) = rev l.
Proof.
  induction l as [|d l' IH] using rev_ind; intros NE D HD f L; [contradiction|].
  rewrite forallb_app in D. apply andb_prop in D. destruct D as [D' Dd].
  cbn [forallb] in Dd. rewrite andb_true_r in Dd. unfold is_digit in Dd.
  apply andb_prop in Dd. destruct Dd as [Dl Du]. apply N.leb_le in Dl. apply N.leb_le in Du.
  rewrite app_length in L. cbn [length] in L.
  destruct f as [|f]; [lia|].
  rewrite val_from_snoc, rev_unit. cbn [digits_rev].
  destruct l' as [|c tl].
  - cbn [val_from fold_left]. replace (0 * 10 + (d - 48)) with (d - 48) by lia.
    destruct (N.ltb_spec (d - 48) 10); [|lia]. cbn [rev]. f_equal. lia.
  - cbn [app] in HD.
    pose proof (val_from_ge tl (0 * 10 + (c - 48))) as G.
    assert (1 <= val_from 0 (c :: tl)) as V1.
    { cbn [val_from fold_left]. fold (val_from (0 * 10 + (c - 48)) tl).
      assert (0 < 10 ^ N.of_nat (length tl)) by (apply N.neq_0_lt_0, N.pow_nonzero; discriminate).
      nia. }
    set (v' := val_from 0 (c :: tl)) in *.
    destruct (N.ltb_spec (v' * 10 + (d - 48)) 10); [lia|].
    replace ((v' * 10 + (d - 48)) mod 10) with (d - 48).
    2:{ symmetry. rewrite N.add_comm, N.mod_add by discriminate. apply N.mod_small. lia. }
    replace ((v' * 10 + (d - 48)) / 10) with v'.
    2:{ symmetry. rewrite N.add_comm, N.div_add by discriminate. rewrite N.div_small by lia. reflexivity. }
    unfold v'. rewrite IH; [|discriminate|exact D'|exact HD|cbn [length] in *; lia].
    f_equal. lia.
Qed.

Lemma canonical_digits : forall ds n,
  is_canonically_formatted_integer ds = true -> parse_u64 ds = Some n -> dec_digits n = ds.
Proof.
  intros ds n C P. unfold dec_digits.
  destruct ds as [|c tl]; [discriminate|].
  destruct (N.eq_dec c 48) as [->|NZ].
  - (* "0" *)
    destruct tl as [|x tl']; [cbn in P; inversion P; reflexivity|].
    cbn in C. discriminate.
  - assert ((49 <=? c) && (c <=? 57) && forallb is_digit tl = true) as C'.
    { rewrite <- C. clear - NZ. destruct c as [|p]; [reflexivity|].
      unfold is_canonically_formatted_integer.
      repeat (destruct p as [p|p|]; try reflexivity; try (exfalso; apply NZ; reflexivity)). }
    apply andb_prop in C'. destruct C' as [C1 Dt]. apply andb_prop in C1. destruct C1 as [Cl Cu].
    apply N.leb_le in Cl. apply N.leb_le in Cu.
    assert (parse_digits U64_MAX 0 (c :: tl) = Some n) as P'.
    { unfold parse_u64 in P. destruct tl.
      - destruct (N.eqb_spec c 43); [lia|]. destruct (N.eqb_spec c 45); [lia|]. exact P.
      - destruct (N.eqb_spec c 43); [lia|]. exact P. }
    destruct (parse_digits_val _ _ _ _ P') as [D V].
    pose proof (parse_digits_le U64_MAX (c :: tl) 0 n ltac:(unfold U64_MAX; lia) P') as LE.
    subst n.
    (* length <= 20 since the value is below 10^20 and the leading digit is non-zero *)
    assert (length (c :: tl) <= 20)%nat as L20.
    { cbn [val_from fold_left] in LE. fold (val_from (0 * 10 + (c - 48)) tl) in LE.
      pose proof (val_from_ge tl (0 * 10 + (c - 48))) as G.
      destruct (Nat.le_gt_cases (length tl) 19) as [Q|Q]; [cbn [length]; lia|exfalso].
      assert (10 ^ 20 <= 10 ^ N.of_nat (length tl)) by (apply N.pow_le_mono_r; [discriminate|lia]).
      unfold U64_MAX in LE. change (10 ^ 20) with 100000000000000000000 in *. nia. }
    rewrite (digits_rev_val (c :: tl) ltac:(discriminate) D Cl 20%nat L20).
    apply rev_involutive.
Qed.

Lemma bracket_shape : forall s c1 c2, starts_with s c1 = true -> ends_with s c2 = true ->
  (2 <= length s)%nat -> s = [c1] ++ firstn (length s - 1 - 1) (skipn 1 s) ++ [c2].
Proof.
  intros s c1 c2 S1 S2 L. destruct s as [|a tl]; [discriminate|].
  cbn in S1. apply N.eqb_eq in S1. subst a. unfold ends_with in S2.
  destruct (rev (c1 :: tl)) as [|x r] eqn:R; [discriminate|]. apply N.eqb_eq in S2. subst x.
  assert (c1 :: tl = rev r ++ [c2]) as E by (rewrite <- (rev_involutive (c1 :: tl)), R; reflexivity).
  destruct (rev r) as [|y m] eqn:RR.
  - cbn in E. inversion E. subst. cbn in L. lia.
  - cbn [app] in E. inversion E. subst y tl. cbn [app skipn length].
    f_equal. rewrite app_length. cbn [length].
    replace (S (length m + 1) - 1 - 1)%nat with (length m) by lia.
    rewrite firstn_app, firstn_all, Nat.sub_diag. cbn. now rewrite app_nil_r.
Qed.

Theorem integer_canonical : forall s n, from_str s = Ok (LInteger n) -> s = print (LInteger n).
Proof.
  intros s n H. unfold from_str in H.
  destruct (starts_with s 60 && ends_with s 62).
  { destruct (inner s) as [i| |]; cbn [bind] in H; try discriminate.
    destruct (validate_string i); discriminate. }
  destruct (Nat.ltb 1 (length s) && starts_with s 35 && ends_with s 35) eqn:C2.
  2:{ destruct (starts_with s 91 && ends_with s 93).
      { destruct (inner s) as [i| |]; cbn [bind] in H; try discriminate.
        destruct (hex_decode i); [|discriminate]. destruct (validate_bytes _); discriminate. }
      destruct (starts_with s 123 && ends_with s 125); [|discriminate].
      destruct (inner s) as [i| |]; cbn [bind] in H; try discriminate.
      match type of H with context [if ?c then _ else Err InvalidRUID] => destruct c end; [|discriminate].
      match type of H with context [Nat.eqb (length ?l) 64] => destruct (Nat.eqb (length l) 64); [|discriminate];
        destruct (hex_decode l) as [b|]; [|discriminate] end.
      destruct (Nat.eqb (length b) 32); discriminate. }
  apply andb_prop in C2. destruct C2 as [C2 S2]. apply andb_prop in C2. destruct C2 as [L S1].
  apply Nat.ltb_lt in L.
  pose proof (bracket_shape s 35 35 S1 S2 ltac:(lia)) as Sh.
  unfold inner, slice in H.
  match type of H with context [if ?c then _ else Panic] => destruct c end; cbn [bind] in H; [|discriminate].
  set (ds := firstn (length s - 1 - 1) (skipn 1 s)) in *.
  destruct (is_canonically_formatted_integer ds) eqn:C; cbn [negb] in H; [|discriminate].
  destruct (parse_u64 ds) as [m|] eqn:P; [|discriminate].
  inversion H. subst m. cbn [print]. rewrite (canonical_digits ds n C P). exact Sh.
Qed.
