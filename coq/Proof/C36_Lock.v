(* C36 — the proof-lock counter: invariant of the static interpreter (proof_locks of a bucket = number
   of live proofs created from it), absence of the `proof_locks -= 1` underflow panic, and the
   simulation of the lifecycle specification WITH the lock clause (rt_run true). *)
From Coq Require Import List Arith NArith Bool Lia.
Import ListNotations.
Require Import RV.Model.C36_ManifestIds RV.Proof.C36_Sim.
Open Scope N_scope.

Ltac refold_upd :=
  repeat match goal with
  | H : context [upd_nat ?l (N.to_nat ?i) ?x] |- _ => change (upd_nat l (N.to_nat i) x) with (upd_N l i x) in H
  | |- context [upd_nat ?l (N.to_nat ?i) ?x] => change (upd_nat l (N.to_nat i) x) with (upd_N l i x)
  end.

(* ---- counting ------------------------------------------------------------------------------------ *)
Fixpoint cnt {A} (f : A -> bool) (l : list A) : N :=
  match l with [] => 0 | x :: t => (if f x then 1 else 0) + cnt f t end.
Lemma cnt_app1 : forall A (f : A -> bool) l x, cnt f (l ++ [x]) = cnt f l + (if f x then 1 else 0).
Proof. induction l as [|h t IH]; intro x; cbn [app cnt]; [lia | rewrite IH; lia]. Qed.
Lemma cnt_upd_nat : forall A (f : A -> bool) l i old x, nth_error l i = Some old ->
  cnt f (upd_nat l i x) + (if f old then 1 else 0) = cnt f l + (if f x then 1 else 0).
Proof.
  induction l as [|h t IH]; intros [|i] old x H; cbn in H; try discriminate.
  - inversion H; subst. cbn [upd_nat cnt]. lia.
  - cbn [upd_nat cnt]. specialize (IH i old x H). lia.
Qed.
Lemma cnt_pos : forall A (f : A -> bool) l i x, nth_error l i = Some x -> f x = true -> 1 <= cnt f l.
Proof.
  induction l as [|h t IH]; intros [|i] x H Hf; cbn in H; try discriminate.
  - inversion H; subst. cbn [cnt]. rewrite Hf. lia.
  - cbn [cnt]. specialize (IH i x H Hf). destruct (f h); lia.
Qed.
Lemma cnt_all_false : forall A (f : A -> bool) l, (forall x, In x l -> f x = false) -> cnt f l = 0.
Proof.
  induction l as [|h t IH]; intro H; [reflexivity|]. cbn [cnt]. rewrite (H h (or_introl eq_refl)).
  rewrite IH; [reflexivity|]. intros x Hx; apply H; right; exact Hx.
Qed.
Lemma cnt_zero : forall A (f : A -> bool) l, cnt f l = 0 -> forall x, In x l -> f x = false.
Proof.
  induction l as [|h t IH]; intros H x Hx; [destruct Hx|]. cbn [cnt] in H.
  destruct Hx as [->|Hx]; [destruct (f x); [lia | reflexivity] | apply IH; [destruct (f h); lia | exact Hx]].
Qed.

Definition src_is (b : N) (p : pstate) : bool :=
  match p_src p with Some b' => N.eqb b b' | None => false end.
Definition livef (b : N) (p : pstate) : bool := negb (p_consumed p) && src_is b p.
(* number of live proofs created from bucket b *)
Definition live_from (b : N) (ps : list pstate) : N := cnt (livef b) ps.

Lemma live_from_app : forall b ps src,
  live_from b (ps ++ [mkP src false]) = live_from b ps + (match src with Some b' => if N.eqb b b' then 1 else 0 | None => 0 end).
Proof. intros b ps src; unfold live_from. rewrite cnt_app1. unfold livef, src_is; cbn. destruct src; reflexivity. Qed.
Lemma live_from_consume : forall b ps p src, nth_N ps p = Some (mkP src false) ->
  live_from b (upd_N ps p (mkP src true)) + (match src with Some b' => if N.eqb b b' then 1 else 0 | None => 0 end)
  = live_from b ps.
Proof.
  intros b ps p src H; unfold live_from, upd_N, nth_N in *.
  pose proof (cnt_upd_nat _ (livef b) ps (N.to_nat p) _ (mkP src true) H) as E.
  assert (H1 : livef b (mkP src true) = false) by reflexivity.
  assert (H2 : livef b (mkP src false) = match src with Some b' => b =? b' | None => false end)
    by (unfold livef, src_is; cbn; destruct src; reflexivity).
  rewrite H1, H2 in E. destruct src as [b'|]; [destruct (b =? b')|]; lia.
Qed.

(* ---- the invariant ---------------------------------------------------------------------------------- *)
Definition LockInv (s : sstate) : Prop :=
  forall b st, nth_N (s_buckets s) b = Some st -> b_locks st = live_from b (s_proofs s).
Definition SrcBound (s : sstate) : Prop :=
  forall p st b, nth_N (s_proofs s) p = Some st -> p_src st = Some b -> b < lenN (s_buckets s).
Definition LI (s : sstate) : Prop := LockInv s /\ SrcBound s.

(* outcome of a step that starts in a state satisfying the invariant: never Panic, and Ok keeps it *)
Definition good {A} (P : A -> Prop) (r : res A) : Prop :=
  match r with Ok a => P a | Err _ => True | Panic => False end.

Lemma LI_set_req : forall s v, LI s -> LI (set_req s v).
Proof. intros s v H; exact H. Qed.
Lemma LI_set_res : forall s v, LI s -> LI (set_res s v).
Proof. intros s v H; exact H. Qed.
Lemma LI_set_named : forall s v, LI s -> LI (set_named s v).
Proof. intros s v H; exact H. Qed.
Lemma LI_set_blobs : forall s v, LI s -> LI (set_blobs s v).
Proof. intros s v H; exact H. Qed.

Lemma good_consume_bucket : forall rs s b, LI s -> good LI (consume_bucket rs s b).
Proof.
  intros rs s b [HL HS]. unfold consume_bucket, bind.
  destruct (get_existing_bucket s b) as [st| |] eqn:E; cbn; try exact I.
  - destruct (r_lock rs && (0 <? b_locks st)); cbn; [exact I|].
    apply geb_ok in E. destruct E as [Hn Hc]. split.
    + intros b' st' H'. cbn [s_buckets s_proofs set_buckets] in *. destruct (N.eq_dec b b') as [->|Hne].
      * rewrite (upd_N_same _ _ _ _ _ Hn) in H'. inversion H'; subst; cbn. apply HL; exact Hn.
      * rewrite upd_N_other in H' by exact Hne. apply HL; exact H'.
    + intros p st' b' H1 H2. cbn [s_buckets s_proofs set_buckets] in *. rewrite upd_N_len. apply (HS p st' b' H1 H2).
  - unfold get_existing_bucket in E. destruct (nth_N (s_buckets s) b) as [x|]; [destruct (b_consumed x)|]; discriminate.
Qed.

Lemma geb_not_panic : forall s b, get_existing_bucket s b <> Panic.
Proof. intros s b; unfold get_existing_bucket. destruct (nth_N _ _) as [x|]; [destruct (b_consumed x)|]; discriminate. Qed.
Lemma gep_not_panic : forall s p, get_existing_proof s p <> Panic.
Proof. intros s p; unfold get_existing_proof. destruct (nth_N _ _) as [x|]; [destruct (p_consumed x)|]; discriminate. Qed.

Lemma good_new_proof : forall s src, LI s -> good LI (handle_new_proof s src).
Proof.
  intros s src [HL HS]. unfold handle_new_proof, bind. destruct src as [b|].
  - destruct (get_existing_bucket s b) as [st| |] eqn:E; cbn; try exact I; [|exact (geb_not_panic _ _ E)].
    apply geb_ok in E. destruct E as [Hn Hc]. split.
    + intros b' st' H'. cbn [s_buckets s_proofs set_buckets set_proofs] in *. rewrite live_from_app.
      destruct (N.eq_dec b b') as [->|Hne].
      * rewrite (upd_N_same _ _ _ _ _ Hn) in H'. inversion H'; subst; cbn. rewrite N.eqb_refl. rewrite (HL _ _ Hn). reflexivity.
      * rewrite upd_N_other in H' by exact Hne. assert (Hq : (b' =? b) = false) by (apply N.eqb_neq; congruence).
        rewrite Hq, N.add_0_r. apply HL; exact H'.
    + intros p st' b' H1 H2. cbn [s_buckets s_proofs set_buckets set_proofs] in *. rewrite upd_N_len.
      apply nth_N_app_inv in H1. destruct H1 as [[_ H1]|[_ H1]]; [apply (HS p st' b' H1 H2)|].
      subst st'. cbn in H2. inversion H2; subst. apply (nth_N_lt _ _ _ _ Hn).
  - cbn. split.
    + intros b' st' H'. cbn [s_buckets s_proofs set_proofs] in *. rewrite live_from_app, N.add_0_r. apply HL; exact H'.
    + intros p st' b' H1 H2. cbn [s_buckets s_proofs set_proofs] in *.
      apply nth_N_app_inv in H1. destruct H1 as [[_ H1]|[_ H1]]; [apply (HS p st' b' H1 H2)|]. subst st'; discriminate.
Qed.

Lemma good_consume_proof : forall s p, LI s -> good LI (consume_proof s p).
Proof.
  intros s p [HL HS]. unfold consume_proof, bind.
  destruct (get_existing_proof s p) as [st| |] eqn:E; cbn; try exact I; [|exact (gep_not_panic _ _ E)].
  apply gep_ok in E. destruct E as [Hn Hc]. destruct st as [src c]; cbn in Hc; subst c. cbn [p_src].
  set (s1 := set_proofs s (upd_N (s_proofs s) p (mkP src true))).
  destruct src as [b|].
  - destruct (get_existing_bucket s1 b) as [bs| |] eqn:EB; cbn [good]; try exact I; [|exact (geb_not_panic _ _ EB)].
    apply geb_ok in EB. destruct EB as [Hnb Hcb]. unfold s1 in *; cbn [s_buckets set_proofs] in Hnb.
    assert (Hlocks : b_locks bs = live_from b (s_proofs s)) by (apply HL; exact Hnb).
    assert (Hge : 1 <= live_from b (s_proofs s)).
    { unfold live_from, nth_N in *. apply (cnt_pos _ (livef b) _ _ _ Hn). unfold livef, src_is; cbn. rewrite N.eqb_refl; reflexivity. }
    destruct (b_locks bs =? 0) eqn:E0; [apply N.eqb_eq in E0; lia|]. cbn [good]. split.
    + intros b' st' H'. unfold s1 in *; cbn [s_buckets s_proofs set_buckets set_proofs] in *; refold_upd.
      pose proof (live_from_consume b' _ _ _ Hn) as Hc. cbn in Hc.
      destruct (N.eq_dec b b') as [->|Hne].
      * rewrite (upd_N_same _ _ _ _ _ Hnb) in H'. inversion H'; subst; cbn. rewrite N.eqb_refl in Hc. lia.
      * rewrite upd_N_other in H' by exact Hne. assert (Hq : (b' =? b) = false) by (apply N.eqb_neq; congruence).
        rewrite Hq in Hc. rewrite (HL _ _ H'). lia.
    + intros q st' b' H1 H2. unfold s1 in *; cbn [s_buckets s_proofs set_buckets set_proofs] in *; refold_upd. rewrite upd_N_len.
      destruct (N.eq_dec p q) as [->|Hne].
      * rewrite (upd_N_same _ _ _ _ _ Hn) in H1. inversion H1; subst; cbn in H2. apply (HS q _ b' Hn H2).
      * rewrite upd_N_other in H1 by exact Hne. apply (HS q st' b' H1 H2).
  - cbn [good]. split.
    + intros b' st' H'. unfold s1 in *; cbn [s_buckets s_proofs set_proofs] in *; refold_upd.
      pose proof (live_from_consume b' _ _ _ Hn) as Hc. cbn in Hc. rewrite (HL _ _ H'). lia.
    + intros q st' b' H1 H2. unfold s1 in *; cbn [s_buckets s_proofs set_proofs] in *; refold_upd.
      destruct (N.eq_dec p q) as [->|Hne].
      * rewrite (upd_N_same _ _ _ _ _ Hn) in H1. inversion H1; subst; cbn in H2. discriminate.
      * rewrite upd_N_other in H1 by exact Hne. apply (HS q st' b' H1 H2).
Qed.

Lemma good_consume_res : forall s x, LI s -> good LI (consume_res s x).
Proof.
  intros s x H. unfold consume_res, bind, get_existing_res.
  destruct (nth_N (s_res s) x) as [c|]; [destruct c|]; cbn; try exact I. apply LI_set_res; exact H.
Qed.

Lemma good_fold : forall A S (P : S -> Prop) (f : S -> A -> res S),
  (forall s a, P s -> good P (f s a)) -> forall l s, P s -> good P (fold_res f s l).
Proof.
  intros A S P f Hf; induction l as [|a t IH]; intros s Hs; cbn [fold_res]; [exact Hs|].
  unfold bind. pose proof (Hf s a Hs) as Hg. destruct (f s a) as [s1| |]; cbn in *; [apply IH; exact Hg | exact I | exact Hg].
Qed.

Lemma good_arg : forall rs k s a, LI s -> good LI (handle_arg rs k s a).
Proof.
  intros rs k s a H; destruct a as [b|p|x|n|h|]; cbn [handle_arg].
  - apply good_consume_bucket; exact H.
  - destruct (yields_across k); [exact I | apply good_consume_proof; exact H].
  - apply good_consume_res; exact H.
  - unfold bind, get_existing_named. destruct (n <? s_named s); cbn; [exact H | exact I].
  - destruct (r_blob_refs rs && negb (memN h (s_blobs s))); cbn; [exact I | exact H].
  - exact H.
Qed.

Lemma good_instruction : forall rs m s i, LI s -> good LI (handle_instruction rs m s i).
Proof.
  intros rs m s i H. unfold handle_instruction, bind.
  destruct (if s_req s then if is_invocation i then Ok (set_req s false) else Err ENextCallNotInvocation else Ok s)
    as [s0| |] eqn:E0; cbv beta iota; cbn [good]; try exact I.
  2:{ destruct (s_req s); [destruct (is_invocation i)|]; discriminate. }
  assert (H0 : LI s0) by (destruct (s_req s); [destruct (is_invocation i); [|discriminate]|]; inversion E0; subst; exact H).
  clear E0 H s. rename s0 into s. rename H0 into H.
  destruct i as [f| |b|b|p|p|named az|k args| |a|].
  - (* create bucket *) destruct H as [HL HS]. cbn. split.
    + intros b' st' H'. cbn [s_buckets s_proofs set_buckets] in *.
      apply nth_N_app_inv in H'. destruct H' as [[_ H']|[Hi Hx]]; [apply HL; exact H'|]. subst b' st'. cbn.
      symmetry. unfold live_from. apply cnt_all_false. intros x Hx. unfold livef, src_is.
      destruct (p_src x) as [b'|] eqn:Es; [|apply andb_false_r].
      apply In_nth_error in Hx. destruct Hx as [n Hn].
      assert (Hb : b' < lenN (s_buckets s)).
      { apply (HS (N.of_nat n) x b'); [unfold nth_N; rewrite Nat2N.id; exact Hn | exact Es]. }
      assert (Hq : (lenN (s_buckets s) =? b') = false) by (apply N.eqb_neq; lia). rewrite Hq. apply andb_false_r.
    + intros p st' b' H1 H2. cbn [s_buckets s_proofs set_buckets] in *. rewrite lenN_app.
      pose proof (HS p st' b' H1 H2). lia.
  - apply good_new_proof; exact H.
  - apply good_new_proof; exact H.
  - apply good_consume_bucket; exact H.
  - apply good_consume_proof; exact H.
  - unfold bind. destruct (get_existing_proof s p) as [st| |] eqn:E; cbn; try exact I; [apply good_new_proof; exact H | exact (gep_not_panic _ _ E)].
  - destruct named; [|exact H]. apply good_fold; [intros; apply good_consume_proof; assumption | exact H].
  - unfold handle_invocation, bind.
    match goal with |- good _ (match ?c with _ => _ end) => destruct c as [[]| |] eqn:EK end; cbn; try exact I.
    + apply good_fold; [intros; apply good_arg; assumption | exact H].
    + destruct k as [[n|]|[n|]| | |idx]; try discriminate;
        try (unfold get_existing_named in EK; destruct (r_dyn_addr rs); [destruct (n <? s_named s)|]; discriminate).
      * destruct (m_subintent m); discriminate.
      * destruct (m_children m <=? idx); discriminate.
  - exact H.
  - unfold handle_assertion. destruct (r_assert rs); [|exact H].
    destruct a as [v|v|b vf vnf].
    + destruct v; cbn; [exact H | exact I].
    + destruct v; cbn; [exact H | exact I].
    + unfold bind. destruct (get_existing_bucket s b) as [st| |] eqn:E; cbn; try exact I; [|exact (geb_not_panic _ _ E)].
      destruct (if b_fungible st then vf else vnf); cbn; [exact H | exact I].
  - destruct (m_subintent m); cbn; [exact H | exact I].
Qed.

Lemma LI_after_blobs : forall rs l s s', register_blobs rs s l = Ok s' -> LI s -> LI s'.
Proof.
  intros rs l s s' H [HL HS]. apply register_blobs_spec in H. destruct H as [H1 [H2 [H3 [H4 [H5 H6]]]]].
  split; [intros b st Hb | intros p st b Hp Hs].
  - rewrite H1 in Hb. rewrite H2. apply HL; exact Hb.
  - rewrite H2 in Hp. rewrite H1. apply (HS p st b Hp Hs).
Qed.
Lemma register_blobs_not_panic : forall rs l s, register_blobs rs s l <> Panic.
Proof.
  induction l as [|h t IH]; intro s; cbn [register_blobs]; [discriminate|].
  destruct (memN h (s_blobs s) && r_dup_blobs rs); [discriminate | apply IH].
Qed.
Lemma LI_init : forall m, LI (s_init m).
Proof.
  intro m; split.
  - intros b st H. unfold s_init, nth_N in H; cbn in H. destruct (N.to_nat b); discriminate.
  - intros p st b H. unfold s_init, nth_N in H; cbn in H. destruct (N.to_nat p); discriminate.
Qed.

(* the checked u32 `proof_locks -= 1` never underflows: validation never panics *)
Theorem validate_no_panic : forall rs m, validate rs m <> Panic.
Proof.
  intros rs m. unfold validate, bind.
  destruct (register_blobs rs (s_init m) (m_blobs m)) as [s0| |] eqn:E0; [|discriminate | exfalso; exact (register_blobs_not_panic _ _ _ E0)].
  pose proof (LI_after_blobs _ _ _ _ E0 (LI_init m)) as H0.
  pose proof (good_fold _ _ LI (handle_instruction rs m) (fun s a => good_instruction rs m s a) (m_instrs m) s0 H0) as Hg.
  unfold run_instrs. destruct (fold_res (handle_instruction rs m) s0 (m_instrs m)) as [s1| |]; cbn in Hg; [|discriminate | contradiction].
  unfold verify_final, wrap_up.
  destruct (if m_subintent m then _ else Ok tt) as [[]| |] eqn:EV; try discriminate.
  - destruct (s_req s1); [discriminate|]. destruct (r_dangling rs); [|discriminate].
    destruct (first_index _ (s_buckets s1) 0); [discriminate|]. destruct (first_index negb (s_res s1) 0); discriminate.
  - destruct (m_subintent m); [|discriminate].
    destruct (last (map Some (m_instrs m)) None) as [[| | | | | | |k a| | |]|]; try discriminate. destruct k; discriminate.
Qed.

(* ---- the lock clause at run time -------------------------------------------------------------------- *)
(* a bucket whose counter is 0 has no live proof in the run-time proof map *)
Lemma unlocked_rt : forall blobs s r b st, R blobs s r -> LockInv s ->
  nth_N (s_buckets s) b = Some st -> b_locks st = 0 -> locked b (rt_proofs r) = false.
Proof.
  intros blobs s r b st HR HL Hn H0. destruct (locked b (rt_proofs r)) eqn:E; [|reflexivity]. exfalso.
  unfold locked in E. apply existsb_exists in E. destruct E as [[p src] [Hin He]]. cbn in He.
  destruct src as [b'|]; [|discriminate]. apply N.eqb_eq in He; subst b'.
  apply (R_p _ _ _ HR) in Hin. rewrite (HL _ _ Hn) in H0.
  pose proof (cnt_zero _ _ _ H0 _ (nth_N_In _ _ _ _ Hin)) as Hf. unfold livef, src_is in Hf; cbn in Hf.
  rewrite N.eqb_refl in Hf. discriminate.
Qed.
Lemma take_bucket_cl : forall blobs rs s r b s', R blobs s r -> LI s -> r_lock rs = true ->
  consume_bucket rs s b = Ok s' -> rt_take_bucket true r b = rt_take_bucket false r b.
Proof.
  intros blobs rs s r b s' HR [HL _] Hlock H. unfold consume_bucket, bind in H.
  destruct (get_existing_bucket s b) as [st| |] eqn:E; try discriminate. rewrite Hlock in H. cbn [andb] in H.
  destruct (0 <? b_locks st) eqn:E0; [discriminate|]. apply N.ltb_ge in E0.
  apply geb_ok in E. destruct E as [Hn _]. unfold rt_take_bucket.
  rewrite (unlocked_rt _ _ _ _ _ HR HL Hn ltac:(lia)). reflexivity.
Qed.

Definition sim_out2 (rs : ruleset) (blobs : list N) (s' : sstate) (x : rres) : Prop :=
  match x with ROk r' => R blobs s' r' /\ LI s' | RErr e => allowed rs e end.

Lemma LI_of_ok : forall A (P : A -> Prop) r a, good P r -> r = Ok a -> P a.
Proof. intros A P r a Hg E; subst r; exact Hg. Qed.

Lemma sim_args_cl : forall rs blobs k args s r s', R blobs s r -> LI s -> r_lock rs = true ->
  fold_res (handle_arg rs k) s args = Ok s' ->
  rfold (rt_arg true blobs) r args = rfold (rt_arg false blobs) r args.
Proof.
  induction args as [|a t IH]; intros s r s' HR HI Hl H; cbn [fold_res rfold] in *; [reflexivity|].
  unfold bind in H. destruct (handle_arg rs k s a) as [s1| |] eqn:E; try discriminate.
  assert (Ea : rt_arg true blobs r a = rt_arg false blobs r a).
  { destruct a; cbn [rt_arg]; try reflexivity. cbn [handle_arg] in E. apply (take_bucket_cl _ _ _ _ _ _ HR HI Hl E). }
  rewrite Ea. pose proof (sim_arg _ _ _ _ _ _ _ HR E) as Hs. unfold sim_out in Hs.
  destruct (rt_arg false blobs r a) as [r1|e]; cbn [rbind]; [|reflexivity].
  apply (IH s1 r1 s' Hs); [|exact Hl | exact H].
  apply (LI_of_ok _ _ _ _ (good_arg rs k s a HI) E).
Qed.

Lemma sim_step_cl : forall rs m s r i s', R (m_blobs m) s r -> LI s -> r_lock rs = true ->
  handle_instruction rs m s i = Ok s' ->
  rt_step true (m_blobs m) r i = rt_step false (m_blobs m) r i.
Proof.
  intros rs m s r i s' HR HI Hl H. unfold handle_instruction, bind in H.
  destruct (if s_req s then if is_invocation i then Ok (set_req s false) else Err ENextCallNotInvocation else Ok s)
    as [s0| |] eqn:E0; try discriminate.
  assert (H0 : R (m_blobs m) s0 r /\ LI s0).
  { destruct (s_req s); [destruct (is_invocation i); [|discriminate]|]; inversion E0; subst; split;
      try apply R_set_req; assumption. }
  destruct H0 as [HR0 HI0].
  destruct i as [f| |b|b|p|p|named az|k args| |a|]; cbn [rt_step]; try reflexivity.
  - apply (take_bucket_cl _ _ _ _ _ _ HR0 HI0 Hl H).
  - unfold handle_invocation, bind in H.
    match type of H with (match ?c with _ => _ end) = _ => destruct c as [[]| |] eqn:EK; try discriminate end.
    destruct (match k with KMethod (Some n) | KFunction (Some n) => rt_get_addr r n | _ => ROk r end) as [r1|e] eqn:Ek;
      cbn [rbind]; [|reflexivity].
    assert (r1 = r).
    { destruct k as [[n|]|[n|]| | |idx]; try (inversion Ek; reflexivity);
        unfold rt_get_addr in Ek; destruct (n <? rt_named r); inversion Ek; reflexivity. }
    subst r1. apply (sim_args_cl _ _ _ _ _ _ _ HR0 HI0 Hl H).
Qed.

Lemma sim_run_cl : forall rs m is s r s', R (m_blobs m) s r -> LI s -> r_lock rs = true ->
  fold_res (handle_instruction rs m) s is = Ok s' ->
  rfold (rt_step true (m_blobs m)) r is = rfold (rt_step false (m_blobs m)) r is.
Proof.
  induction is as [|i t IH]; intros s r s' HR HI Hl H; cbn [fold_res rfold] in *; [reflexivity|].
  unfold bind in H. destruct (handle_instruction rs m s i) as [s1| |] eqn:E; try discriminate.
  rewrite (sim_step_cl _ _ _ _ _ _ HR HI Hl E).
  pose proof (sim_step _ _ _ _ _ _ HR E) as Hs. unfold sim_out in Hs.
  destruct (rt_step false (m_blobs m) r i) as [r1|e]; cbn [rbind]; [|reflexivity].
  apply (IH s1 r1 s' Hs); [|exact Hl | exact H].
  apply (LI_of_ok _ _ _ _ (good_instruction rs m s i HI) E).
Qed.

(* on a manifest accepted with the lock check on, the lifecycle specification WITH the lock clause
   takes exactly the transitions of the run-time id maps *)
Theorem rt_run_lock_agree : forall rs m, r_lock rs = true -> validate rs m = Ok tt ->
  rt_run true m = rt_run false m.
Proof.
  intros rs m Hl H. unfold validate, bind in H.
  destruct (register_blobs rs (s_init m) (m_blobs m)) as [s0| |] eqn:E0; try discriminate.
  destruct (run_instrs rs m s0) as [s1| |] eqn:E1; try discriminate.
  unfold rt_run. apply (sim_run_cl rs m _ _ _ _ (R_init _ _ _ E0) (LI_after_blobs _ _ _ _ E0 (LI_init m)) Hl E1).
Qed.

Definition all_checks_lock (rs : ruleset) : Prop := all_checks rs /\ r_lock rs = true.

(* C36_static_sound *)
Theorem static_sound : forall rs m, all_checks_lock rs -> validate rs m = Ok tt ->
  exists f, rt_run true m = ROk f /\ rt_buckets f = [] /\ rt_res f = [] /\
            (m_subintent m = true -> ends_with_yield m).
Proof.
  intros rs m [Hc Hl] H. rewrite (rt_run_lock_agree rs m Hl H). apply (static_sound_nolock rs m Hc H).
Qed.
(* and for every ruleset with the lock check on: the specification with the lock clause never reports a
   bucket consumed while locked *)
Theorem never_locked : forall rs m, r_lock rs = true -> validate rs m = Ok tt ->
  forall b, rt_run true m <> RErr (LockedBucket b).
Proof.
  intros rs m Hl H b E. rewrite (rt_run_lock_agree rs m Hl H) in E.
  pose proof (runtime_never_missing_node rs m H _ E) as Hn. exact Hn.
Qed.

(* ---- child intents: every YIELD_TO_CHILD names a declared child ---------------------------------------- *)
Definition child_ok (m : manifest) (i : instr) : Prop :=
  match i with IInvoke (KYieldToChild idx) _ => idx < m_children m | _ => True end.
Lemma fold_ok_each : forall A S (f : S -> A -> res S) l s s', fold_res f s l = Ok s' ->
  Forall (fun a => exists s1 s2, f s1 a = Ok s2) l.
Proof.
  induction l as [|a t IH]; intros s s' H; [constructor|]. cbn [fold_res] in H. unfold bind in H.
  destruct (f s a) as [s1| |] eqn:E; try discriminate. constructor; [exists s, s1; exact E | apply (IH _ _ H)].
Qed.
Theorem children_declared : forall rs m, validate rs m = Ok tt -> Forall (child_ok m) (m_instrs m).
Proof.
  intros rs m H. unfold validate, bind in H.
  destruct (register_blobs rs (s_init m) (m_blobs m)) as [s0| |]; try discriminate.
  destruct (run_instrs rs m s0) as [s1| |] eqn:E1; try discriminate.
  apply fold_ok_each in E1. eapply Forall_impl; [|exact E1]. intros i [sa [sb Hi]].
  destruct i as [| | | | | | |k args| | |]; try exact I. destruct k as [| | | |idx]; try exact I. cbn [child_ok].
  unfold handle_instruction, bind in Hi.
  destruct (if s_req sa then _ else Ok sa) as [s2| |]; try discriminate.
  unfold handle_invocation, bind in Hi. destruct (m_children m <=? idx) eqn:E; [discriminate|]. apply N.leb_gt in E; exact E.
Qed.
