(* C04 — no fungible balance (vault, bucket in flight, locked fee) is ever negative. *)
From Coq Require Import List ZArith NArith Bool Lia.
Import ListNotations.
Require Import RV.Model.C03_Ledger RV.Proof.C03_Ledger RV.Proof.C03_NF.
Open Scope Z_scope.

Definition nn (e : N * (N * Z)) : Prop := 0 <= snd (snd e).
Definition nnfee (e : N * Z * bool) : Prop := 0 <= snd (fst e).
Record NN (s : state) : Prop := mkNN {
  nn_fv : Forall nn (s_fv s); nn_fb : Forall nn (s_fb s); nn_fees : Forall nnfee (s_fees s) }.

Lemma Forall_adel : forall {V} (P : N * V -> Prop) l k, Forall P l -> Forall P (adel k l).
Proof.
  induction l as [|[k0 v0] t IH]; intros k F; cbn; [constructor|]. inversion F; subst.
  destruct (N.eqb k k0); [assumption|constructor; auto].
Qed.

Lemma f_take_nn : forall l k a l' r0, Forall nn l -> f_take l k a = Ok (l', r0) -> Forall nn l'.
Proof.
  intros l k a l' r0 F H. apply f_take_ok in H. destruct H as (bal & G & L & E). subst.
  apply Forall_aset; [exact F|]. unfold nn. cbn. lia.
Qed.
Lemma f_put_nn : forall l k r a l', Forall nn l -> 0 <= a -> f_put l k r a = Ok l' -> Forall nn l'.
Proof.
  intros l k r a l' F A H. apply f_put_ok in H. destruct H as (bal & G & E). subst.
  pose proof (Forall_aget _ _ _ _ F G) as B. unfold nn in B. cbn in B.
  apply Forall_aset; [exact F|]. unfold nn. cbn. lia.
Qed.
Lemma check_amount_nn : forall a d, check_amount a d = true -> 0 <= a.
Proof. unfold check_amount. intros a d H. apply andb_true_iff in H. destruct H as [H _]. apply Z.leb_le in H. exact H. Qed.

Lemma pay_royalties_nn : forall rs fv fv' evs, Forall nn fv -> Forall (fun x => 0 <= snd x) rs ->
  pay_royalties rs fv = Ok (fv', evs) -> Forall nn fv'.
Proof.
  induction rs as [|[v a] t IH]; intros fv fv' evs F R H; cbn in H.
  - inversion H; subst. exact F.
  - unfold bind in H. destruct (f_put fv v XRD a) as [fv1| |] eqn:P; try discriminate.
    destruct (pay_royalties t fv1) as [[fv2 ev2]| |] eqn:Q; try discriminate. inversion H; subst; clear H.
    inversion R; subst. eapply IH; [|eassumption|exact Q]. eapply f_put_nn; eauto.
Qed.
Lemma pay_fees_nn : forall success fees fv rq col fv' evs rq' col', Forall nn fv ->
  pay_fees success fees fv rq col = Ok (fv', evs, rq', col') -> Forall nn fv'.
Proof.
  induction fees as [|[[v locked] cont] t IH]; intros fv rq col fv' evs rq' col' F H; cbn in H.
  - inversion H; subst. exact F.
  - destruct (locked <? _) eqn:L; [discriminate|]. apply Z.ltb_ge in L.
    destruct (csub locked _) as [rest|] eqn:C1; [|discriminate]. apply csub_some in C1.
    destruct (cadd col _); [|discriminate]. destruct (csub rq _); [|discriminate]. unfold bind in H.
    destruct (f_put fv v XRD rest) as [fv1| |] eqn:P; try discriminate.
    destruct (pay_fees success t fv1 _ _) as [[[[fv2 ev2] rq2] col2]| |] eqn:Q; try discriminate.
    inversion H; subst; clear H. eapply IH; [|exact Q]. eapply f_put_nn; [exact F| |exact P]. lia.
Qed.

Lemma finalize_nn : forall p s s' evs, NN s -> fee_ok p -> finalize_fees p s = Ok (s', evs) -> NN s'.
Proof.
  unfold finalize_fees, bind. intros p s s' evs [F1 F2 F3] (FC & TB & TR & RY & RN) H.
  destruct (pay_royalties (fp_royalties p) (s_fv s)) as [[fv1 ev1]| |] eqn:P1; try discriminate.
  destruct (pay_fees (fp_success p) (rev (s_fees s)) fv1 (fp_total_cost p) 0) as [[[[fv2 ev2] required] collected]| |] eqn:P2; try discriminate.
  destruct (cadd collected _) as [col|]; [|discriminate].
  destruct (csub required _) as [req|]; [|discriminate].
  destruct (negb (req =? 0)); [discriminate|].
  destruct (csub col _); [|discriminate]. destruct (cadd (fp_to_rewards p) _); [|discriminate].
  destruct (negb _); [discriminate|].
  pose proof (pay_royalties_nn _ _ _ _ F1 RN P1) as N1. pose proof (pay_fees_nn _ _ _ _ _ _ _ _ _ N1 P2) as N2.
  destruct (negb (fp_to_rewards p =? 0)).
  - destruct (col <? fp_to_rewards p); [discriminate|].
    destruct (f_put fv2 _ XRD _) as [fv3| |] eqn:P3; try discriminate. inversion H; subst.
    constructor; cbn; [eapply f_put_nn; [exact N2| |exact P3]; lia|exact F2|constructor].
  - inversion H; subst. constructor; cbn; [exact N2|exact F2|constructor].
Qed.

Lemma supply_add_nn : forall s r d s', NN s -> supply_add s r d = Ok s' -> NN s'.
Proof.
  intros s r d s' [F1 F2 F3] H. apply supply_add_spec in H. destruct H as (A & _ & C & _ & _ & F & _).
  constructor; rewrite ?A, ?C, ?F; assumption.
Qed.

Ltac nn_same H F1 F2 F3 := inversion H; subst; clear H; constructor;
  cbn [s_fv s_fb s_fees set_res set_fv set_nv set_fb set_nb set_data set_fees]; auto using Forall_adel.

Theorem step_NN : forall s o s' evs, NN s -> step s o = Ok (s', evs) -> op_ok o -> NN s'.
Proof.
  intros s o s' evs [F1 F2 F3] H OK. destruct o; cbn [step] in H; cbn [op_ok] in OK.
  - (* OCreateF *) ok_inv H. destruct initial as [[a b]|]; ok_inv H.
    + match goal with Q : check_mint_amount _ _ = Ok _ |- _ => apply check_mint_amount_ok in Q end.
      inversion H; subst; clear H. constructor; cbn; auto; try (constructor; [unfold nn; cbn; lia|assumption]).
    + nn_same H F1 F2 F3.
  - (* OCreateN *) ok_inv H. destruct initial as [[ids b]|]; ok_inv H; nn_same H F1 F2 F3.
  - (* OMintF *) ok_inv H. match goal with Q : check_mint_amount _ _ = Ok _ |- _ => apply check_mint_amount_ok in Q end.
    inversion H; subst; clear H. eapply supply_add_nn; [|eassumption]. constructor; cbn; auto; try (constructor; [unfold nn; cbn; lia|assumption]).
  - (* OMintN *) ok_inv H. inversion H; subst; clear H.
    match goal with Q : supply_add _ _ _ = Ok _ |- _ => pose proof (supply_add_nn _ _ _ _ (mkNN s F1 F2 F3) Q) as [G1 G2 G3] end.
    constructor; cbn; assumption.
  - (* OBurn *) destruct (aget b (s_fb s)) as [[r0 a]|] eqn:G1.
    + ok_inv H. inversion H; subst; clear H. eapply supply_add_nn; [|eassumption]. constructor; cbn; auto using Forall_adel.
    + destruct (aget b (s_nb s)) as [[r0 ids]|] eqn:G2; [|discriminate]. ok_inv H. inversion H; subst; clear H.
      match goal with Q : supply_add _ _ _ = Ok _ |- _ => assert (NN0 : NN (set_nb s (adel b (s_nb s)))) by (constructor; cbn; assumption);
        pose proof (supply_add_nn _ _ _ _ NN0 Q) as [G1' G2' G3'] end.
      constructor; cbn; assumption.
  - ok_inv H. match type of H with context [r_nf ?ri] => destruct (r_nf ri) end; inversion H; subst; clear H; constructor; cbn; auto; try (constructor; [unfold nn; cbn; lia|assumption]).
  - ok_inv H. match type of H with context [r_nf ?ri] => destruct (r_nf ri) end; inversion H; subst; clear H; constructor; cbn; auto; try (constructor; [unfold nn; cbn; lia|assumption]).
  - destruct (aget b (s_fb s)) as [[r0 a]|] eqn:G1.
    + destruct (a =? 0); [|discriminate]. nn_same H F1 F2 F3.
    + destruct (aget b (s_nb s)) as [[r0 ids]|] eqn:G2; [|discriminate]. destruct ids; [|discriminate]. nn_same H F1 F2 F3.
  - (* OVaultTake *) ok_inv H. match goal with Q : check_amount _ _ = true |- _ => apply check_amount_nn in Q end.
    match goal with Q : f_take _ _ _ = Ok _ |- _ => pose proof (f_take_nn _ _ _ _ _ F1 Q) end.
    inversion H; subst; clear H. constructor; cbn; auto; try (constructor; [unfold nn; cbn; lia|assumption]).
  - ok_inv H. nn_same H F1 F2 F3.
  - ok_inv H. nn_same H F1 F2 F3.
  - (* OVaultPut *) destruct (aget b (s_fb s)) as [[r0 a]|] eqn:G1.
    + pose proof (Forall_aget _ _ _ _ F2 G1) as A. unfold nn in A. cbn in A.
      ok_inv H. destruct (a =? 0); [nn_same H F1 F2 F3|]. ok_inv H.
      match goal with Q : f_put _ _ _ _ = Ok _ |- _ => cbn in Q; pose proof (f_put_nn _ _ _ _ _ F1 A Q) end.
      inversion H; subst; clear H. constructor; cbn; auto using Forall_adel.
    + destruct (aget b (s_nb s)) as [[r0 ids]|] eqn:G2; [|discriminate].
      ok_inv H. destruct ids; [nn_same H F1 F2 F3|]. ok_inv H. nn_same H F1 F2 F3.
  - (* OVaultRecall *) ok_inv H. match goal with Q : check_amount _ _ = true |- _ => apply check_amount_nn in Q end.
    match goal with Q : f_take _ _ _ = Ok _ |- _ => pose proof (f_take_nn _ _ _ _ _ F1 Q) end.
    inversion H; subst; clear H. constructor; cbn; auto; try (constructor; [unfold nn; cbn; lia|assumption]).
  - ok_inv H. nn_same H F1 F2 F3.
  - (* OBucketTake *) ok_inv H. match goal with Q : check_amount _ _ = true |- _ => apply check_amount_nn in Q end.
    match goal with Q : f_take _ _ _ = Ok _ |- _ => pose proof (f_take_nn _ _ _ _ _ F2 Q) end.
    inversion H; subst; clear H. constructor; cbn; auto; try (constructor; [unfold nn; cbn; lia|assumption]).
  - ok_inv H. nn_same H F1 F2 F3.
  - (* OBucketPut *) destruct (N.eqb b b'); [discriminate|].
    destruct (aget b' (s_fb s)) as [[r0 a]|] eqn:G1.
    + pose proof (Forall_aget _ _ _ _ F2 G1) as A. unfold nn in A. cbn in A. ok_inv H.
      match goal with Q : f_put _ _ _ _ = Ok _ |- _ => pose proof (f_put_nn _ _ _ _ _ (Forall_adel _ _ b' F2) A Q) end.
      inversion H; subst; clear H. constructor; cbn; auto.
    + destruct (aget b' (s_nb s)) as [[r0 ids]|] eqn:G2; [|discriminate]. ok_inv H. nn_same H F1 F2 F3.
  - (* OLockFee *) ok_inv H. match goal with Q : check_amount _ _ = true |- _ => apply check_amount_nn in Q end.
    match goal with Q : f_take _ _ _ = Ok _ |- _ => pose proof (f_take_nn _ _ _ _ _ F1 Q) end.
    inversion H; subst; clear H. constructor; cbn; auto. apply Forall_app. split; [exact F3|]. constructor; [unfold nnfee; cbn; lia|constructor].
  - (* OPayFee *) eapply finalize_nn; eauto. constructor; assumption.
Qed.

Theorem run_NN : forall ops s s' evs, NN s -> run s ops = Ok (s', evs) -> Forall op_ok ops -> NN s'.
Proof.
  induction ops as [|o t IH]; intros s s' evs I H OK; cbn in H.
  - inversion H; subst. exact I.
  - unfold bind in H. destruct (step s o) as [[s1 e1]| |] eqn:S1; try discriminate.
    destruct (run s1 t) as [[s2 e2]| |] eqn:S2; try discriminate. inversion H; subst; clear H.
    inversion OK; subst. eapply IH; [|exact S2|assumption]. eapply step_NN; eauto.
Qed.
