(* Proof/C26_Valuation.v — divisibility by powers of 10 through the primes 2 and 5 *)
From Coq Require Import ZArith Znumtheory Zpow_facts Lia.
Open Scope Z_scope.

Lemma prime_5 : prime 5.
Proof.
  apply prime_intro; [lia|]. intros n Hn.
  assert (H : n = 1 \/ n = 2 \/ n = 3 \/ n = 4) by lia.
  destruct H as [->|[->|[->| ->]]]; apply Zgcd_1_rel_prime; reflexivity.
Qed.

Section Prime.
  Variable p : Z.
  Hypothesis Hp : prime p.
  Lemma p_ge_2 : 2 <= p. Proof. destruct Hp. lia. Qed.

  (* a = p^v * c with p not dividing c *)
  Lemma pfactor_fuel : forall (n : nat) a, a <> 0 -> Z.abs a < 2 ^ Z.of_nat n ->
    exists v c, 0 <= v /\ a = p ^ v * c /\ ~ (p | c).
  Proof.
    pose proof p_ge_2 as H2.
    induction n as [|n IH]; intros a Ha Hb.
    - change (2 ^ Z.of_nat 0) with 1 in Hb. lia.
    - destruct (Zdivide_dec p a) as [[a' Ea]|Hnd].
      + rewrite Nat2Z.inj_succ, Z.pow_succ_r in Hb by lia.
        assert (Ha' : a' <> 0) by (intros ->; lia).
        assert (Hb' : Z.abs a' < 2 ^ Z.of_nat n).
        { rewrite Ea, Z.abs_mul in Hb. rewrite (Z.abs_eq p) in Hb by lia. nia. }
        destruct (IH a' Ha' Hb') as (v & c & Hv & Ec & Hc).
        exists (v + 1), c. split; [lia|]. split; [|exact Hc].
        rewrite Ea, Ec, Z.pow_add_r, Z.pow_1_r by lia. ring.
      + exists 0, a. split; [lia|]. split; [rewrite Z.pow_0_r; ring|exact Hnd].
  Qed.
  Lemma pfactor a : a <> 0 -> exists v c, 0 <= v /\ a = p ^ v * c /\ ~ (p | c).
  Proof.
    intros Ha. apply (pfactor_fuel (S (Z.to_nat (Z.log2 (Z.abs a)))) a Ha).
    rewrite Nat2Z.inj_succ, Z2Nat.id by apply Z.log2_nonneg.
    destruct (Z.log2_spec (Z.abs a) ltac:(lia)). lia.
  Qed.

  Lemma not_div_pow c n : ~ (p | c) -> 0 <= n -> ~ (p | c ^ n).
  Proof.
    intros Hc Hn. pattern n. apply natlike_ind; [| |exact Hn].
    - rewrite Z.pow_0_r. intros [k Hk]. pose proof p_ge_2. destruct (Z.eq_dec k 0); nia.
    - intros x Hx IH H. rewrite Z.pow_succ_r in H by lia.
      destruct (prime_mult p Hp _ _ H); tauto.
  Qed.

  (* p^k | (p^v c)^n  <->  k <= v n *)
  Lemma pow_div_iff v c n k : ~ (p | c) -> 0 <= v -> 0 <= n -> 0 <= k ->
    ((p ^ k | (p ^ v * c) ^ n) <-> k <= v * n).
  Proof.
    intros Hc Hv Hn Hk. pose proof p_ge_2 as H2.
    assert (Hpp : forall j, 0 <= j -> p ^ j <> 0) by (intros; apply Z.pow_nonzero; lia).
    rewrite Z.pow_mul_l, <- Z.pow_mul_r by lia. split.
    - intros H. destruct (Z_le_gt_dec k (v * n)) as [|Hgt]; [assumption|exfalso].
      assert (H' : (p ^ (v * n) * p | p ^ (v * n) * c ^ n)).
      { eapply Z.divide_trans; [|exact H].
        replace k with (v * n + 1 + (k - v * n - 1)) by lia.
        rewrite !Z.pow_add_r, Z.pow_1_r by nia. exists (p ^ (k - v * n - 1)). ring. }
      apply Z.mul_divide_cancel_l in H'; [|apply Hpp; nia].
      apply (not_div_pow c n Hc Hn H').
    - intros Hle. replace (v * n) with (k + (v * n - k)) by lia. rewrite Z.pow_add_r by lia.
      exists (p ^ (v * n - k) * c ^ n). ring.
  Qed.
End Prime.

(* 10^k | z  <->  2^k | z /\ 5^k | z *)
Lemma pow10_div_iff k z : 0 <= k -> ((10 ^ k | z) <-> (2 ^ k | z) /\ (5 ^ k | z)).
Proof.
  intros Hk. change 10 with (2 * 5). rewrite Z.pow_mul_l. split.
  - intros H. split; (eapply Z.divide_trans; [|exact H]); [exists (5 ^ k)|exists (2 ^ k)]; ring.
  - intros [[t Ht] H5]. subst z.
    assert (Hr : rel_prime (5 ^ k) (2 ^ k)).
    { apply rel_prime_Zpower; try lia. apply Zgcd_1_rel_prime. reflexivity. }
    rewrite Z.mul_comm in H5. apply (Gauss _ _ _ H5) in Hr. destruct Hr as [t' ->].
    exists t'. ring.
Qed.

(* ---- the divisibility facts about D = 10^s needed by checked_powi ---- *)
Section OnePrime.
  Variable p : Z.
  Hypothesis Hp : prime p.

  Lemma claimA_p a e s : a <> 0 -> 2 <= e -> 0 < s ->
    (p ^ (s * (e - 1)) | a ^ e) -> (p ^ s | a ^ 2).
  Proof.
    intros Ha He Hs H. destruct (pfactor p Hp a Ha) as (v & c & Hv & Ea & Hc). subst a.
    apply (pow_div_iff p Hp v c e _ Hc) in H; try nia.
    apply (pow_div_iff p Hp v c 2 _ Hc); try lia.
    destruct (Z_le_gt_dec s (v * 2)) as [|Hgt]; [assumption|exfalso]. nia.
  Qed.

  Lemma claimB_p a e s : a <> 0 -> 2 <= e -> 0 < s ->
    (p ^ (s * (e - 1)) | a ^ e) -> (p ^ (s * (e - 2)) | a ^ (e - 1)).
  Proof.
    intros Ha He Hs H. destruct (pfactor p Hp a Ha) as (v & c & Hv & Ea & Hc). subst a.
    apply (pow_div_iff p Hp v c e _ Hc) in H; try nia.
    apply (pow_div_iff p Hp v c (e - 1) _ Hc); nia.
  Qed.
End OnePrime.

Section Ten.
  Variable s : Z.
  Hypothesis Hs : 0 < s.
  Local Notation D := (10 ^ s).

  Lemma D_pos : 0 < D. Proof. apply Z.pow_pos_nonneg; lia. Qed.

  Lemma Dpow_div_iff k z : 0 <= k -> ((D ^ k | z) <-> (2 ^ (s * k) | z) /\ (5 ^ (s * k) | z)).
  Proof. intros Hk. rewrite <- Z.pow_mul_r by lia. apply pow10_div_iff. nia. Qed.

  (* D^(e-1) | a^e  ->  D | a^2 *)
  Lemma claimA a e : 2 <= e -> (D ^ (e - 1) | a ^ e) -> (D | a * a).
  Proof.
    intros He H. destruct (Z.eq_dec a 0) as [->|Ha]; [exists 0; ring|].
    apply (Dpow_div_iff (e - 1)) in H; [|lia]. destruct H as [H2 H5].
    replace (a * a) with (a ^ 2) by ring. rewrite <- (Z.pow_1_r D).
    apply (Dpow_div_iff 1); [lia|]. rewrite Z.mul_1_r. split.
    - apply (claimA_p 2 prime_2 a e s); assumption.
    - apply (claimA_p 5 prime_5 a e s); assumption.
  Qed.

  (* D^(e-1) | a^e  ->  D^(e-2) | a^(e-1) *)
  Lemma claimB a e : 2 <= e -> (D ^ (e - 1) | a ^ e) -> (D ^ (e - 2) | a ^ (e - 1)).
  Proof.
    intros He H. destruct (Z.eq_dec a 0) as [->|Ha].
    { rewrite Z.pow_0_l by lia. exists 0; ring. }
    apply (Dpow_div_iff (e - 1)) in H; [|lia]. destruct H as [H2 H5].
    apply (Dpow_div_iff (e - 2)); [lia|]. split.
    - apply (claimB_p 2 prime_2 a e s); assumption.
    - apply (claimB_p 5 prime_5 a e s); assumption.
  Qed.

  Lemma not2_5pow k : 0 <= k -> ~ (2 | 5 ^ k).
  Proof. intros Hk. apply (not_div_pow 2 prime_2); [|exact Hk]. intros [q Hq]. lia. Qed.
  Lemma not5_2pow k : 0 <= k -> ~ (5 | 2 ^ k).
  Proof. intros Hk. apply (not_div_pow 5 prime_5); [|exact Hk]. intros [q Hq]. lia. Qed.

  (* a^n | D^(n+1), n >= 1: a is +-2^u 5^w with bounded exponents *)
  Lemma claimC_struct a n : a <> 0 -> 1 <= n -> (a ^ n | D ^ (n + 1)) ->
    exists u w c, 0 <= u /\ 0 <= w /\ (c = 1 \/ c = -1) /\ a = 2 ^ u * 5 ^ w * c /\
                  u * n <= s * (n + 1) /\ w * n <= s * (n + 1).
  Proof.
    intros Ha Hn H.
    destruct (pfactor 2 prime_2 a Ha) as (u & c2 & Hu & Ea & Hc2).
    assert (Hc2nz : c2 <> 0) by (intros ->; apply Hc2; exists 0; ring).
    destruct (pfactor 5 prime_5 c2 Hc2nz) as (w & c & Hw & Ec2 & Hc5).
    assert (Hc2' : ~ (2 | c)).
    { intros [q Hq]. apply Hc2. exists (5 ^ w * q). rewrite Ec2, Hq. ring. }
    assert (Hdiv : (a | D ^ (n + 1))).
    { eapply Z.divide_trans; [|exact H]. exists (a ^ (n - 1)).
      replace n with (Z.succ (n - 1)) at 1 by lia. rewrite Z.pow_succ_r by lia. ring. }
    (* the part of a coprime to 10 is a unit *)
    set (N := s * (n + 1)).
    assert (HN : 0 <= N) by (unfold N; nia).
    assert (HD : D ^ (n + 1) = 2 ^ N * 5 ^ N).
    { rewrite <- Z.pow_mul_r by lia. fold N. change 10 with (2 * 5). apply Z.pow_mul_l. }
    assert (Hcd : (c | 2 ^ N * 5 ^ N)).
    { rewrite <- HD. eapply Z.divide_trans; [|exact Hdiv]. exists (2 ^ u * 5 ^ w). rewrite Ea, Ec2. ring. }
    assert (Hr2 : rel_prime c (2 ^ N)).
    { apply rel_prime_Zpower_r; [exact HN|]. apply rel_prime_sym, prime_rel_prime; [exact prime_2|exact Hc2']. }
    apply (Gauss _ _ _ Hcd) in Hr2.
    assert (Hr5 : rel_prime c (5 ^ N)).
    { apply rel_prime_Zpower_r; [exact HN|]. apply rel_prime_sym, prime_rel_prime; [exact prime_5|exact Hc5]. }
    rewrite <- (Z.mul_1_r (5 ^ N)) in Hr2. apply (Gauss _ _ _ Hr2) in Hr5.
    apply Z.divide_1_r in Hr5.
    (* exponent bounds *)
    assert (Hu2 : u * n <= s * (n + 1)).
    { assert (Hd2 : (2 ^ (u * n) | (2 ^ s * 5 ^ s) ^ (n + 1))).
      { rewrite <- Z.pow_mul_l. change (2 * 5) with 10. eapply Z.divide_trans; [|exact H].
        rewrite Ea. apply (pow_div_iff 2 prime_2 u c2 n _ Hc2); nia. }
      apply (pow_div_iff 2 prime_2 s (5 ^ s) (n + 1) _ (not2_5pow s ltac:(lia))) in Hd2; nia. }
    assert (Hw5 : w * n <= s * (n + 1)).
    { assert (Hd5 : (5 ^ (w * n) | (5 ^ s * 2 ^ s) ^ (n + 1))).
      { rewrite <- Z.pow_mul_l. change (5 * 2) with 10. eapply Z.divide_trans; [|exact H].
        assert (Ea5 : a = 5 ^ w * (2 ^ u * c)) by (rewrite Ea, Ec2; ring). rewrite Ea5.
        assert (Hn5 : ~ (5 | 2 ^ u * c)).
        { intros Hx. destruct (prime_mult 5 prime_5 _ _ Hx) as [Hy|Hy]; [apply (not5_2pow u Hu Hy)|tauto]. }
        apply (pow_div_iff 5 prime_5 w (2 ^ u * c) n _ Hn5); nia. }
      apply (pow_div_iff 5 prime_5 s (2 ^ s) (n + 1) _ (not5_2pow s ltac:(lia))) in Hd5; nia. }
    exists u, w, c. repeat split; try assumption. rewrite Ea, Ec2. ring.
  Qed.

  (* a^n | D^(n+1), n >= 1  ->  a | D^2 *)
  Lemma claimC a n : a <> 0 -> 1 <= n -> (a ^ n | D ^ (n + 1)) -> (a | D * D).
  Proof.
    intros Ha Hn H. destruct (claimC_struct a n Ha Hn H) as (u & w & c & Hu & Hw & Hc & Ea & Hu2 & Hw5).
    assert (Hu' : u <= 2 * s) by nia. assert (Hw' : w <= 2 * s) by nia.
    assert (HDD : D * D = 2 ^ (2 * s) * 5 ^ (2 * s)).
    { rewrite <- Z.pow_2_r, <- Z.pow_mul_r by lia. change 10 with (2 * 5). rewrite Z.pow_mul_l. f_equal; f_equal; lia. }
    rewrite HDD, Ea.
    replace (2 * s) with (u + (2 * s - u)) at 1 by lia. replace (2 * s) with (w + (2 * s - w)) at 2 by lia.
    rewrite !Z.pow_add_r by lia.
    destruct Hc as [-> | ->].
    - exists (2 ^ (2 * s - u) * 5 ^ (2 * s - w)). ring.
    - exists (- (2 ^ (2 * s - u) * 5 ^ (2 * s - w))). ring.
  Qed.

  (* for an exponent above s even  a | D *)
  Lemma claimD a n : a <> 0 -> s < n -> (a ^ n | D ^ (n + 1)) -> (a | D).
  Proof.
    intros Ha Hn H. destruct (claimC_struct a n Ha ltac:(lia) H) as (u & w & c & Hu & Hw & Hc & Ea & Hu2 & Hw5).
    assert (Hu' : u <= s) by nia. assert (Hw' : w <= s) by nia.
    assert (HDD : D = 2 ^ s * 5 ^ s) by (change 10 with (2 * 5); apply Z.pow_mul_l).
    assert (E2 : 2 ^ s = 2 ^ u * 2 ^ (s - u)) by (rewrite <- Z.pow_add_r by lia; f_equal; lia).
    assert (E5 : 5 ^ s = 5 ^ w * 5 ^ (s - w)) by (rewrite <- Z.pow_add_r by lia; f_equal; lia).
    rewrite HDD, E2, E5, Ea.
    destruct Hc as [-> | ->].
    - exists (2 ^ (s - u) * 5 ^ (s - w)). ring.
    - exists (- (2 ^ (s - u) * 5 ^ (s - w))). ring.
  Qed.
End Ten.
