(* Lib/Bytes — byte strings as `list N`, lexicographic order, slicing with Rust panic semantics,
   little/big-endian integer codecs.  Shared library (logical path RV.Lib.Bytes).

   Conventions: a byte is an `N`; "is a real byte" (< 256) is the boolean `byte_ok`, carried
   separately (`bytes_ok`) and only required where a lemma needs it (codec round trips).  The
   order `bcmp` is the order of Rust's `Vec<u8>` / `[u8]` (`Ord`): lexicographic, a proper prefix
   is smaller.  Closed under the global context (no axioms). *)
From Coq Require Import List Arith NArith Bool Lia.
Import ListNotations.
Open Scope N_scope.

Definition byte := N.
Definition bytes := list N.

Definition byte_ok (b : N) : bool := b <? 256.
Definition bytes_ok (l : bytes) : bool := forallb byte_ok l.

(* ---------------------------------------------------------------------------------------- *)
(* equality                                                                                 *)
(* ---------------------------------------------------------------------------------------- *)
Fixpoint beqb (a b : bytes) : bool :=
  match a, b with
  | [], [] => true
  | x :: a', y :: b' => (x =? y) && beqb a' b'
  | _, _ => false
  end.

Lemma beqb_eq : forall a b, beqb a b = true <-> a = b.
Proof.
  induction a as [|x a IH]; destruct b as [|y b]; cbn [beqb]; split; intro E;
    try reflexivity; try discriminate.
  - apply andb_true_iff in E. destruct E as [E1 E2]. apply N.eqb_eq in E1. apply IH in E2. congruence.
  - inversion E; subst. rewrite N.eqb_refl. cbn. apply IH. reflexivity.
Qed.
Lemma beqb_refl : forall a, beqb a a = true.
Proof. intro a. apply beqb_eq. reflexivity. Qed.
Lemma beqb_neq : forall a b, beqb a b = false <-> a <> b.
Proof.
  intros a b. split.
  - intros E C. apply beqb_eq in C. congruence.
  - intro C. destruct (beqb a b) eqn:E; [apply beqb_eq in E; contradiction|reflexivity].
Qed.
Definition bytes_eq_dec (a b : bytes) : {a = b} + {a <> b}.
Proof. destruct (beqb a b) eqn:E; [left; apply beqb_eq; exact E|right; apply beqb_neq; exact E]. Defined.

(* ---------------------------------------------------------------------------------------- *)
(* lexicographic order                                                                      *)
(* ---------------------------------------------------------------------------------------- *)
Fixpoint bcmp (a b : bytes) : comparison :=
  match a, b with
  | [], [] => Eq
  | [], _ :: _ => Lt
  | _ :: _, [] => Gt
  | x :: a', y :: b' => match x ?= y with Eq => bcmp a' b' | c => c end
  end.

Definition blt (a b : bytes) : bool := match bcmp a b with Lt => true | _ => false end.
Definition ble (a b : bytes) : bool := match bcmp a b with Gt => false | _ => true end.

Lemma bcmp_refl : forall a, bcmp a a = Eq.
Proof. induction a as [|x a IH]; cbn [bcmp]; [reflexivity|]. rewrite N.compare_refl. exact IH. Qed.

Lemma bcmp_eq : forall a b, bcmp a b = Eq <-> a = b.
Proof.
  induction a as [|x a IH]; destruct b as [|y b]; cbn [bcmp]; split; intro E;
    try reflexivity; try discriminate.
  - destruct (x ?= y) eqn:C; try discriminate. apply N.compare_eq in C. apply IH in E. congruence.
  - inversion E; subst. apply (bcmp_refl (y :: b)).
Qed.

Lemma bcmp_antisym : forall a b, bcmp b a = CompOpp (bcmp a b).
Proof.
  induction a as [|x a IH]; destruct b as [|y b]; cbn [bcmp]; try reflexivity.
  rewrite (N.compare_antisym x y). destruct (x ?= y); cbn [CompOpp]; [apply IH|reflexivity|reflexivity].
Qed.

Lemma bcmp_lt_trans : forall a b c, bcmp a b = Lt -> bcmp b c = Lt -> bcmp a c = Lt.
Proof.
  induction a as [|x a IH]; destruct b as [|y b]; destruct c as [|z c]; cbn [bcmp];
    intros H1 H2; try reflexivity; try discriminate.
  destruct (x ?= y) eqn:C1; try discriminate; destruct (y ?= z) eqn:C2; try discriminate.
  - apply N.compare_eq in C1. apply N.compare_eq in C2. subst. rewrite N.compare_refl. eapply IH; eassumption.
  - apply N.compare_eq in C1. subst. rewrite C2. reflexivity.
  - apply N.compare_eq in C2. subst. rewrite C1. reflexivity.
  - assert (x ?= z = Lt) as ->; [|reflexivity].
    rewrite N.compare_lt_iff in *. eapply N.lt_trans; eassumption.
Qed.

(* blt is a decidable strict total order *)
Lemma blt_irrefl : forall a, blt a a = false.
Proof. intro a. unfold blt. rewrite bcmp_refl. reflexivity. Qed.
Lemma blt_trans : forall a b c, blt a b = true -> blt b c = true -> blt a c = true.
Proof.
  unfold blt. intros a b c H1 H2.
  destruct (bcmp a b) eqn:E1; try discriminate. destruct (bcmp b c) eqn:E2; try discriminate.
  rewrite (bcmp_lt_trans _ _ _ E1 E2). reflexivity.
Qed.
Lemma blt_asym : forall a b, blt a b = true -> blt b a = false.
Proof. unfold blt. intros a b H. rewrite (bcmp_antisym a b). destruct (bcmp a b); try discriminate. reflexivity. Qed.
Lemma blt_total : forall a b, blt a b = false -> blt b a = false -> a = b.
Proof.
  unfold blt. intros a b H1 H2. rewrite (bcmp_antisym a b) in H2. apply bcmp_eq.
  destruct (bcmp a b); cbn in *; try discriminate; reflexivity.
Qed.
Lemma blt_trichotomy : forall a b, {blt a b = true} + {a = b} + {blt b a = true}.
Proof.
  intros a b. destruct (blt a b) eqn:E1; [left; left; reflexivity|].
  destruct (blt b a) eqn:E2; [right; reflexivity|]. left; right. apply blt_total; assumption.
Qed.

Lemma ble_negb_blt : forall a b, ble a b = negb (blt b a).
Proof. intros a b. unfold ble, blt. rewrite (bcmp_antisym a b). destruct (bcmp a b); reflexivity. Qed.
Lemma ble_lt_or_eq : forall a b, ble a b = true <-> blt a b = true \/ a = b.
Proof.
  intros a b. unfold ble, blt. destruct (bcmp a b) eqn:E; split; intro H; try reflexivity; try discriminate.
  - right. apply bcmp_eq. exact E.
  - left. reflexivity.
  - destruct H as [H|H]; [discriminate|]. apply bcmp_eq in H. congruence.
Qed.
Lemma ble_refl : forall a, ble a a = true.
Proof. intro a. apply ble_lt_or_eq. right. reflexivity. Qed.
Lemma blt_ble_trans : forall a b c, blt a b = true -> ble b c = true -> blt a c = true.
Proof. intros a b c H1 H2. apply ble_lt_or_eq in H2. destruct H2 as [H2 | <-]; [eapply blt_trans; eassumption|exact H1]. Qed.
Lemma ble_blt_trans : forall a b c, ble a b = true -> blt b c = true -> blt a c = true.
Proof. intros a b c H1 H2. apply ble_lt_or_eq in H1. destruct H1 as [H1 | ->]; [eapply blt_trans; eassumption|exact H2]. Qed.
Lemma ble_trans : forall a b c, ble a b = true -> ble b c = true -> ble a c = true.
Proof.
  intros a b c H1 H2. apply ble_lt_or_eq in H1. destruct H1 as [H1| ->]; [|exact H2].
  apply ble_lt_or_eq. left. eapply blt_ble_trans; eassumption.
Qed.
Lemma ble_antisym : forall a b, ble a b = true -> ble b a = true -> a = b.
Proof. intros a b H1 H2. rewrite ble_negb_blt in H1, H2. apply negb_true_iff in H1, H2. apply blt_total; assumption. Qed.
Lemma blt_neq : forall a b, blt a b = true -> a <> b.
Proof. intros a b H E. subst. rewrite blt_irrefl in H. discriminate. Qed.
Lemma ble_nil : forall a, ble [] a = true.
Proof. destruct a; reflexivity. Qed.

(* ---------------------------------------------------------------------------------------- *)
(* order and concatenation                                                                  *)
(* ---------------------------------------------------------------------------------------- *)
Lemma bcmp_app_l : forall p a b, bcmp (p ++ a) (p ++ b) = bcmp a b.
Proof. induction p as [|x p IH]; intros a b; cbn [app bcmp]; [reflexivity|]. rewrite N.compare_refl. apply IH. Qed.
Lemma blt_app_l : forall p a b, blt (p ++ a) (p ++ b) = blt a b.
Proof. intros. unfold blt. rewrite bcmp_app_l. reflexivity. Qed.
Lemma ble_app_l : forall p a b, ble (p ++ a) (p ++ b) = ble a b.
Proof. intros. unfold ble. rewrite bcmp_app_l. reflexivity. Qed.

(* two strings with equal-length heads compare by the heads first, then by the tails *)
Lemma bcmp_app_eq_len : forall a a' x y, length a = length a' ->
  bcmp (a ++ x) (a' ++ y) = match bcmp a a' with Eq => bcmp x y | c => c end.
Proof.
  induction a as [|h a IH]; destruct a' as [|h' a']; intros x y L; cbn in L; try discriminate.
  - reflexivity.
  - cbn [app bcmp]. destruct (h ?= h'); try reflexivity. apply IH. congruence.
Qed.
Lemma blt_app_eq_len : forall a a' x y, length a = length a' -> blt a a' = true -> blt (a ++ x) (a' ++ y) = true.
Proof.
  unfold blt. intros a a' x y L H. rewrite bcmp_app_eq_len by exact L.
  destruct (bcmp a a'); try discriminate. reflexivity.
Qed.
(* ... and when the equal-length heads differ, the heads alone decide *)
Lemma bcmp_app_decided : forall a a' x y, length a = length a' -> bcmp a a' <> Eq ->
  bcmp (a ++ x) (a' ++ y) = bcmp a a'.
Proof. intros a a' x y L N. rewrite bcmp_app_eq_len by exact L. destruct (bcmp a a'); [contradiction|reflexivity|reflexivity]. Qed.
(* a prefix is below-or-equal its extensions; a proper prefix is strictly below *)
Lemma ble_prefix : forall a x, ble a (a ++ x) = true.
Proof. intros a x. rewrite <- (app_nil_r a) at 1. rewrite ble_app_l. apply ble_nil. Qed.
Lemma blt_prefix : forall a x, x <> [] -> blt a (a ++ x) = true.
Proof. intros a x H. rewrite <- (app_nil_r a) at 1. rewrite blt_app_l. destruct x; [contradiction|reflexivity]. Qed.
Lemma app_inj_eq_len : forall (a a' x y : bytes), length a = length a' -> a ++ x = a' ++ y -> a = a' /\ x = y.
Proof.
  induction a as [|h a IH]; destruct a' as [|h' a']; intros x y L E; cbn in L; try discriminate.
  - split; [reflexivity|exact E].
  - cbn [app] in E. inversion E; subst. destruct (IH a' x y) as [-> ->]; [congruence|assumption|split; reflexivity].
Qed.

(* every string shorter than n is strictly below n copies of 255 ... *)
Lemma blt_repeat_max_short : forall n a, bytes_ok a = true -> (length a < n)%nat -> blt a (repeat 255 n) = true.
Proof.
  induction n as [|n IH]; intros a OK L; [lia|].
  destruct a as [|x a]; [reflexivity|]. cbn [repeat]. unfold blt. cbn [bcmp].
  cbn [bytes_ok forallb] in OK. apply andb_true_iff in OK. destruct OK as [Ox OK]. unfold byte_ok in Ox. apply N.ltb_lt in Ox.
  destruct (x ?= 255) eqn:C.
  - specialize (IH a OK). cbn in L. unfold blt in IH. apply IH. lia.
  - reflexivity.
  - apply N.compare_gt_iff in C. lia.
Qed.
(* ... and a string of real bytes that is not below it starts with n copies of 255 *)
Lemma not_blt_repeat_max : forall n a, bytes_ok a = true -> blt a (repeat 255 n) = false ->
  exists r, a = repeat 255 n ++ r.
Proof.
  induction n as [|n IH]; intros a OK H; [exists a; reflexivity|].
  destruct a as [|x a]; [discriminate|]. cbn [repeat] in *. unfold blt in H. cbn [bcmp] in H.
  cbn [bytes_ok forallb] in OK. apply andb_true_iff in OK. destruct OK as [Ox OK]. unfold byte_ok in Ox. apply N.ltb_lt in Ox.
  destruct (x ?= 255) eqn:C; try discriminate.
  - apply N.compare_eq in C. subst. destruct (IH a OK H) as [r ->]. exists r. reflexivity.
  - apply N.compare_gt_iff in C. lia.
Qed.

(* ---------------------------------------------------------------------------------------- *)
(* slicing with Rust semantics: `&b[n..]`, `&b[..n]`, `b[i]` panic (None) when out of range  *)
(* ---------------------------------------------------------------------------------------- *)
Definition slice_from (n : nat) (b : bytes) : option bytes :=
  if (n <=? length b)%nat then Some (skipn n b) else None.
Definition slice_to (n : nat) (b : bytes) : option bytes :=
  if (n <=? length b)%nat then Some (firstn n b) else None.
Definition index (i : nat) (b : bytes) : option N := nth_error b i.

Lemma slice_from_app : forall a b, slice_from (length a) (a ++ b) = Some b.
Proof.
  intros a b. unfold slice_from. rewrite app_length.
  replace (length a <=? length a + length b)%nat with true by (symmetry; apply Nat.leb_le; lia).
  rewrite skipn_app, skipn_all, Nat.sub_diag. reflexivity.
Qed.
Lemma slice_to_app : forall a b, slice_to (length a) (a ++ b) = Some a.
Proof.
  intros a b. unfold slice_to. rewrite app_length.
  replace (length a <=? length a + length b)%nat with true by (symmetry; apply Nat.leb_le; lia).
  rewrite firstn_app, firstn_all, Nat.sub_diag. cbn. rewrite app_nil_r. reflexivity.
Qed.
Lemma slice_from_short : forall n b, (length b < n)%nat -> slice_from n b = None.
Proof. intros n b H. unfold slice_from. replace (n <=? length b)%nat with false; [reflexivity|]. symmetry. apply Nat.leb_gt. exact H. Qed.
Lemma slice_to_short : forall n b, (length b < n)%nat -> slice_to n b = None.
Proof. intros n b H. unfold slice_to. replace (n <=? length b)%nat with false; [reflexivity|]. symmetry. apply Nat.leb_gt. exact H. Qed.

Lemma bytes_ok_app : forall a b, bytes_ok (a ++ b) = bytes_ok a && bytes_ok b.
Proof. intros. unfold bytes_ok. apply forallb_app. Qed.
Lemma bytes_ok_repeat : forall b n, byte_ok b = true -> bytes_ok (repeat b n) = true.
Proof. intros b n H. induction n; cbn; [reflexivity|]. rewrite H. exact IHn. Qed.

(* ---------------------------------------------------------------------------------------- *)
(* integer codecs                                                                            *)
(* ---------------------------------------------------------------------------------------- *)
Fixpoint le_encode (n : nat) (v : N) : bytes :=
  match n with O => [] | S n' => (v mod 256) :: le_encode n' (v / 256) end.
Fixpoint le_decode (l : bytes) : N :=
  match l with [] => 0 | b :: r => b + 256 * le_decode r end.
Definition be_encode (n : nat) (v : N) : bytes := rev (le_encode n v).
Definition be_decode (l : bytes) : N := le_decode (rev l).

Lemma le_encode_length : forall n v, length (le_encode n v) = n.
Proof. induction n; intro v; cbn; [reflexivity|]. rewrite IHn. reflexivity. Qed.
Lemma be_encode_length : forall n v, length (be_encode n v) = n.
Proof. intros. unfold be_encode. rewrite rev_length. apply le_encode_length. Qed.

Lemma le_encode_ok : forall n v, bytes_ok (le_encode n v) = true.
Proof.
  induction n; intro v; cbn [le_encode bytes_ok forallb]; [reflexivity|].
  fold (bytes_ok (le_encode n (v / 256))). rewrite IHn. rewrite andb_true_r.
  unfold byte_ok. apply N.ltb_lt. apply N.mod_lt. discriminate.
Qed.
Lemma bytes_ok_rev : forall l, bytes_ok (rev l) = bytes_ok l.
Proof.
  induction l as [|x l IH]; [reflexivity|]. cbn [rev]. rewrite bytes_ok_app. cbn [bytes_ok forallb] in *.
  rewrite IH. rewrite andb_true_r. apply andb_comm.
Qed.
Lemma be_encode_ok : forall n v, bytes_ok (be_encode n v) = true.
Proof. intros. unfold be_encode. rewrite bytes_ok_rev. apply le_encode_ok. Qed.

Lemma le_decode_encode : forall n v, v < 256 ^ N.of_nat n -> le_decode (le_encode n v) = v.
Proof.
  induction n; intros v H.
  - cbn in *. lia.
  - cbn [le_encode le_decode]. rewrite IHn.
    + pose proof (N.div_mod v 256). lia.
    + rewrite Nat2N.inj_succ, N.pow_succ_r' in H. apply N.div_lt_upper_bound; [discriminate|exact H].
Qed.
Lemma be_decode_encode : forall n v, v < 256 ^ N.of_nat n -> be_decode (be_encode n v) = v.
Proof. intros. unfold be_decode, be_encode. rewrite rev_involutive. apply le_decode_encode. assumption. Qed.

Lemma le_decode_bound : forall l, bytes_ok l = true -> le_decode l < 256 ^ N.of_nat (length l).
Proof.
  induction l as [|b l IH]; intro OK.
  - cbn. lia.
  - cbn [bytes_ok forallb] in OK. apply andb_true_iff in OK. destruct OK as [Ob OK].
    unfold byte_ok in Ob. apply N.ltb_lt in Ob. specialize (IH OK).
    cbn [length le_decode]. rewrite Nat2N.inj_succ, N.pow_succ_r'. lia.
Qed.
Lemma le_encode_decode : forall l, bytes_ok l = true -> le_encode (length l) (le_decode l) = l.
Proof.
  induction l as [|b l IH]; intro OK; [reflexivity|].
  cbn [bytes_ok forallb] in OK. apply andb_true_iff in OK. destruct OK as [Ob OK].
  unfold byte_ok in Ob. apply N.ltb_lt in Ob.
  cbn [length le_encode le_decode].
  replace ((b + 256 * le_decode l) mod 256) with b.
  - replace ((b + 256 * le_decode l) / 256) with (le_decode l); [rewrite IH by exact OK; reflexivity|].
    rewrite N.mul_comm, N.div_add by discriminate. rewrite N.div_small by exact Ob. reflexivity.
  - rewrite N.mul_comm, N.mod_add by discriminate. rewrite N.mod_small by exact Ob. reflexivity.
Qed.
Lemma be_encode_decode : forall l, bytes_ok l = true -> be_encode (length l) (be_decode l) = l.
Proof.
  intros l OK. unfold be_encode, be_decode. rewrite <- (rev_length l).
  rewrite le_encode_decode by (rewrite bytes_ok_rev; exact OK). apply rev_involutive.
Qed.
Lemma be_decode_bound : forall l, bytes_ok l = true -> be_decode l < 256 ^ N.of_nat (length l).
Proof. intros l OK. unfold be_decode. rewrite <- (rev_length l). apply le_decode_bound. rewrite bytes_ok_rev. exact OK. Qed.

Lemma le_encode_inj : forall n v w, v < 256 ^ N.of_nat n -> w < 256 ^ N.of_nat n -> le_encode n v = le_encode n w -> v = w.
Proof. intros n v w Hv Hw E. rewrite <- (le_decode_encode n v Hv), <- (le_decode_encode n w Hw), E. reflexivity. Qed.
Lemma be_encode_inj : forall n v w, v < 256 ^ N.of_nat n -> w < 256 ^ N.of_nat n -> be_encode n v = be_encode n w -> v = w.
Proof. intros n v w Hv Hw E. rewrite <- (be_decode_encode n v Hv), <- (be_decode_encode n w Hw), E. reflexivity. Qed.

(* big-endian encoding at a fixed width preserves the order of the integers *)
Lemma be_encode_snoc : forall n v, be_encode (S n) v = be_encode n (v / 256) ++ [v mod 256].
Proof. intros. unfold be_encode. cbn [le_encode rev]. reflexivity. Qed.
Lemma be_encode_cmp : forall n v w, v < 256 ^ N.of_nat n -> w < 256 ^ N.of_nat n ->
  bcmp (be_encode n v) (be_encode n w) = (v ?= w).
Proof.
  induction n; intros v w Hv Hw.
  - cbn in *. assert (v = 0) by lia. assert (w = 0) by lia. subst. reflexivity.
  - rewrite !be_encode_snoc. rewrite bcmp_app_eq_len by (rewrite !be_encode_length; reflexivity).
    rewrite Nat2N.inj_succ, N.pow_succ_r' in Hv, Hw.
    rewrite IHn by (apply N.div_lt_upper_bound; [discriminate|assumption]).
    pose proof (N.div_mod v 256 ltac:(discriminate)) as Dv. pose proof (N.div_mod w 256 ltac:(discriminate)) as Dw.
    pose proof (N.mod_lt v 256 ltac:(discriminate)) as Mv. pose proof (N.mod_lt w 256 ltac:(discriminate)) as Mw.
    remember (v / 256) as vd eqn:Evd. remember (w / 256) as wd eqn:Ewd.
    remember (v mod 256) as vm eqn:Evm. remember (w mod 256) as wm eqn:Ewm.
    clear IHn Evd Ewd Evm Ewm. cbn [bcmp].
    destruct (vd ?= wd) eqn:C; [destruct (vm ?= wm) eqn:C2|..]; symmetry;
      rewrite ?N.compare_lt_iff, ?N.compare_gt_iff, ?N.compare_eq_iff in *; lia.
Qed.

(* blt as an instance of the order interface of RV.Lib.SortedMap *)
Require Import RV.Lib.SortedMap.
Lemma blt_strict_total : StrictTotal blt.
Proof. split; [exact blt_irrefl|exact blt_trans|exact blt_total]. Qed.
