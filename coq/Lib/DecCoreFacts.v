(* Lib/DecCoreFacts.v — lemmas about Lib/DecCore.v: ranges, casts, the width conversions as written
   (impl_from_bnum / impl_try_from_bnum) coincide with the mathematical range test, truncated
   quotient bounds, floor roots. *)
From Coq Require Import ZArith List Bool Lia.
Import ListNotations.
Require Import RV.Lib.DecCore.
Open Scope Z_scope.

Ltac Zify.zify_post_hook ::= Z.to_euclidean_division_equations.

(* ---------------------------------------------------------------------------------------------- *)
(* ranges *)

Lemma in_ity_iff t z : in_ity t z = true <-> InTy t z.
Proof. unfold in_ity, InTy. rewrite andb_true_iff, !Z.leb_le. tauto. Qed.
Lemma in_ity_false t z : in_ity t z = false <-> ~ InTy t z.
Proof. rewrite <- in_ity_iff. destruct (in_ity t z); split; congruence. Qed.

Lemma pow2_pos n : 0 <= n -> 0 < 2 ^ n.
Proof. intros; apply Z.pow_pos_nonneg; lia. Qed.
Lemma pow10_pos n : 0 <= n -> 0 < 10 ^ n.
Proof. intros; apply Z.pow_pos_nonneg; lia. Qed.

Lemma pow2_split b : 1 <= b -> 2 ^ b = 2 * 2 ^ (b - 1).
Proof. intros. replace b with (Z.succ (b - 1)) at 1 by lia. rewrite Z.pow_succ_r by lia. reflexivity. Qed.

Lemma InTy_SI b z : InTy (SI b) z <-> - 2 ^ (b - 1) <= z <= 2 ^ (b - 1) - 1.
Proof. unfold InTy, imin, imax; cbn [ibits isigned SI UI]. tauto. Qed.
Lemma InTy_UI b z : InTy (UI b) z <-> 0 <= z <= 2 ^ b - 1.
Proof. unfold InTy, imin, imax; cbn [ibits isigned SI UI]. tauto. Qed.

Lemma chk_in t z : InTy t z -> chk t z = Ok z.
Proof. intros H. unfold chk. apply in_ity_iff in H. now rewrite H. Qed.
Lemma chk_out t z : ~ InTy t z -> chk t z = Err ENone.
Proof. intros H. unfold chk. apply in_ity_false in H. now rewrite H. Qed.
Lemma pan_in t z : InTy t z -> pan t z = Ok z.
Proof. intros H. unfold pan. apply in_ity_iff in H. now rewrite H. Qed.

(* ---------------------------------------------------------------------------------------------- *)
(* bit length *)

Lemma bitlen_ge z d : 0 < z -> 1 <= d -> (d <= bitlen z <-> 2 ^ (d - 1) <= z).
Proof.
  intros Hz Hd. unfold bitlen. destruct (Z.leb_spec z 0); [lia|].
  rewrite (Z.log2_le_pow2 z (d - 1)) by lia. lia.
Qed.
Lemma bitlen_nonneg z : 0 <= bitlen z.
Proof. unfold bitlen. destruct (Z.leb_spec z 0); [lia|]. pose proof (Z.log2_nonneg z). lia. Qed.
Lemma bitlen_0 : bitlen 0 = 0. Proof. reflexivity. Qed.

Lemma one_bit_pos t z d : 0 < z -> 1 <= d -> bitlen z = d -> (one_bit t z = true <-> z = 2 ^ (d - 1)).
Proof.
  intros Hz Hd Hb. unfold one_bit. destruct (Z.ltb_spec z 0); [lia|].
  unfold bitlen in Hb. destruct (Z.leb_spec z 0); [lia|].
  replace (Z.log2 z) with (d - 1) by lia.
  rewrite andb_true_iff, Z.ltb_lt, Z.eqb_eq. tauto.
Qed.

(* ---------------------------------------------------------------------------------------------- *)
(* casts *)

Lemma cast_id_SI b z : 1 <= b -> InTy (SI b) z -> cast (SI b) z = z.
Proof.
  intros Hb H. apply -> InTy_SI in H. unfold cast; cbn [ibits isigned SI].
  pose proof (pow2_split b Hb). pose proof (pow2_pos (b - 1) ltac:(lia)).
  rewrite Z.mod_small by lia. lia.
Qed.

(* ---------------------------------------------------------------------------------------------- *)
(* the width conversions *)

Ltac zif :=
  match goal with
  | |- context[if (?a <? ?b) then _ else _] => destruct (Z.ltb_spec a b)
  | |- context[if (?a <=? ?b) then _ else _] => destruct (Z.leb_spec a b)
  | |- context[if (?a =? ?b) then _ else _] => destruct (Z.eqb_spec a b)
  end.

(* widening From (signed or unsigned source into a strictly wider signed type) is the identity *)
Lemma from_bnum_widen src d v :
  1 <= ibits src -> ibits src < d -> InTy src v -> from_bnum src (SI d) v = Ok v.
Proof.
  intros Hs Hd Hv. unfold from_bnum. cbn [ibits isigned SI]. rewrite andb_false_r.
  set (s := ibits src) in *.
  assert (Hp : 2 ^ (s - 1) < 2 ^ (d - 1)) by (apply Z.pow_lt_mono_r; lia).
  assert (Hp' : 2 ^ s <= 2 ^ (d - 1)) by (apply Z.pow_le_mono_r; lia).
  pose proof (pow2_pos (s - 1) ltac:(lia)) as Hpp. pose proof (pow2_split s Hs) as Hsp.
  assert (Hr : - 2 ^ (s - 1) <= v <= 2 ^ s - 1).
  { unfold InTy, imin, imax in Hv. fold s in Hv. destruct (isigned src); lia. }
  assert (HinD : forall z, - 2 ^ (s - 1) <= z <= 2 ^ s - 1 -> InTy (SI d) z).
  { intros z Hz. apply <- InTy_SI; lia. }
  destruct (Z.ltb_spec v 0) as [Hneg|Hpos]; cbn [andb].
  - assert (Hsig : isigned src = true).
    { unfold InTy, imin in Hv. destruct (isigned src); [reflexivity|lia]. }
    assert (Hmin : imin src = - 2 ^ (s - 1)) by (unfold imin; rewrite Hsig; reflexivity).
    destruct (Z.eqb_spec v (imin src)) as [He|Hne]; cbn [negb]; cbv iota.
    + (* the source minimum stays negative: leading_zeros = 0 *)
      cbn [bind]. unfold lzeros. fold s. zif; [|lia]. zif; [lia|].
      unfold pmul. rewrite cast_id_SI by (try lia; apply HinD; lia).
      rewrite Z.mul_1_r. apply pan_in, HinD. lia.
    + unfold psub. rewrite (pan_in src (0 - v)).
      2:{ unfold InTy, imin, imax. rewrite Hsig. fold s. lia. }
      rewrite (pan_in (SI d) (0 - 1)) by (apply <- InTy_SI; lia).
      cbn [bind]. unfold lzeros. fold s. zif; [lia|].
      assert (Hbl : bitlen (0 - v) <= s - 1).
      { destruct (Z_lt_le_dec (s - 1) (bitlen (0 - v))) as [Hc|Hc]; [|lia].
        assert (Hge : s <= bitlen (0 - v)) by lia.
        apply bitlen_ge in Hge; lia. }
      zif; [lia|].
      unfold pmul. rewrite cast_id_SI by (try lia; apply HinD; lia).
      replace ((0 - v) * (0 - 1)) with v by lia. apply pan_in, HinD. lia.
  - cbn [bind]. unfold lzeros. fold s. zif; [lia|].
    assert (Hbl : bitlen v <= s).
    { destruct (Z.eq_dec v 0) as [->|Hnz]; [rewrite bitlen_0; lia|].
      destruct (Z_lt_le_dec s (bitlen v)) as [Hc|Hc]; [|lia].
      assert (Hge : s + 1 <= bitlen v) by lia.
      apply bitlen_ge in Hge; try lia. replace (s + 1 - 1) with s in Hge by lia. lia. }
    zif; [lia|].
    unfold pmul. rewrite cast_id_SI by (try lia; apply HinD; lia).
    rewrite Z.mul_1_r. apply pan_in, HinD. lia.
Qed.

(* narrowing TryFrom into a signed type (from a signed type that is strictly wider, or from an
   unsigned type that is at least as wide) is exactly the range test *)
Lemma try_from_bnum_narrow src d v :
  1 <= d -> (if isigned src then d < ibits src else d <= ibits src) -> InTy src v ->
  try_from_bnum src (SI d) v = if in_ity (SI d) v then Ok v else Err EOverflow.
Proof.
  intros Hd Hsd Hv. unfold try_from_bnum. cbn [ibits isigned SI]. rewrite andb_false_r.
  set (s := ibits src) in *.
  assert (Hs : d <= s) by (destruct (isigned src); lia).
  pose proof (pow2_pos (d - 1) ltac:(lia)) as Hpd. pose proof (pow2_split d Hd) as Hdp.
  assert (Hle : 2 ^ (d - 1) <= 2 ^ (s - 1)) by (apply Z.pow_le_mono_r; lia).
  destruct (Z.ltb_spec v 0) as [Hneg|Hpos]; cbn [andb].
  - assert (Hsig : isigned src = true).
    { unfold InTy, imin in Hv. destruct (isigned src); [reflexivity|lia]. }
    rewrite Hsig in Hsd.
    assert (Hlt : 2 ^ (d - 1) < 2 ^ (s - 1)) by (apply Z.pow_lt_mono_r; lia).
    assert (Hmin : imin src = - 2 ^ (s - 1)) by (unfold imin; rewrite Hsig; reflexivity).
    destruct (Z.eqb_spec v (imin src)) as [He|Hne]; cbn [negb]; cbv iota.
    + cbn [bind]. unfold lzeros. fold s. zif; [|lia]. zif; [|lia].
      rewrite Z.eqb_refl. cbn [negb andb].
      destruct (in_ity (SI d) v) eqn:Hin; [|reflexivity].
      apply in_ity_iff in Hin; apply -> InTy_SI in Hin. lia.
    + unfold psub. rewrite (pan_in src (0 - v)).
      2:{ unfold InTy, imin, imax in *. rewrite Hsig in *. fold s in Hv |- *. lia. }
      rewrite (pan_in (SI d) (0 - 1)) by (apply <- InTy_SI; lia).
      cbn [bind]. unfold lzeros. fold s. zif; [lia|].
      destruct (Z.leb_spec (s - bitlen (0 - v)) (s - d)) as [Hbig|Hsmall].
      * assert (Hge : d <= bitlen (0 - v)) by lia.
        pose proof Hge as Hge'. apply bitlen_ge in Hge'; try lia.
        replace (0 - 1 =? 1) with false by reflexivity. cbn [negb andb].
        destruct (Z.eqb_spec (s - bitlen (0 - v)) (s - d)) as [Heq|Hneq]; cbn [andb negb].
        -- assert (Hb : bitlen (0 - v) = d) by lia.
           destruct (one_bit src (0 - v)) eqn:Hob.
           ++ apply (one_bit_pos src (0 - v) d) in Hob; try lia.
              assert (Hin : in_ity (SI d) v = true) by (apply in_ity_iff; apply <- InTy_SI; lia).
              rewrite Hin. unfold imin; cbn [ibits isigned SI]. f_equal. lia.
           ++ assert (Hnot : 0 - v <> 2 ^ (d - 1)).
              { intros Hc. apply (one_bit_pos src (0 - v) d) in Hc; try lia. congruence. }
              destruct (in_ity (SI d) v) eqn:Hin; [|reflexivity].
              apply in_ity_iff in Hin; apply -> InTy_SI in Hin. lia.
        -- assert (Hgt : d + 1 <= bitlen (0 - v)) by lia.
           apply bitlen_ge in Hgt; try lia. replace (d + 1 - 1) with d in Hgt by lia.
           destruct (in_ity (SI d) v) eqn:Hin; [|reflexivity].
           apply in_ity_iff in Hin; apply -> InTy_SI in Hin. lia.
      * assert (Hlt2 : 0 - v < 2 ^ (d - 1)).
        { destruct (Z_lt_le_dec (0 - v) (2 ^ (d - 1))) as [Hc|Hc]; [lia|].
          apply (bitlen_ge (0 - v) d) in Hc; lia. }
        assert (Hin : in_ity (SI d) v = true) by (apply in_ity_iff; apply <- InTy_SI; lia).
        rewrite Hin. unfold pmul. rewrite cast_id_SI by (try lia; apply <- InTy_SI; lia).
        replace ((0 - v) * (0 - 1)) with v by lia. apply pan_in; apply <- InTy_SI; lia.
  - cbn [bind]. unfold lzeros. fold s. zif; [lia|].
    destruct (Z.leb_spec (s - bitlen v) (s - d)) as [Hbig|Hsmall].
    + rewrite Z.eqb_refl. cbn [negb andb].
      assert (Hge : d <= bitlen v) by lia.
      assert (Hvpos : 0 < v).
      { destruct (Z.eq_dec v 0) as [->|]; [rewrite bitlen_0 in Hge; lia|lia]. }
      apply bitlen_ge in Hge; try lia.
      destruct (in_ity (SI d) v) eqn:Hin; [|reflexivity].
      apply in_ity_iff in Hin; apply -> InTy_SI in Hin. lia.
    + assert (Hlt2 : v < 2 ^ (d - 1)).
      { destruct (Z_lt_le_dec v (2 ^ (d - 1))) as [Hc|Hc]; [lia|].
        apply (bitlen_ge v d) in Hc; lia. }
      assert (Hin : in_ity (SI d) v = true) by (apply in_ity_iff; apply <- InTy_SI; lia).
      rewrite Hin. unfold pmul. rewrite cast_id_SI by (try lia; apply <- InTy_SI; lia).
      rewrite Z.mul_1_r. apply pan_in; apply <- InTy_SI; lia.
Qed.

(* the conversion as it was before the fix rejects exactly one more value: the target minimum *)
Lemma try_from_bnum_prefix_min s d :
  1 <= d -> d < s ->
  try_from_bnum_prefix (SI s) (SI d) (- 2 ^ (d - 1)) = Err EOverflow.
Proof.
  intros Hd Hs. unfold try_from_bnum_prefix. cbn [ibits isigned SI]. rewrite andb_false_r.
  pose proof (pow2_pos (d - 1) ltac:(lia)) as Hpd.
  assert (Hlt : 2 ^ (d - 1) < 2 ^ (s - 1)) by (apply Z.pow_lt_mono_r; lia).
  destruct (Z.ltb_spec (- 2 ^ (d - 1)) 0); [|lia]. cbn [andb].
  destruct (Z.eqb_spec (- 2 ^ (d - 1)) (imin (SI s))) as [He|Hne].
  { unfold imin in He; cbn [ibits isigned SI] in He. lia. }
  cbn [negb]. cbv iota. unfold psub.
  rewrite (pan_in (SI s)) by (apply <- InTy_SI; lia).
  rewrite (pan_in (SI d) (0 - 1)) by (apply <- InTy_SI; lia).
  cbn [bind]. unfold lzeros. cbn [ibits SI]. zif; [lia|].
  assert (Hb : d <= bitlen (0 - - 2 ^ (d - 1))) by (apply bitlen_ge; lia).
  zif; [reflexivity|lia].
Qed.

(* ---------------------------------------------------------------------------------------------- *)
(* truncated quotients *)

Lemma quot_abs_le x d : 0 < d -> Z.abs (Z.quot x d) <= Z.abs x.
Proof. intros. nia. Qed.

(* a numerator beyond K*M cannot give a quotient inside [-K, K-1] when the divisor is below M *)
Lemma quot_big_pos x D K M : 0 < D -> D < M -> 0 < K -> K * M <= x -> K <= Z.quot x D.
Proof. intros. apply Z.quot_le_lower_bound; nia. Qed.
Lemma quot_big_neg x D K M : 0 < D -> D < M -> D <= K -> x < - (K * M) -> Z.quot x D < - K.
Proof.
  intros HD HM HK Hx.
  assert (H : K + 1 <= Z.quot (- x) D) by (apply Z.quot_le_lower_bound; nia).
  rewrite Z.quot_opp_l in H by lia. lia.
Qed.

(* ---------------------------------------------------------------------------------------------- *)
(* integer floor roots *)

Lemma iroot_go_spec fuel : forall n x lo hi,
  1 <= n -> 0 <= lo < hi -> lo ^ n <= x < hi ^ n -> hi - lo <= 2 ^ Z.of_nat fuel ->
  let r := iroot_go fuel n x lo hi in 0 <= r /\ r ^ n <= x < (r + 1) ^ n.
Proof.
  induction fuel as [|k IH]; intros n x lo hi Hn Hlh Hx Hw.
  - change (2 ^ Z.of_nat 0) with 1 in Hw. cbn [iroot_go]. replace (lo + 1) with hi by lia. lia.
  - cbn [iroot_go]. destruct (Z.leb_spec (hi - lo) 1) as [H1|H1].
    + replace (lo + 1) with hi by lia. lia.
    + rewrite Nat2Z.inj_succ, Z.pow_succ_r in Hw by lia.
      assert (Hm : lo < (lo + hi) / 2 < hi) by lia.
      destruct (Z.leb_spec (((lo + hi) / 2) ^ n) x) as [H2|H2].
      * apply IH; lia.
      * apply IH; lia.
Qed.

Lemma iroot_spec n x : 1 <= n -> 0 <= x -> FloorRoot n x (iroot n x).
Proof.
  intros Hn Hx. unfold FloorRoot, iroot. destruct (Z.leb_spec x 0) as [H0|H0].
  - assert (x = 0) by lia. subst x. rewrite Z.pow_0_l by lia. rewrite Z.add_0_l, Z.pow_1_l by lia. lia.
  - set (l := Z.log2 x). pose proof (Z.log2_nonneg x) as Hl. fold l in Hl.
    destruct (Z.log2_spec x H0) as [_ Hup]. fold l in Hup.
    assert (Hq : 0 <= l / n <= l).
    { split; [apply Z.div_pos; lia|]. apply Z.div_le_upper_bound; nia. }
    assert (G1 : 0 <= 0 < 2 ^ (l / n + 1)) by (split; [lia|apply Z.pow_pos_nonneg; lia]).
    assert (G2 : 0 ^ n <= x < (2 ^ (l / n + 1)) ^ n).
    { rewrite Z.pow_0_l by lia. split; [lia|].
      rewrite <- Z.pow_mul_r by lia.
      assert (Z.succ l <= (l / n + 1) * n).
      { pose proof (Z.div_mod l n ltac:(lia)). pose proof (Z.mod_pos_bound l n ltac:(lia)). nia. }
      assert (2 ^ Z.succ l <= 2 ^ ((l / n + 1) * n)) by (apply Z.pow_le_mono_r; lia). lia. }
    assert (G3 : 2 ^ (l / n + 1) - 0 <= 2 ^ Z.of_nat (S (S (Z.to_nat l)))).
    { rewrite Z.sub_0_r. apply Z.pow_le_mono_r; [lia|].
      rewrite !Nat2Z.inj_succ, Z2Nat.id by lia. lia. }
    apply iroot_go_spec; assumption.
Qed.

Lemma FloorRoot_unique n x r r' : 1 <= n -> FloorRoot n x r -> FloorRoot n x r' -> r = r'.
Proof.
  intros Hn (H0 & H1 & H2) (H0' & H1' & H2').
  destruct (Z.lt_trichotomy r r') as [Hlt|[Heq|Hgt]]; [exfalso|exact Heq|exfalso].
  - assert ((r + 1) ^ n <= r' ^ n) by (apply Z.pow_le_mono_l; lia). lia.
  - assert ((r' + 1) ^ n <= r ^ n) by (apply Z.pow_le_mono_l; lia). lia.
Qed.

Lemma is_troot_sound n y r : 1 <= n -> is_troot n y r = true -> r = troot n y.
Proof.
  intros Hn H. unfold is_troot in H. rewrite !andb_true_iff in H. destruct H as [[Ha Hb] Hs].
  apply Z.leb_le in Ha. apply Z.ltb_lt in Hb. unfold troot.
  destruct (Z.ltb_spec y 0) as [Hy|Hy].
  - apply Z.leb_le in Hs.
    assert (E : Z.abs r = iroot n (- y)).
    { apply (FloorRoot_unique n (- y)); [lia| |apply iroot_spec; lia].
      unfold FloorRoot. replace (- y) with (Z.abs y) by lia. lia. }
    lia.
  - apply Z.leb_le in Hs.
    assert (E : Z.abs r = iroot n y).
    { apply (FloorRoot_unique n y); [lia| |apply iroot_spec; lia].
      unfold FloorRoot. replace y with (Z.abs y) at 1 3 by lia. lia. }
    lia.
Qed.

Lemma root_hint_eq h n y : 1 <= n -> root_hint h n y = troot n y.
Proof.
  intros Hn. destruct h as [r|]; [|reflexivity]. cbn [root_hint].
  destruct (is_troot n y r) eqn:E; [apply is_troot_sound; assumption|reflexivity].
Qed.

Lemma troot_spec n y : 1 <= n ->
  Z.abs (troot n y) ^ n <= Z.abs y < (Z.abs (troot n y) + 1) ^ n
  /\ (0 <= y -> 0 <= troot n y) /\ (y <= 0 -> troot n y <= 0).
Proof.
  intros Hn. unfold troot. destruct (Z.ltb_spec y 0) as [Hy|Hy].
  - destruct (iroot_spec n (- y) Hn ltac:(lia)) as (H0 & H1 & H2).
    rewrite Z.abs_opp, (Z.abs_eq (iroot n (- y))) by lia. replace (Z.abs y) with (- y) by lia. lia.
  - destruct (iroot_spec n y Hn Hy) as (H0 & H1 & H2).
    rewrite (Z.abs_eq (iroot n y)), (Z.abs_eq y) by lia.
    split; [lia|]. split; [lia|]. intros. assert (y = 0) by lia. subst y.
    destruct (Z.eq_dec (iroot n 0) 0) as [E|E]; [lia|].
    assert (0 < iroot n 0 ^ n) by (apply Z.pow_pos_nonneg; lia). lia.
Qed.
