(* Lib/SortedMap — association lists sorted by a decidable strict total order, the model of Rust's
   `BTreeMap<K, V>` (logical path RV.Lib.SortedMap).

   A map is a `list (K * V)`; the order is a boolean `ltb : K -> K -> bool`; the facts that make it
   a strict total order are bundled in `StrictTotal ltb` and are only needed by the lemmas, never by
   the (executable) definitions.  `sorted` (strictly increasing keys, hence no duplicate keys) is
   the representation invariant; on sorted maps extensional equality (`lookup` pointwise, or `In`
   pointwise) is list equality (`sorted_ext`, `sorted_ext_In`), so a sorted map is a canonical form.

     lookup k m          BTreeMap::get
     insert k v m        BTreeMap::insert (replaces the value of an existing key)
     remove k m          BTreeMap::remove
     range_from k m      BTreeMap::range(k..)     (entries with key >= k, in order)
     of_list l           BTreeMap::from_iter / collect / extend from empty (later entries win)
     extend m l          BTreeMap::extend
     m itself            BTreeMap::iter (in key order)

   Closed under the global context (no axioms). *)
From Coq Require Import List Bool.
Import ListNotations.

Record StrictTotal {K : Type} (ltb : K -> K -> bool) : Prop := {
  st_irrefl : forall a, ltb a a = false;
  st_trans : forall a b c, ltb a b = true -> ltb b c = true -> ltb a c = true;
  st_total : forall a b, ltb a b = false -> ltb b a = false -> a = b
}.

Section Defs.
  Context {K V : Type}.
  Variable ltb : K -> K -> bool.

  Definition keqb (a b : K) : bool := negb (ltb a b) && negb (ltb b a).

  Fixpoint lookup (k : K) (m : list (K * V)) : option V :=
    match m with
    | [] => None
    | (k', v) :: r => if keqb k k' then Some v else lookup k r
    end.

  Fixpoint insert (k : K) (v : V) (m : list (K * V)) : list (K * V) :=
    match m with
    | [] => [(k, v)]
    | (k', v') :: r =>
        if ltb k k' then (k, v) :: m
        else if ltb k' k then (k', v') :: insert k v r
        else (k, v) :: r
    end.

  Fixpoint remove (k : K) (m : list (K * V)) : list (K * V) :=
    match m with
    | [] => []
    | (k', v') :: r =>
        if ltb k k' then m
        else if ltb k' k then (k', v') :: remove k r
        else r
    end.

  Fixpoint range_from (k : K) (m : list (K * V)) : list (K * V) :=
    match m with
    | [] => []
    | (k', v') :: r => if ltb k' k then range_from k r else m
    end.

  Definition extend (m : list (K * V)) (l : list (K * V)) : list (K * V) :=
    fold_left (fun acc e => insert (fst e) (snd e) acc) l m.
  Definition of_list (l : list (K * V)) : list (K * V) := extend [] l.

  Definition mem (k : K) (m : list (K * V)) : bool :=
    match lookup k m with Some _ => true | None => false end.
  Definition keys (m : list (K * V)) : list K := map fst m.

  Definition lt_all (k : K) (m : list (K * V)) : Prop := Forall (fun e => ltb k (fst e) = true) m.
  Fixpoint sorted (m : list (K * V)) : Prop :=
    match m with
    | [] => True
    | (k, _) :: r => lt_all k r /\ sorted r
    end.
  (* executable version (adjacent keys increasing) *)
  Fixpoint sortedb (m : list (K * V)) : bool :=
    match m with
    | [] => true
    | (k, _) :: r => match r with [] => true | (k', _) :: _ => ltb k k' && sortedb r end
    end.
End Defs.

Section Facts.
  Context {K V : Type}.
  Variable ltb : K -> K -> bool.
  Hypothesis ST : StrictTotal ltb.

  Notation keqb := (keqb ltb).
  Notation lookup := (@lookup K V ltb).
  Notation insert := (@insert K V ltb).
  Notation remove := (@remove K V ltb).
  Notation range_from := (@range_from K V ltb).
  Notation lt_all := (@lt_all K V ltb).
  Notation sorted := (@sorted K V ltb).

  Lemma keqb_refl : forall a, keqb a a = true.
  Proof. intro a. unfold SortedMap.keqb. rewrite (st_irrefl _ ST). reflexivity. Qed.
  Lemma keqb_eq : forall a b, keqb a b = true <-> a = b.
  Proof.
    intros a b. split.
    - unfold SortedMap.keqb. intro H. apply andb_true_iff in H. destruct H as [H1 H2].
      apply negb_true_iff in H1, H2. apply (st_total _ ST); assumption.
    - intros ->. apply keqb_refl.
  Qed.
  Lemma keqb_neq : forall a b, keqb a b = false <-> a <> b.
  Proof.
    intros a b. split.
    - intros H E. apply keqb_eq in E. congruence.
    - intro H. destruct (keqb a b) eqn:E; [apply keqb_eq in E; contradiction|reflexivity].
  Qed.
  Lemma keqb_sym : forall a b, keqb a b = keqb b a.
  Proof. intros. unfold SortedMap.keqb. apply andb_comm. Qed.
  Lemma keqb_lt : forall a b, ltb a b = true -> keqb a b = false.
  Proof. intros a b H. unfold SortedMap.keqb. rewrite H. reflexivity. Qed.
  Lemma keqb_gt : forall a b, ltb b a = true -> keqb a b = false.
  Proof. intros a b H. unfold SortedMap.keqb. rewrite H. apply andb_false_r. Qed.
  Lemma ltb_asym : forall a b, ltb a b = true -> ltb b a = false.
  Proof.
    intros a b H. destruct (ltb b a) eqn:E; [|reflexivity].
    pose proof (st_trans _ ST _ _ _ H E) as C. rewrite (st_irrefl _ ST) in C. discriminate.
  Qed.
  Definition key_eq_dec : forall a b : K, {a = b} + {a <> b}.
  Proof. intros a b. destruct (keqb a b) eqn:E; [left; apply keqb_eq; exact E|right; apply keqb_neq; exact E]. Defined.

  (* ---- lt_all / sorted ---- *)
  Lemma lt_all_trans : forall a b m, ltb a b = true -> lt_all b m -> lt_all a m.
  Proof.
    intros a b m H L. unfold SortedMap.lt_all in *. eapply Forall_impl; [|exact L].
    intros e He. cbn in He. eapply (st_trans _ ST); eassumption.
  Qed.
  Lemma lookup_lt_all : forall k m, lt_all k m -> lookup k m = None.
  Proof.
    intros k m L. induction L as [|[k' v'] r H _ IH]; [reflexivity|].
    cbn [SortedMap.lookup]. cbn in H. rewrite (keqb_lt _ _ H). exact IH.
  Qed.
  Lemma sorted_tail : forall e m, sorted (e :: m) -> sorted m.
  Proof. intros [k v] m [_ S]. exact S. Qed.
  Lemma sorted_cons : forall k v m, lt_all k m -> sorted m -> sorted ((k, v) :: m).
  Proof. intros. split; assumption. Qed.
  Lemma sortedb_sorted : forall m, sortedb ltb m = true <-> sorted m.
  Proof.
    induction m as [|[k v] r IH]; [cbn; tauto|].
    cbn [sortedb SortedMap.sorted]. destruct r as [|[k' v'] r'].
    - split; [intros _; split; [constructor|exact I]|reflexivity].
    - rewrite andb_true_iff, IH. split.
      + intros [H S]. split; [|exact S]. constructor; [exact H|]. destruct S as [L _]. eapply lt_all_trans; eassumption.
      + intros [L S]. split; [|exact S]. inversion L; subst. assumption.
  Qed.

  Lemma lookup_In : forall k v m, sorted m -> (In (k, v) m <-> lookup k m = Some v).
  Proof.
    intros k v m. induction m as [|[k' v'] r IH]; intro S.
    - cbn. split; [contradiction|discriminate].
    - destruct S as [L S]. cbn [In SortedMap.lookup]. destruct (keqb k k') eqn:E.
      + apply keqb_eq in E. subst k'. split.
        * intros [H|H]; [congruence|]. exfalso. unfold SortedMap.lt_all in L. rewrite Forall_forall in L.
          specialize (L _ H). cbn in L. rewrite (st_irrefl _ ST) in L. discriminate.
        * intro H. left. congruence.
      + rewrite <- (IH S). split; [|tauto]. intros [H|H]; [|exact H].
        inversion H; subst. rewrite keqb_refl in E. discriminate.
  Qed.
  Lemma lookup_Some_In : forall k v m, lookup k m = Some v -> In (k, v) m.
  Proof.
    intros k v m. induction m as [|[k' v'] r IH]; cbn [SortedMap.lookup]; [discriminate|].
    destruct (keqb k k') eqn:E; intro H.
    - apply keqb_eq in E. left. congruence.
    - right. apply IH. exact H.
  Qed.
  Lemma lookup_None_not_In : forall k m, lookup k m = None -> forall v, ~ In (k, v) m.
  Proof.
    intros k m. induction m as [|[k' v'] r IH]; cbn [SortedMap.lookup]; intros H v C; [exact C|].
    destruct (keqb k k') eqn:E; [discriminate|]. destruct C as [C|C].
    - inversion C; subst. rewrite keqb_refl in E. discriminate.
    - eapply IH; eassumption.
  Qed.
  Lemma sorted_NoDup_keys : forall m, sorted m -> NoDup (keys m).
  Proof.
    induction m as [|[k v] r IH]; intro S; [constructor|]. destruct S as [L S]. cbn. constructor; [|apply IH; exact S].
    intro C. apply in_map_iff in C. destruct C as [[k' v'] [E C]]. cbn in E. subst k'.
    unfold SortedMap.lt_all in L. rewrite Forall_forall in L. specialize (L _ C). cbn in L.
    rewrite (st_irrefl _ ST) in L. discriminate.
  Qed.

  (* ---- canonical form: extensionality ---- *)
  Lemma sorted_ext : forall m1 m2, sorted m1 -> sorted m2 ->
    (forall k, lookup k m1 = lookup k m2) -> m1 = m2.
  Proof.
    induction m1 as [|[k1 v1] r1 IH]; intros [|[k2 v2] r2] S1 S2 H.
    - reflexivity.
    - specialize (H k2). cbn [SortedMap.lookup] in H. rewrite keqb_refl in H. discriminate.
    - specialize (H k1). cbn [SortedMap.lookup] in H. rewrite keqb_refl in H. discriminate.
    - destruct S1 as [L1 S1], S2 as [L2 S2].
      assert (k1 = k2) as ->.
      { destruct (ltb k1 k2) eqn:A.
        - pose proof (H k1) as e. cbn [SortedMap.lookup] in e. rewrite keqb_refl, (keqb_lt _ _ A) in e.
          rewrite lookup_lt_all in e by (eapply lt_all_trans; eassumption). discriminate.
        - destruct (ltb k2 k1) eqn:B; [|apply (st_total _ ST); assumption].
          pose proof (H k2) as e. cbn [SortedMap.lookup] in e. rewrite keqb_refl, (keqb_lt _ _ B) in e.
          rewrite lookup_lt_all in e by (eapply lt_all_trans; eassumption). discriminate. }
      pose proof (H k2) as e. cbn [SortedMap.lookup] in e. rewrite keqb_refl in e. inversion e; subst v2.
      f_equal. apply IH; try assumption. intro k. specialize (H k). cbn [SortedMap.lookup] in H.
      destruct (keqb k k2) eqn:E; [|exact H]. apply keqb_eq in E. subst k.
      rewrite !lookup_lt_all by assumption. reflexivity.
  Qed.
  Lemma sorted_ext_In : forall m1 m2, sorted m1 -> sorted m2 ->
    (forall e, In e m1 <-> In e m2) -> m1 = m2.
  Proof.
    intros m1 m2 S1 S2 H. apply sorted_ext; try assumption. intro k.
    destruct (lookup k m1) as [v|] eqn:E1.
    - apply lookup_Some_In in E1. apply H in E1. apply (lookup_In _ _ _ S2) in E1. congruence.
    - destruct (lookup k m2) as [v|] eqn:E2; [|reflexivity].
      apply lookup_Some_In in E2. apply H in E2. apply (lookup_In _ _ _ S1) in E2. congruence.
  Qed.

  (* ---- insert ---- *)
  Lemma lt_all_insert : forall a k v m, ltb a k = true -> lt_all a m -> lt_all a (insert k v m).
  Proof.
    intros a k v m H L. induction L as [|[k' v'] r H' L' IH]; cbn [SortedMap.insert].
    - constructor; [exact H|constructor].
    - destruct (ltb k k'); [|destruct (ltb k' k)].
      + constructor; [exact H|]. constructor; assumption.
      + constructor; assumption.
      + constructor; [exact H|exact L'].
  Qed.
  Lemma insert_sorted : forall k v m, sorted m -> sorted (insert k v m).
  Proof.
    intros k v m. induction m as [|[k' v'] r IH]; intro S; cbn [SortedMap.insert].
    - split; [constructor|exact I].
    - destruct S as [L S]. destruct (ltb k k') eqn:A; [|destruct (ltb k' k) eqn:B].
      + split; [|split; assumption]. constructor; [exact A|]. eapply lt_all_trans; eassumption.
      + split; [apply lt_all_insert; assumption|apply IH; exact S].
      + assert (k = k') as -> by (apply (st_total _ ST); assumption). split; assumption.
  Qed.
  Lemma lookup_insert : forall k' k v m, sorted m ->
    lookup k' (insert k v m) = if keqb k' k then Some v else lookup k' m.
  Proof.
    intros k' k v m. induction m as [|[k0 v0] r IH]; intro S; cbn [SortedMap.insert].
    - reflexivity.
    - destruct S as [L S]. destruct (ltb k k0) eqn:A; [|destruct (ltb k0 k) eqn:B].
      + reflexivity.
      + cbn [SortedMap.lookup]. rewrite (IH S). destruct (keqb k' k0) eqn:E1; [|reflexivity].
        destruct (keqb k' k) eqn:E2; [|reflexivity].
        apply keqb_eq in E1, E2. subst. rewrite (st_irrefl _ ST) in B. discriminate.
      + assert (k = k0) as -> by (apply (st_total _ ST); assumption).
        cbn [SortedMap.lookup]. destruct (keqb k' k0); reflexivity.
  Qed.
  Lemma lookup_insert_eq : forall k v m, sorted m -> lookup k (insert k v m) = Some v.
  Proof. intros. rewrite lookup_insert by assumption. rewrite keqb_refl. reflexivity. Qed.
  Lemma lookup_insert_neq : forall k' k v m, sorted m -> k' <> k -> lookup k' (insert k v m) = lookup k' m.
  Proof. intros k' k v m S H. rewrite lookup_insert by assumption. apply keqb_neq in H. rewrite H. reflexivity. Qed.

  (* ---- remove ---- *)
  Lemma lt_all_remove : forall a k m, lt_all a m -> lt_all a (remove k m).
  Proof.
    intros a k m L. induction L as [|[k' v'] r H' L' IH]; cbn [SortedMap.remove]; [constructor|].
    destruct (ltb k k'); [|destruct (ltb k' k)].
    - constructor; assumption.
    - constructor; assumption.
    - exact L'.
  Qed.
  Lemma remove_sorted : forall k m, sorted m -> sorted (remove k m).
  Proof.
    intros k m. induction m as [|[k' v'] r IH]; intro S; cbn [SortedMap.remove]; [exact I|].
    destruct S as [L S]. destruct (ltb k k'); [|destruct (ltb k' k)].
    - split; assumption.
    - split; [apply lt_all_remove; exact L|apply IH; exact S].
    - exact S.
  Qed.
  Lemma lookup_remove : forall k' k m, sorted m ->
    lookup k' (remove k m) = if keqb k' k then None else lookup k' m.
  Proof.
    intros k' k m. induction m as [|[k0 v0] r IH]; intro S; cbn [SortedMap.remove].
    - cbn. destruct (keqb k' k); reflexivity.
    - destruct S as [L S]. destruct (ltb k k0) eqn:A; [|destruct (ltb k0 k) eqn:B].
      + destruct (keqb k' k) eqn:E; [|reflexivity]. apply keqb_eq in E. subst k'.
        apply lookup_lt_all. constructor; [exact A|]. eapply lt_all_trans; eassumption.
      + cbn [SortedMap.lookup]. rewrite (IH S). destruct (keqb k' k0) eqn:E1; [|reflexivity].
        destruct (keqb k' k) eqn:E2; [|reflexivity].
        apply keqb_eq in E1, E2. subst. rewrite (st_irrefl _ ST) in B. discriminate.
      + assert (k = k0) as -> by (apply (st_total _ ST); assumption).
        cbn [SortedMap.lookup]. destruct (keqb k' k0) eqn:E; [|reflexivity].
        apply keqb_eq in E. subst. apply lookup_lt_all. exact L.
  Qed.
  Lemma lookup_remove_eq : forall k m, sorted m -> lookup k (remove k m) = None.
  Proof. intros. rewrite lookup_remove by assumption. rewrite keqb_refl. reflexivity. Qed.
  Lemma lookup_remove_neq : forall k' k m, sorted m -> k' <> k -> lookup k' (remove k m) = lookup k' m.
  Proof. intros k' k m S H. rewrite lookup_remove by assumption. apply keqb_neq in H. rewrite H. reflexivity. Qed.

  (* ---- range_from ---- *)
  Lemma lt_all_range_from : forall a k m, lt_all a m -> lt_all a (range_from k m).
  Proof.
    intros a k m L. induction L as [|[k' v'] r H' L' IH]; cbn [SortedMap.range_from]; [constructor|].
    destruct (ltb k' k); [exact IH|constructor; assumption].
  Qed.
  Lemma range_from_sorted : forall k m, sorted m -> sorted (range_from k m).
  Proof.
    intros k m. induction m as [|[k' v'] r IH]; intro S; cbn [SortedMap.range_from]; [exact I|].
    destruct (ltb k' k); [apply IH; eapply sorted_tail; exact S|exact S].
  Qed.
  Lemma range_from_filter : forall k m, sorted m ->
    range_from k m = filter (fun e => negb (ltb (fst e) k)) m.
  Proof.
    intros k m. induction m as [|[k' v'] r IH]; intro S; [reflexivity|].
    destruct S as [L S]. cbn [SortedMap.range_from filter fst]. destruct (ltb k' k) eqn:A; cbn [negb].
    - apply IH. exact S.
    - f_equal. clear IH. symmetry. unfold SortedMap.lt_all in L. rewrite Forall_forall in L.
      assert (forall e, In e r -> negb (ltb (fst e) k) = true) as G.
      { intros e He. apply negb_true_iff. destruct (ltb (fst e) k) eqn:B; [|reflexivity].
        specialize (L _ He). cbn in L. rewrite (st_trans _ ST _ _ _ L B) in A. discriminate. }
      clear L S. induction r as [|e r IHr]; [reflexivity|]. cbn [filter]. rewrite (G e (or_introl eq_refl)).
      f_equal. apply IHr. intros e' He'. apply G. right. exact He'.
  Qed.
  Lemma In_range_from : forall k m e, sorted m ->
    (In e (range_from k m) <-> In e m /\ ltb (fst e) k = false).
  Proof.
    intros k m e S. rewrite range_from_filter by exact S. rewrite filter_In. rewrite negb_true_iff. tauto.
  Qed.
  Lemma lookup_range_from : forall k' k m, sorted m ->
    lookup k' (range_from k m) = if ltb k' k then None else lookup k' m.
  Proof.
    intros k' k m. induction m as [|[k0 v0] r IH]; intro S; cbn [SortedMap.range_from].
    - cbn. destruct (ltb k' k); reflexivity.
    - destruct S as [L S]. destruct (ltb k0 k) eqn:A.
      + rewrite (IH S). destruct (ltb k' k) eqn:B; [reflexivity|]. cbn [SortedMap.lookup].
        destruct (keqb k' k0) eqn:E; [|reflexivity]. apply keqb_eq in E. subst. congruence.
      + destruct (ltb k' k) eqn:B; [|reflexivity].
        apply lookup_lt_all. assert (ltb k' k0 = true) as C.
        { destruct (ltb k' k0) eqn:C; [reflexivity|]. destruct (ltb k0 k') eqn:D.
          - rewrite (st_trans _ ST _ _ _ D B) in A. discriminate.
          - assert (k' = k0) by (apply (st_total _ ST); assumption). subst. congruence. }
        constructor; [exact C|]. eapply lt_all_trans; eassumption.
  Qed.
  Lemma range_from_all : forall k m, lt_all k m -> range_from k m = m.
  Proof.
    intros k m L. destruct L as [|[k' v'] r H L]; [reflexivity|]. cbn [SortedMap.range_from]. cbn in H.
    rewrite (ltb_asym _ _ H). reflexivity.
  Qed.

  (* ---- extend / of_list ---- *)
  Lemma extend_sorted : forall l m, sorted m -> sorted (extend ltb m l).
  Proof.
    induction l as [|[k v] l IH]; intros m S; [exact S|]. cbn [extend fold_left]. apply IH. apply insert_sorted. exact S.
  Qed.
  Lemma of_list_sorted : forall l : list (K * V), sorted (of_list ltb l).
  Proof. intro l. apply extend_sorted. exact I. Qed.
  Lemma extend_app : forall (m l1 l2 : list (K * V)), extend ltb m (l1 ++ l2) = extend ltb (extend ltb m l1) l2.
  Proof. intros. unfold extend. apply fold_left_app. Qed.
  (* lookup after extend: the last binding of k in l wins, else the old map *)
  Fixpoint assoc_last (k : K) (l : list (K * V)) (d : option V) : option V :=
    match l with
    | [] => d
    | (k', v) :: r => assoc_last k r (if keqb k k' then Some v else d)
    end.
  Lemma lookup_extend : forall l m k, sorted m -> lookup k (extend ltb m l) = assoc_last k l (lookup k m).
  Proof.
    induction l as [|[k' v] l IH]; intros m k S; [reflexivity|].
    cbn [extend fold_left assoc_last]. change (fold_left _ l ?x) with (extend ltb x l).
    rewrite IH by (apply insert_sorted; exact S). cbn [fst snd]. rewrite lookup_insert by exact S. reflexivity.
  Qed.

  Lemma assoc_last_app : forall k l1 l2 d, assoc_last k (l1 ++ l2) d = assoc_last k l2 (assoc_last k l1 d).
  Proof. intros k l1. induction l1 as [|[k' v] l1 IH]; intros l2 d; [reflexivity|]. cbn [app assoc_last]. apply IH. Qed.
  Lemma assoc_last_default : forall k l d,
    assoc_last k l d = match assoc_last k l None with Some x => Some x | None => d end.
  Proof.
    intros k l. induction l as [|[k' v] l IH]; intro d; [reflexivity|]. cbn [assoc_last].
    destruct (keqb k k').
    - rewrite (IH (Some v)). destruct (assoc_last k l None); reflexivity.
    - apply IH.
  Qed.
  Lemma assoc_last_lt_all : forall k m d, lt_all k m -> assoc_last k m d = d.
  Proof.
    intros k m d L. revert d. induction L as [|[k' v'] r H _ IH]; intro d; [reflexivity|].
    cbn [assoc_last]. cbn in H. rewrite (keqb_lt _ _ H). apply IH.
  Qed.
  Lemma assoc_last_sorted : forall k m, sorted m -> assoc_last k m None = lookup k m.
  Proof.
    intros k m. induction m as [|[k' v] r IH]; intro S; [reflexivity|]. destruct S as [L S].
    cbn [assoc_last SortedMap.lookup]. destruct (keqb k k') eqn:E.
    - apply keqb_eq in E. subst k'. apply assoc_last_lt_all. exact L.
    - apply IH. exact S.
  Qed.
  Lemma lookup_of_list : forall l k, lookup k (of_list ltb l) = assoc_last k l None.
  Proof. intros l k. unfold of_list. rewrite lookup_extend by exact I. reflexivity. Qed.
  Lemma of_list_sorted_id : forall m, sorted m -> of_list ltb m = m.
  Proof.
    intros m S. apply sorted_ext; [apply of_list_sorted|exact S|]. intro k.
    rewrite lookup_of_list. apply assoc_last_sorted. exact S.
  Qed.
  (* folding "apply f to the entry with key k" over a sorted map touches at most one entry *)
  Lemma fold_select_sorted : forall (A : Type) (t : K -> bool) (f : V -> A -> A) k m a,
    (forall k', t k' = true <-> k' = k) -> sorted m ->
    fold_left (fun a e => if t (fst e) then f (snd e) a else a) m a
    = match lookup k m with Some x => f x a | None => a end.
  Proof.
    intros A t f k m a T. revert a. induction m as [|[k' v] r IH]; intros a S; [reflexivity|].
    destruct S as [L S]. cbn [fold_left fst snd SortedMap.lookup]. destruct (t k') eqn:E.
    - apply T in E. subst k'. rewrite keqb_refl. rewrite (IH _ S). rewrite lookup_lt_all by exact L. reflexivity.
    - assert (keqb k k' = false) as ->.
      { apply keqb_neq. intro C. subst k'. assert (t k = true) by (apply T; reflexivity). congruence. }
      apply IH. exact S.
  Qed.

  (* ---- predicates on all entries ---- *)
  Lemma Forall_insert : forall (P : K * V -> Prop) k v m, P (k, v) -> Forall P m -> Forall P (insert k v m).
  Proof.
    intros P k v m Pk F. induction F as [|[k' v'] r H F IH]; cbn [SortedMap.insert]; [constructor; [exact Pk|constructor]|].
    destruct (ltb k k'); [|destruct (ltb k' k)].
    - constructor; [exact Pk|]. constructor; assumption.
    - constructor; assumption.
    - constructor; assumption.
  Qed.
  Lemma Forall_remove : forall (P : K * V -> Prop) k m, Forall P m -> Forall P (remove k m).
  Proof.
    intros P k m F. induction F as [|[k' v'] r H F IH]; cbn [SortedMap.remove]; [constructor|].
    destruct (ltb k k'); [|destruct (ltb k' k)].
    - constructor; assumption.
    - constructor; assumption.
    - exact F.
  Qed.
  Lemma Forall_extend : forall (P : K * V -> Prop) l m, Forall P m -> Forall P l -> Forall P (extend ltb m l).
  Proof.
    intros P l. induction l as [|[k v] l IH]; intros m Fm Fl; [exact Fm|]. cbn [extend fold_left].
    inversion Fl; subst. apply IH; [|assumption]. apply Forall_insert; assumption.
  Qed.
  Lemma Forall_of_list : forall (P : K * V -> Prop) l, Forall P l -> Forall P (of_list ltb l).
  Proof. intros. apply Forall_extend; [constructor|assumption]. Qed.
  Lemma Forall_lookup : forall (P : K * V -> Prop) k v m, Forall P m -> lookup k m = Some v -> P (k, v).
  Proof. intros P k v m F L. apply lookup_Some_In in L. rewrite Forall_forall in F. exact (F _ L). Qed.

  Lemma In_insert_inv : forall e k v m, In e (insert k v m) -> e = (k, v) \/ In e m.
  Proof.
    intros e k v m. induction m as [|[k' v'] r IH]; cbn [SortedMap.insert]; intro H.
    - destruct H as [H|[]]. left. symmetry. exact H.
    - destruct (ltb k k'); [|destruct (ltb k' k)].
      + destruct H as [H|H]; [left; symmetry; exact H|right; exact H].
      + destruct H as [H|H]; [right; left; exact H|]. destruct (IH H) as [G|G]; [left; exact G|right; right; exact G].
      + destruct H as [H|H]; [left; symmetry; exact H|right; right; exact H].
  Qed.
  Lemma In_remove_inv : forall e k m, In e (remove k m) -> In e m.
  Proof.
    intros e k m. induction m as [|[k' v'] r IH]; cbn [SortedMap.remove]; intro H; [exact H|].
    destruct (ltb k k'); [|destruct (ltb k' k)].
    - exact H.
    - destruct H as [H|H]; [left; exact H|right; apply IH; exact H].
    - right. exact H.
  Qed.
  Lemma assoc_last_In : forall k l x, assoc_last k l None = Some x -> In (k, x) l.
  Proof.
    intros k l. induction l as [|[k' v] l IH] using rev_ind; intros x H; [discriminate|].
    rewrite assoc_last_app in H. cbn [assoc_last] in H. apply in_or_app. destruct (keqb k k') eqn:E.
    - apply keqb_eq in E. subst k'. right. left. congruence.
    - left. apply IH. exact H.
  Qed.
  Lemma lookup_filter_key : forall (t : K -> bool) k m,
    lookup k (filter (fun e => t (fst e)) m) = if t k then lookup k m else None.
  Proof.
    intros t k m. induction m as [|[k' v] r IH]; [destruct (t k); reflexivity|].
    cbn [filter fst]. destruct (t k') eqn:T; cbn [SortedMap.lookup]; destruct (keqb k k') eqn:E.
    - apply keqb_eq in E. subst k'. rewrite T. reflexivity.
    - exact IH.
    - apply keqb_eq in E. subst k'. rewrite IH, T. reflexivity.
    - exact IH.
  Qed.

  Lemma sorted_app : forall a b, sorted a -> sorted b ->
    (forall x y, In x a -> In y b -> ltb (fst x) (fst y) = true) -> sorted (a ++ b).
  Proof.
    induction a as [|[k v] a IH]; intros b Sa Sb H; [exact Sb|]. destruct Sa as [La Sa]. cbn [app]. split.
    - unfold SortedMap.lt_all in *. apply Forall_app. split; [exact La|].
      apply Forall_forall. intros y Hy. exact (H (k, v) y (or_introl eq_refl) Hy).
    - apply IH; [exact Sa|exact Sb|]. intros x y Hx Hy. apply H; [right; exact Hx|exact Hy].
  Qed.
  Lemma In_keys_lookup : forall k m, sorted m -> (In k (keys m) <-> lookup k m <> None).
  Proof.
    intros k m S. unfold keys. rewrite in_map_iff. split.
    - intros [[k' v] [E H]]. cbn in E. subst k'. apply (lookup_In k v m S) in H. congruence.
    - intro H. destruct (lookup k m) as [v|] eqn:E; [|contradiction]. exists (k, v). split; [reflexivity|].
      apply lookup_Some_In. exact E.
  Qed.

  (* ---- filter on keys, map on values ---- *)
  Lemma lt_all_filter : forall a f (m : list (K * V)), lt_all a m -> lt_all a (filter f m).
  Proof.
    intros a f m L. unfold SortedMap.lt_all in *. rewrite Forall_forall in *. intros e He. apply filter_In in He. apply L. tauto.
  Qed.
  Lemma filter_sorted : forall f (m : list (K * V)), sorted m -> sorted (filter f m).
  Proof.
    intros f m. induction m as [|[k v] r IH]; intro S; [exact I|]. destruct S as [L S]. cbn [filter].
    destruct (f (k, v)); [split; [apply lt_all_filter; exact L|apply IH; exact S]|apply IH; exact S].
  Qed.
End Facts.

Section MapVals.
  Context {K V W : Type}.
  Variable ltb : K -> K -> bool.
  Hypothesis ST : StrictTotal ltb.
  Definition map_vals (f : V -> W) (m : list (K * V)) : list (K * W) := map (fun e => (fst e, f (snd e))) m.
  Lemma lt_all_map_vals : forall f a m, lt_all ltb a m -> lt_all ltb a (map_vals f m).
  Proof.
    intros f a m L. unfold lt_all, map_vals in *. rewrite Forall_forall in *. intros e He.
    apply in_map_iff in He. destruct He as [e' [<- He']]. cbn. apply L. exact He'.
  Qed.
  Lemma map_vals_sorted : forall f m, sorted ltb m -> sorted ltb (map_vals f m).
  Proof.
    intros f m. induction m as [|[k v] r IH]; intro S; [exact I|]. destruct S as [L S].
    cbn. split; [apply (lt_all_map_vals f k r L)|apply IH; exact S].
  Qed.
  Lemma lookup_map_vals : forall f k m, lookup ltb k (map_vals f m) = option_map f (lookup ltb k m).
  Proof.
    intros f k m. induction m as [|[k' v] r IH]; [reflexivity|]. cbn [map_vals map lookup fst snd].
    destruct (keqb ltb k k'); [reflexivity|exact IH].
  Qed.
  Lemma range_from_map_vals : forall f k m, range_from ltb k (map_vals f m) = map_vals f (range_from ltb k m).
  Proof.
    intros f k m. induction m as [|[k' v] r IH]; [reflexivity|]. cbn [map_vals map range_from fst snd].
    destruct (ltb k' k); [exact IH|reflexivity].
  Qed.
End MapVals.

(* re-keying by a function that is strictly monotone on the keys present keeps the map sorted *)
Section MapKeys.
  Context {K K' V : Type}.
  Variable ltb : K -> K -> bool.
  Variable ltb' : K' -> K' -> bool.
  Definition map_keys (g : K -> K') (m : list (K * V)) : list (K' * V) := map (fun e => (g (fst e), snd e)) m.
  Lemma map_keys_sorted : forall g m,
    (forall a b va vb, In (a, va) m -> In (b, vb) m -> ltb a b = true -> ltb' (g a) (g b) = true) ->
    sorted ltb m -> sorted ltb' (map_keys g m).
  Proof.
    intros g m. induction m as [|[k v] r IH]; intros Mono S; [exact I|]. destruct S as [L S]. cbn. split.
    - unfold lt_all in *. rewrite Forall_forall in *. intros e He. apply in_map_iff in He.
      destruct He as [[k1 v1] [<- He']]. cbn. eapply Mono; [left; reflexivity|right; exact He'|]. exact (L _ He').
    - apply IH; [|exact S]. intros a b va vb Ha Hb. apply (Mono a b va vb); right; assumption.
  Qed.
End MapKeys.

Arguments assoc_last {K V} ltb k l d.

From Coq Require Import NArith.
Lemma Nltb_strict_total : StrictTotal N.ltb.
Proof.
  split.
  - intro a. apply N.ltb_irrefl.
  - intros a b c H1 H2. apply N.ltb_lt in H1, H2. apply N.ltb_lt. eapply N.lt_trans; eassumption.
  - intros a b H1 H2. apply N.ltb_ge in H1, H2. apply N.le_antisymm; assumption.
Qed.
