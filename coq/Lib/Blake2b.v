(* Executable Blake2b-256 (unkeyed, digest length 32) = radix_common::crypto::hash.
   Bytes are N (< 256), byte strings are list N.

   Two instances of one generic definition (Section B2 below):
     blake2b_256_ref  : 64-bit words as N modulo 2^64           (reference, slow under vm_compute)
     blake2b_256      : 64-bit words as two 32-bit limbs held in primitive Uint63 integers (fast)
   Both are validated against the implementation by correspondence only (harness c17_blake) and
   against each other on test vectors (Corr/C17_blake_run.v).  NO property theorem depends on this
   file: theorems take an abstract hash function as a Section variable.  No proofs here. *)
From Coq Require Import List NArith ZArith Uint63.
Import ListNotations.

Section B2.
  Variable W : Type.
  Variables (wadd wxor : W -> W -> W) (r32 r24 r16 r63 : W -> W).
  Variable w_of_n : N -> W.          (* from a natural < 2^64 (used for the byte counter) *)
  Variable IV : list W.              (* the 8 initialisation words (IVn below) *)
  Variable w_ones : W.               (* 0xFFFFFFFFFFFFFFFF *)
  Variable w_param : W.              (* 0x01010020: depth 1, fanout 1, digest length 32 *)
  Variable w_of_le8 : list N -> W.   (* from (up to) 8 little-endian bytes *)
  Variable w_to_le8 : W -> list N.   (* 8 little-endian bytes *)

  Definition G (a b c d x y : W) : W * W * W * W :=
    let a := wadd (wadd a b) x in
    let d := r32 (wxor d a) in
    let c := wadd c d in
    let b := r24 (wxor b c) in
    let a := wadd (wadd a b) y in
    let d := r16 (wxor d a) in
    let c := wadd c d in
    let b := r63 (wxor b c) in
    (a, b, c, d).


  Definition SIGMA : list (list nat) :=
    [[0;1;2;3;4;5;6;7;8;9;10;11;12;13;14;15];
     [14;10;4;8;9;15;13;6;1;12;0;2;11;7;5;3];
     [11;8;12;0;5;2;15;13;10;14;3;6;7;1;9;4];
     [7;9;3;1;13;12;11;14;2;6;5;10;4;0;15;8];
     [9;0;5;7;2;4;10;15;14;1;11;12;6;8;3;13];
     [2;12;6;10;0;11;8;3;4;13;7;5;15;14;1;9];
     [12;5;1;15;14;13;4;10;0;7;6;3;9;2;8;11];
     [13;11;7;14;12;1;3;9;5;0;15;4;8;6;2;10];
     [6;15;14;9;11;3;0;8;12;2;13;7;1;4;10;5];
     [10;2;8;4;7;6;1;5;15;11;9;14;3;12;13;0];
     [0;1;2;3;4;5;6;7;8;9;10;11;12;13;14;15];
     [14;10;4;8;9;15;13;6;1;12;0;2;11;7;5;3]]%nat.

  Definition zeroW : W := w_of_n 0%N.

  (* one round on the 16-word state (as a list of exactly 16 words) with message words m and
     permutation row s *)
  Definition round (m : list W) (s : list nat) (v : list W) : list W :=
    match v, s with
    | [v0;v1;v2;v3;v4;v5;v6;v7;v8;v9;v10;v11;v12;v13;v14;v15],
      [s0;s1;s2;s3;s4;s5;s6;s7;s8;s9;s10;s11;s12;s13;s14;s15] =>
      let mm i := nth i m zeroW in
      let '(v0,v4,v8,v12) := G v0 v4 v8 v12 (mm s0) (mm s1) in
      let '(v1,v5,v9,v13) := G v1 v5 v9 v13 (mm s2) (mm s3) in
      let '(v2,v6,v10,v14) := G v2 v6 v10 v14 (mm s4) (mm s5) in
      let '(v3,v7,v11,v15) := G v3 v7 v11 v15 (mm s6) (mm s7) in
      let '(v0,v5,v10,v15) := G v0 v5 v10 v15 (mm s8) (mm s9) in
      let '(v1,v6,v11,v12) := G v1 v6 v11 v12 (mm s10) (mm s11) in
      let '(v2,v7,v8,v13) := G v2 v7 v8 v13 (mm s12) (mm s13) in
      let '(v3,v4,v9,v14) := G v3 v4 v9 v14 (mm s14) (mm s15) in
      [v0;v1;v2;v3;v4;v5;v6;v7;v8;v9;v10;v11;v12;v13;v14;v15]
    | _, _ => v
    end.

  Fixpoint chunks8 (n : nat) (bs : list N) : list W :=
    match n with
    | O => []
    | S n' => w_of_le8 (firstn 8 bs) :: chunks8 n' (skipn 8 bs)
    end.

  Fixpoint xor3 (h a b : list W) : list W :=
    match h, a, b with
    | x :: h', y :: a', z :: b' => wxor (wxor x y) z :: xor3 h' a' b'
    | _, _, _ => []
    end.

  (* compression F: h = 8 words, block = 128 bytes (already zero padded), t = byte counter
     (< 2^64: the high counter word is 0), last = final block flag *)
  Definition compress (h : list W) (block : list N) (t : N) (last : bool) : list W :=
    let m := chunks8 16 block in
    let iv := IV in
    let v := h ++ firstn 4 iv ++
             [wxor (nth 4 iv zeroW) (w_of_n t); nth 5 iv zeroW;
              (if last then wxor (nth 6 iv zeroW) w_ones else nth 6 iv zeroW);
              nth 7 iv zeroW] in
    let v := fold_left (fun v s => round m s v) SIGMA v in
    xor3 h (firstn 8 v) (skipn 8 v).

  Fixpoint pad_to (n : nat) (bs : list N) : list N :=
    match n with
    | O => []
    | S n' => match bs with [] => 0%N :: pad_to n' [] | b :: bs' => b :: pad_to n' bs' end
    end.

  (* process all blocks; fuel = number of blocks is enough (length/128 + 1) *)
  Fixpoint blocks (fuel : nat) (h : list W) (bs : list N) (len : N) (t : N) : list W :=
    match fuel with
    | O => h
    | S f =>
      if (len <=? 128)%N then compress h (pad_to 128 bs) (t + len)%N true
      else blocks f (compress h (firstn 128 bs) (t + 128)%N false) (skipn 128 bs) (len - 128)%N (t + 128)%N
    end.

  Definition h_init : list W :=
    match IV with
    | h0 :: rest => wxor h0 w_param :: rest
    | [] => []
    end.

  Definition blake2b_256_gen (msg : list N) : list N :=
    let len := N.of_nat (length msg) in
    let h := blocks (S (length msg / 128)) h_init msg len 0%N in
    flat_map w_to_le8 (firstn 4 h).
End B2.

Definition IVn : list N :=
  [7640891576956012808; 13503953896175478587; 4354685564936845355; 11912009170470909681;
   5840696475078001361; 11170449401992604703; 2270897969802886507; 6620516959819538809]%N.

(* ---------- reference instance: words are N < 2^64 ---------- *)
Definition W64 : N := 18446744073709551616%N.
Definition n_add (a b : N) : N := ((a + b) mod W64)%N.
Definition n_rotr (k : N) (x : N) : N :=
  N.lor (N.shiftr x k) ((N.shiftl x (64 - k)) mod W64)%N.
Fixpoint n_of_le (bs : list N) : N :=
  match bs with [] => 0%N | b :: r => (b + 256 * n_of_le r)%N end.
Fixpoint n_to_le (n : nat) (x : N) : list N :=
  match n with O => [] | S n' => (x mod 256)%N :: n_to_le n' (x / 256)%N end.

Definition blake2b_256_ref : list N -> list N :=
  blake2b_256_gen N n_add N.lxor (n_rotr 32) (n_rotr 24) (n_rotr 16) (n_rotr 63)
                  (fun x => x) IVn 18446744073709551615%N 16842784%N n_of_le (n_to_le 8).

(* ---------- fast instance: (hi, lo) 32-bit limbs in primitive 63-bit integers ---------- *)
Definition w2 := (int * int)%type.
Definition m32 : int := 4294967295%uint63.
Definition f_add (a b : w2) : w2 :=
  let '(ah, al) := a in let '(bh, bl) := b in
  let l := (al + bl)%uint63 in
  (((ah + bh + (l >> 32)) land m32)%uint63, (l land m32)%uint63).
Definition f_xor (a b : w2) : w2 :=
  let '(ah, al) := a in let '(bh, bl) := b in ((ah lxor bh)%uint63, (al lxor bl)%uint63).
Definition f_r32 (a : w2) : w2 := let '(h, l) := a in (l, h).
Definition f_r24 (a : w2) : w2 :=
  let '(h, l) := a in
  ((((h >> 24) lor (l << 8)) land m32)%uint63, (((l >> 24) lor (h << 8)) land m32)%uint63).
Definition f_r16 (a : w2) : w2 :=
  let '(h, l) := a in
  ((((h >> 16) lor (l << 16)) land m32)%uint63, (((l >> 16) lor (h << 16)) land m32)%uint63).
Definition f_r63 (a : w2) : w2 :=   (* rotate right 63 = rotate left 1 *)
  let '(h, l) := a in
  ((((h << 1) lor (l >> 31)) land m32)%uint63, (((l << 1) lor (h >> 31)) land m32)%uint63).
Definition int_of_n (x : N) : int := Uint63.of_Z (Z.of_N x).
Definition n_of_int (x : int) : N := Z.to_N (Uint63.to_Z x).
Definition f_of_n (x : N) : w2 := (int_of_n (x / 4294967296)%N, int_of_n (x mod 4294967296)%N).
Definition int_of_byte (b : N) : int := Uint63.of_Z (Z.of_N b).
Definition i_of_le4 (bs : list N) : int :=
  match bs with
  | [a; b; c; d] => (int_of_byte a lor (int_of_byte b << 8) lor (int_of_byte c << 16) lor (int_of_byte d << 24))%uint63
  | _ => int_of_n (n_of_le bs)
  end.
Definition f_of_le8 (bs : list N) : w2 :=
  match bs with
  | [a; b; c; d; e; f; g; h] => (i_of_le4 [e; f; g; h], i_of_le4 [a; b; c; d])
  | _ => (int_of_n (n_of_le (skipn 4 bs)), int_of_n (n_of_le (firstn 4 bs)))
  end.
Definition byte_of_int (x : int) : N := Z.to_N (Uint63.to_Z (x land 255)%uint63).
Definition i_to_le4 (x : int) : list N :=
  [byte_of_int x; byte_of_int (x >> 8)%uint63; byte_of_int (x >> 16)%uint63; byte_of_int (x >> 24)%uint63].
Definition f_to_le8 (a : w2) : list N := let '(h, l) := a in i_to_le4 l ++ i_to_le4 h.

(* the IV and the two constants as limb pairs, computed once (vm_compute does not memoise) *)
Definition IVf : list w2 :=
  [(1779033703, 4089235720); (3144134277, 2227873595); (1013904242, 4271175723); (2773480762, 1595750129);
   (1359893119, 2917565137); (2600822924, 725511199); (528734635, 4215389547); (1541459225, 327033209)]%uint63.

Definition blake2b_256 : list N -> list N :=
  blake2b_256_gen w2 f_add f_xor f_r32 f_r24 f_r16 f_r63 f_of_n IVf (m32, m32) (0, 16842784)%uint63
                  f_of_le8 f_to_le8.
