(* Lib/DecCore.v — fixed-point core shared by the Decimal / PreciseDecimal models (C24–C27).
   Definitions only (lemmas: Lib/DecCoreFacts.v).

   Machine integers of the code (bnum wrappers I192 … I768, U192 … U768, i8 … u128) are `Z` values
   together with an integer type descriptor `ity` (bit width + signedness).  Every operation of the
   wrappers that can fail is modelled with its failure mode:
     checked_*  -> `Err ENone`  (Rust `None`)
     + - * / pow of the wrappers (`.expect("Overflow")`) -> `Panic`
   so that "never panics" is a statement about the model, not an artefact of totality. *)
From Coq Require Import ZArith List Bool.
Import ListNotations.
Open Scope Z_scope.

(* ---------------------------------------------------------------------------------------------- *)
(* outcomes *)

Inductive err :=
| ENone            (* Option::None of a checked_* operation *)
| EOverflow        (* Parse…Error::Overflow *)
| ENegToUnsigned   (* Parse…Error::NegativeToUnsigned *)
| EInvalidDigit
| EEmpty           (* ParseI…Error::Empty (integer parser) *)
| EEmptyInt        (* Parse(Precise)DecimalError::EmptyIntegralPart *)
| EEmptyFrac       (* EmptyFractionalPart *)
| ETooManyPlaces   (* MoreThanEighteenDecimalPlaces / MoreThanThirtySixDecimalPlaces *)
| ETwoPoints       (* MoreThanOneDecimalPoint *)
| EInvalidLength
| EFuel.           (* model only: recursion fuel exhausted (excluded by theorems) *)

Inductive res (A : Type) :=
| Ok (a : A)
| Err (e : err)
| Panic.
Arguments Ok {A} a.
Arguments Err {A} e.
Arguments Panic {A}.

Definition bind {A B} (r : res A) (f : A -> res B) : res B :=
  match r with Ok a => f a | Err e => Err e | Panic => Panic end.
Notation "'let*' x ':=' r 'in' k" := (bind r (fun x => k))
  (at level 200, x name, r at level 100, k at level 200, right associativity).

(* `.ok()?` / `?` on an Option inside an Option-returning function: any error becomes None *)
Definition to_none {A} (r : res A) : res A :=
  match r with Ok a => Ok a | Err _ => Err ENone | Panic => Panic end.
(* `.unwrap()` / `.expect(..)`: any error becomes a panic *)
Definition unwrap {A} (r : res A) : res A :=
  match r with Ok a => Ok a | Err _ => Panic | Panic => Panic end.
(* `.map_err(|_| e)` / `.ok_or(e)` *)
Definition or_err {A} (e : err) (r : res A) : res A :=
  match r with Ok a => Ok a | Err _ => Err e | Panic => Panic end.

Definition err_eqb (a b : err) : bool :=
  match a, b with
  | ENone, ENone | EOverflow, EOverflow | ENegToUnsigned, ENegToUnsigned
  | EInvalidDigit, EInvalidDigit | EEmpty, EEmpty | EEmptyInt, EEmptyInt
  | EEmptyFrac, EEmptyFrac | ETooManyPlaces, ETooManyPlaces | ETwoPoints, ETwoPoints
  | EInvalidLength, EInvalidLength | EFuel, EFuel => true
  | _, _ => false
  end.
Definition resZ_eqb (a b : res Z) : bool :=
  match a, b with
  | Ok x, Ok y => x =? y
  | Err e, Err e' => err_eqb e e'
  | Panic, Panic => true
  | _, _ => false
  end.

(* ---------------------------------------------------------------------------------------------- *)
(* integer types *)

Record ity := { ibits : Z; isigned : bool }.
Definition imin (t : ity) : Z := if isigned t then - 2 ^ (ibits t - 1) else 0.
Definition imax (t : ity) : Z := if isigned t then 2 ^ (ibits t - 1) - 1 else 2 ^ ibits t - 1.
Definition in_ity (t : ity) (z : Z) : bool := (imin t <=? z) && (z <=? imax t).
Definition InTy (t : ity) (z : Z) : Prop := imin t <= z <= imax t.

Definition SI (b : Z) : ity := {| ibits := b; isigned := true |}.
Definition UI (b : Z) : ity := {| ibits := b; isigned := false |}.
Definition I192 := SI 192.  Definition I256 := SI 256.  Definition I320 := SI 320.
Definition I384 := SI 384.  Definition I448 := SI 448.  Definition I512 := SI 512.
Definition in_i192 := in_ity I192.
Definition in_i256 := in_ity I256.
Definition in_i384 := in_ity I384.

(* checked_* of the wrappers *)
Definition chk (t : ity) (z : Z) : res Z := if in_ity t z then Ok z else Err ENone.
Definition cadd t x y := chk t (x + y).
Definition csub t x y := chk t (x - y).
Definition cmul t x y := chk t (x * y).
Definition cneg t x := chk t (- x).
(* bnum checked_div: None on a zero divisor and on MIN / -1; truncates toward zero *)
Definition cdiv t x y := if y =? 0 then Err ENone else chk t (Z.quot x y).

(* the panicking operators of the wrappers *)
Definition pan (t : ity) (z : Z) : res Z := if in_ity t z then Ok z else Panic.
Definition padd t x y := pan t (x + y).
Definition psub t x y := pan t (x - y).
Definition pmul t x y := pan t (x * y).
Definition pdiv t x y := if y =? 0 then Panic else pan t (Z.quot x y).
(* `%` (C-style remainder, sign of the dividend); panics on a zero divisor *)
Definition prem (t : ity) x y : res Z := if y =? 0 then Panic else Ok (Z.rem x y).
Definition ppow t b e := pan t (b ^ e).

(* two's-complement truncating cast (`cast_from`) *)
Definition cast (t : ity) (z : Z) : Z :=
  if isigned t then (z + 2 ^ (ibits t - 1)) mod 2 ^ ibits t - 2 ^ (ibits t - 1)
  else z mod 2 ^ ibits t.

Definition bitlen (z : Z) : Z := if z <=? 0 then 0 else Z.log2 z + 1.
(* leading_zeros of the two's-complement representation in type t *)
Definition lzeros (t : ity) (z : Z) : Z := if z <? 0 then 0 else ibits t - bitlen z.
(* count_ones() == 1, for the values it is applied to (non-negative, or the signed minimum) *)
Definition one_bit (t : ity) (z : Z) : bool :=
  if z <? 0 then z =? imin t else (0 <? z) && (z =? 2 ^ Z.log2 z).

(* `impl_try_from_bnum` (bnum_integer/convert.rs), as written after the fix that accepts the
   minimum of a narrower signed type:
     sign = ONE; other = val;
     if other < 0 { if Self unsigned -> NegativeToUnsigned
                    else if other != T::MIN { other = 0 - other; sign = 0 - sign } }
     if lz(other) <= T::BITS - Self::BITS {
        if sign != ONE && lz(other) == T::BITS - Self::BITS && count_ones(other) == 1 -> Ok(Self::MIN)
        Overflow }
     Ok(Self(cast(other)) * sign) *)
Definition try_from_bnum (src dst : ity) (v : Z) : res Z :=
  if (v <? 0) && negb (isigned dst) then Err ENegToUnsigned else
  let flip := (v <? 0) && negb (v =? imin src) in
  let* other := (if flip then psub src 0 v else Ok v) in
  let* sign := (if flip then psub dst 0 1 else Ok 1) in
  let lz := lzeros src other in
  let d := ibits src - ibits dst in
  if lz <=? d then
    if negb (sign =? 1) && (lz =? d) && one_bit src other then Ok (imin dst)
    else Err EOverflow
  else pmul dst (cast dst other) sign.

(* the same conversion before the fix (kept to state what the defect was) *)
Definition try_from_bnum_prefix (src dst : ity) (v : Z) : res Z :=
  if (v <? 0) && negb (isigned dst) then Err ENegToUnsigned else
  let flip := (v <? 0) && negb (v =? imin src) in
  let* other := (if flip then psub src 0 v else Ok v) in
  let* sign := (if flip then psub dst 0 1 else Ok 1) in
  if lzeros src other <=? ibits src - ibits dst then Err EOverflow
  else pmul dst (cast dst other) sign.

(* `impl_from_bnum` (widening `From`): same shape, failures are panics *)
Definition from_bnum (src dst : ity) (v : Z) : res Z :=
  if (v <? 0) && negb (isigned dst) then Panic else
  let flip := (v <? 0) && negb (v =? imin src) in
  let* other := (if flip then psub src 0 v else Ok v) in
  let* sign := (if flip then psub dst 0 1 else Ok 1) in
  if lzeros src other <=? ibits src - ibits dst then Panic
  else pmul dst (cast dst other) sign.

(* `TryFrom<BigInt>`: to_signed_bytes_le + from_le_slice = exact range test *)
Definition try_from_bigint (dst : ity) (v : Z) : res Z :=
  if in_ity dst v then Ok v else Err EOverflow.

(* ---------------------------------------------------------------------------------------------- *)
(* the two fixed-point formats *)

Record fmt := {
  fbits : Z;          (* width of the stored integer *)
  wbits : Z;          (* width of the intermediate used by mul/div/powi/sqrt *)
  scale : Z;          (* number of decimal places *)
  cbrt_bits : option Z  (* width used by checked_cbrt; None = BigInt *)
}.
Definition DEC  : fmt := {| fbits := 192; wbits := 256; scale := 18; cbrt_bits := Some 320 |}.
Definition PDEC : fmt := {| fbits := 256; wbits := 384; scale := 36; cbrt_bits := None |}.
Definition fty (f : fmt) : ity := SI (fbits f).
Definition wty (f : fmt) : ity := SI (wbits f).
Definition one (f : fmt) : Z := 10 ^ scale f.
Definition fmin (f : fmt) : Z := imin (fty f).
Definition fmax (f : fmt) : Z := imax (fty f).
Definition InF (f : fmt) (z : Z) : Prop := InTy (fty f) z.
Definition in_f (f : fmt) (z : Z) : bool := in_ity (fty f) z.
Definition pow10 (n : Z) : Z := 10 ^ n.

(* a well-formed format: what the generic proofs use; both DEC and PDEC satisfy it *)
Definition fmt_ok (f : fmt) : Prop :=
  0 < scale f /\ 1 < fbits f /\ fbits f < wbits f /\ 10 ^ scale f < 2 ^ (wbits f - fbits f)
  /\ 2 * 10 ^ scale f < 2 ^ (fbits f - 1)
  /\ match cbrt_bits f with Some c => fbits f < c /\ 2 ^ (fbits f - 1) * (10 ^ scale f) ^ 2 < 2 ^ (c - 1) | None => True end.

(* ---------------------------------------------------------------------------------------------- *)
(* integer floor roots *)

(* floor n-th root of x >= 0 for n >= 1 by bisection; invariant lo^n <= x < hi^n *)
Fixpoint iroot_go (fuel : nat) (n x lo hi : Z) : Z :=
  match fuel with
  | O => lo
  | S k =>
    if hi - lo <=? 1 then lo else
    let mid := (lo + hi) / 2 in
    if mid ^ n <=? x then iroot_go k n x mid hi else iroot_go k n x lo mid
  end.
Definition iroot (n x : Z) : Z :=
  if x <=? 0 then 0 else
  iroot_go (S (S (Z.to_nat (Z.log2 x)))) n x 0 (2 ^ (Z.log2 x / n + 1)).
(* r is the floor n-th root of x *)
Definition FloorRoot (n x r : Z) : Prop := 0 <= r /\ r ^ n <= x < (r + 1) ^ n.
(* root truncated toward zero, for odd roots of negative numbers too *)
Definition troot (n x : Z) : Z := if x <? 0 then - iroot n (- x) else iroot n x.

(* Checking instead of searching: `root_hint h n y` returns the hint h when h passes the defining test
   of the truncated n-th root of y, and computes the root otherwise; it always equals `troot n y`
   (Lib/DecCoreFacts.root_hint_eq).  Correspondence evaluation passes the implementation's output as
   the hint, which replaces ~60 big exponentiations by 2. *)
Definition is_troot (n y r : Z) : bool :=
  (Z.abs r ^ n <=? Z.abs y) && (Z.abs y <? (Z.abs r + 1) ^ n) &&
  (if y <? 0 then r <=? 0 else 0 <=? r).
Definition root_hint (h : option Z) (n y : Z) : Z :=
  match h with
  | Some r => if is_troot n y r then r else troot n y
  | None => troot n y
  end.
