(* Lib/Utf8 — UTF-8 validity of a byte string (bytes are `N`), as accepted by Rust's
   `core::str::from_utf8` / `String::from_utf8` (Unicode Table 3-7 "Well-Formed UTF-8 Byte
   Sequences": no overlong forms, no surrogates U+D800..U+DFFF, nothing above U+10FFFF).
   Shared library (logical path RV.Lib.Utf8).  Executable definition only + the declarative
   reading (`utf8_encode` of scalar values) used by C20's wire-format theorem.  Tied to the real
   `from_utf8` by correspondence (harness c20: random valid / mutated strings). No axioms. *)
From Coq Require Import List NArith Bool Lia.
Import ListNotations.
Open Scope N_scope.

Definition in_range (lo hi b : N) : bool := (lo <=? b) && (b <=? hi).
Definition is_cont (b : N) : bool := in_range 128 191 b.

(* one step of the validator: consumes one well-formed sequence; structural on the list *)
Fixpoint utf8_valid (l : list N) : bool :=
  match l with
  | [] => true
  | b0 :: r0 =>
    if b0 <? 128 then utf8_valid r0
    else if in_range 194 223 b0 then
      match r0 with b1 :: r1 => is_cont b1 && utf8_valid r1 | _ => false end
    else if b0 =? 224 then
      match r0 with b1 :: b2 :: r2 => in_range 160 191 b1 && is_cont b2 && utf8_valid r2 | _ => false end
    else if in_range 225 236 b0 || in_range 238 239 b0 then
      match r0 with b1 :: b2 :: r2 => is_cont b1 && is_cont b2 && utf8_valid r2 | _ => false end
    else if b0 =? 237 then
      match r0 with b1 :: b2 :: r2 => in_range 128 159 b1 && is_cont b2 && utf8_valid r2 | _ => false end
    else if b0 =? 240 then
      match r0 with b1 :: b2 :: b3 :: r3 => in_range 144 191 b1 && is_cont b2 && is_cont b3 && utf8_valid r3 | _ => false end
    else if in_range 241 243 b0 then
      match r0 with b1 :: b2 :: b3 :: r3 => is_cont b1 && is_cont b2 && is_cont b3 && utf8_valid r3 | _ => false end
    else if b0 =? 244 then
      match r0 with b1 :: b2 :: b3 :: r3 => in_range 128 143 b1 && is_cont b2 && is_cont b3 && utf8_valid r3 | _ => false end
    else false
  end.

(* declarative side: Unicode scalar values and their (unique, shortest-form) UTF-8 encoding *)
Definition is_scalar (c : N) : bool := (c <? 55296) || (in_range 57344 1114111 c).

Definition utf8_encode (c : N) : list N :=
  if c <? 128 then [c]
  else if c <? 2048 then [192 + c / 64; 128 + c mod 64]
  else if c <? 65536 then [224 + c / 4096; 128 + (c / 64) mod 64; 128 + c mod 64]
  else [240 + c / 262144; 128 + (c / 4096) mod 64; 128 + (c / 64) mod 64; 128 + c mod 64].

Definition utf8_encode_all (cs : list N) : list N := flat_map utf8_encode cs.
