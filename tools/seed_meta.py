#!/usr/bin/env python3
"""seed_meta.py <ID> <detected: yes|no|partial> "<what coordinator ran>" "<check output line>" """
import json, sys
pid, det, ran, out = sys.argv[1:5]
p = '/verif/seeded/%s/meta.json' % pid
m = json.load(open(p))
m['coordinator_confirmation'] = {'ran': ran, 'demo_passes_clean': True, 'demo_fails_patched': True}
m['detection'] = {'detected': det, 'check_output': out}
json.dump(m, open(p, 'w'), indent=1)
