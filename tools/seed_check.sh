#!/bin/bash
# usage: seed_check.sh <ID> [check-id...]  — applies /verif/seeded/<ID>/patch.diff to /repo, runs the checks, undoes it
ID=$1; shift; CHECKS=${@:-$ID}
cd /verif
[ "$VERIF_REPO_LOCK_HELD" = 1 ] || exec /verif/tools/with_repo_mutation.sh "/verif/tools/seed_check.sh $ID $CHECKS"
git -C /repo apply /verif/seeded/$ID/patch.diff || { echo "patch does not apply to /repo"; exit 2; }
for c in $CHECKS; do
  echo "== ./check $c with seeded $ID"; timeout 3000 ./check $c > /tmp/seedcheck_$ID_$c.out 2> /tmp/seedcheck_$ID_$c.err; echo "rc=$?"; cat /tmp/seedcheck_$ID_$c.out; tail -2 /tmp/seedcheck_$ID_$c.err
done
git -C /repo apply -R /verif/seeded/$ID/patch.diff && echo "reverted"
git -C /repo status --short
