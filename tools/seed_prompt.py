#!/usr/bin/env python3
"""usage: seed_prompt.py <property-id> <worktree-dir>  -> prints the prompt for a seeding sub-agent"""
import json, sys
pid, d = sys.argv[1], sys.argv[2]
prop = next(p for p in map(json.loads, open('/verif/properties.jsonl')) if p['id'] == pid)
print(f"""You are helping to test a verification effort by SEEDING a realistic bug into a Rust code base.

You have your own scratch git worktree of the repository radixdlt-scrypto at {d} (a worktree of /repo at its current HEAD). Work ONLY inside {d}. Never modify /repo itself. Do not read or use anything under /verif. The sandbox is offline: use `--offline` with every cargo command and `export CARGO_TARGET_DIR={d}/target` (a previous task may have left a warm build cache there — keep it). The machine is shared: use at most `-j 6` for cargo.

The property (a semantic property the code is meant to satisfy):
{json.dumps(prop, indent=1)}

Task: produce a change to the repository's SOURCE code (not to tests) that BREAKS this property while
 (a) still compiling (the whole crate(s) you touch and their dependents that you test), and
 (b) passing the existing tests: run at least the existing unit/integration tests of the crate(s) you touch, plus the most relevant existing tests elsewhere that exercise the changed code (for radix-engine changes: the relevant test files of radix-engine-tests selected with `--test <name>` / a filter — not the whole workspace, it is too slow). Record exactly which commands you ran and their results.
The change must need something SPECIFIC to manifest: a particular multi-step sequence of operations, an unusual or boundary input, a particular interleaving or crash point, a rare configuration, or two cooperating sites that each look fine alone. It must NOT be something ordinary use or the existing tests would expose at once. Keep it small and realistic — the kind of bug a maintainer could introduce during a refactor or an optimisation (off-by-one at a boundary, a forgotten case, a wrong comparison in a rare branch, a cache not invalidated, an early return skipping bookkeeping, …). Do not add dead code, special-case magic constants like "if x == 123456" or anything that looks artificial.

Also write a DEMONSTRATION: a new test (e.g. a new file under the touched crate's tests/ directory, or a #[test] appended in a NEW file) or a small example program that FAILS with your change applied and PASSES without it, using only public APIs or existing test utilities. Confirm both directions yourself.

Deliver in {d}/SEED/ :
  patch.diff   — `git diff` of the source change only (must apply with `git apply` at the worktree root on a clean tree)
  demo.diff    — the demonstration as a patch adding new file(s) (apply with `git apply`), plus
  demo_cmd.txt — the exact command line that runs the demonstration from the worktree root
  meta.json    — {{"property": "{pid}", "what_it_breaks": "...", "needs_to_manifest": "...", "files_touched": [...], "commands_run": [...], "existing_tests_result": "...", "demo_fails_with_patch": true, "demo_passes_without_patch": true}}
Finish with the worktree's tracked files restored to HEAD (`git checkout -- . && git clean -fd -e SEED -e target`), keeping SEED/ and target/. Final answer: ≤ 15 lines summarising the bug, why existing tests miss it, and what you ran.""")
