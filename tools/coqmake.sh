#!/bin/sh
# usage: tools/coqmake.sh Props/Cxx.vo Corr/Cxx_run.vo ...   (serialised with other builders)
cd "$(dirname "$0")/.."
exec flock .coq.lock sh -c 'tools/mkcoq.sh && cd coq && timeout ${COQ_TIMEOUT:-1800} make -j8 "$@"' sh "$@"
