#!/bin/sh
# usage: tools/coqmake.sh Props/Cxx.vo Corr/Cxx_run.vo ...
# The build lock is held only while the project files are regenerated and the shared Lib/*.vo are
# brought up to date; the property's own targets are then built without the lock (only their owner
# builds them), so a long proof no longer blocks everybody else.
# Each coqc is limited to 12 GB of address space and the build to COQ_TIMEOUT (default 900 s):
# a proof that needs more is a runaway vm_compute/lia and must be restructured.
cd "$(dirname "$0")/.."
ulimit -v 12000000
flock .coq.lock sh -c 'tools/mkcoq.sh && cd coq && timeout 900 make -j8 $(ls Lib/*.v | sed "s/\.v$/.vo/")' || exit 1
cd coq && exec timeout ${COQ_TIMEOUT:-900} make -j8 "$@"
