#!/bin/sh
# usage: tools/coqmake.sh Props/Cxx.vo Corr/Cxx_run.vo ...   (serialised with other builders)
# each coqc is limited to 12 GB of address space and the whole build to COQ_TIMEOUT (default 900 s):
# a proof that needs more is a runaway vm_compute/lia and must be restructured.
cd "$(dirname "$0")/.."
exec flock .coq.lock sh -c 'ulimit -v 12000000; tools/mkcoq.sh && cd coq && timeout ${COQ_TIMEOUT:-900} make -j8 "$@"' sh "$@"
