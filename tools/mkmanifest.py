#!/usr/bin/env python3
"""Regenerates /verif/MANIFEST.json from spec/*.json and spec/not_applicable.json."""
import json, glob, os
ROOT = os.path.dirname(os.path.dirname(os.path.abspath(__file__)))
checks = []
for p in sorted(glob.glob(os.path.join(ROOT, "spec", "C*.json"))):
    s = json.load(open(p))
    pid = s["id"]
    checks.append({
        "property_id": pid,
        "quick_cmd": "./check %s --tier quick" % pid,
        "thorough_cmd": "./check %s --tier thorough" % pid,
        "evidence_file": "/verif/evidence/%s.json" % pid,
        "replay_cmd_template": "./check %s --replay {path}" % pid,
        "engine": "coq+harness",
        "level_claimed": {"category": s["level"], "text": s["level_text"], "design_ref": s.get("design_ref", "DESIGN.md section 6")},
        "level_note": s["level_note"],
        "technique": s["technique"],
    })
na_path = os.path.join(ROOT, "spec", "not_applicable.json")
na = json.load(open(na_path)) if os.path.exists(na_path) else []
claimed = {c["property_id"] for c in checks}
na = [x for x in na if x["property_id"] not in claimed]
hooks_path = os.path.join(ROOT, "spec", "hooks.json")
hooks = json.load(open(hooks_path))
m = {
    "version": 1,
    "setup_cmd": "./setup.sh",
    "hooks": hooks,
    "engines": [{
        "name": "coq+harness", "path": "/verif/check",
        "serves_properties": sorted(claimed),
        "kind_free_text": "Coq 8.16.1 development (coq/, logical root RV: hand-written executable models, proofs, pinned property theorems) + Rust correspondence harness (harness/, path deps on /repo, rebuilt on every check) + python driver (check)"
    }],
    "checks": checks,
    "notes": "See DESIGN.md. Every check rebuilds its harness binary against /repo's working tree (cargo path dependencies, RUSTFLAGS --cfg radixdlt_radixdlt_scrypto_verif), re-makes its Coq theorems, evaluates the model on the cases the implementation just ran (vm_compute), and writes evidence/<id>.json.",
    "not_applicable": na,
}
json.dump(m, open(os.path.join(ROOT, "MANIFEST.json"), "w"), indent=1)
print("MANIFEST.json: %d checks, %d not_applicable" % (len(checks), len(na)))
