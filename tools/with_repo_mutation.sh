#!/bin/sh
# usage: tools/with_repo_mutation.sh '<shell commands>'
# Runs the commands while holding the /repo lock EXCLUSIVELY (no ./check of anybody else runs
# meanwhile, and nobody else's mutation is present). Use it for every self-test / seeded-change run:
#   tools/with_repo_mutation.sh 'git -C /repo apply /path/patch.diff; ./check C13; git -C /repo apply -R /path/patch.diff'
# The commands must restore /repo before they end; a trap below refuses to leave tracked files dirty
# relative to what was dirty before (it reports, it does not revert).
cd "$(dirname "$0")/.."
exec flock .repo.lock sh -c 'export VERIF_REPO_LOCK_HELD=1; before=$(git -C /repo status --short); sh -c "$1"; rc=$?; after=$(git -C /repo status --short); [ "$before" = "$after" ] || echo "WARNING: /repo left dirty: $after" >&2; exit $rc' sh "$1"
