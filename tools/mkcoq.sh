#!/bin/sh
# Regenerates coq/_CoqProject and coq/Makefile from the .v files present (logical root RV).
set -e
cd "$(dirname "$0")/../coq"
{ echo "-Q . RV"; echo "-arg -w -arg -notation-overridden,-deprecated-hint-without-locality,-deprecated-instance-without-locality"; find Lib Gen Model Proof Props Corr -name '*.v' | sort; } > _CoqProject.new
if ! cmp -s _CoqProject.new _CoqProject 2>/dev/null || [ ! -f Makefile ]; then
  mv _CoqProject.new _CoqProject
  coq_makefile -f _CoqProject -o Makefile >/dev/null
else
  rm -f _CoqProject.new
fi
