#!/bin/bash
# usage: seed_existing_tests.sh <ID> <lane> '<cargo test args>' ...   — runs existing tests with the seeded patch applied
ID=$1; L=$2; shift 2
cd $L || exit 2
export CARGO_TARGET_DIR=$L/target CARGO_NET_OFFLINE=true
git checkout -q -- . && git clean -qfd -e SEED -e target
git apply /verif/seeded/$ID/patch.diff || exit 2
for a in "$@"; do echo "== cargo test --offline -j 8 $a"; timeout 5000 cargo test --offline -j 8 $a 2>&1 | grep -E "^test result|FAILED|panicked|error(\[|:)" | sort | uniq -c | head -8; done
git checkout -q -- . && git clean -qfd -e SEED -e target
