#!/bin/bash
# usage: seed_confirm.sh <ID> <lane-dir>   — confirms a seeded change in its scratch worktree:
# demo passes on clean source, fails with patch; then stores it under /verif/seeded/<ID>/
ID=$1; L=$2; S=$L/SEED
cd $L || exit 2
export CARGO_TARGET_DIR=$L/target CARGO_NET_OFFLINE=true
git checkout -q -- . && git clean -qfd -e SEED -e target
for f in patch.diff demo.diff demo_cmd.txt meta.json; do [ -f $S/$f ] || { echo "missing $f"; exit 2; }; done
git apply $S/demo.diff || { echo "demo.diff does not apply"; exit 2; }
CMD=$(cat $S/demo_cmd.txt | grep -v '^#' | head -1)
echo "== clean source: $CMD"; (timeout 3000 bash -c "$CMD") > $S/confirm_clean.log 2>&1; RC1=$?; tail -3 $S/confirm_clean.log
git apply $S/patch.diff || { echo "patch.diff does not apply"; exit 2; }
echo "== with patch"; (timeout 3000 bash -c "$CMD") > $S/confirm_patched.log 2>&1; RC2=$?; tail -5 $S/confirm_patched.log
git checkout -q -- . && git clean -qfd -e SEED -e target
echo "clean rc=$RC1 patched rc=$RC2"
if [ $RC1 = 0 ] && [ $RC2 != 0 ]; then
  mkdir -p /verif/seeded/$ID && cp $S/patch.diff $S/demo.diff $S/demo_cmd.txt $S/meta.json /verif/seeded/$ID/ && echo CONFIRMED
else echo NOT-CONFIRMED; exit 1; fi
