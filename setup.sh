#!/bin/sh
# One-time setup after a fresh restore (offline): builds the Coq development and the harness binaries.
# Every check re-runs the (incremental) builds itself, so this only warms the caches.
set -x
cd "$(dirname "$0")"
export CARGO_NET_OFFLINE=true
export CARGO_TARGET_DIR="$PWD/harness/target"
mkdir -p work evidence
# Coq development (full .vo build)
./tools/mkcoq.sh
(cd coq && timeout 3600 make -j16 -k) || echo "WARNING: coq build incomplete"
# harness binaries
(cd harness && timeout 7200 cargo build --offline --workspace --bins) || echo "WARNING: harness build incomplete"
exit 0
